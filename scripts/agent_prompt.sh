#!/bin/bash
# usage: agent_prompt.sh Cnn tag  -> creates worktree /tmp/seed-Cnn-tag and prints the prompt
ID=$1; TAG=${2:-a}; WT=/tmp/seed-$ID-$TAG
git -C /repo worktree add -q --detach $WT HEAD 2>/dev/null || true
PROP=$(jq -r "select(.id==\"$ID\") | \"Title: \(.title)\n\nStatement: \(.statement)\n\nQuantifier: \(.quantifier.text)\n\nFiles the property is anchored in: \(.anchors.files|join(\", \"))\"" /verif/properties.jsonl)
cat <<EOP
You are helping test a verification effort by playing the role of a developer who introduces a subtle regression. You work ONLY in the git worktree $WT (a scratch checkout of the Go project samaritan-proxy/samaritan: a client-side L4/L7 proxy with a Redis Cluster proxy and TCP load balancing). Do not read or touch /verif or /repo; do not look anywhere else for hints.

Here is a semantic property of the system that should hold:

$PROP

Your task: produce TWO different, independent source changes (call them A and B, touching different sites/mechanisms if you can) to the non-test Go code in $WT, each of which BREAKS this property while (1) the project still compiles, and (2) the existing test suite still passes unchanged. Each change must need something specific to manifest - a particular interleaving, a fault at a particular point, a multi-step sequence of operations, an unusual input, or two cooperating sites that each look fine alone - NOT something ordinary use would expose at once. Keep each change small and realistic (the kind of thing a plausible refactor or "optimisation" would introduce); do not add obviously malicious code, dead flags or comments that give it away. Do not edit any *_test.go file as part of a change.

For each change provide a demonstration: a new Go test file (e.g. proc/redis/seed_a_test.go) or small program that FAILS with the change applied and PASSES on the unmodified tree. Demonstrations may use internal package access (package-internal tests are fine), fake backends over net.Pipe/localhost listeners, etc. Keep demonstrations deterministic where possible and fast (< 30 s).

Environment: there is no network. For every shell call use:
  export GOFLAGS=-mod=mod GOPROXY=off GOSUMDB=off GOTOOLCHAIN=local; unset GOWORK
Build: (cd $WT && go build ./...). Run tests of one package: (cd $WT && go test -vet=off -count=1 ./proc/redis/...). The full suite is: go test -vet=off -count=1 -timeout 25m ./... (takes a few minutes; run at least the packages you touched plus ./... once per change at the end). Some existing tests are timing based; a test that also fails on the unmodified tree does not count against you, but say so.

Deliverables, written under $WT/_seed/ (create it):
  $WT/_seed/A/patch.diff      (git diff of the non-test source change only, relative to the worktree root, applicable with 'git apply')
  $WT/_seed/A/demo_test.go    (the demonstration; state at its top, in a comment, the path it must be copied to in order to run, and the go test command)
  $WT/_seed/A/NOTES.md        (what the change is, why it breaks the property, what it needs to manifest, what you ran and saw: demo fails with change / passes without; suite passes with change)
  and the same under $WT/_seed/B/.
Work by: edit source -> verify build+suite -> write demo -> verify demo fails -> git diff > patch -> 'git checkout -- .' (keep _seed, which is untracked) -> verify demo passes on clean tree -> next change. Leave the worktree clean (only _seed/ untracked) at the end. If you cannot find a second change, deliver one and say so. In your final reply give a 5-line summary per change.
EOP
