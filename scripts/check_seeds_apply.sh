#!/bin/bash
# verifies every seeded patch, hand-written mutant and benign refactor still applies to /repo's working tree
for f in /verif/seeded/*/patch.diff /verif/mutants/*/*.patch /verif/benign/*/patch.diff; do
  if ! git -C /repo apply --check --whitespace=nowarn "$f" 2>/dev/null; then echo "DOES NOT APPLY: $f"; fi
done
