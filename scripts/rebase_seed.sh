#!/bin/bash
# rebase_seed.sh <seed-id>: re-bases /verif/seeded/<id>/patch.diff from its recorded repo_head onto /repo HEAD.
SID=$1; D=/verif/seeded/$SID
BASE=$(jq -r .confirmed.repo_head $D/meta.json)
WT=$(mktemp -d /tmp/rebase-XXXXXX); rmdir $WT
git -C /repo worktree add -q --detach $WT $BASE || exit 2
cd $WT && git apply --whitespace=nowarn $D/patch.diff && git -c user.name=x -c user.email=x@x commit -qam seed && S=$(git rev-parse HEAD)
git checkout -q --detach $(git -C /repo rev-parse HEAD) && if git -c user.name=x -c user.email=x@x cherry-pick $S >/dev/null 2>&1; then
  git diff HEAD~1 HEAD > $D/patch.diff; echo "rebased cleanly: $SID"
else
  echo "CONFLICT in $SID; resolve in $WT then: git -C $WT diff HEAD > $D/patch.diff"; git status --short | head; exit 1
fi
cd /; git -C /repo worktree remove --force $WT
