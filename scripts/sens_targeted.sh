#!/bin/bash
# sens_targeted.sh [outfile]: every seeded change and mutant against its own property (plus also_breaks), every benign
# patch against all properties; three at a time. Prints one line per patch: OK / MISS / FALSE-ALARM / STALE.
OUT=${1:-/tmp/sens-targeted.log}; : > $OUT
cd /verif
job() {
  kind=$1; patch=$2; props=$3
  res=$(SAMLINT=${SAMLINT:-/verif/bin/samlint} scripts/run_against_patch.sh $patch $props 2>&1)
  if echo "$res" | grep -q "DOES NOT APPLY\|DOES NOT BUILD"; then echo "STALE $kind $patch"; return; fi
  if [ "$kind" = benign ]; then
    if echo "$res" | grep -q "all silent"; then echo "OK benign $patch"; else echo "FALSE-ALARM $patch :: $(echo "$res" | grep ALARM | tr '\n' ' ')"; fi
  else
    if echo "$res" | grep -q "ALARM"; then echo "OK $kind $patch"; else echo "MISS $kind $patch ($props)"; fi
  fi
}
export -f job
{
  for d in seeded/*/; do id=$(basename $d); p=$(jq -r '.property' $d/meta.json); also=$(jq -r '(.also_breaks // []) | join(" ")' $d/meta.json); echo "seed /verif/$d/patch.diff $p"; done
  for f in mutants/C*/*.patch; do p=$(basename $(dirname $f)); case $(basename $f) in benign-*) echo "benign /verif/$f $p";; *) echo "mutant /verif/$f $p";; esac; done
  for d in benign/*/; do echo "benign /verif/$d/patch.diff ALL"; done
} | while read kind patch props; do [ "$props" = ALL ] && props=""; echo "$kind|$patch|$props"; done | xargs -P 3 -I{} bash -c 'IFS="|" read kind patch props <<< "{}"; job "$kind" "$patch" "$props"' >> $OUT 2>&1
echo "done: $(grep -c '^OK' $OUT) ok, $(grep -c '^MISS' $OUT) miss, $(grep -c '^FALSE-ALARM' $OUT) false alarms, $(grep -c '^STALE' $OUT) stale" >> $OUT
