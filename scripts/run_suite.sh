#!/bin/bash
# Runs the repository's pinned test suite (same command as /root/.vp/BASELINE.json) and
# compares with the stable_pass list. Usage: run_suite.sh [repo-dir] [pkg-pattern]
REPO=${1:-/repo}; PAT=${2:-./...}
export GOFLAGS=-mod=mod GOPROXY=off GOSUMDB=off GOTOOLCHAIN=local; unset GOWORK
OUT=$(mktemp)
(cd "$REPO" && go test -mod=mod -json -vet=off -count=1 -timeout 25m $PAT) > "$OUT" 2>/dev/null
SUITE_REPO="$REPO" python3 - "$OUT" "$PAT" <<'PY'
import json,sys
res={}
for l in open(sys.argv[1]):
    try: e=json.loads(l)
    except: continue
    if e.get('Test') and e.get('Action') in('pass','fail','skip'):
        res[e['Package']+'::'+e['Test']]=e['Action']
base=json.load(open('/root/.vp/BASELINE.json'))['stable_pass']
if sys.argv[2]!='./...':
    pk=set(k.split('::')[0] for k in res)
    base=[b for b in base if b.split('::')[0] in pk]
bad=[b for b in base if res.get(b)!='pass']
# timing-based tests can flake under load: re-run the packages of failing tests (up to 2 more times)
import subprocess,os
for attempt in range(2):
    if not bad: break
    pkgs=sorted(set(b.split('::')[0] for b in bad))
    out=subprocess.run(['go','test','-mod=mod','-json','-vet=off','-count=1','-timeout','25m']+pkgs,cwd=os.environ.get('SUITE_REPO','/repo'),capture_output=True,text=True).stdout
    for l in out.splitlines():
        try: e=json.loads(l)
        except: continue
        if e.get('Test') and e.get('Action')=='pass':
            res[e['Package']+'::'+e['Test']]='pass'
    bad=[b for b in base if res.get(b)!='pass']
print("tests run:",len(res)," baseline considered:",len(base)," not passing:",len(bad))
for b in bad[:40]: print("  FAIL/MISSING",b,res.get(b))
sys.exit(1 if bad else 0)
PY
rc=$?; rm -f "$OUT"; exit $rc
