#!/bin/bash
# reconfirm_seed.sh <seed-id>...: on a scratch worktree of /repo HEAD, checks that the seed's patch applies, builds, and
# that its demonstration passes without and fails with the patch (no full suite). Prints one line per seed.
export GOFLAGS=-mod=mod GOPROXY=off GOSUMDB=off GOTOOLCHAIN=local; unset GOWORK
WT=$(mktemp -d /tmp/reconf-XXXXXX); rmdir $WT
git -C /repo worktree add -q --detach $WT HEAD || exit 2
trap "git -C /repo worktree remove --force $WT 2>/dev/null; rm -rf $WT" EXIT
for SID in "$@"; do
  D=/verif/seeded/$SID
  DEST=$(jq -r .demo.copy_to $D/meta.json); CMD=$(jq -r .demo.cmd $D/meta.json)
  (cd $WT && git checkout -q -- . && git clean -fdq)
  cp $D/demo_test.go $WT/$DEST
  (cd $WT && eval "$CMD" >/dev/null 2>&1); C=$?
  if ! (cd $WT && git apply --whitespace=nowarn $D/patch.diff 2>/dev/null); then echo "$SID: PATCH DOES NOT APPLY (clean demo rc=$C)"; rm -f $WT/$DEST; continue; fi
  (cd $WT && go build ./... 2>/dev/null); B=$?
  (cd $WT && eval "$CMD" >/dev/null 2>&1); P=$?
  rm -f $WT/$DEST
  if [ $C -eq 0 ] && [ $B -eq 0 ] && [ $P -ne 0 ]; then echo "$SID: ok (clean pass, patched fail)"; else echo "$SID: NOT CONFIRMED clean=$C build=$B patched=$P"; fi
done
