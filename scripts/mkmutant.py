#!/usr/bin/env python3
"""mkmutant.py Cnn name file old new [file old new ...]
Creates /verif/mutants/Cnn/name.patch: a unified diff (relative to repo root) replacing the
first occurrence of `old` by `new` in `file` of /repo's working tree."""
import sys,os,difflib
pid,name=sys.argv[1],sys.argv[2]
args=sys.argv[3:]
out=[]
files={}
order=[]
for k in range(0,len(args),3):
    f,old,new=args[k:k+3]
    old=old.encode().decode('unicode_escape'); new=new.encode().decode('unicode_escape')
    if f not in files:
        files[f]=open('/repo/'+f).read(); order.append(f)
    if old not in files[f]:
        sys.exit("pattern not found in %s: %r"%(f,old))
    files[f]=files[f].replace(old,new,1)
for f in order:
    src=open('/repo/'+f).read()
    out+=list(difflib.unified_diff(src.splitlines(True),files[f].splitlines(True),'a/'+f,'b/'+f))
os.makedirs('/verif/mutants/'+pid,exist_ok=True)
open('/verif/mutants/%s/%s.patch'%(pid,name),'w').write(''.join(out))
print("wrote /verif/mutants/%s/%s.patch"%(pid,name))
