#!/usr/bin/env python3
"""mkmutant.py Cnn name file old new [file old new ...]
Creates /verif/mutants/Cnn/name.patch: a unified diff (relative to repo root) replacing the
first occurrence of `old` by `new` in `file` of /repo's working tree."""
import sys,os,difflib
pid,name=sys.argv[1],sys.argv[2]
args=sys.argv[3:]
out=[]
for k in range(0,len(args),3):
    f,old,new=args[k:k+3]
    old=old.encode().decode('unicode_escape'); new=new.encode().decode('unicode_escape')
    src=open('/repo/'+f).read()
    if old not in src:
        sys.exit("pattern not found in %s: %r"%(f,old))
    dst=src.replace(old,new,1)
    out+=list(difflib.unified_diff(src.splitlines(True),dst.splitlines(True),'a/'+f,'b/'+f))
os.makedirs('/verif/mutants/'+pid,exist_ok=True)
open('/verif/mutants/%s/%s.patch'%(pid,name),'w').write(''.join(out))
print("wrote /verif/mutants/%s/%s.patch"%(pid,name))
