#!/usr/bin/env python3
"""gen_tables.py: regenerates the tables between the GENERATED markers of /verif/DESIGN.md from
  - /verif/evidence/Cnn.json            (rules, instance counts; thorough runs also carry the sensitivity results)
  - /verif/known_findings.jsonl         (fixed / known findings)
  - /verif/seeded/*/meta.json           (seeded changes from independent agents)
  - `git -C /repo log`                  (fix commits)
Run after `samlint check -tier thorough` of every property so that the sensitivity results are current."""
import json, glob, os, re, subprocess, sys

V = '/verif'
props = [json.loads(l) for l in open(V + '/properties.jsonl')]
titles = {p['id']: p['title'] for p in props}


def ev(pid):
    try:
        return json.load(open(f'{V}/evidence/{pid}.json'))
    except Exception:
        return None


def rules_table():
    out = ['| id | level | rules | obligations (discharged) | rule groups (instances) |', '|---|---|---|---|---|']
    for p in props:
        e = ev(p['id'])
        if not e:
            continue
        cov = e['coverage']
        inst = cov.get('instances', {})
        rs = []
        for r in sorted(cov.get('rules', {}), key=lambda x: (len(x), x)):
            n = inst.get(r, [0, 0])
            rs.append(f"{r.split('.')[1]}:{n[0]}")
        out.append(f"| {p['id']} | {e['level']} | {len(cov.get('rules', {}))} | {cov.get('obligations')} ({cov.get('discharged')}) | {' '.join(rs)} |")
    return '\n'.join(out)


def rules_text():
    out = []
    for p in props:
        e = ev(p['id'])
        if not e:
            continue
        out.append(f"**{p['id']} - {titles[p['id']]}**\n")
        cov = e['coverage']
        inst = cov.get('instances', {})
        for r in sorted(cov.get('rules', {}), key=lambda x: (len(x), x)):
            n = inst.get(r, [0, 0])
            out.append(f"* `{r}` ({n[0]} obligations): {cov['rules'][r]}")
        out.append('')
    return '\n'.join(out)


def findings_table():
    log = subprocess.check_output(['git', '-C', '/repo', 'log', '--format=%h %s']).decode().splitlines()
    subj = {}
    for l in log:
        h, s = l.split(' ', 1)
        subj[h] = s
    rows = {}
    order = []
    for l in open(V + '/known_findings.jsonl'):
        l = l.strip()
        if not l:
            continue
        d = json.loads(l)
        k = d.get('commit') or 'known'
        if k not in rows:
            rows[k] = []
            order.append(k)
        rows[k].append(d)
    out = ['| /repo commit | subject | obligation keys that reported it | status |', '|---|---|---|---|']
    for k in order:
        ds = rows[k]
        keys = '<br>'.join('`' + d['key'][:110] + '`' for d in ds)
        s = next((subj[h] for h in subj if h.startswith(k) or k.startswith(h)), '(not a commit)')
        out.append(f"| {k} | {s} | {keys} | {ds[0]['status']} |")
    return '\n'.join(out)


def rule_ids(keys):
    s = []
    for k in keys or []:
        m = re.match(r'(C\d\d\.[A-Z]\d+)', k)
        if m and m.group(1) not in s:
            s.append(m.group(1))
    return s


def detection_table():
    # from thorough evidence: sensitivity entries
    seen = {}
    for p in props:
        e = ev(p['id'])
        if not e:
            continue
        for r in e['coverage'].get('sensitivity', []) or []:
            seen.setdefault(r['mutant'], {})[p['id']] = r
    out = ['| seeded change (independent agent) | property | what it needs | caught by (rules that report it) |', '|---|---|---|---|']
    for m in sorted(glob.glob(V + '/seeded/*/meta.json')):
        d = json.load(open(m))
        name = 'seeded/' + os.path.basename(os.path.dirname(m))
        caught = []
        for pid, r in sorted(seen.get(name, {}).items()):
            if r['outcome'] == 'detected':
                caught.append(', '.join(rule_ids(r.get('reported_keys'))))
            else:
                caught.append(f"{pid}: **{r['outcome']}**")
        also = d.get('also_breaks') or []
        prop = d['property'] + (' (+' + ','.join(also) + ')' if also else '')
        out.append(f"| {os.path.basename(os.path.dirname(m))} | {prop} | {d.get('needs_to_manifest','')[:120]} | {'; '.join(caught) or 'not run'} |")
    return '\n'.join(out)


def mutants_table():
    out = ['| property | hand-written mutants detected | benign edits silent | not as expected |', '|---|---|---|---|']
    for p in props:
        e = ev(p['id'])
        if not e:
            continue
        sens = e['coverage'].get('sensitivity', []) or []
        det = [r['mutant'] for r in sens if r['outcome'] == 'detected' and not r['mutant'].startswith('seeded/')]
        sil = [r['mutant'] for r in sens if r['outcome'] == 'silent']
        bad = [f"{r['mutant']}={r['outcome']}" for r in sens if r['outcome'] not in ('detected', 'silent')]
        out.append(f"| {p['id']} | {len(det)}: {', '.join(det)} | {len(sil)} | {', '.join(bad) or '-'} |")
    return '\n'.join(out)


gen = {'rules_table': rules_table, 'rules_text': rules_text, 'findings_table': findings_table,
       'detection_table': detection_table, 'mutants_table': mutants_table}

s = open(V + '/DESIGN.md').read()
for name, f in gen.items():
    b, e = f'<!-- BEGIN GENERATED {name} -->', f'<!-- END GENERATED {name} -->'
    if b in s and e in s:
        i, j = s.index(b) + len(b), s.index(e)
        s = s[:i] + '\n' + f() + '\n' + s[j:]
    else:
        print('marker missing:', name, file=sys.stderr)
open(V + '/DESIGN.md', 'w').write(s)
print('DESIGN.md tables regenerated')
