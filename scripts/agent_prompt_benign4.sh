#!/bin/bash
# usage: agent_prompt_benign4.sh <tag> <files...>  -> round 4 prompt: PR-sized behaviour-preserving restructurings
TAG=$1; shift; WT=/tmp/benign-$TAG
git -C /repo worktree add -q --detach $WT HEAD 2>/dev/null || true
/verif/scripts/agent_prompt_benign.sh $TAG "$@" | python3 -c '
import sys
s=sys.stdin.read()
a=s.index("Examples of the kinds wanted")
b=s.index("Do NOT change any exported API")
new="""This round asks for PR-SIZED restructurings rather than cosmetic ones (vary them, do not do five of the same kind): turning a goroutine closure into a named method (or the reverse) with the same captured state passed explicitly; replacing a switch or if-chain by a lookup table (or the reverse) with identical cases; passing a small struct instead of several parameters; generalising a helper with an extra parameter whose value at every call site keeps today'"'"'s behaviour; merging two near-duplicate functions into one parameterised function; splitting a long function into a pipeline of helpers that hand values on; moving a computation from the caller into the callee (or the reverse); replacing index loops by range loops or by a small iterator helper; replacing the sync/atomic function calls on an int32/int64 field by the typed atomic.Int32/Int64 (same operations, same order); storing a repeatedly computed expression in a local; moving functions between files of the same package; reordering struct fields; replacing a boolean flag plus later test by an early return with the same conditions; wrapping a channel or a mutex-protected field in a tiny unexported type with methods that do exactly the same operations. Keep the same goroutines, the same channel operations in the same order, the same locking, the same error handling and the same bytes on the wire. """
sys.stdout.write(s[:a]+new+s[b:])
'
