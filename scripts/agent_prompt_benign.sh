#!/bin/bash
# usage: agent_prompt_benign.sh <tag> <files...>  -> prompt for behaviour-preserving refactors
TAG=$1; shift; WT=/tmp/benign-$TAG
git -C /repo worktree add -q --detach $WT HEAD 2>/dev/null || true
cat <<EOP
You are helping test static-analysis tooling against FALSE ALARMS. You work ONLY in the git worktree $WT (a scratch checkout of the Go project samaritan-proxy/samaritan: a client-side L4/L7 proxy with a Redis Cluster proxy and TCP load balancing). Do not read or touch /verif or /repo.

Your task: produce FIVE independent, realistic, BEHAVIOUR-PRESERVING refactorings of the non-test Go code, each confined to these files: $*
Each refactoring must keep the observable behaviour of the program exactly the same (same replies, same concurrency structure, same error handling) - the kind of change a careful maintainer would make in a clean-up PR and a reviewer would approve as "no functional change". Examples of the kinds wanted (vary them, do not do five of the same kind): renaming local variables, parameters or unexported functions/methods/fields (update all uses); extracting a block into a helper function or inlining a small helper; reordering independent statements; replacing an if/else chain by a switch or vice versa; replacing 'for i := 0; i < len(x); i++' by 'for i := range x' (or the reverse) where equivalent; adding logging/debug statements or comments; splitting a long function into two; introducing a named constant for a literal; changing 'defer mu.Unlock()' style to explicit unlock on every path ONLY if every path is really covered; early-return restructuring that keeps the same conditions. Do NOT change any exported API used by tests, do not edit *_test.go files, do not change behaviour in any corner case (if unsure, pick a safer refactoring).

For each refactoring: the project must compile and the existing tests of the touched packages must pass.

Environment: there is no network. For every shell call use:
  export GOFLAGS=-mod=mod GOPROXY=off GOSUMDB=off GOTOOLCHAIN=local; unset GOWORK
Build: (cd $WT && go build ./...). Tests of a package: (cd $WT && go test -vet=off -count=1 ./proc/redis/...). Some existing tests are timing based and occasionally flaky; 'test/integration/proc/redis' always fails for lack of redis-server - ignore that.

Deliverables under $WT/_benign/ (create it): for k in 1..5:
  $WT/_benign/k/patch.diff   (git diff of that single refactoring relative to the clean worktree, applicable with 'git apply')
  $WT/_benign/k/NOTES.md     (2-5 lines: what was refactored and why behaviour is unchanged)
Work by: edit -> build+test -> git diff > patch -> 'git checkout -- .' -> next (each patch independent, against the clean tree). Leave the worktree clean (only _benign/ untracked). In your final reply give one line per refactoring.
EOP
