#!/bin/bash
# usage: agent_prompt_b.sh Cnn  -> eighth-round prompt: different ideas than the first round
ID=$1; TAG=h; WT=/tmp/seed-$ID-$TAG
git -C /repo worktree add -q --detach $WT HEAD 2>/dev/null || true
USED=$(for m in /verif/seeded/$ID-*/meta.json; do [ -f "$m" ] && echo "  - $(basename $(dirname $m)): $(git -C /repo apply --stat $(dirname $m)/patch.diff 2>/dev/null | head -1 | awk '{print $1}') ; needs: $(jq -r .needs_to_manifest $m)"; done)
/verif/scripts/agent_prompt.sh $ID $TAG | sed "s#^Your task: produce TWO different#Changes of the following kinds were already produced by someone else for this property; produce something DIFFERENT in mechanism and preferably in a different function or file:\n$(echo "$USED" | sed 's/[&#]/ /g' | tr '\n' '|' | sed 's/|/\\n/g')\n\nYour task: produce TWO different#"
