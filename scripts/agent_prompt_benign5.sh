#!/bin/bash
# usage: agent_prompt_benign5.sh <tag> <focus text> -- <files...>  -> round 5 prompt: focused behaviour-preserving rewrites
TAG=$1; FOCUS=$2; shift; shift; [ "$1" = "--" ] && shift; WT=/tmp/benign-$TAG
git -C /repo worktree add -q --detach $WT HEAD 2>/dev/null || true
/verif/scripts/agent_prompt_benign.sh $TAG "$@" | FOCUS="$FOCUS" python3 -c '
import sys,os
s=sys.stdin.read()
a=s.index("Examples of the kinds wanted")
b=s.index("Do NOT change any exported API")
new="This round has a focus: "+os.environ["FOCUS"]+" Keep the same goroutines, the same channel operations in the same order, the same locking, the same error handling and the same bytes on the wire; each refactoring should be something a reviewer would accept as a pure clean-up. "
sys.stdout.write(s[:a]+new+s[b:])
'
