#!/bin/bash
# run_against_patch.sh <patch> [props...]: applies the patch to a scratch copy of /repo's working tree and runs the
# given (default: all) property checks against it in child mode. Prints one line per property with failing keys.
PATCH=$1; shift; SAMLINT=${SAMLINT:-/verif/bin/samlint}
PROPS=${@:-$($SAMLINT list | cut -d' ' -f1)}
D=$(mktemp -d /tmp/samlint-rap-XXXXXX)
rsync -a --exclude .git /repo/ $D/
if ! (cd $D && git apply --whitespace=nowarn "$PATCH" 2>/dev/null); then echo "PATCH DOES NOT APPLY: $PATCH"; rm -rf $D; exit 3; fi
export GOFLAGS=-mod=mod GOPROXY=off GOSUMDB=off GOTOOLCHAIN=local; unset GOWORK
if ! (cd $D && go build ./... 2>/dev/null); then echo "PATCHED TREE DOES NOT BUILD"; rm -rf $D; exit 4; fi
rc=0
echo $PROPS | tr ' ' '\n' | xargs -P 6 -I{} sh -c "$SAMLINT check -child -prop {} -repo $D -verif /verif > $D/.out-{} 2>&1; echo \$? > $D/.rc-{}"
for p in $PROPS; do
  r=$(cat $D/.rc-$p)
  if [ "$r" != "0" ]; then rc=1; echo "$p: ALARM ($(grep -c CHILD-FAIL $D/.out-$p) obligations)"; grep CHILD-FAIL $D/.out-$p | sed 's/CHILD-FAIL //' | jq -r '"    " + .key + " :: " + (.detail|.[0:160])' 2>/dev/null | head -4; [ "$r" = "2" ] && head -3 $D/.out-$p; fi
done
[ $rc = 0 ] && echo "all silent"
rm -rf $D
exit $rc
