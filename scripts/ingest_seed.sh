#!/bin/bash
# ingest_seed.sh <prop> <srcdir> <seed-id> <demo-dest-relpath> <go test pkg> <run regex> [needs...]
# Confirms a sub-agent's seeded change in a fresh scratch worktree of /repo HEAD:
#   demo passes on the clean tree, patch applies, tree builds, demo fails with the patch,
#   the pinned suite still passes with the patch. On success stores it under /verif/seeded/<seed-id>/.
set -u
PROP=$1; SRC=$2; SID=$3; DEST=$4; PKG=$5; RUN=$6; NEEDS=${7:-"see NOTES.md"}
export GOFLAGS=-mod=mod GOPROXY=off GOSUMDB=off GOTOOLCHAIN=local; unset GOWORK
WT=$(mktemp -d /tmp/ingest-XXXXXX); rmdir $WT
git -C /repo worktree add -q --detach $WT HEAD || exit 2
cleanup(){ git -C /repo worktree remove --force $WT 2>/dev/null; rm -rf $WT; }
trap cleanup EXIT
cp $SRC/demo_test.go $WT/$DEST
LOG=$(mktemp)
echo "== demo on clean tree (expect PASS)"; (cd $WT && go test -vet=off -count=1 -run "$RUN" $PKG) > $LOG 2>&1; RC_CLEAN=$?; tail -3 $LOG
echo "== apply patch"; (cd $WT && git apply --whitespace=nowarn $SRC/patch.diff) || { echo "PATCH DOES NOT APPLY"; exit 3; }
echo "== build"; (cd $WT && go build ./... && go test -vet=off -count=1 -run '^$' $(go list ./... | grep -v test/integration) >/dev/null 2>&1) ; RC_BUILD=$?
echo "== demo with patch (expect FAIL)"; (cd $WT && go test -vet=off -count=1 -run "$RUN" $PKG) > $LOG 2>&1; RC_PATCH=$?; grep -E "^(--- FAIL|FAIL|ok|panic)" $LOG | head -5
rm -f $WT/$DEST
echo "== pinned suite with patch"; /verif/scripts/run_suite.sh $WT ./... > $LOG 2>&1; RC_SUITE=$?; tail -5 $LOG
echo "clean=$RC_CLEAN build=$RC_BUILD patched=$RC_PATCH suite=$RC_SUITE"
if [ $RC_CLEAN -eq 0 ] && [ $RC_BUILD -eq 0 ] && [ $RC_PATCH -ne 0 ] && [ $RC_SUITE -eq 0 ]; then
  D=/verif/seeded/$SID; mkdir -p $D
  cp $SRC/patch.diff $D/patch.diff; cp $SRC/demo_test.go $D/demo_test.go; [ -f $SRC/NOTES.md ] && cp $SRC/NOTES.md $D/NOTES.md
  python3 - "$PROP" "$SID" "$DEST" "$PKG" "$RUN" "$NEEDS" "$(git -C /repo rev-parse --short HEAD)" <<'PY'
import json,sys
prop,sid,dest,pkg,run,needs,head=sys.argv[1:]
json.dump({"property":prop,"id":sid,"needs_to_manifest":needs,
 "demo":{"copy_to":dest,"cmd":"go test -vet=off -count=1 -run '%s' %s"%(run,pkg)},
 "confirmed":{"repo_head":head,"demo_on_clean_tree":"pass","builds_with_patch":True,"demo_with_patch":"fail","pinned_suite_with_patch":"all baseline tests pass"},
 "source":"independent sub-agent given only the property text and a scratch worktree"},
 open('/verif/seeded/%s/meta.json'%sid,'w'),indent=1)
PY
  echo "KEPT as /verif/seeded/$SID"
else
  echo "REJECTED"
fi
rm -f $LOG
