// Demonstration for finding C09.R9 (second site: the slots refresh goroutine parked in client.Send outlives Stop).
// Copy to proc/redis/zz_finding_c09d_test.go and run:
//   go test -vet=off -count=1 -run TestFindingC09RefreshParkedInSend ./proc/redis/
// A backend answers the first CLUSTER NODES and then reads without ever answering. 80 clients pipeline 40 requests each
// so that the backend connection's queues are full (1024 unwritten + 1024 unanswered). A slots refresh is then
// triggered (in production: by a MOVED reply, a host change or the periodic timer): the refresh goroutine hands its
// CLUSTER NODES request to that connection and blocks inside client.Send, whose select watches only the connection's
// quit latch. upstream.Serve waited for the refresh goroutine before it stopped the connections - which is what closes
// that latch: Stop hung. After the fix Serve stops the connections first.
package redis

import (
	"net"
	"strconv"
	"strings"
	"testing"
	"time"

	"github.com/samaritan-proxy/samaritan/stats"

	"github.com/samaritan-proxy/samaritan/host"
	"github.com/samaritan-proxy/samaritan/pb/common"
	"github.com/samaritan-proxy/samaritan/pb/config/service"
	"github.com/samaritan-proxy/samaritan/proc"
	"github.com/samaritan-proxy/samaritan/proc/internal/log"
)

func TestFindingC09RefreshParkedInSendStop(t *testing.T) {
	silent, err := net.Listen("tcp", "127.0.0.1:0")
	if err != nil {
		t.Fatal(err)
	}
	defer silent.Close()
	go func() {
		for {
			conn, err := silent.Accept()
			if err != nil {
				return
			}
			go func() {
				buf := make([]byte, 4096)
				first := true
				for {
					n, err := conn.Read(buf)
					if err != nil {
						return
					}
					if first && strings.Contains(strings.ToLower(string(buf[:n])), "nodes") {
						first = false
						line := "07c37dfeb235213a872192d90877d0cd55635b91 " + silent.Addr().String() + "@0 myself,master - 0 0 1 connected 0-16383\n"
						conn.Write([]byte(strings.Repeat("+OK\r\n", strings.Count(strings.ToLower(string(buf[:n])), "readonly")) + "$" + strconv.Itoa(len(line)) + "\r\n" + line + "\r\n"))
					}
				}
			}()
		}
	}()

	raw := makeDefaultConfig().Raw()
	raw.Listener = &service.Listener{Address: &common.Address{Ip: "127.0.0.1", Port: 0}}
	p, err := newRedisProc("finding", raw, []*host.Host{host.New(silent.Addr().String())},
		proc.NewStats(stats.CreateScope("service.finding")), log.New("[finding]"))
	if err != nil {
		t.Fatal(err)
	}
	if err := p.Start(); err != nil {
		t.Fatal(err)
	}
	time.Sleep(200 * time.Millisecond)
	// 80 sessions, 40 pipelined requests each: a session hands at most 33 of them to the backend connection, which
	// holds 1024 unwritten + 1024 unanswered + 1: the rest of the session readers block inside client.Send
	for i := 0; i < 80; i++ {
		conn, err := net.Dial("tcp", p.l.Address())
		if err != nil {
			t.Fatal(err)
		}
		defer conn.Close()
		if _, err := conn.Write([]byte(strings.Repeat("*2\r\n$3\r\nget\r\n$1\r\na\r\n", 40))); err != nil {
			t.Fatal(err)
		}
	}
	time.Sleep(time.Second)
	p.u.triggerSlotsRefresh()
	time.Sleep(slotsRefMinRate + time.Second) // the refresh loop pauses between two rounds; then it is parked in client.Send
	stopped := make(chan struct{})
	go func() {
		p.Stop()
		close(stopped)
	}()
	select {
	case <-stopped:
	case <-time.After(5 * time.Second):
		t.Fatal("Stop did not return: the slots refresh goroutine (and session readers) are parked in client.Send on the full queue of a silent backend; that wait only watches the backend connection's quit latch, which Stop closes after it has waited for the sessions")
	}
}
