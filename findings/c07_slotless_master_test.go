// Demonstration for finding C03.R4 / C07.R7 (a master that owns no slots makes every slots refresh fail).
// Copy to proc/redis/zz_finding_c07_test.go and run:
//   go test -vet=off -count=1 -run TestFindingC07 ./proc/redis/
// A CLUSTER NODES line has 8 mandatory fields; a master without slots (a node that has just joined the cluster, a
// drained node, a failed-over old master) has exactly 8. The parser rejected such a line, which failed the whole
// refresh: the routing table was never loaded or updated while such a node existed, so every keyed command went to
// a random host and was redirected. Fails before the fix, passes after it.
package redis

import "testing"

func TestFindingC07SlotlessMasterDoesNotFailTheRefresh(t *testing.T) {
	data := "07c37dfeb235213a872192d90877d0cd55635b91 127.0.0.1:30004@31004 slave e7d1eecce10fd6bb5eb35b9f99a514335d9ba9ca 0 1426238317239 4 connected\n" +
		"e7d1eecce10fd6bb5eb35b9f99a514335d9ba9ca 127.0.0.1:30001@31001 myself,master - 0 0 1 connected 0-16383\n" +
		"67ed2db8d677e59ec4a4cefb06858cf2a1a89fa1 127.0.0.1:30002@31002 master - 0 1426238316232 2 connected\n"
	insts, err := parseClusterNodes(data)
	if err != nil {
		t.Fatalf("a cluster view with a slotless master is rejected: %v", err)
	}
	var owner *instance
	for _, inst := range insts {
		if len(inst.Slots) == 16384 {
			owner = inst
		}
	}
	if owner == nil || owner.Addr != "127.0.0.1:30001" || len(owner.Replicas) != 1 {
		t.Fatalf("unexpected view: %+v", insts)
	}
}
