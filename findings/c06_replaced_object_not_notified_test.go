// Demonstration for finding C06.R6 (a member object replaced by a re-announcement is never told that its host is removed).
// Copy to host/zz_finding_c06_test.go and run:
//   go test -vet=off -count=1 -run TestFindingC06ReplacedObjectIsNotified ./host/
// An address is added, a session is established on the Host object handed out for it (it waits on WaitRemoved), the
// address is announced again as a fresh object, then the address is removed. Only the second object was told; the
// session on the first one was never closed. After the fix the object that leaves the member map is notified at once.
package host

import (
	"testing"
	"time"
)

func TestFindingC06ReplacedObjectIsNotified(t *testing.T) {
	set := NewSet()
	first := New("10.0.0.1:80")
	set.Add(first)
	watched := first.WaitRemoved() // what an established TCP session selects on

	set.Add(New("10.0.0.1:80")) // the same address, announced again
	set.Remove(New("10.0.0.1:80"))

	select {
	case <-watched:
	case <-time.After(time.Second):
		t.Fatal("the host was removed but the session established on the first object for its address was never told: established connections to a removed host stay open")
	}
}
