// Demonstration for finding C02.R8 (a request written before a filter-stopped one stays unflushed).
// Copy to proc/redis/zz_finding_c02_flush_test.go and run:
//   go test -vet=off -count=1 -run TestFindingC02StopPathFlush ./proc/redis/
// Fails on the tree before the fix (the backend never receives the GET that precedes a banned command),
// passes after it.
package redis

import (
	"bufio"
	"net"
	"strings"
	"testing"
	"time"

	"github.com/samaritan-proxy/samaritan/pb/config/protocol/redis"
)

func TestFindingC02StopPathFlush(t *testing.T) {
	cfg := makeDefaultConfig()
	cfg.GetRedisOption().Compression = &redis.Compression{Enable: true, Algorithm: redis.Compression_SNAPPY, Threshold: 1024}

	cconn, sconn := net.Pipe()
	defer sconn.Close()
	c := newTestClient(t, cconn, cfg)

	// GET is followed by a command that the compress filter answers itself (banned in compress mode);
	// both are queued before the writer runs, so the GET is encoded while another request is pending
	// (no flush), and the banned one is the last of the batch.
	get := newSimpleRequest(newStringArray("get", "k"))
	banned := newSimpleRequest(newStringArray("append", "k", "v"))
	c.Send(get)
	c.Send(banned)
	go c.Start()
	defer c.Stop()

	got := make(chan string, 1)
	go func() {
		r := bufio.NewReader(sconn)
		buf := make([]byte, 64)
		n, _ := r.Read(buf)
		got <- string(buf[:n])
	}()
	banned.Wait() // answered by the filter
	select {
	case s := <-got:
		if !strings.Contains(strings.ToLower(s), "get") {
			t.Fatalf("backend received %q", s)
		}
	case <-time.After(2 * time.Second):
		t.Fatal("the GET written before a filter-stopped command was never flushed to the backend: its client waits until some other request happens to be sent on this connection")
	}
}
