// Demonstration for finding C09.R8 (a session parked on a full pipeline towards a silent backend outlives Stop).
// Copy to proc/redis/zz_finding_c09b_test.go and run:
//   go test -vet=off -count=1 -run TestFindingC09FullPipeline ./proc/redis/
// A backend accepts, reads and never answers. One client pipelines more requests than the session queue holds (32):
// the session reader blocks handing the next request to the queue, the writer waits for the first reply. Both selects
// watch the session's quit latch only - which nobody but these two goroutines ever closes. Stop closes the connection,
// which wakes neither, and then waits for the handler for ever. After the fix Stop tells the sessions to quit.
package redis

import (
	"net"
	"strings"
	"testing"
	"time"

	"github.com/samaritan-proxy/samaritan/stats"

	"github.com/samaritan-proxy/samaritan/host"
	"github.com/samaritan-proxy/samaritan/pb/common"
	"github.com/samaritan-proxy/samaritan/pb/config/service"
	"github.com/samaritan-proxy/samaritan/proc"
	"github.com/samaritan-proxy/samaritan/proc/internal/log"
)

func TestFindingC09FullPipelineSilentBackendStop(t *testing.T) {
	silent, err := net.Listen("tcp", "127.0.0.1:0")
	if err != nil {
		t.Fatal(err)
	}
	defer silent.Close()
	go func() {
		for {
			conn, err := silent.Accept()
			if err != nil {
				return
			}
			go func() {
				buf := make([]byte, 4096)
				for {
					if _, err := conn.Read(buf); err != nil {
						return
					}
				}
			}()
		}
	}()

	raw := makeDefaultConfig().Raw()
	raw.Listener = &service.Listener{Address: &common.Address{Ip: "127.0.0.1", Port: 0}}
	p, err := newRedisProc("finding", raw, []*host.Host{host.New(silent.Addr().String())},
		proc.NewStats(stats.CreateScope("service.finding")), log.New("[finding]"))
	if err != nil {
		t.Fatal(err)
	}
	if err := p.Start(); err != nil {
		t.Fatal(err)
	}
	time.Sleep(200 * time.Millisecond)
	conn, err := net.Dial("tcp", p.l.Address())
	if err != nil {
		t.Fatal(err)
	}
	defer conn.Close()
	if _, err := conn.Write([]byte(strings.Repeat("*2\r\n$3\r\nget\r\n$1\r\na\r\n", 48))); err != nil {
		t.Fatal(err)
	}
	time.Sleep(500 * time.Millisecond) // reader is now blocked on the full queue, writer on the first reply

	stopped := make(chan struct{})
	go func() {
		p.Stop()
		close(stopped)
	}()
	select {
	case <-stopped:
	case <-time.After(5 * time.Second):
		t.Fatal("Stop did not return: the session is parked on its full pipeline and on a reply that never comes, and nothing closes its quit latch")
	}
}
