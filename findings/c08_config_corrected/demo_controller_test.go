// Demonstration for finding C08.R8, controller half: a service announced with an invalid configuration and then
// corrected must end with a processor. The events are exactly what the configuration store emits for that history
// (see demo_config_test.go): SvcAddEvent{invalid cfg, endpoints}, then SvcConfigEvent{valid cfg[, endpoints]}.
// Copy to controller/zz_finding_c08_test.go and run:
//   go test -vet=off -count=1 -run TestFindingC08 ./controller/
// Fails before the fix (no processor, forever), passes after it.
package controller

import (
	"reflect"
	"testing"
	"time"

	"github.com/samaritan-proxy/samaritan/config"
	"github.com/samaritan-proxy/samaritan/host"
	"github.com/samaritan-proxy/samaritan/pb/common"
	"github.com/samaritan-proxy/samaritan/pb/config/service"
	"github.com/samaritan-proxy/samaritan/proc"
)

type findingProc struct {
	proc.Proc
	name  string
	hosts []*host.Host
}

func (p *findingProc) Name() string { return p.name }
func (p *findingProc) Start() error { return nil }
func (p *findingProc) Stop() error  { return nil }

func TestFindingC08InvalidConfigLaterCorrected(t *testing.T) {
	backup := newProc
	defer func() { newProc = backup }()
	created := make(chan *findingProc, 4)
	newProc = func(name string, cfg *service.Config, hosts []*host.Host) (proc.Proc, error) {
		p := &findingProc{name: name, hosts: hosts}
		created <- p
		return p, nil
	}

	c, ch := newTestController(t)
	if err := c.Start(); err != nil {
		t.Fatal(err)
	}
	defer c.Stop()

	eps := []*service.Endpoint{{Address: &common.Address{Ip: "127.0.0.1", Port: 7000}}}
	ch <- &config.SvcAddEvent{Name: "foo", Config: new(service.Config), Endpoints: eps} // invalid: no listener
	cfgEvt := &config.SvcConfigEvent{Name: "foo", Config: getTestSvcConf()}
	// after the fix the store also puts the current endpoints into the event
	if f := reflect.ValueOf(cfgEvt).Elem().FieldByName("Endpoints"); f.IsValid() {
		f.Set(reflect.ValueOf(eps))
	}
	ch <- cfgEvt

	select {
	case p := <-created:
		if len(p.hosts) != 1 {
			t.Fatalf("processor created with hosts %v, want the service's one endpoint", p.hosts)
		}
	case <-time.After(2 * time.Second):
		t.Fatal("service foo has a valid configuration and an endpoint, but no processor was ever created: the config event was ignored because the add event (invalid configuration) had created none")
	}
	deadline := time.Now().Add(time.Second)
	for {
		if _, ok := c.GetProc("foo"); ok {
			return
		}
		if time.Now().After(deadline) {
			t.Fatal("processor not registered")
		}
		time.Sleep(10 * time.Millisecond)
	}
}
