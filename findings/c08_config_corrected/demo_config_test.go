// Demonstration for finding C08.R8, store half: after an invalid configuration the corrected one is announced by a
// SvcConfigEvent (not by a SvcAddEvent), which - after the fix - carries the current endpoints.
// Copy to config/zz_finding_c08_test.go and run:
//   go test -vet=off -count=1 -run TestFindingC08 ./config/
// Passes before and after the fix for the event kind; the Endpoints assertion documents what the fix adds
// (before the fix the event type has no Endpoints field: this file then does not compile - use the controller half).
package config

import (
	"testing"

	"github.com/samaritan-proxy/samaritan/pb/common"
	"github.com/samaritan-proxy/samaritan/pb/config/bootstrap"
	"github.com/samaritan-proxy/samaritan/pb/config/service"
)

func TestFindingC08StoreAnnouncesCorrectionAsConfigEvent(t *testing.T) {
	c, err := New(&bootstrap.Bootstrap{Admin: &bootstrap.Admin{Bind: &common.Address{Ip: "127.0.0.1", Port: 8888}}})
	if err != nil {
		t.Fatal(err)
	}
	evtCh := c.Subscribe()
	c.handleDependencyUpdate([]*service.Service{{Name: "foo"}}, nil)
	ep := &service.Endpoint{Address: &common.Address{Ip: "127.0.0.1", Port: 7000}}
	c.handleSvcEndpointUpdate("foo", []*service.Endpoint{ep}, nil)
	c.handleSvcConfigUpdate("foo", new(service.Config)) // invalid: no listener
	if _, ok := (<-evtCh).(*SvcAddEvent); !ok {
		t.Fatal("first config: want add event")
	}
	good := &service.Config{Listener: &service.Listener{Address: &common.Address{Ip: "127.0.0.1", Port: 12399}}}
	c.handleSvcConfigUpdate("foo", good)
	evt, ok := (<-evtCh).(*SvcConfigEvent)
	if !ok {
		t.Fatal("correction: want config event")
	}
	if len(evt.Endpoints) != 1 {
		t.Fatalf("the config event must carry the current endpoints, got %v", evt.Endpoints)
	}
}
