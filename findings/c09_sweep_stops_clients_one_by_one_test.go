// Demonstration for finding C09.R9 (the stop sweep of the upstream asks its backend connections to quit one by one).
// Copy to proc/redis/zz_finding_c09g_test.go and run:
//
//	go test -vet=off -count=1 -run TestFindingC09SweepOneByOne ./proc/redis/
//
// Backend A answers every command with a MOVED redirection to backend B; B reads and never answers. 80 clients pipeline
// 40 requests each: the reader of the connection to A resends every redirected request to B, whose connection holds
// 1024 unwritten + 1024 unanswered + 1 - then the reader of A parks inside B's client.Send, whose select watches only
// B's quit latch. upstream.Serve stopped the connections one after the other (close the latch, then wait for that
// connection's goroutines): when A came first in the (random) map order, its reader was never released, because B's
// latch is closed only after A has been waited for. Stop hung. After the fix every connection is asked to quit before
// the first one is waited for. The scenario is repeated, since the map order decides whether A is stopped first.
package redis

import (
	"bufio"
	"fmt"
	"net"
	"strings"
	"testing"
	"time"

	"github.com/samaritan-proxy/samaritan/stats"

	"github.com/samaritan-proxy/samaritan/host"
	"github.com/samaritan-proxy/samaritan/pb/common"
	"github.com/samaritan-proxy/samaritan/pb/config/service"
	"github.com/samaritan-proxy/samaritan/proc"
	"github.com/samaritan-proxy/samaritan/proc/internal/log"
)

func TestFindingC09SweepOneByOne(t *testing.T) {
	for round := 0; round < 8; round++ {
		runFindingC09SweepRound(t, round)
		if t.Failed() {
			return
		}
	}
}

func runFindingC09SweepRound(t *testing.T, round int) {
	// B: reads, never answers
	silent, err := net.Listen("tcp", "127.0.0.1:0")
	if err != nil {
		t.Fatal(err)
	}
	defer silent.Close()
	go func() {
		for {
			conn, err := silent.Accept()
			if err != nil {
				return
			}
			go func() {
				defer conn.Close()
				buf := make([]byte, 4096)
				for {
					if _, err := conn.Read(buf); err != nil {
						return
					}
				}
			}()
		}
	}()
	// A: answers every command with a redirection to B
	moved, err := net.Listen("tcp", "127.0.0.1:0")
	if err != nil {
		t.Fatal(err)
	}
	defer moved.Close()
	reply := []byte(fmt.Sprintf("-MOVED 1 %s\r\n", silent.Addr().String()))
	go func() {
		for {
			conn, err := moved.Accept()
			if err != nil {
				return
			}
			go func() {
				defer conn.Close()
				r := bufio.NewReader(conn)
				for {
					// one reply per multi-bulk command: "*N" then N times "$len" + payload
					line, err := r.ReadString('\n')
					if err != nil {
						return
					}
					if !strings.HasPrefix(line, "*") {
						continue
					}
					var n int
					fmt.Sscanf(line, "*%d", &n)
					for i := 0; i < 2*n; i++ {
						if _, err := r.ReadString('\n'); err != nil {
							return
						}
					}
					if _, err := conn.Write(reply); err != nil {
						return
					}
				}
			}()
		}
	}()

	raw := makeDefaultConfig().Raw()
	raw.Listener = &service.Listener{Address: &common.Address{Ip: "127.0.0.1", Port: 0}}
	name := fmt.Sprintf("finding_g%d", round)
	p, err := newRedisProc(name, raw, []*host.Host{host.New(moved.Addr().String())},
		proc.NewStats(stats.CreateScope("service."+name)), log.New("["+name+"]"))
	if err != nil {
		t.Fatal(err)
	}
	if err := p.Start(); err != nil {
		t.Fatal(err)
	}
	time.Sleep(200 * time.Millisecond)
	for i := 0; i < 80; i++ {
		conn, err := net.Dial("tcp", p.l.Address())
		if err != nil {
			t.Fatal(err)
		}
		defer conn.Close()
		if _, err := conn.Write([]byte(strings.Repeat("*2\r\n$3\r\nget\r\n$1\r\na\r\n", 40))); err != nil {
			t.Fatal(err)
		}
	}
	time.Sleep(time.Second)

	stopped := make(chan struct{})
	go func() {
		p.Stop()
		close(stopped)
	}()
	select {
	case <-stopped:
	case <-time.After(5 * time.Second):
		t.Fatalf("round %d: Stop did not return: the reader of the connection to A is parked in the Send of the connection to B (full queue, silent backend); the sweep closed A's quit latch and waits for A, B's latch is closed only afterwards", round)
	}
}
