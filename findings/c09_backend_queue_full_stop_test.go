// Demonstration for finding C09.R9 (a session reader parked in client.Send on the full backend queue outlives Stop).
// Copy to proc/redis/zz_finding_c09c_test.go and run:
//   go test -vet=off -count=1 -run TestFindingC09BackendQueueFull ./proc/redis/
// A backend accepts, reads and never answers. 80 clients pipeline 40 requests each: a session hands at most 33 of them to
// the backend connection, which holds 1024 unwritten + 1024 unanswered + 1 - the remaining session readers block inside
// client.Send, whose select watches only the backend connection's quit latch. redisProc.Stop waited for the sessions
// (listener.Stop) before it stopped the upstream, which is what closes that latch: Stop hung. After the fix the
// upstream is stopped first.
package redis

import (
	"net"
	"strings"
	"testing"
	"time"

	"github.com/samaritan-proxy/samaritan/stats"

	"github.com/samaritan-proxy/samaritan/host"
	"github.com/samaritan-proxy/samaritan/pb/common"
	"github.com/samaritan-proxy/samaritan/pb/config/service"
	"github.com/samaritan-proxy/samaritan/proc"
	"github.com/samaritan-proxy/samaritan/proc/internal/log"
)

func TestFindingC09BackendQueueFullStop(t *testing.T) {
	silent, err := net.Listen("tcp", "127.0.0.1:0")
	if err != nil {
		t.Fatal(err)
	}
	defer silent.Close()
	go func() {
		for {
			conn, err := silent.Accept()
			if err != nil {
				return
			}
			go func() {
				buf := make([]byte, 4096)
				for {
					if _, err := conn.Read(buf); err != nil {
						return
					}
				}
			}()
		}
	}()

	raw := makeDefaultConfig().Raw()
	raw.Listener = &service.Listener{Address: &common.Address{Ip: "127.0.0.1", Port: 0}}
	p, err := newRedisProc("finding", raw, []*host.Host{host.New(silent.Addr().String())},
		proc.NewStats(stats.CreateScope("service.finding")), log.New("[finding]"))
	if err != nil {
		t.Fatal(err)
	}
	if err := p.Start(); err != nil {
		t.Fatal(err)
	}
	time.Sleep(200 * time.Millisecond)
	// 80 sessions, 40 pipelined requests each: a session hands at most 33 of them to the backend connection, which
	// holds 1024 unwritten + 1024 unanswered + 1: the rest of the session readers block inside client.Send
	for i := 0; i < 80; i++ {
		conn, err := net.Dial("tcp", p.l.Address())
		if err != nil {
			t.Fatal(err)
		}
		defer conn.Close()
		if _, err := conn.Write([]byte(strings.Repeat("*2\r\n$3\r\nget\r\n$1\r\na\r\n", 40))); err != nil {
			t.Fatal(err)
		}
	}
	time.Sleep(time.Second)

	stopped := make(chan struct{})
	go func() {
		p.Stop()
		close(stopped)
	}()
	select {
	case <-stopped:
	case <-time.After(5 * time.Second):
		t.Fatal("Stop did not return: session readers are parked in client.Send on the full queue of a silent backend; that wait only watches the backend connection's quit latch, which Stop closes after it has waited for the sessions")
	}
}
