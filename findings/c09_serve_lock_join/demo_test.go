// Demonstration for finding C09.R7 (upstream.Serve joined its backend connections while holding clientsMu).
//
// The defect needs a narrow schedule: a backend reader goroutine that is redirecting a request has passed the quit
// test of MakeRequestToHost but has not yet reached clientsMu.Lock in createClient when upstream.Serve takes the
// lock and waits for that very reader to finish. delay.patch only widens that window with a sleep (it changes no
// logic). Apply delay.patch, copy this file to proc/redis/zz_finding_c09_serve_test.go and run:
//   go test -vet=off -count=1 -run TestFindingC09ServeLockJoin ./proc/redis/
// Before the fix (with the delay): upstream.Stop never returns. After the fix (same delay): returns at once.
package redis

import (
	"net"
	"testing"
	"time"
)

func TestFindingC09ServeLockJoin(t *testing.T) {
	u := newTestUpstream(nil)
	served := make(chan struct{})
	go func() {
		u.Serve()
		close(served)
	}()

	// node Y: the redirection target, never connected before
	y := newMockRedisInstance(t, func(conn net.Conn) {
		buf := make([]byte, 1024)
		conn.Read(buf)
	})
	defer y.Shutdown()
	// node X answers every request with MOVED to Y
	x := newMockRedisInstance(t, func(conn net.Conn) {
		buf := make([]byte, 1024)
		if _, err := conn.Read(buf); err != nil {
			return
		}
		conn.Write([]byte("-MOVED 1 " + y.Addr() + "\r\n"))
		conn.Read(buf)
	})
	defer x.Shutdown()

	req := newSimpleRequest(newStringArray("get", "a"))
	go u.MakeRequestToHost(x.Addr(), req)
	// t=300ms: request reaches X; X's reader handles MOVED and is between the quit test and createClient until t=600ms
	time.Sleep(450 * time.Millisecond)

	stopped := make(chan struct{})
	go func() {
		u.Stop()
		close(stopped)
	}()
	select {
	case <-stopped:
	case <-time.After(5 * time.Second):
		t.Fatal("upstream.Stop did not return: Serve holds clientsMu while joining the backend reader, which is blocked on clientsMu in createClient")
	}
	<-served
}
