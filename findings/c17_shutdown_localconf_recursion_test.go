// Demonstration for finding C17.R8 (the "stop the local configuration store" step re-enters itself for ever).
// Copy to cmd/samaritan/zz_finding_c17_test.go and run (package main parses its own flags in an init, so the test
// binary must be started without -test.* flags):
//   go test -vet=off -c -o /tmp/c17.test ./cmd/samaritan/ && /tmp/c17.test
// Before the fix the test binary dies with "fatal error: stack overflow" (instance does not declare
// ShutdownLocalConf, the call is promoted from Restarter.Instance, which is the instance itself) - exactly what
// happens in the old process when a shutdownLocalConfReq frame arrives. After the fix it passes.
package main

import (
	"testing"

	"github.com/samaritan-proxy/samaritan/cmd/samaritan/hotrestart"
)

func TestFindingC17ShutdownLocalConfTerminates(t *testing.T) {
	in := &instance{}
	in.Restarter = &hotrestart.Restarter{Instance: in} // what initInstance builds through hotrestart.New(inst)
	// the handler of a shutdownLocalConfReq frame does exactly this call
	in.Restarter.ShutdownLocalConf()
}
