// Demonstration for finding C08.R2 (a removal before any addition leaves the service's processor without hosts).
// Copy to config/zz_finding_c08b_test.go and run:
//   go test -vet=off -count=1 -run TestFindingC08Removal ./config/
// History (named in the property's quantifier: "removals before any addition"): the service has a configuration and
// no endpoint list yet; an endpoint update that only removes arrives; then one that adds. The store announced the
// service with an add event on the first update (nil endpoint list), kept "endpoints never seen" as its state, and
// announced it with a second add event on the addition - which the controller ignores because the processor exists:
// the processor never gets the host. After the fix the second update is a delta event.
package config

import (
	"testing"

	"github.com/samaritan-proxy/samaritan/pb/common"
	"github.com/samaritan-proxy/samaritan/pb/config/bootstrap"
	"github.com/samaritan-proxy/samaritan/pb/config/service"
)

func TestFindingC08RemovalBeforeAnyAddition(t *testing.T) {
	c, err := New(&bootstrap.Bootstrap{Admin: &bootstrap.Admin{Bind: &common.Address{Ip: "127.0.0.1", Port: 8888}}})
	if err != nil {
		t.Fatal(err)
	}
	evtCh := c.Subscribe()
	c.handleDependencyUpdate([]*service.Service{{Name: "foo"}}, nil)
	c.handleSvcConfigUpdate("foo", &service.Config{Listener: &service.Listener{Address: &common.Address{Ip: "127.0.0.1", Port: 12399}}})
	gone := &service.Endpoint{Address: &common.Address{Ip: "127.0.0.1", Port: 7000}}
	c.handleSvcEndpointUpdate("foo", nil, []*service.Endpoint{gone})
	announced := 0
	select {
	case evt := <-evtCh:
		if _, ok := evt.(*SvcAddEvent); ok {
			announced++
		}
	default:
	}
	ep := &service.Endpoint{Address: &common.Address{Ip: "127.0.0.1", Port: 7001}}
	c.handleSvcEndpointUpdate("foo", []*service.Endpoint{ep}, nil)
	evt := <-evtCh
	switch e := evt.(type) {
	case *SvcAddEvent:
		if announced > 0 {
			t.Fatalf("the service was already announced (its processor exists): a second add event is ignored by the controller, the host %v is never added", e.Endpoints)
		}
	case *SvcEndpointEvent:
		if len(e.Added) != 1 {
			t.Fatalf("added: %v", e.Added)
		}
	default:
		t.Fatalf("unexpected event %T", evt)
	}
}
