// Demonstration for finding C06.R5 (watcher ends with the first relay direction).
// Copy to proc/tcp/zz_finding_c06_test.go and run: go test -vet=off -count=1 -run TestFindingC06HalfClose ./proc/tcp/
// Fails on the tree before the fix (connection survives the removal of its host after the client
// half-closed), passes after it.
package tcp

import (
	"net"
	"testing"
	"time"

	"github.com/samaritan-proxy/samaritan/host"
	"github.com/samaritan-proxy/samaritan/utils"
)

func TestFindingC06HalfClose(t *testing.T) {
	ls, err := newLocalServer()
	if err != nil {
		t.Fatal(err)
	}
	defer ls.tearDown()
	release := make(chan struct{})
	ls.buildup(func(ls *localServer) {
		conn, err := ls.Accept()
		if err != nil {
			return
		}
		defer conn.Close()
		conn.Write([]byte("hello"))
		// keep streaming side open; wait for the client's EOF (half close) and then stay silent
		buf := make([]byte, 8)
		for {
			if _, err := conn.Read(buf); err != nil {
				break
			}
		}
		<-release
	})
	defer close(release)

	cfg := newServiceConfig()
	cfg.IdleTimeout = utils.DurationPtr(5 * time.Second)
	h := host.New(ls.Address())
	testProc(t, cfg, []*host.Host{h}, func(p *tcpProc) {
		conn, err := net.Dial("tcp", p.Address())
		if err != nil {
			t.Fatal(err)
		}
		defer conn.Close()
		buf := make([]byte, 5)
		if _, err := conn.Read(buf); err != nil {
			t.Fatal(err)
		}
		// client finishes sending: half close
		conn.(*net.TCPConn).CloseWrite()
		time.Sleep(200 * time.Millisecond) // let the client->server direction finish
		p.hostSet.Remove(h)
		conn.SetReadDeadline(time.Now().Add(1500 * time.Millisecond))
		st := time.Now()
		_, err = conn.Read(make([]byte, 8))
		if ne, ok := err.(net.Error); ok && ne.Timeout() {
			t.Fatalf("connection to a removed host is still open %s after the removal (client had half-closed)", time.Since(st))
		}
	})
}
