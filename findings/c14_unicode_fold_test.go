// Demonstration for finding C14.R8 (command names folded with a Unicode-aware ToLower).
// Copy to proc/redis/zz_finding_c14_test.go and run:
//   go test -vet=off -count=1 -run TestFindingC14 ./proc/redis/
// "İNCR" (dotted capital I) and "HKEYS" (Kelvin sign) are not Redis commands - Redis compares command names
// byte-wise ignoring ASCII case - but strings.ToLower folds them to "incr" / "hkeys", so the proxy accepted them as
// supported (and classified the second one as read-only) and forwarded the bytes verbatim to a backend.
// Fails before the fix, passes after it.
package redis

import "testing"

func TestFindingC14OnlyASCIICaseIsFolded(t *testing.T) {
	p := newRedisTestProc(t)
	for _, name := range []string{"İNCR", "HKEYS", "GETBİT"} {
		if _, ok := p.findHandler(name); ok {
			t.Errorf("%q is accepted as a supported command and would be forwarded to a backend", name)
		}
		req := newSimpleRequest(newStringArray(name, "k"))
		if req.IsReadOnly() {
			t.Errorf("%q is classified as a read-only command", name)
		}
	}
	for _, name := range []string{"incr", "INCR", "InCr", "hkeys", "HKEYS"} {
		if _, ok := p.findHandler(name); !ok {
			t.Errorf("%q must stay supported", name)
		}
	}
}
