// Demonstration for finding C15.R8 (a health result for a stale Host object corrupts the healthy tier).
// Copy to host/zz_finding_c15_test.go and run:
//   go test -vet=off -count=1 -run TestFindingC15 ./host/
// A discovery update that lists one address as removed and added replaces the set's object for that address while
// the monitor may still be checking the old object (checks run concurrently and take up to the timeout).
// Fails before the fix, passes after it.
package host

import "testing"

func TestFindingC15LateFailureOfReplacedObject(t *testing.T) {
	h1 := New("127.0.0.1:7001")
	set := NewSet(h1)
	h2 := New("127.0.0.1:7001")
	set.Remove(h1)
	set.Add(h2)
	// the in-flight check of the old object completes: failed
	set.MarkHostUnhealthy(h1)
	hs := set.Healthy()
	if len(hs) != 1 || hs[0] != h2 {
		t.Fatalf("the current object of the address is healthy and must stay selectable, Healthy() = %v", hs)
	}
}

func TestFindingC15LateSuccessOfReplacedObject(t *testing.T) {
	h1 := New("127.0.0.1:7001")
	set := NewSet(h1)
	set.MarkHostUnhealthy(h1)
	h2 := New("127.0.0.1:7001")
	set.Remove(h1)
	set.Add(h2)
	// the in-flight check of the old object completes: it recovered
	set.MarkHostHealthy(h1)
	hs := set.Healthy()
	if len(hs) != 1 || hs[0] != h2 {
		t.Fatalf("the tier must hold the set's current object (the one removal will notify), Healthy() = %p want %p", hs, h2)
	}
}

// Finding C15.R8 (batch): one Add that names an address twice with two types.
func TestFindingC15BatchWithOneAddressTwice(t *testing.T) {
	main := NewWithType("127.0.0.1:7001", TypeMain)
	backup := NewWithType("127.0.0.1:7001", TypeBackup)
	other := NewWithType("127.0.0.1:7002", TypeBackup)
	set := NewSet(main, backup, other)
	// members: 7001 (backup, the later one wins) and 7002 (backup); no main host at all
	if set.Len() != 2 {
		t.Fatalf("members: %d", set.Len())
	}
	for _, h := range set.Healthy() {
		if h == main {
			t.Fatalf("Healthy() reports %v (type main), which is not a member of the set", h)
		}
	}
	if len(set.Healthy()) != 2 {
		t.Fatalf("Healthy() = %v, want both backup members", set.Healthy())
	}
}
