// Demonstration for finding C03.R2 / C01.R3 (MSET acknowledges a lost write with OK).
// Copy to proc/redis/zz_finding_c03_test.go and run:
//   go test -vet=off -count=1 -run TestFindingC03 ./proc/redis/
// MSET is split into one SET per key. When one of them fails (its backend is gone, -OOM, -READONLY on a demoted
// master ...) the combined reply was still +OK, while a single server answers such an MSET with the error. DEL /
// EXISTS / TOUCH / UNLINK already report "finished with N error(s)". Fails before the fix, passes after it.
package redis

import "testing"

func TestFindingC03MSetReportsAFailedChild(t *testing.T) {
	raw := newRawRequest(newStringArray("mset", "a", "1", "b", "2"))
	msetReq, err := newMSetRequest(raw)
	if err != nil {
		t.Fatal(err)
	}
	reqs := msetReq.Split()
	reqs[0].SetResponse(respOK)
	reqs[1].SetResponse(newError("backend exited")) // the write of key b is lost
	raw.Wait()
	if raw.Response().Type != Error {
		t.Fatalf("one SET of the MSET failed but the client is told %v %q", raw.Response().Type, raw.Response().Text)
	}
}
