package main

import (
	"fmt"
	"go/token"
	"go/types"
	"sort"
	"strings"

	"golang.org/x/tools/go/ssa"
)

// checkDepthCounter decides whether an input-consuming call-graph cycle is bounded by a depth counter.
//
// A field F is a depth counter for the cycle when
//
//	(1) balance: there is an assignment of a net effect d(f) in {-1,0,+1} to every function that writes F or lies on
//	    the cycle such that a constant-propagation of "F minus its value at function entry" over every function's CFG
//	    (stores F=F±1, calls to those functions applying d, deferred calls applied at return) never joins two
//	    different values and ends every return with d(f); functions entered from outside have d = 0 - so F returns to
//	    its initial value after every message and equals, at any moment, the sum of the local deltas of the active
//	    frames;
//	(2) no call into the cycle is made at a negative local delta;
//	(3) every call into the cycle made while the frame holds an increment is dominated by the passing edge of a
//	    guard `F < K` (K constant);
//	(4) the cycle's call edges made at local delta 0 form an acyclic graph: every cycle crosses a call made while its
//	    frame holds an increment, so the number of active frames is bounded by K times the number of functions.
func (p *Prog) checkDepthCounter(comp []*ssa.Function) (bool, string) {
	inComp := map[*ssa.Function]bool{}
	for _, f := range comp {
		inComp[f] = true
	}
	// candidate counters
	type incSite struct {
		fn *ssa.Function
		st *ssa.Store
	}
	delta := func(st *ssa.Store) (*types.Var, int64, bool) {
		fld, _ := fieldAddr(st.Addr)
		if fld == nil {
			return nil, 0, false
		}
		bo, ok := st.Val.(*ssa.BinOp)
		if !ok || (bo.Op != token.ADD && bo.Op != token.SUB) {
			return fld, 0, false
		}
		lf, _ := loadedField(bo.X)
		k, isC := constInt(bo.Y)
		if lf != fld || !isC {
			return fld, 0, false
		}
		if bo.Op == token.SUB {
			k = -k
		}
		return fld, k, true
	}
	cands := map[*types.Var]bool{}
	var candList []*types.Var
	for _, f := range comp {
		for _, g := range append([]*ssa.Function{f}, f.AnonFuncs...) {
			eachInstr(g, func(_ *ssa.BasicBlock, _ int, in ssa.Instruction) {
				if st, ok := in.(*ssa.Store); ok {
					if fld, k, ok := delta(st); ok && k == 1 && !cands[fld] {
						cands[fld] = true
						candList = append(candList, fld)
					}
				}
			})
		}
	}
	if len(candList) == 0 {
		return false, "no field is incremented along the cycle (no depth counter)"
	}
	sort.Slice(candList, func(i, j int) bool { return candList[i].Name() < candList[j].Name() })
	why := ""
	for _, F := range candList {
		ok, w := p.checkCounterField(comp, inComp, F, delta)
		if ok {
			return true, w
		}
		why += "[" + F.Name() + ": " + w + "] "
	}
	return false, why
}

func (p *Prog) checkCounterField(comp []*ssa.Function, inComp map[*ssa.Function]bool, F *types.Var,
	delta func(*ssa.Store) (*types.Var, int64, bool)) (bool, string) {
	// members: the cycle, their closures, and every module function that writes F
	memberSet := map[*ssa.Function]bool{}
	var members []*ssa.Function
	add := func(f *ssa.Function) {
		if f != nil && !memberSet[f] && f.Blocks != nil {
			memberSet[f] = true
			members = append(members, f)
		}
	}
	for _, f := range comp {
		add(f)
		for _, a := range f.AnonFuncs {
			add(a)
		}
	}
	for _, a := range p.fieldAccesses(F) {
		if a.Write && !p.isTestFn(a.Fn) {
			add(a.Fn)
		}
	}
	sort.Slice(members, func(i, j int) bool { return fnKey(members[i]) < fnKey(members[j]) })
	if len(members) > 7 {
		return false, "too many functions touch the counter to decide its balance"
	}
	// roots: members entered from a non-member
	isRoot := map[*ssa.Function]bool{}
	for _, f := range members {
		for _, e := range p.callersOf(f) {
			if !memberSet[e.Caller.Func] && !p.isTestFn(e.Caller.Func) {
				isRoot[f] = true
			}
		}
	}
	type st struct {
		known bool
		v     int64
	}
	// per-function dataflow under an assignment d; returns (returnDelta consistent?, value, problem)
	type callAt struct {
		callee *ssa.Function
		local  int64
		blk    *ssa.BasicBlock
		pos    token.Pos
	}
	run := func(f *ssa.Function, d map[*ssa.Function]int64) (int64, []callAt, string) {
		in := map[*ssa.BasicBlock]st{f.Blocks[0]: {true, 0}}
		inDef := map[*ssa.BasicBlock]st{f.Blocks[0]: {true, 0}}
		var calls []callAt
		ret := st{}
		// iterate to fixpoint in block order (values only ever go unknown -> known; a conflict aborts)
		for iter := 0; iter < len(f.Blocks)+2; iter++ {
			changed := false
			calls = calls[:0]
			for _, b := range f.Blocks {
				s, ok := in[b]
				if !ok {
					continue
				}
				df := inDef[b]
				cur, def := s.v, df.v
				for _, x := range b.Instrs {
					switch t := x.(type) {
					case *ssa.Store:
						if fld, k, ok := delta(t); fld == F {
							if !ok {
								return 0, nil, fmt.Sprintf("%s assigns the counter something other than counter±constant at %s", fnKey(f), p.Pos(t.Pos()))
							}
							cur += k
						}
					case *ssa.Defer:
						for _, g := range p.callees(t) {
							if memberSet[g] {
								def += d[g]
							}
						}
					case ssa.CallInstruction:
						if _, isGo := x.(*ssa.Go); isGo {
							continue
						}
						for _, g := range p.callees(t) {
							if memberSet[g] {
								calls = append(calls, callAt{g, cur, b, x.Pos()})
								cur += d[g]
								break
							}
						}
					case *ssa.Return:
						r := cur + def
						if ret.known && ret.v != r {
							return 0, nil, fmt.Sprintf("%s returns with the counter changed by %+d on one path and %+d on another (return at %s)", fnKey(f), ret.v, r, p.Pos(t.Pos()))
						}
						ret = st{true, r}
					}
				}
				for _, sc := range b.Succs {
					if o, seen := in[sc]; seen {
						if o.v != cur || inDef[sc].v != def {
							return 0, nil, fmt.Sprintf("%s reaches block %d with the counter changed by %+d on one path and %+d on another (%s)", fnKey(f), sc.Index, o.v, cur, p.Pos(firstPos(sc)))
						}
					} else {
						in[sc] = st{true, cur}
						inDef[sc] = st{true, def}
						changed = true
					}
				}
			}
			if !changed {
				break
			}
		}
		if !ret.known {
			return 0, calls, "" // never returns (panics): no constraint
		}
		return ret.v, calls, ""
	}
	// enumerate assignments
	n := len(members)
	total := 1
	for i := 0; i < n; i++ {
		total *= 3
	}
	firstProblem := ""
	for code := 0; code < total; code++ {
		d := map[*ssa.Function]int64{}
		x := code
		// try the all-zero assignment first: code 0 -> all 0
		for _, f := range members {
			d[f] = []int64{0, 1, -1}[x%3]
			x /= 3
		}
		okAll := true
		callsOf := map[*ssa.Function][]callAt{}
		for _, f := range members {
			if isRoot[f] && d[f] != 0 {
				okAll = false
				break
			}
			r, calls, prob := run(f, d)
			if prob != "" {
				if firstProblem == "" {
					firstProblem = prob
				}
				okAll = false
				break
			}
			if r != d[f] {
				if firstProblem == "" && code == 0 {
					firstProblem = fmt.Sprintf("%s returns with the counter changed by %+d", fnKey(f), r)
				}
				okAll = false
				break
			}
			callsOf[f] = calls
		}
		if !okAll {
			continue
		}
		// (2) no call at negative local delta, (4) zero-delta edges acyclic within the cycle
		zero := map[*ssa.Function][]*ssa.Function{}
		for _, f := range members {
			for _, ca := range callsOf[f] {
				if ca.local < 0 {
					return false, fmt.Sprintf("%s calls %s after decrementing the counter below its entry value", fnKey(f), fnKey(ca.callee))
				}
				if ca.local == 0 && inComp[ca.callee] {
					zero[topFn(f)] = append(zero[topFn(f)], ca.callee)
				}
			}
		}
		color := map[*ssa.Function]int{}
		cyc := ""
		var dfs func(f *ssa.Function)
		dfs = func(f *ssa.Function) {
			color[f] = 1
			for _, g := range zero[f] {
				if color[g] == 1 {
					cyc = fnKey(f) + " -> " + fnKey(g)
				} else if color[g] == 0 {
					dfs(g)
				}
			}
			color[f] = 2
		}
		for _, f := range comp {
			if color[f] == 0 {
				dfs(f)
			}
		}
		if cyc != "" {
			return false, "a cycle of calls is made without holding an increment of the counter (" + cyc + "): that recursion is not counted"
		}
		// (3) every counted call (made while the frame holds an increment) is dominated by the passing edge of a
		// guard `F < const` - tested before or after the increment, the counter is bounded at the call
		nInc := 0
		for _, f := range members {
			eachInstr(f, func(_ *ssa.BasicBlock, _ int, in ssa.Instruction) {
				if s, ok := in.(*ssa.Store); ok {
					if fld, k, ok := delta(s); fld == F && ok && k > 0 {
						nInc++
					}
				}
			})
			for _, ca := range callsOf[f] {
				if ca.local >= 1 && inComp[ca.callee] && !guardedBelow(f, ca.blk, F) {
					return false, "the recursive call at " + p.Pos(ca.pos) + " is made without a dominating test of the counter against a constant bound"
				}
			}
		}
		if nInc == 0 {
			return false, "the counter is never incremented"
		}
		var ds []string
		for _, f := range members {
			ds = append(ds, fmt.Sprintf("%s:%+d", f.Name(), d[f]))
		}
		return true, fmt.Sprintf("depth counter %s: balanced (net effects %v), every counted call behind a `%s < const` guard, every cycle crosses a counted call", F.Name(), ds, F.Name())
	}
	if firstProblem == "" {
		firstProblem = "no consistent net effect per function exists"
	}
	return false, "the counter is not balanced: " + firstProblem
}

func firstPos(b *ssa.BasicBlock) token.Pos {
	for _, in := range b.Instrs {
		if in.Pos().IsValid() {
			return in.Pos()
		}
	}
	return token.NoPos
}

// guardedBelow: block b is dominated by the edge of a comparison that bounds field F from above by a constant.
func guardedBelow(f *ssa.Function, b *ssa.BasicBlock, F *types.Var) bool {
	for _, g := range f.Blocks {
		iff, ok := g.Instrs[len(g.Instrs)-1].(*ssa.If)
		if !ok {
			continue
		}
		bo, ok := iff.Cond.(*ssa.BinOp)
		if !ok {
			continue
		}
		x, y, op := bo.X, bo.Y, bo.Op
		if _, isC := constInt(x); isC { // const op F  ->  F op' const
			x, y = y, x
			op = map[token.Token]token.Token{token.LSS: token.GTR, token.LEQ: token.GEQ, token.GTR: token.LSS, token.GEQ: token.LEQ}[op]
		}
		if _, isC := constInt(y); !isC {
			continue
		}
		lf, _ := loadedField(x)
		if lf == nil {
			if add, isAdd := x.(*ssa.BinOp); isAdd && add.Op == token.ADD {
				lf, _ = loadedField(add.X)
			}
		}
		if lf != F {
			continue
		}
		var bound *ssa.BasicBlock
		switch op {
		case token.GEQ, token.GTR:
			bound = g.Succs[1]
		case token.LSS, token.LEQ:
			bound = g.Succs[0]
		default:
			continue
		}
		if len(bound.Preds) == 1 && bound.Dominates(b) {
			return true
		}
	}
	return false
}

// depthLimitAccepted: for the guard that compares a depth counter field with a constant K in the functions of comp,
// the number of nested levels that pass it: `reject when F >= K` tested before the level is counted accepts K levels,
// the same test after the increment accepts K-1; `reject when F > K` one more each.
func depthLimitAccepted(comp []*ssa.Function) (accepted, k int64, at token.Pos, found bool) {
	for _, f := range comp {
		for _, g := range f.Blocks {
			iff, ok := g.Instrs[len(g.Instrs)-1].(*ssa.If)
			if !ok {
				continue
			}
			bo, ok := iff.Cond.(*ssa.BinOp)
			if !ok {
				continue
			}
			x, y, op := bo.X, bo.Y, bo.Op
			if _, isC := constInt(x); isC {
				x, y = y, x
				op = map[token.Token]token.Token{token.LSS: token.GTR, token.LEQ: token.GEQ, token.GTR: token.LSS, token.GEQ: token.LEQ}[op]
			}
			kv, isC := constInt(y)
			if !isC {
				continue
			}
			ld, isLd := x.(*ssa.UnOp)
			fld, _ := loadedField(x)
			if fld == nil || !isLd || !strings.Contains(strings.ToLower(fld.Name()), "depth") {
				continue
			}
			// levels that pass: F < K -> K ; F <= K -> K+1 (F is the number of enclosing levels)
			pass := int64(0)
			switch op {
			case token.GEQ, token.LSS: // reject F >= K  /  pass F < K
				pass = kv
			case token.GTR, token.LEQ: // reject F > K  /  pass F <= K
				pass = kv + 1
			default:
				continue
			}
			// is this level already counted when the guard reads the counter?
			counted := false
			eachInstr(f, func(_ *ssa.BasicBlock, _ int, in ssa.Instruction) {
				st, ok := in.(*ssa.Store)
				if !ok {
					return
				}
				if sf, _ := fieldAddr(st.Addr); sf != fld {
					return
				}
				if add, ok := st.Val.(*ssa.BinOp); ok && add.Op == token.ADD {
					if c1, isC1 := constInt(add.Y); isC1 && c1 == 1 && instrDominates(st, ld) {
						counted = true
					}
				}
			})
			if counted {
				pass--
			}
			return pass, kv, iff.Pos(), true
		}
	}
	return 0, 0, token.NoPos, false
}
