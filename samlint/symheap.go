package main

import (
	"fmt"
	"go/token"
	"sort"
	"strings"

	"golang.org/x/tools/go/ssa"
)

// symheap.go: a tiny symbolic executor for list-surgery functions: field loads and stores on pointer parameters with
// nil tests and pointer comparisons; calls of small module helpers are executed in place. Objects are symbols (the
// parameters, and the initial contents "x.f@0" of the fields that are read before they are written); every path to a
// return yields a final heap.

type symState struct {
	heap  map[string]string // "obj.field" -> symbol
	isNil map[string]bool   // symbol -> known nil / non-nil
	vals  map[ssa.Value]string
}

func (s *symState) clone() *symState {
	n := &symState{heap: map[string]string{}, isNil: map[string]bool{}, vals: map[ssa.Value]string{}}
	for k, v := range s.heap {
		n.heap[k] = v
	}
	for k, v := range s.isNil {
		n.isNil[k] = v
	}
	for k, v := range s.vals {
		n.vals[k] = v
	}
	return n
}

// symExec returns the final heaps of fn (one per path) or a reason why the function is outside the fragment.
func symExec(fn *ssa.Function) ([]*symState, string) {
	s0 := &symState{heap: map[string]string{}, isNil: map[string]bool{}, vals: map[ssa.Value]string{}}
	for _, prm := range fn.Params {
		s0.vals[prm] = prm.Name()
		s0.isNil[prm.Name()] = false
	}
	return symExecFrom(fn, s0, 0)
}

func symExecFrom(fn *ssa.Function, s0 *symState, depth int) ([]*symState, string) {
	var out []*symState
	why := ""
	val := func(s *symState, v ssa.Value) (string, bool) {
		if isNilConst(v) {
			return "nil", true
		}
		x, ok := s.vals[v]
		return x, ok
	}
	var exec func(b *ssa.BasicBlock, idx int, pred *ssa.BasicBlock, s *symState, steps int)
	exec = func(b *ssa.BasicBlock, idx int, pred *ssa.BasicBlock, s *symState, steps int) {
		if why != "" {
			return
		}
		if steps > 60 {
			why = "too many blocks on a path"
			return
		}
		for i := idx; i < len(b.Instrs); i++ {
			in := b.Instrs[i]
			switch x := in.(type) {
			case *ssa.DebugRef:
			case *ssa.Phi:
				for k, p := range b.Preds {
					if p == pred {
						v, ok := val(s, x.Edges[k])
						if !ok {
							why = "phi of an unknown value"
							return
						}
						s.vals[x] = v
					}
				}
			case *ssa.FieldAddr:
				obj, ok := val(s, x.X)
				if !ok {
					why = "field of an unknown object"
					return
				}
				f, _ := fieldAddr(x)
				s.vals[x] = "&" + obj + "." + f.Name()
			case *ssa.UnOp:
				if x.Op != token.MUL {
					why = "operation " + x.Op.String()
					return
				}
				a, ok := s.vals[x.X]
				if !ok || !strings.HasPrefix(a, "&") {
					why = "load from an unknown address"
					return
				}
				cell := a[1:]
				v, ok := s.heap[cell]
				if !ok {
					v = cell + "@0"
					s.heap[cell] = v
				}
				s.vals[x] = v
			case *ssa.Store:
				a, ok := s.vals[x.Addr]
				v, ok2 := val(s, x.Val)
				if !ok || !ok2 || !strings.HasPrefix(a, "&") {
					why = "store of/through an unknown value"
					return
				}
				s.heap[a[1:]] = v
			case *ssa.BinOp:
				if x.Op != token.EQL && x.Op != token.NEQ {
					why = "comparison outside pointer tests"
					return
				}
				a, ok1 := val(s, x.X)
				bb, ok2 := val(s, x.Y)
				if !ok1 || !ok2 {
					why = "comparison of an unknown value"
					return
				}
				s.vals[x] = "cmp\x00" + x.Op.String() + "\x00" + a + "\x00" + bb
			case *ssa.If:
				cv := s.vals[x.Cond]
				if !strings.HasPrefix(cv, "cmp\x00") {
					why = "branch on an unknown condition"
					return
				}
				parts := strings.SplitN(cv, "\x00", 4)
				op, a, bb := parts[1], parts[2], parts[3]
				for k := 0; k < 2; k++ {
					s2 := s.clone()
					wantEq := (op == "==") == (k == 0)
					feasible := true
					switch {
					case a == "nil" || bb == "nil":
						sym := a
						if a == "nil" {
							sym = bb
						}
						if sym == "nil" {
							feasible = wantEq
						} else if known, ok := s2.isNil[sym]; ok {
							feasible = known == wantEq
						} else {
							s2.isNil[sym] = wantEq
						}
					case a == bb:
						feasible = wantEq
					default:
						// two different symbols: both outcomes are possible (no alias assumptions)
					}
					if feasible {
						exec(b.Succs[k], 0, b, s2, steps+1)
					}
				}
				return
			case *ssa.Jump:
				exec(b.Succs[0], 0, b, s, steps+1)
				return
			case *ssa.Return:
				if len(x.Results) == 1 {
					if v, ok := val(s, x.Results[0]); ok {
						s.heap["$ret"] = v
					}
				}
				out = append(out, s)
				return
			case *ssa.Call:
				g := calleeFn(x.Common())
				if g == nil || !isModFn(g) || g.Blocks == nil || depth > 2 || len(g.Params) != len(x.Call.Args) {
					why = "call that cannot be executed in place"
					return
				}
				sub := s.clone()
				sub.vals = map[ssa.Value]string{}
				for k, prm := range g.Params {
					a, ok := val(s, x.Call.Args[k])
					if !ok {
						why = "call with an unknown argument"
						return
					}
					sub.vals[prm] = a
				}
				finals, w := symExecFrom(g, sub, depth+1)
				if w != "" {
					why = w
					return
				}
				for _, fs := range finals {
					cont := fs.clone()
					cont.vals = map[ssa.Value]string{}
					for k, v := range s.vals {
						cont.vals[k] = v
					}
					if rv, ok := cont.heap["$ret"]; ok {
						cont.vals[x] = rv
						delete(cont.heap, "$ret")
					}
					exec(b, i+1, pred, cont, steps+1)
				}
				return
			default:
				why = fmt.Sprintf("instruction %T", in)
				return
			}
		}
	}
	exec(fn.Blocks[0], 0, nil, s0, 0)
	if why != "" {
		return nil, why
	}
	return out, ""
}

func (s *symState) describe() string {
	var ks []string
	for k := range s.heap {
		ks = append(ks, k)
	}
	sort.Strings(ks)
	var parts []string
	for _, k := range ks {
		parts = append(parts, k+"="+s.heap[k])
	}
	return strings.Join(parts, " ")
}
