package main

import (
	"fmt"
	"go/token"
	"sort"
	"strings"

	"golang.org/x/tools/go/ssa"
)

// symheap.go: a tiny symbolic executor for list-surgery functions: straight-line field loads and stores on pointer
// parameters with nil tests. Objects are symbols (the parameters, and the initial contents of the fields that are read
// before they are written); every path to a return yields a final heap.

type symState struct {
	heap   map[string]string // "obj.field" -> symbol
	isNil  map[string]bool   // symbol -> known nil / non-nil
	vals   map[ssa.Value]string
	reason string
}

func (s *symState) clone() *symState {
	n := &symState{heap: map[string]string{}, isNil: map[string]bool{}, vals: map[ssa.Value]string{}}
	for k, v := range s.heap {
		n.heap[k] = v
	}
	for k, v := range s.isNil {
		n.isNil[k] = v
	}
	for k, v := range s.vals {
		n.vals[k] = v
	}
	return n
}

// symExec returns the final heaps of fn (one per path) or a reason why the function is outside the fragment.
func symExec(fn *ssa.Function) ([]*symState, string) {
	s0 := &symState{heap: map[string]string{}, isNil: map[string]bool{}, vals: map[ssa.Value]string{}}
	for _, prm := range fn.Params {
		s0.vals[prm] = prm.Name()
		s0.isNil[prm.Name()] = false
	}
	var out []*symState
	why := ""
	var run func(b, pred *ssa.BasicBlock, s *symState, steps int)
	val := func(s *symState, v ssa.Value) (string, bool) {
		if isNilConst(v) {
			return "nil", true
		}
		if x, ok := s.vals[v]; ok {
			return x, true
		}
		return "", false
	}
	run = func(b, pred *ssa.BasicBlock, s *symState, steps int) {
		if steps > 40 || why != "" {
			if why == "" {
				why = "too many blocks on a path"
			}
			return
		}
		for _, in := range b.Instrs {
			switch x := in.(type) {
			case *ssa.DebugRef:
			case *ssa.Phi:
				for k, p := range b.Preds {
					if p == pred {
						if v, ok := val(s, x.Edges[k]); ok {
							s.vals[x] = v
						} else {
							why = "phi of an unknown value"
							return
						}
					}
				}
			case *ssa.FieldAddr:
				obj, ok := val(s, x.X)
				if !ok {
					why = "field of an unknown object"
					return
				}
				f, _ := fieldAddr(x)
				s.vals[x] = "&" + obj + "." + f.Name()
			case *ssa.UnOp:
				if x.Op != token.MUL {
					why = "operation " + x.Op.String()
					return
				}
				a, ok := s.vals[x.X]
				if !ok || !strings.HasPrefix(a, "&") {
					why = "load from an unknown address"
					return
				}
				cell := a[1:]
				v, ok := s.heap[cell]
				if !ok {
					v = cell + "@0"
					s.heap[cell] = v
				}
				s.vals[x] = v
			case *ssa.Store:
				a, ok := s.vals[x.Addr]
				v, ok2 := val(s, x.Val)
				if !ok || !ok2 || !strings.HasPrefix(a, "&") {
					why = "store of/through an unknown value"
					return
				}
				s.heap[a[1:]] = v
			case *ssa.BinOp:
				if (x.Op != token.EQL && x.Op != token.NEQ) || !(isNilConst(x.Y) || isNilConst(x.X)) {
					// pointer equality between two symbols
					if x.Op == token.EQL || x.Op == token.NEQ {
						a, ok1 := val(s, x.X)
						bb, ok2 := val(s, x.Y)
						if ok1 && ok2 {
							s.vals[x] = "cmp:" + x.Op.String() + ":" + a + ":" + bb
							continue
						}
					}
					why = "comparison outside nil tests"
					return
				}
				o := x.X
				if isNilConst(o) {
					o = x.Y
				}
				v, ok := val(s, o)
				if !ok {
					why = "nil test of an unknown value"
					return
				}
				s.vals[x] = "nil?" + x.Op.String() + ":" + v
			case *ssa.If:
				cv := s.vals[x.Cond]
				for k := 0; k < 2; k++ {
					s2 := s.clone()
					feasible := true
					if strings.HasPrefix(cv, "nil?") {
						parts := strings.SplitN(cv[4:], ":", 2)
						op, sym := parts[0], parts[1]
						wantNil := (op == "==") == (k == 0)
						if sym == "nil" {
							feasible = wantNil
						} else if known, ok := s2.isNil[sym]; ok {
							feasible = known == wantNil
						} else {
							s2.isNil[sym] = wantNil
						}
					} else if strings.HasPrefix(cv, "cmp:") {
						parts := strings.SplitN(cv[4:], ":", 3)
						eq := parts[1] == parts[2]
						want := (parts[0] == "==") == (k == 0)
						if eq != want && (parts[1] == parts[2]) {
							feasible = false
						}
					} else {
						why = "branch on an unknown condition"
						return
					}
					if feasible {
						run(b.Succs[k], b, s2, steps+1)
					}
				}
				return
			case *ssa.Jump:
				run(b.Succs[0], b, s, steps+1)
				return
			case *ssa.Return:
				if len(x.Results) == 1 {
					if v, ok := val(s, x.Results[0]); ok {
						s.heap["$ret"] = v
					}
				}
				out = append(out, s)
				return
			default:
				why = fmt.Sprintf("instruction %T", in)
				return
			}
		}
	}
	run(fn.Blocks[0], nil, s0, 0)
	if why != "" {
		return nil, why
	}
	return out, ""
}

func (s *symState) describe() string {
	var ks []string
	for k := range s.heap {
		ks = append(ks, k)
	}
	sort.Strings(ks)
	var parts []string
	for _, k := range ks {
		parts = append(parts, k+"="+s.heap[k])
	}
	return strings.Join(parts, " ")
}
