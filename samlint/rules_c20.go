package main

import (
	"fmt"
	"go/token"
	"go/types"
	"strings"

	"golang.org/x/tools/go/ssa"
)

func init() {
	register(&propDef{
		id: "C20",
		li: levelInfo{
			Level:       "other",
			Explanation: "Static pairing rules on the statistics counters. R1: wherever the active gauge is incremented the total counter is incremented in the same block, and wherever it is decremented the destroyed counter is incremented (listener, TCP upstream, per-host pair). R2: after a successful registration every path of the connection goroutine reaches the release (deferred); the TCP upstream increments are followed by a deferred release with no return in between. R3: the release function updates its counters on every path except the not-registered one - in particular not depending on the registry being cleared by Stop. R4: each completion hook that records an outcome increments exactly one of success/failure on every path. R5: the total counter and the hook registration are adjacent (no return and no call that can complete the request in between). R6: gauges are decremented only inside release functions that run deferred. Numerical equality at quiescence follows from these plus C02 and is not measured. R8: a gauge that a completion hook decrements is incremented before the hook is registered. R9 (shared with C02.R1): every request is completed exactly once on every path.",
			TrustedBase: []string{"go/ssa", "VTA call graph"},
		},
		run: checkC20,
	})
	techniques["C20"] = "static analysis: acquire/release pairing and must-pass-through on the SSA CFG, who-may-decrement over the call graph"
}

// counterOp: method call Inc/Dec/Add on a counter stored in struct field F.
func counterOp(in ssa.Instruction) (*types.Var, string) {
	cc := callOf(in)
	if cc == nil || cc.IsInvoke() || len(cc.Args) == 0 {
		return nil, ""
	}
	g := calleeFn(cc)
	if g == nil {
		return nil, ""
	}
	switch g.Name() {
	case "Inc", "Dec", "Add", "Sub":
	default:
		return nil, ""
	}
	if f, _ := loadedField(cc.Args[0]); f != nil {
		return f, g.Name()
	}
	if f, _ := fieldAddr(cc.Args[0]); f != nil {
		return f, g.Name()
	}
	return nil, ""
}

func checkC20(c *Ctx) {
	p := c.P
	c.Rule("R1", "counters move together: active++ with total++, active-- with destroyed++ (same block)")
	c.Rule("R2", "acquire/release pairing: every path after a counted acquire reaches the (deferred) release")
	c.Rule("R3", "release is total: counters are updated on every path except `not registered`")
	c.Rule("R4", "exactly one outcome counter per completion on every path of each outcome hook")
	c.Rule("R5", "registration before dispatch: total++ and hook registration adjacent")
	c.Rule("R6", "gauges are decremented only in release functions that run deferred")
	c.Rule("R8", "a gauge decremented by a completion hook is incremented before that hook is registered")
	checkHookGaugesBalanced(c, "R8")
	c.Rule("R9", "one outcome per request (shared with C02.R1): every request is completed exactly once on every path - the outcome hooks run once per completion, so a request answered twice is counted twice")
	reportOwn(c, runOwn(c), "R9", nil)

	type pair struct{ gauge, up, down string }
	pairs := []pair{{"CxActive", "CxTotal", "CxDestroyTotal"}, {"connActive", "connTotal", "connDestroy"}}
	scopePkgs := []string{"proc", "proc/redis", "proc/tcp", "host"}
	var fns []*ssa.Function
	for _, rel := range scopePkgs {
		for _, fn := range p.FuncsIn(rel) {
			if !p.isTestFn(fn) {
				fns = append(fns, fn)
			}
		}
	}
	// ---------------- R1 + R6
	nR1 := 0
	for _, fn := range fns {
		for _, b := range fn.Blocks {
			ops := map[string]map[string]ssa.Instruction{}
			for _, in := range b.Instrs {
				if f, m := counterOp(in); f != nil {
					if ops[f.Name()] == nil {
						ops[f.Name()] = map[string]ssa.Instruction{}
					}
					ops[f.Name()][m] = in
				}
			}
			for _, pr := range pairs {
				if in, ok := ops[pr.gauge]["Inc"]; ok {
					nR1++
					site := fmt.Sprintf("%s %s++", fnKey(fn), pr.gauge)
					_, has := ops[pr.up]["Inc"]
					c.Check(has, "R1", site, in.Pos(), pr.up+"++ in the same block", "the active gauge is incremented without the total counter: total != destroyed at quiescence")
				}
				if in, ok := ops[pr.up]["Inc"]; ok {
					site := fmt.Sprintf("%s %s++", fnKey(fn), pr.up)
					_, has := ops[pr.gauge]["Inc"]
					c.Check(has, "R1", site, in.Pos(), pr.gauge+"++ in the same block", "the total counter is incremented without the active gauge: the gauge goes negative when the connection ends")
				}
				if in, ok := ops[pr.gauge]["Dec"]; ok {
					nR1++
					site := fmt.Sprintf("%s %s--", fnKey(fn), pr.gauge)
					_, has := ops[pr.down]["Inc"]
					c.Check(has, "R1", site, in.Pos(), pr.down+"++ in the same block", "the active gauge is decremented without counting the connection as destroyed")
					// R6: the function runs deferred
					okDefer := runsDeferred(p, fn, 3)
					c.Check(okDefer, "R6", fmt.Sprintf("%s %s-- runs deferred", fnKey(fn), pr.gauge), in.Pos(), "the decrement is in a deferred closure or in a function only called from one", "a gauge is decremented outside a release that runs deferred: an early return or panic leaves the gauge positive, or it is decremented twice")
				}
				if in, ok := ops[pr.down]["Inc"]; ok {
					site := fmt.Sprintf("%s %s++", fnKey(fn), pr.down)
					_, has := ops[pr.gauge]["Dec"]
					c.Check(has, "R1", site, in.Pos(), pr.gauge+"-- in the same block", "a connection is counted as destroyed without decrementing the active gauge")
				}
			}
		}
	}
	c.Expect("R1", 8)
	c.Expect("R6", 3)

	// ---------------- R2 + R3: listener
	addConn := p.Func(procPkg, "(*listener).addConn")
	removeConn := p.Func(procPkg, "(*listener).removeConn")
	hrc := p.Func(procPkg, "(*listener).handleRawConn")
	conns := p.Field(procPkg, "listener", "conns")
	if addConn == nil || removeConn == nil || hrc == nil || conns == nil {
		c.Unresolved("R2", "listener.addConn/removeConn/handleRawConn/conns")
	} else {
		var add *ssa.Call
		eachInstr(hrc, func(_ *ssa.BasicBlock, _ int, in ssa.Instruction) {
			if call, ok := in.(*ssa.Call); ok && isCallToFn(call, addConn) {
				add = call
			}
		})
		if add == nil {
			c.Fail("R2", "listener acquire site", hrc.Pos(), "the connection goroutine does not register the connection")
		} else {
			// success branch: true successor of the If on add's result (cond may be negated)
			var okB *ssa.BasicBlock
			for _, r := range *add.Referrers() {
				if iff, ok := r.(*ssa.If); ok {
					okB = iff.Block().Succs[0]
				}
				if u, ok := r.(*ssa.UnOp); ok && u.Op == token.NOT {
					for _, rr := range *u.Referrers() {
						if iff, ok := rr.(*ssa.If); ok {
							okB = iff.Block().Succs[1]
						}
					}
				}
			}
			if okB == nil {
				c.Undecided("R2", "listener acquire branch", add.Pos(), "cannot find the branch on addConn's result")
			} else {
				mm := p.deepMatcher(func(in ssa.Instruction) bool { return isCallToFn(in, removeConn) }, 2)
				path := findPath(ipos{okB, -1}, pathQuery{target: isExit, avoid: mm})
				if path != nil {
					c.Fail("R2", "listener release reached after a successful registration", add.Pos(), "a path of the connection goroutine ends without removeConn (not deferred early enough): "+p.pathString(path))
				} else {
					c.OK("R2", "listener release reached after a successful registration", add.Pos(), "every path from the success branch crosses the deferred release, including panics of the handler")
				}
			}
		}
		// R3: release function
		isDec := func(in ssa.Instruction) bool {
			f, m := counterOp(in)
			return f != nil && f.Name() == "CxActive" && m == "Dec"
		}
		// not-registered edge: false edge of the comma-ok of a lookup in conns
		notReg := map[*ssa.BasicBlock]int{}
		eachInstr(removeConn, func(b *ssa.BasicBlock, _ int, in ssa.Instruction) {
			iff, ok := in.(*ssa.If)
			if !ok {
				return
			}
			if ex, ok := iff.Cond.(*ssa.Extract); ok && ex.Index == 1 {
				if lk, ok := ex.Tuple.(*ssa.Lookup); ok {
					if f, _ := loadedField(lk.X); f == conns {
						notReg[b] = 1
					}
				}
			}
		})
		path := findPath(entryPos(removeConn), pathQuery{target: isReturn, avoid: isDec, edge: func(b *ssa.BasicBlock, k int) bool {
			if nk, ok := notReg[b]; ok && nk == k {
				return false
			}
			return true
		}})
		if path != nil {
			c.Fail("R3", "listener release is total", removeConn.Pos(), "the release returns without updating destroyed/active although the connection was counted (e.g. when Stop has cleared the registry): "+p.pathString(path)+"; connections open at stop are never counted as destroyed and the gauge stays positive")
		} else {
			c.OK("R3", "listener release is total", removeConn.Pos(), "only the `not registered` edge skips the counters")
		}
	}

	// ---------------- R2: TCP upstream
	hc := p.Func("proc/tcp", "(*tcpProc).HandleConn")
	if hc == nil {
		c.Unresolved("R2", "(*tcpProc).HandleConn")
	} else {
		var inc ssa.Instruction
		eachInstr(hc, func(_ *ssa.BasicBlock, _ int, in ssa.Instruction) {
			if f, m := counterOp(in); f != nil && f.Name() == "CxActive" && m == "Inc" {
				inc = in
			}
		})
		if inc == nil {
			c.Fail("R2", "tcp upstream acquire site", hc.Pos(), "the TCP handler does not count upstream connections")
		} else {
			isRelease := func(in ssa.Instruction) bool {
				d, ok := in.(*ssa.Defer)
				if !ok {
					return false
				}
				g := funcValue(d.Call.Value)
				if g == nil {
					return false
				}
				has := false
				eachInstr(g, func(_ *ssa.BasicBlock, _ int, x ssa.Instruction) {
					if f, m := counterOp(x); f != nil && f.Name() == "CxActive" && m == "Dec" {
						has = true
					}
				})
				return has
			}
			path := findPath(posOf(inc), pathQuery{target: isExit, avoid: isRelease})
			if path != nil {
				c.Fail("R2", "tcp upstream release deferred right after the acquire", inc.Pos(), "a path leaves the handler after the upstream counters were incremented without the deferred release in place: "+p.pathString(path))
			} else {
				c.OK("R2", "tcp upstream release deferred right after the acquire", inc.Pos(), "every path from the increments crosses the defer of the releasing closure")
			}
			// host pair: IncConnCount before, DecConnCount inside the same deferred closure
			hasHostInc, hasHostDec := false, false
			eachInstr(hc, func(_ *ssa.BasicBlock, _ int, in ssa.Instruction) {
				if cc := callOf(in); cc != nil {
					if g := calleeFn(cc); g != nil && g.Name() == "IncConnCount" && in.Block() == inc.Block() {
						hasHostInc = true
					}
				}
			})
			// the deferred release: a closure, or a function/method deferred directly
			var released []*ssa.Function
			eachInstr(hc, func(_ *ssa.BasicBlock, _ int, in ssa.Instruction) {
				if d, ok := in.(*ssa.Defer); ok {
					if g, _ := methodCall(&d.Call); g != nil && g.Blocks != nil && isModFn(g) {
						released = append(released, g)
					} else if g := funcValue(d.Call.Value); g != nil && g.Blocks != nil {
						released = append(released, g)
					}
				}
			})
			for _, a := range released {
				dec, hd := false, false
				eachInstr(a, func(_ *ssa.BasicBlock, _ int, in ssa.Instruction) {
					if f, m := counterOp(in); f != nil && f.Name() == "CxActive" && m == "Dec" {
						dec = true
					}
					if cc := callOf(in); cc != nil {
						if g := calleeFn(cc); g != nil && g.Name() == "DecConnCount" {
							hd = true
						}
					}
				})
				if dec && hd {
					hasHostDec = true
				}
			}
			c.Check(hasHostInc && hasHostDec, "R2", "per-host connection count paired with the upstream counters", inc.Pos(), "IncConnCount next to the increments, DecConnCount in the same deferred release", "the per-host connection count is not incremented and decremented together with the upstream counters (least-connection balancing drifts)")
		}
	}
	c.Expect("R2", 3)
	c.Expect("R3", 1)

	// ---------------- R4 + R5: outcome hooks
	outcomeSets := [][2]string{{"RqSuccessTotal", "RqFailureTotal"}, {"Success", "Error"}}
	nhooks := 0
	// hookTarget resolves a function value passed as a hook: closure, function, or bound method wrapper
	hookTarget := func(v ssa.Value) *ssa.Function {
		g := funcValue(v)
		if g == nil {
			return nil
		}
		if g.Synthetic != "" && g.Blocks != nil {
			var t *ssa.Function
			eachInstr(g, func(_ *ssa.BasicBlock, _ int, x ssa.Instruction) {
				if c2 := callOf(x); c2 != nil && calleeFn(c2) != nil {
					t = calleeFn(c2)
				}
			})
			return t
		}
		return g
	}
	covers := func(v ssa.Value, fn *ssa.Function) bool {
		h := hookTarget(v)
		if h == nil {
			return false
		}
		if h == fn {
			return true
		}
		for _, g := range staticCalleesDeep(h, 2) {
			if g == fn {
				return true
			}
		}
		return false
	}
	for _, fn := range fns {
		for _, os := range outcomeSets {
			var incs []ssa.Instruction
			eachInstr(fn, func(_ *ssa.BasicBlock, _ int, in ssa.Instruction) {
				if f, m := counterOp(in); f != nil && m == "Inc" && (f.Name() == os[0] || f.Name() == os[1]) {
					incs = append(incs, in)
				}
			})
			if len(incs) == 0 {
				continue
			}
			nhooks++
			site := fmt.Sprintf("%s outcome {%s,%s}", fnKey(fn), os[0], os[1])
			isOut := func(in ssa.Instruction) bool {
				for _, x := range incs {
					if x == in {
						return true
					}
				}
				return false
			}
			path := escapesWithout(entryPos(fn), isOut)
			twice := false
			for _, x := range incs {
				if findPath(posOf(x), pathQuery{target: isOut}) != nil {
					twice = true
				}
			}
			has0, has1 := false, false
			for _, x := range incs {
				f, _ := counterOp(x)
				if f.Name() == os[0] {
					has0 = true
				} else {
					has1 = true
				}
			}
			switch {
			case path != nil:
				c.Fail("R4", site, fn.Pos(), "a completion path records neither success nor failure: total != success + failure ("+p.pathString(path)+")")
			case twice:
				c.Fail("R4", site, fn.Pos(), "a completion path records two outcomes")
			case !has0 || !has1:
				c.Fail("R4", site, fn.Pos(), "the hook never records one of the two outcomes")
			default:
				c.OK("R4", site, fn.Pos(), "exactly one of the two counters on every path")
			}
			// outcome decided by the reply type being Error
			okType := false
			eachInstr(fn, func(_ *ssa.BasicBlock, _ int, in ssa.Instruction) {
				if bo, ok := in.(*ssa.BinOp); ok && (bo.Op == token.EQL || bo.Op == token.NEQ) {
					if f, _ := loadedField(bo.X); f != nil && f.Name() == "Type" {
						if cv, isC := constInt(bo.Y); isC && cv == '-' {
							okType = true
						}
					}
				}
			})
			c.Check(okType, "R4", site+" decided by reply type", fn.Pos(), "branch on reply.Type == Error", "the outcome is not decided by the reply being an error")
			// R5: in the function that registers this hook, total++ and the registration are adjacent
			var par *ssa.Function
			for _, cand := range fns {
				eachInstr(cand, func(_ *ssa.BasicBlock, _ int, in ssa.Instruction) {
					if cc := callOf(in); cc != nil && len(cc.Args) == 2 {
						if covers(cc.Args[1], fn) {
							par = cand
						}
					}
				})
			}
			if par == nil {
				c.Fail("R5", fmt.Sprintf("%s is registered as a hook", fnKey(fn)), fn.Pos(), "a function that records request outcomes is never registered as a completion hook")
				continue
			}
			totalName := "RqTotal"
			if os[0] == "Success" {
				totalName = "Total"
			}
			var tot, reg ssa.Instruction
			eachInstr(par, func(_ *ssa.BasicBlock, _ int, in ssa.Instruction) {
				if f, m := counterOp(in); f != nil && f.Name() == totalName && m == "Inc" {
					tot = in
				}
				if cc := callOf(in); cc != nil && len(cc.Args) == 2 {
					if covers(cc.Args[1], fn) {
						reg = in
					}
				}
			})
			site5 := fmt.Sprintf("%s %s++ then hook", fnKey(par), totalName)
			if tot == nil || reg == nil {
				c.Fail("R5", site5, par.Pos(), "the function that registers the outcome hook does not increment "+totalName)
				continue
			}
			okAdj := tot.Block() == reg.Block() && posOf(tot).i < posOf(reg).i
			if okAdj {
				b := tot.Block()
				for i := posOf(tot).i + 1; i < posOf(reg).i; i++ {
					if cc := callOf(b.Instrs[i]); cc != nil {
						for _, a := range cc.Args {
							if isReqType(a.Type()) {
								okAdj = false
							}
						}
					}
				}
			}
			c.Check(okAdj, "R5", site5, tot.Pos(), "same block, no call taking the request in between", "between "+totalName+"++ and the registration of the outcome hook the request can be completed or the function can return: total != success + failure")
		}
	}
	c.Check(nhooks >= 3, "R4", "outcome hooks found", token.NoPos, fmt.Sprintf("%d hooks", nhooks), fmt.Sprintf("expected at least 3 outcome hooks (downstream, per command, upstream), found %d", nhooks))
	c.Expect("R4", 6)
	c.Expect("R5", 3)
	_ = strings.Join
}

// runsDeferred: fn is a deferred closure, or every call site of fn is a Defer or lies in a function that runsDeferred.
func runsDeferred(p *Prog, fn *ssa.Function, depth int) bool {
	if depth < 0 {
		return false
	}
	if fn.Parent() != nil {
		par := fn.Parent()
		ok := false
		eachInstr(par, func(_ *ssa.BasicBlock, _ int, in ssa.Instruction) {
			if d, isD := in.(*ssa.Defer); isD {
				if g := funcValue(d.Call.Value); g == fn {
					ok = true
				}
			}
		})
		return ok
	}
	edges := p.callersOf(fn)
	if len(edges) == 0 {
		return false
	}
	for _, ed := range edges {
		if _, isD := ed.Site.(*ssa.Defer); isD {
			continue
		}
		if cf := ed.Caller.Func; cf.Synthetic != "" && len(p.callersOf(cf)) == 0 {
			continue // method-set wrapper nobody calls
		}
		if !runsDeferred(p, ed.Caller.Func, depth-1) {
			return false
		}
	}
	return true
}

// checkHookGaugesBalanced (C20.R8): a gauge that a completion hook decrements is incremented before the hook can run.
// The hook runs whenever the request is completed - also by the early returns of the function that registered it
// (upstream stopped, no connection) - so an increment placed further down, "when the request is really handed over",
// is skipped on those paths while the decrement is not: the unsigned gauge wraps and is non-zero at quiescence.
func checkHookGaugesBalanced(c *Ctx, rule string) {
	p := c.P
	n := 0
	for _, rel := range []string{"proc", "proc/redis", "proc/tcp"} {
		for _, fn := range p.FuncsIn(rel) {
			if p.isTestFn(fn) {
				continue
			}
			eachInstr(fn, func(_ *ssa.BasicBlock, _ int, in ssa.Instruction) {
				call, ok := in.(*ssa.Call)
				if !ok {
					return
				}
				g := calleeFn(call.Common())
				if g == nil || g.Name() != "RegisterHook" || len(call.Call.Args) < 2 {
					return
				}
				hook := declaredFn(funcValue(call.Call.Args[1]))
				if hook == nil || hook.Blocks == nil {
					return
				}
				for _, hf := range append([]*ssa.Function{hook}, staticCalleesDeep(hook, 1)...) {
					if hf.Blocks == nil || !isModFn(hf) {
						continue
					}
					eachInstr(hf, func(_ *ssa.BasicBlock, _ int, x ssa.Instruction) {
						f, m := counterOp(x)
						if f == nil || (m != "Dec" && m != "Sub") {
							return
						}
						// metrics only (not the child counter of a split command, not time arithmetic)
						if sg := calleeFn(callOf(x)); sg == nil || sg.Pkg == nil || !strings.HasSuffix(sg.Pkg.Pkg.Path(), "/stats") {
							return
						}
						n++
						// the matching increment: same counter, in the registering function, before the registration
						okInc := false
						eachInstr(fn, func(_ *ssa.BasicBlock, _ int, y ssa.Instruction) {
							if f2, m2 := counterOp(y); f2 == f && (m2 == "Inc" || m2 == "Add") && instrDominates(y, call) {
								okInc = true
							}
						})
						c.Check(okInc, rule, fmt.Sprintf("%s hook#%d: %s is incremented before the hook is registered", fnKey(fn), n, f.Name()), x.Pos(), "the increment dominates the registration of the hook that decrements", "the completion hook decrements gauge "+f.Name()+", but the registering function increments it only later (or not at all): a request that is completed by one of the early returns in between - upstream stopped, connection refused - runs the hook without the increment, the unsigned gauge wraps around and stays non-zero when nothing is in flight")
					})
				}
			})
		}
	}
	if n == 0 {
		c.OK(rule, "no gauge is decremented by a completion hook", token.NoPos, "nothing to balance")
	}
}
