package main

import "strings"

// Reference data embedded in the checker (part of the oracle; see DESIGN.md section 6).

// redisCmd describes one command of the Redis <= 5.0 command table
// (redis/src/server.c, redisCommandTable, release 5.0): flags as given there
// (w = write, r = read-only, a = admin, s = no-script, p = pubsub, ...),
// and the position of the first key argument (0 = no key argument in a fixed position).
type redisCmd struct {
	flags    string
	firstKey int
	class    string // "" keyed data command; otherwise why it must not be forwarded by a generic keyed handler
}

func rc(flags string, fk int, class string) redisCmd { return redisCmd{flags, fk, class} }

var redisRef = map[string]redisCmd{
	"module": rc("as", 0, "admin"),
	"get":    rc("rF", 1, ""), "set": rc("wm", 1, ""), "setnx": rc("wmF", 1, ""), "setex": rc("wm", 1, ""),
	"psetex": rc("wm", 1, ""), "append": rc("wm", 1, ""), "strlen": rc("rF", 1, ""),
	"del": rc("w", 1, ""), "unlink": rc("wF", 1, ""), "exists": rc("rF", 1, ""),
	"setbit": rc("wm", 1, ""), "getbit": rc("rF", 1, ""), "bitfield": rc("wm", 1, ""),
	"setrange": rc("wm", 1, ""), "getrange": rc("r", 1, ""), "substr": rc("r", 1, ""),
	"incr": rc("wmF", 1, ""), "decr": rc("wmF", 1, ""), "mget": rc("rF", 1, "multi-key"),
	"rpush": rc("wmF", 1, ""), "lpush": rc("wmF", 1, ""), "rpushx": rc("wmF", 1, ""), "lpushx": rc("wmF", 1, ""),
	"linsert": rc("wm", 1, ""), "rpop": rc("wF", 1, ""), "lpop": rc("wF", 1, ""),
	"brpop": rc("ws", 1, "blocking"), "brpoplpush": rc("wms", 1, "blocking"), "blpop": rc("ws", 1, "blocking"),
	"llen": rc("rF", 1, ""), "lindex": rc("r", 1, ""), "lset": rc("wm", 1, ""), "lrange": rc("r", 1, ""),
	"ltrim": rc("w", 1, ""), "lrem": rc("w", 1, ""), "rpoplpush": rc("wm", 1, ""),
	"sadd": rc("wmF", 1, ""), "srem": rc("wF", 1, ""), "smove": rc("wF", 1, ""), "sismember": rc("rF", 1, ""),
	"scard": rc("rF", 1, ""), "spop": rc("wRF", 1, ""), "srandmember": rc("rR", 1, ""),
	"sinter": rc("rS", 1, ""), "sinterstore": rc("wm", 1, ""), "sunion": rc("rS", 1, ""), "sunionstore": rc("wm", 1, ""),
	"sdiff": rc("rS", 1, ""), "sdiffstore": rc("wm", 1, ""), "smembers": rc("rS", 1, ""), "sscan": rc("rR", 1, ""),
	"zadd": rc("wmF", 1, ""), "zincrby": rc("wmF", 1, ""), "zrem": rc("wF", 1, ""),
	"zremrangebyscore": rc("w", 1, ""), "zremrangebyrank": rc("w", 1, ""), "zremrangebylex": rc("w", 1, ""),
	// destination key is argument 1 (the table uses a getkeys procedure: dest + numkeys sources)
	"zunionstore": rc("wm", 1, ""), "zinterstore": rc("wm", 1, ""),
	"zrange": rc("r", 1, ""), "zrangebyscore": rc("r", 1, ""), "zrevrangebyscore": rc("r", 1, ""),
	"zrangebylex": rc("r", 1, ""), "zrevrangebylex": rc("r", 1, ""), "zcount": rc("rF", 1, ""),
	"zlexcount": rc("rF", 1, ""), "zrevrange": rc("r", 1, ""), "zcard": rc("rF", 1, ""), "zscore": rc("rF", 1, ""),
	"zrank": rc("rF", 1, ""), "zrevrank": rc("rF", 1, ""), "zscan": rc("rR", 1, ""),
	"zpopmin": rc("wF", 1, ""), "zpopmax": rc("wF", 1, ""),
	"bzpopmin": rc("wsF", 1, "blocking"), "bzpopmax": rc("wsF", 1, "blocking"),
	"hset": rc("wmF", 1, ""), "hsetnx": rc("wmF", 1, ""), "hget": rc("rF", 1, ""), "hmset": rc("wmF", 1, ""),
	"hmget": rc("rF", 1, ""), "hincrby": rc("wmF", 1, ""), "hincrbyfloat": rc("wmF", 1, ""), "hdel": rc("wF", 1, ""),
	"hlen": rc("rF", 1, ""), "hstrlen": rc("rF", 1, ""), "hkeys": rc("rS", 1, ""), "hvals": rc("rS", 1, ""),
	"hgetall": rc("rR", 1, ""), "hexists": rc("rF", 1, ""), "hscan": rc("rR", 1, ""),
	"incrby": rc("wmF", 1, ""), "decrby": rc("wmF", 1, ""), "incrbyfloat": rc("wmF", 1, ""), "getset": rc("wm", 1, ""),
	"mset": rc("wm", 1, "multi-key"), "msetnx": rc("wm", 1, "multi-key-atomic"),
	"randomkey": rc("rR", 0, "keyspace"), "select": rc("lF", 0, "connection-state"), "swapdb": rc("wF", 0, "keyspace"),
	"move": rc("wF", 1, "keyspace"), "rename": rc("w", 1, "multi-key-atomic"), "renamenx": rc("wF", 1, "multi-key-atomic"),
	"expire": rc("wF", 1, ""), "expireat": rc("wF", 1, ""), "pexpire": rc("wF", 1, ""), "pexpireat": rc("wF", 1, ""),
	"keys": rc("rS", 0, "keyspace"), "scan": rc("rR", 0, "keyspace"), "dbsize": rc("rF", 0, "keyspace"),
	"auth": rc("sltF", 0, "connection-state"), "ping": rc("tF", 0, "connection"), "echo": rc("F", 0, "connection"),
	"save": rc("as", 0, "admin"), "bgsave": rc("as", 0, "admin"), "bgrewriteaof": rc("as", 0, "admin"),
	"shutdown": rc("aslt", 0, "admin"), "lastsave": rc("RF", 0, "admin"), "type": rc("rF", 1, ""),
	"multi": rc("sF", 0, "transaction"), "exec": rc("sM", 0, "transaction"), "discard": rc("sF", 0, "transaction"),
	"sync": rc("ars", 0, "admin"), "psync": rc("ars", 0, "admin"), "replconf": rc("aslt", 0, "admin"),
	"flushdb": rc("w", 0, "keyspace"), "flushall": rc("w", 0, "keyspace"),
	"sort": rc("wm", 1, ""), "info": rc("ltR", 0, "admin"), "monitor": rc("as", 0, "admin"),
	"ttl": rc("rFR", 1, ""), "touch": rc("rF", 1, ""), "pttl": rc("rFR", 1, ""), "persist": rc("wF", 1, ""),
	"slaveof": rc("ast", 0, "admin"), "replicaof": rc("ast", 0, "admin"), "role": rc("lst", 0, "admin"),
	"debug": rc("as", 0, "admin"), "config": rc("lat", 0, "admin"),
	"subscribe": rc("pslt", 0, "pubsub"), "unsubscribe": rc("pslt", 0, "pubsub"), "psubscribe": rc("pslt", 0, "pubsub"),
	"punsubscribe": rc("pslt", 0, "pubsub"), "publish": rc("pltF", 0, "pubsub"), "pubsub": rc("pltR", 0, "pubsub"),
	"watch": rc("sF", 1, "transaction"), "unwatch": rc("sF", 0, "transaction"),
	"cluster": rc("a", 0, "admin"), "restore": rc("wm", 1, ""), "restore-asking": rc("wmk", 1, "cluster-internal"),
	"migrate": rc("wR", 0, "keyspace"), "asking": rc("F", 0, "cluster-internal"), "readonly": rc("F", 0, "cluster-internal"),
	"readwrite": rc("F", 0, "cluster-internal"), "dump": rc("rR", 1, ""), "object": rc("rR", 2, "key-not-first"),
	"memory": rc("rR", 0, "admin"), "client": rc("as", 0, "admin"),
	"eval": rc("s", 0, "script"), "evalsha": rc("s", 0, "script-cache"), "slowlog": rc("aR", 0, "admin"),
	"script": rc("s", 0, "script-cache"), "time": rc("RF", 0, "admin"), "bitop": rc("wm", 2, "key-not-first"),
	"bitcount": rc("r", 1, ""), "bitpos": rc("r", 1, ""), "wait": rc("s", 0, "connection-state"),
	"command": rc("ltR", 0, "admin"),
	"geoadd":  rc("wm", 1, ""), "georadius": rc("w", 1, ""), "georadius_ro": rc("r", 1, ""),
	"georadiusbymember": rc("w", 1, ""), "georadiusbymember_ro": rc("r", 1, ""),
	"geohash": rc("r", 1, ""), "geopos": rc("r", 1, ""), "geodist": rc("r", 1, ""),
	"pfselftest": rc("a", 0, "admin"), "pfadd": rc("wmF", 1, ""), "pfcount": rc("r", 1, ""), "pfmerge": rc("wm", 1, ""),
	"pfdebug": rc("w", 0, "admin"),
	"xadd":    rc("wmFR", 1, ""), "xrange": rc("r", 1, ""), "xrevrange": rc("r", 1, ""), "xlen": rc("rF", 1, ""),
	"xread": rc("rs", 0, "blocking"), "xreadgroup": rc("ws", 0, "blocking"), "xgroup": rc("wm", 2, "key-not-first"),
	"xsetid": rc("wmF", 1, ""), "xack": rc("wF", 1, ""), "xpending": rc("rR", 1, ""), "xclaim": rc("wRF", 1, ""),
	"xinfo": rc("rR", 2, "key-not-first"), "xdel": rc("wF", 1, ""), "xtrim": rc("wFR", 1, ""),
	"post": rc("lt", 0, "admin"), "host:": rc("lt", 0, "admin"), "latency": rc("aslt", 0, "admin"), "lolwut": rc("r", 0, "admin"),
}

func (c redisCmd) isWrite() bool { return strings.Contains(c.flags, "w") }
func (c redisCmd) isReadOnly() bool {
	return strings.Contains(c.flags, "r") && !strings.Contains(c.flags, "w")
}

// docUnsupported is the repository's documented "Unsupported" list
// (docs/src/arch/protocol/redis/redis.md); reported, not authoritative (it lists SCAN,
// which has a dedicated handler).
var docUnsupported = strings.Fields(strings.ToLower(`KEYS MIGRATE MOVE OBJECT RANDOMKEY RENAME RENAMENX SCAN WAIT
 BITOP MSETNX BLPOP BRPOP BRPOPLPUSH PSUBSCRIBE PUBLISH PUBSUB PUNSUBSCRIBE SUBSCRIBE UNSUBSCRIBE
 EVALSHA SCRIPT DISCARD EXEC MULTI UNWATCH WATCH CLUSTER ECHO
 BGREWRITEAOF BGSAVE CLIENT COMMAND CONFIG DBSIZE DEBUG FLUSHALL FLUSHDB LASTSAVE MONITOR ROLE SAVE SHUTDOWN SLAVEOF SYNC SLOWLOG`))

// dedicatedHandlers: names that must be bound to their own (non-generic) handler.
var dedicatedHandlers = []string{"eval", "mset", "mget", "scan", "hotkey", "ping", "quit", "info", "time", "select"}

// localCommands are answered by the proxy itself (C14).
var localCommands = []string{"ping", "quit", "select", "info", "time", "hotkey"}

// compression reference (C13): position of the first value and stride, Redis syntax.
var cpsValuePos = map[string]int{
	"set": 2, "getset": 2, "setnx": 2,
	"setex": 3, "psetex": 3, "hset": 3, "hsetnx": 3, "hmset": 3,
}

// documented list of commands disabled under compression (filter_compress.go comment / changelog)
var cpsBanned = []string{"append", "eval", "getbit", "getrange", "setbit", "setrange"}

// commands whose reply can carry a stored string/hash value (must never skip the decompress hook)
// (set: with the GET option SET returns the previous value)
var valueReturning = []string{"get", "getset", "mget", "hget", "hmget", "hgetall", "hvals", "getrange", "substr", "dump", "hscan", "eval", "set"}
