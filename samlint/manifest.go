package main

import (
	"encoding/json"
	"fmt"
	"os"
	"sort"
)

// reasons for properties that have no registered check (kept current by `samlint manifest`).
var notApplicable = map[string]string{}

var techniques = map[string]string{}

func cmdManifest() int {
	var ids []string
	for id := range props {
		ids = append(ids, id)
	}
	sort.Strings(ids)
	checks := []map[string]interface{}{}
	served := []string{}
	for _, id := range ids {
		pd := props[id]
		served = append(served, id)
		tech := techniques[id]
		if tech == "" {
			tech = "static analysis: repository-specific rules over go/ssa CFG + VTA call graph"
		}
		note := "trusted: go/packages+go/types+go/ssa (x/tools v0.29.0), VTA call graph"
		for _, a := range pd.li.Assumptions {
			note += "; " + a
		}
		checks = append(checks, map[string]interface{}{
			"property_id":         id,
			"quick_cmd":           fmt.Sprintf("/verif/bin/samlint check -prop %s -tier quick", id),
			"thorough_cmd":        fmt.Sprintf("/verif/bin/samlint check -prop %s -tier thorough", id),
			"evidence_file":       fmt.Sprintf("/verif/evidence/%s.json", id),
			"replay_cmd_template": "/verif/bin/samlint replay {path}",
			"engine":              "samlint",
			"level_claimed": map[string]string{
				"category":   pd.li.Level,
				"text":       pd.li.Explanation,
				"design_ref": "DESIGN.md section 4, " + id,
			},
			"level_note": note,
			"technique":  tech,
		})
	}
	na := []map[string]string{}
	var naIDs []string
	for id := range notApplicable {
		if props[id] == nil {
			naIDs = append(naIDs, id)
		}
	}
	sort.Strings(naIDs)
	for _, id := range naIDs {
		na = append(na, map[string]string{"property_id": id, "reason": notApplicable[id]})
	}
	m := map[string]interface{}{
		"version":   1,
		"setup_cmd": "cd /verif/samlint && GOFLAGS=-mod=vendor GOPROXY=off GOSUMDB=off GOTOOLCHAIN=local GOWORK=off go build -o /verif/bin/samlint .",
		"hooks": map[string]interface{}{
			"guard":            "verif",
			"enable":           "none needed: the checks read source; no hook commit exists in /repo (the guard name is declared and unused)",
			"baseline_off_cmd": "cd /repo && go test -mod=mod -json -vet=off -count=1 -timeout 25m ./...",
			"source_commits":   []string{},
			"add_only":         true,
		},
		"engines": []map[string]interface{}{{
			"name": "samlint", "path": "/verif/samlint", "serves_properties": served,
			"kind_free_text": "repository-specific static analyser (go/packages, go/ssa, go/cfg-style path rules, VTA call graph, constant-table extraction, GF(2)-affine and zone abstract domains)",
		}},
		"checks":         checks,
		"not_applicable": na,
		"notes":          "All verdicts are computed from the type-checked source under /repo on every run; nothing from /repo is executed. Known findings: /verif/known_findings.jsonl. Seeded changes used to test the checks: /verif/seeded/.",
	}
	b, _ := json.MarshalIndent(m, "", " ")
	os.Stdout.Write(append(b, '\n'))
	return 0
}
