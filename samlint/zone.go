package main

import "math"

// Zone: difference-bound matrix over named integer variables.
// m[i][j] = c means x_i - x_j <= c. Variable "0" is the constant zero.

const zInf = math.MaxInt64 / 4

type Zone struct {
	idx map[string]int
	m   [][]int64
}

func newZone() *Zone {
	z := &Zone{idx: map[string]int{}}
	z.v("0")
	return z
}

func (z *Zone) clone() *Zone {
	n := &Zone{idx: map[string]int{}}
	for k, v := range z.idx {
		n.idx[k] = v
	}
	n.m = make([][]int64, len(z.m))
	for i := range z.m {
		n.m[i] = append([]int64(nil), z.m[i]...)
	}
	return n
}

func (z *Zone) v(name string) int {
	if i, ok := z.idx[name]; ok {
		return i
	}
	i := len(z.m)
	z.idx[name] = i
	for k := range z.m {
		z.m[k] = append(z.m[k], zInf)
	}
	row := make([]int64, i+1)
	for k := range row {
		row[k] = zInf
	}
	row[i] = 0
	z.m = append(z.m, row)
	return i
}

// lterm is variable + constant ("0" variable for pure constants).
type lterm struct {
	v string
	c int64
}

func lconst(c int64) lterm { return lterm{"0", c} }

// addLE asserts a <= b.
func (z *Zone) addLE(a, b lterm) {
	// a.v + a.c <= b.v + b.c  =>  a.v - b.v <= b.c - a.c
	i, j := z.v(a.v), z.v(b.v)
	c := b.c - a.c
	if c < z.m[i][j] {
		z.m[i][j] = c
		z.close()
	}
}

func (z *Zone) addLT(a, b lterm) { z.addLE(lterm{a.v, a.c + 1}, b) }
func (z *Zone) addEQ(a, b lterm) { z.addLE(a, b); z.addLE(b, a) }

func (z *Zone) close() {
	n := len(z.m)
	for k := 0; k < n; k++ {
		for i := 0; i < n; i++ {
			if z.m[i][k] >= zInf {
				continue
			}
			for j := 0; j < n; j++ {
				if z.m[k][j] >= zInf {
					continue
				}
				if s := z.m[i][k] + z.m[k][j]; s < z.m[i][j] {
					z.m[i][j] = s
				}
			}
		}
	}
}

func (z *Zone) consistent() bool {
	for i := range z.m {
		if z.m[i][i] < 0 {
			return false
		}
	}
	return true
}

// entLE: the zone entails a <= b.
func (z *Zone) entLE(a, b lterm) bool {
	if !z.consistent() {
		return true
	}
	i, ok1 := z.idx[a.v]
	j, ok2 := z.idx[b.v]
	if !ok1 || !ok2 {
		if a.v == b.v {
			return a.c <= b.c
		}
		return false
	}
	return z.m[i][j] <= b.c-a.c
}

func (z *Zone) entLT(a, b lterm) bool { return z.entLE(lterm{a.v, a.c + 1}, b) }
func (z *Zone) entEQ(a, b lterm) bool { return z.entLE(a, b) && z.entLE(b, a) }
func (z *Zone) entNE(a, b lterm) bool { return z.entLT(a, b) || z.entLT(b, a) }

// tri-state decision of a comparison: 1 true, 0 false, -1 unknown.
func (z *Zone) decide(op string, a, b lterm) int {
	switch op {
	case "==":
		if z.entEQ(a, b) {
			return 1
		}
		if z.entNE(a, b) {
			return 0
		}
	case "!=":
		if z.entNE(a, b) {
			return 1
		}
		if z.entEQ(a, b) {
			return 0
		}
	case "<":
		if z.entLT(a, b) {
			return 1
		}
		if z.entLE(b, a) {
			return 0
		}
	case "<=":
		if z.entLE(a, b) {
			return 1
		}
		if z.entLT(b, a) {
			return 0
		}
	case ">":
		return z.decide("<", b, a)
	case ">=":
		return z.decide("<=", b, a)
	}
	return -1
}
