package main

import (
	"fmt"
	"go/token"
	"go/types"
	"sort"

	"golang.org/x/tools/go/ssa"
)

func init() {
	register(&propDef{
		id: "C12",
		li: levelInfo{
			Level:       "proof",
			Explanation: "Decided for all inputs without executing anything. O1: the 256 constants of the CRC table (read from the program's initialiser stores) equal the remainders for polynomial 0x1021 and the table is GF(2)-linear. O2: the SSA of the fold body is interpreted over GF(2)-affine forms in the 16 state bits and 8 byte bits; the resulting 16x24 bit-matrix must equal that of one CRC-16/XMODEM step, which covers all 2^16 x 2^8 (state, byte) pairs at once. O3: the fold starts at 0, visits indices 0..len-1 once each in order and returns the loop-carried state. O4: the two scans of the hash-tag function are recognised as first-index loops and its branch structure is evaluated in a zone domain over the four orderings of ('{' position, '}' position, length); the returned expression must be whole key / whole key / whole key / b[i+1:j]. O5: the routing index is crc16(hashtag(key)) & 16383 into a 16384-entry table, no other computed read index exists, and every address the router returns is taken from that entry unless the entry is nil (the C14.R5 obligations on the router are re-evaluated here). O4 also requires both brace positions to be first occurrences (bytes.LastIndexByte is rejected) and the second scan to start after the first brace.",
			Assumptions: []string{"polynomial 0x1021 (CRC-16/XMODEM) and the Redis Cluster hash-tag rule are the reference", "the checker's affine domain, zone domain and first-index-loop lemma are correct (about 500 lines)"},
			TrustedBase: []string{"go/packages + go/ssa construction", "samlint ebits.go (GF(2)-affine domain)", "samlint zone.go (difference-bound matrices)", "first-index loop lemma in rules_c12.go", "CRC-16/XMODEM polynomial 0x1021; Redis Cluster specification hash-tag text"},
		},
		run: checkC12,
	})
	techniques["C12"] = "static analysis: GF(2)-affine abstract interpretation of the CRC fold body over SSA, constant-table extraction, zone-domain evaluation of the hash-tag decision tree"
}

func crcRefTable() [256]uint16 {
	var t [256]uint16
	for i := 0; i < 256; i++ {
		crc := uint16(i) << 8
		for k := 0; k < 8; k++ {
			if crc&0x8000 != 0 {
				crc = crc<<1 ^ 0x1021
			} else {
				crc <<= 1
			}
		}
		t[i] = crc
	}
	return t
}

// loopShape describes a simple counted loop over indices of a slice parameter.
type loopShape struct {
	header   *ssa.BasicBlock
	body     *ssa.BasicBlock
	exit     *ssa.BasicBlock
	phi      *ssa.Phi  // induction phi
	useIdx   ssa.Value // the value that indexes the slice in iteration (phi, or phi+1 in range form)
	initOK   bool      // sequence of useIdx starts at 0
	bound    ssa.Value // compared against (useIdx < bound)
	initTerm ssa.Value // initial value of useIdx sequence (for non-zero starts): value v such that first useIdx = v
	initAdd  int64     // first useIdx = initTerm + initAdd
	step     int64     // the induction variable advances by this constant (1 unless found by findCountedLoopStep)
}

// findCountedLoop recognises `for i := init; i < bound; i++` (and the range lowering) at header h.
func findCountedLoop(h *ssa.BasicBlock) (*loopShape, string) {
	ls, why := findCountedLoopStep(h)
	if ls != nil && ls.step != 1 {
		return nil, "induction step is not +1"
	}
	return ls, why
}

// findCountedLoopStep: like findCountedLoop, with any positive constant step.
func findCountedLoopStep(h *ssa.BasicBlock) (*loopShape, string) {
	if len(h.Instrs) == 0 {
		return nil, "empty block"
	}
	iff, ok := h.Instrs[len(h.Instrs)-1].(*ssa.If)
	if !ok {
		return nil, "header does not end in a conditional branch"
	}
	cmp, ok := iff.Cond.(*ssa.BinOp)
	if !ok || cmp.Op != token.LSS {
		return nil, "loop condition is not `index < bound`"
	}
	ls := &loopShape{header: h, body: h.Succs[0], exit: h.Succs[1], bound: cmp.Y}
	var phi *ssa.Phi
	var next ssa.Value
	switch x := cmp.X.(type) {
	case *ssa.Phi:
		phi = x
		ls.useIdx = x
	case *ssa.BinOp: // range form: phi+1 < len
		p, isPhi := x.X.(*ssa.Phi)
		c, isC := constInt(x.Y)
		if x.Op != token.ADD || !isPhi || !isC || c != 1 {
			return nil, "loop condition operand is not an induction variable"
		}
		phi = p
		ls.useIdx = x
		next = x
	default:
		return nil, "loop condition operand is not an induction variable"
	}
	if phi.Block() != h || len(phi.Edges) < 2 {
		return nil, "induction phi is not in the loop header"
	}
	ls.phi = phi
	// back edges (there can be several when the body uses `continue`) must all carry the same value
	var initV, backV ssa.Value
	for k, pred := range h.Preds {
		if h.Dominates(pred) {
			if backV != nil && backV != phi.Edges[k] {
				return nil, "back edges carry different induction values"
			}
			backV = phi.Edges[k]
		} else {
			if initV != nil && initV != phi.Edges[k] {
				return nil, "several loop entries"
			}
			initV = phi.Edges[k]
		}
	}
	if initV == nil || backV == nil {
		return nil, "cannot separate entry and back edge"
	}
	if next == nil {
		bo, ok := backV.(*ssa.BinOp)
		c, isC := constInt(boY(backV))
		if !ok || bo.Op != token.ADD || bo.X != ssa.Value(phi) || !isC || c < 1 {
			return nil, "induction step is not a positive constant"
		}
		ls.step = c
		ls.initTerm, ls.initAdd = initV, 0
		if c0, isC0 := constInt(initV); isC0 && c0 == 0 {
			ls.initOK = true
		}
	} else {
		if backV != next {
			return nil, "range-form induction does not carry phi+1"
		}
		ls.step = 1
		ls.initTerm, ls.initAdd = initV, 1
		if c0, isC0 := constInt(initV); isC0 && c0 == -1 {
			ls.initOK = true
		}
	}
	return ls, ""
}

func boY(v ssa.Value) ssa.Value {
	if b, ok := v.(*ssa.BinOp); ok {
		return b.Y
	}
	return nil
}

// isLenOf: v is len(param) (directly or via a single SSA value).
func isLenOf(v ssa.Value, prm ssa.Value) bool {
	c, ok := v.(*ssa.Call)
	if !ok {
		return false
	}
	b, ok := c.Call.Value.(*ssa.Builtin)
	return ok && b.Name() == "len" && len(c.Call.Args) == 1 && c.Call.Args[0] == prm
}

func loopHeaders(fn *ssa.Function) []*ssa.BasicBlock {
	var out []*ssa.BasicBlock
	for _, b := range fn.Blocks {
		for _, pred := range b.Preds {
			if b.Dominates(pred) {
				out = append(out, b)
				break
			}
		}
	}
	return out
}

func checkC12(c *Ctx) {
	p := c.P
	c.Rule("O1", "CRC table: 256 constants = remainders of polynomial 0x1021; GF(2)-linear; written only by its initialiser")
	c.Rule("O2", "fold body transfer function equals one CRC-16/XMODEM step as a 16x24 GF(2) matrix (all states x all bytes)")
	c.Rule("O3", "fold structure: state starts at 0, indices 0..len-1 ascending once each, byte i is b[i], result is the loop-carried state")
	c.Rule("O4", "hash tag equals the specification over the four orderings of first '{', first '}' after it, and length")
	c.Rule("O5", "routing index is crc16(hashtag(key)) & 16383 into a 16384-entry table; no other computed read index into the table")

	crcFn := p.Func(redisPkg, "crc16")
	tagFn := p.Func(redisPkg, "hashtag")
	if crcFn == nil || tagFn == nil {
		c.Unresolved("O2", "proc/redis.crc16 / proc/redis.hashtag")
		return
	}
	ref := crcRefTable()

	// ------------ O1: tables used by crc16 (any package-level table it indexes)
	tables := map[*ssa.Global][]uint64{}
	tableOK := map[*ssa.Global]bool{}
	getTable := func(g *ssa.Global) ([]uint64, bool) {
		if ok, done := tableOK[g]; done {
			return tables[g], ok
		}
		site := "table " + g.Name()
		elems, ok, why := p.globalElems(g, 0)
		if !ok {
			c.Undecided("O1", site, g.Pos(), "cannot read the table as constants written once by its initialiser: "+why)
			tableOK[g] = false
			return nil, false
		}
		vals := make([]uint64, len(elems))
		for i, e := range elems {
			v, isC := constInt(e)
			if !isC {
				c.Undecided("O1", site, g.Pos(), fmt.Sprintf("element %d is not a constant", i))
				tableOK[g] = false
				return nil, false
			}
			vals[i] = uint64(v)
		}
		tables[g] = vals
		// linearity
		lin := vals[0] == 0
		for a := 0; a < len(vals) && lin; a++ {
			for b := 1; b < len(vals); b <<= 1 {
				if a^b < len(vals) && vals[a^b] != vals[a]^vals[b] {
					lin = false
				}
			}
		}
		tableOK[g] = lin
		if len(vals) == 256 {
			bad := -1
			for i := range vals {
				if vals[i] != uint64(ref[i]) {
					bad = i
					break
				}
			}
			if bad >= 0 {
				c.Fail("O1", site+" = polynomial 0x1021", g.Pos(), fmt.Sprintf("entry %d is %#04x, CRC-16/XMODEM table has %#04x", bad, vals[bad], ref[bad]))
			} else {
				c.OK("O1", site+" = polynomial 0x1021", g.Pos(), "all 256 entries equal x*2^8 mod 0x11021")
			}
		}
		if lin {
			c.OK("O1", site+" GF(2)-linear", g.Pos(), fmt.Sprintf("t[0]=0 and t[a^b]=t[a]^t[b] for all a and all single-bit b (%d entries)", len(vals)))
		} else {
			c.Fail("O1", site+" GF(2)-linear", g.Pos(), "table is not GF(2)-linear, so it cannot be a CRC table")
		}
		return vals, lin
	}

	// ------------ O3 + O2
	func() {
		if len(crcFn.Params) != 1 {
			c.Undecided("O3", "crc16 signature", crcFn.Pos(), "expected one parameter")
			return
		}
		prm := crcFn.Params[0]
		hs := loopHeaders(crcFn)
		if len(hs) != 1 {
			c.Undecided("O3", "crc16 loop", crcFn.Pos(), fmt.Sprintf("expected exactly one loop, found %d (table-free or unrolled variants are not recognised)", len(hs)))
			return
		}
		ls, why := findCountedLoop(hs[0])
		if ls == nil {
			c.Undecided("O3", "crc16 loop", hs[0].Instrs[0].Pos(), why)
			return
		}
		// bound = len(b)
		c.Check(isLenOf(ls.bound, prm), "O3", "crc16 loop bound", ls.header.Instrs[len(ls.header.Instrs)-1].Pos(), "bound is len(b)", "loop bound is not len(b): not every byte is folded")
		c.Check(ls.initOK, "O3", "crc16 loop start", ls.phi.Pos(), "first index is 0, step +1", "loop does not start at index 0")
		// state phi
		var state *ssa.Phi
		for _, in := range ls.header.Instrs {
			if ph, ok := in.(*ssa.Phi); ok && ph != ls.phi {
				if state != nil {
					c.Undecided("O3", "crc16 state", ph.Pos(), "more than one loop-carried value besides the index")
					return
				}
				state = ph
			}
		}
		if state == nil {
			c.Undecided("O3", "crc16 state", ls.header.Instrs[0].Pos(), "no loop-carried state")
			return
		}
		var initV, nextV ssa.Value
		for k, pred := range ls.header.Preds {
			if ls.header.Dominates(pred) {
				nextV = state.Edges[k]
			} else {
				initV = state.Edges[k]
			}
		}
		c0, isC := constInt(initV)
		c.Check(isC && c0 == 0, "O3", "crc16 initial state", state.Pos(), "state enters the loop as constant 0", "initial CRC state is not 0 (XMODEM starts at 0x0000)")
		// body is the single latch block
		if len(ls.body.Succs) != 1 || ls.body.Succs[0] != ls.header {
			c.Undecided("O2", "crc16 body", ls.body.Instrs[0].Pos(), "loop body has data-dependent control flow; the affine domain needs a straight-line body")
			return
		}
		// result is the state
		okRet := false
		for _, in := range ls.exit.Instrs {
			if r, ok := in.(*ssa.Return); ok && len(r.Results) == 1 && returnedValues(r)[0] == ssa.Value(state) {
				okRet = true
			}
		}
		c.Check(okRet, "O3", "crc16 result", ls.exit.Instrs[0].Pos(), "returns the loop-carried state", "the function does not return the loop-carried state unchanged")
		// byte loads
		env := &bitsEnv{p: p, known: map[ssa.Value]bvec{}, table: getTable}
		env.known[state] = bvInput(0, 16)
		nload := 0
		badIdx := false
		eachInstr(crcFn, func(b *ssa.BasicBlock, i int, in ssa.Instruction) {
			ia, ok := in.(*ssa.IndexAddr)
			if !ok || ia.X != ssa.Value(prm) {
				return
			}
			if ia.Index != ls.useIdx || b != ls.body {
				badIdx = true
				return
			}
			for _, r := range *ia.Referrers() {
				if u, ok := r.(*ssa.UnOp); ok && u.Op == token.MUL {
					env.known[u] = bvInput(16, 8)
					nload++
				}
			}
		})
		c.Check(!badIdx && nload >= 1, "O3", "crc16 byte of iteration i", ls.body.Instrs[0].Pos(), "the only element of b read in iteration i is b[i]", "the byte folded in iteration i is not b[i]")
		if ws, ok := uintWidth(state.Type()); !ok || ws != 16 {
			c.Fail("O2", "crc16 state width", state.Pos(), "CRC state is not a 16-bit unsigned value")
			return
		}
		got, ok := env.eval(nextV)
		if !ok {
			c.Undecided("O2", "crc16 step matrix", nextV.Pos(), "fold body is outside the GF(2)-affine fragment: "+env.why)
			return
		}
		// reference step
		s, by := bvInput(0, 16), bvInput(16, 8)
		var want bvec
		want.w = 16
		var idx [8]bform
		for j := 0; j < 8; j++ {
			idx[j] = s.b[8+j].xor(by.b[j])
		}
		for k := 0; k < 16; k++ {
			if k >= 8 {
				want.b[k] = s.b[k-8]
			}
			for j := 0; j < 8; j++ {
				if ref[1<<uint(j)]>>uint(k)&1 == 1 {
					want.b[k] = want.b[k].xor(idx[j])
				}
			}
		}
		diff := -1
		for k := 0; k < 64; k++ {
			if got.b[k] != want.b[k] {
				diff = k
				break
			}
		}
		if diff >= 0 {
			c.Fail("O2", "crc16 step matrix", nextV.Pos(), fmt.Sprintf("output bit %d of the fold body is the affine form %s over (state bits 0-15, byte bits 16-23, const = top bit); CRC-16/XMODEM requires %s", diff, got.b[diff], want.b[diff]))
		} else {
			c.OK("O2", "crc16 step matrix", nextV.Pos(), "16x24 GF(2) matrix of the body equals crc'=(crc<<8)^T[(crc>>8)^byte] for all 2^16 states x 2^8 bytes")
			c.Extra["exhaustive"] = true
		}
	}()

	// ------------ O4
	checkHashTag(c, tagFn)

	// ------------ O5
	slotsF := p.Field(redisPkg, "upstream", "slots")
	if slotsF == nil {
		c.Unresolved("O5", "upstream.slots")
	} else {
		if arr, ok := slotsF.Type().Underlying().(*types.Array); ok {
			c.Check(arr.Len() == 16384, "O5", "slot table length", slotsF.Pos(), "len(slots)=16384", fmt.Sprintf("slot table has %d entries, Redis Cluster has 16384", arr.Len()))
		} else {
			c.Undecided("O5", "slot table type", slotsF.Pos(), "slots is not a fixed-size array")
		}
		nread := 0
		for _, a := range p.fieldAccesses(slotsF) {
			ia, ok := a.In.(*ssa.IndexAddr)
			if !ok || a.Write {
				continue
			}
			nread++
			site := "slot read in " + fnKey(a.Fn)
			idxV := stripConv(ia.Index)
			// the slot may be computed by a helper: slots[keySlot(key)] with keySlot returning crc16(hashtag(key))&mask
			// of its own parameter, called with the router's routing key
			if hcall, isCall := idxV.(*ssa.Call); isCall {
				if g := calleeFn(hcall.Common()); g != nil && isModFn(g) && g.Blocks != nil && len(hcall.Call.Args) == 1 {
					if _, isP := hcall.Call.Args[0].(*ssa.Parameter); isP {
						var rets []ssa.Value
						eachInstr(g, func(_ *ssa.BasicBlock, _ int, x ssa.Instruction) {
							if r, ok := x.(*ssa.Return); ok && len(r.Results) == 1 {
								rets = append(rets, returnedValues(r)[0])
							}
						})
						if len(rets) == 1 {
							idxV = stripConv(rets[0])
						}
					}
				}
			}
			bo, ok := idxV.(*ssa.BinOp)
			var hv ssa.Value
			okMask := false
			if ok {
				if m, isC := constInt(bo.Y); isC && ((bo.Op == token.AND && m == 16383) || (bo.Op == token.REM && m == 16384)) {
					okMask = true
					hv = stripConv(bo.X)
				}
			}
			if !okMask {
				c.Fail("O5", site+" mask", ia.Pos(), "slot index is not (hash & 16383) / (hash % 16384)")
				continue
			}
			c.OK("O5", site+" mask", ia.Pos(), "index = hash & 16383")
			call, ok := hv.(*ssa.Call)
			if !ok || !isCallToFn(call, crcFn) {
				c.Fail("O5", site+" hash", ia.Pos(), "slot hash is not crc16(...)")
				continue
			}
			inner, ok := call.Call.Args[0].(*ssa.Call)
			if !ok || !isCallToFn(inner, tagFn) {
				c.Fail("O5", site+" hash", ia.Pos(), "crc16 is not applied to hashtag(key): keys sharing a hash tag would not share a slot")
				continue
			}
			if _, isP := inner.Call.Args[0].(*ssa.Parameter); !isP {
				c.Fail("O5", site+" hash", ia.Pos(), "hashtag is not applied to the routing key parameter unchanged")
				continue
			}
			c.OK("O5", site+" hash", ia.Pos(), "hash = crc16(hashtag(routingKey))")
		}
		if nread == 0 {
			c.Unresolved("O5", "no read of upstream.slots[i]")
		}
		// who calls crc16/hashtag: only the router(s)
		for _, fn := range []*ssa.Function{crcFn, tagFn} {
			for _, e := range p.callersOf(fn) {
				c.OK("O5", "caller of "+fn.Name()+": "+fnKey(e.Caller.Func), e.Pos(), "recorded")
			}
		}
	}
	// the router: every address it returns comes from that table entry (or is the fallback for an empty entry)
	c.withAlias(map[string]string{"R5": "O5"}, func() { checkChooseHost(c) })
	c.Expect("O1", 2)
	c.Expect("O2", 1)
	c.Expect("O3", 5)
	c.Expect("O4", 6)
	c.Expect("O5", 3)
}

// firstIdxLoop: for k := init; k < n; k++ { if b[k] == C { break } }
type firstIdxLoop struct {
	ls *loopShape
	ch int64
}

func recogniseFirstIdx(h *ssa.BasicBlock, prm ssa.Value) (*firstIdxLoop, string) {
	ls, why := findCountedLoop(h)
	if ls == nil {
		return nil, why
	}
	if _, isPhi := ls.useIdx.(*ssa.Phi); !isPhi {
		return nil, "range-form scan not recognised"
	}
	nphi := 0
	for _, in := range h.Instrs {
		if _, ok := in.(*ssa.Phi); ok {
			nphi++
		}
	}
	if nphi != 1 {
		return nil, "scan loop carries more than its index"
	}
	if !isLenOf(ls.bound, prm) {
		return nil, "scan bound is not len(b)"
	}
	B := ls.body
	// B: ia, load, cmp, if
	var ia *ssa.IndexAddr
	var ld *ssa.UnOp
	var cmp *ssa.BinOp
	for _, in := range B.Instrs {
		switch x := in.(type) {
		case *ssa.IndexAddr:
			if ia != nil {
				return nil, "scan body indexes twice"
			}
			ia = x
		case *ssa.UnOp:
			ld = x
		case *ssa.BinOp:
			cmp = x
		case *ssa.If, *ssa.DebugRef:
		default:
			return nil, fmt.Sprintf("scan body has an extra effect (%T)", in)
		}
	}
	if ia == nil || ld == nil || cmp == nil || ia.X != prm || ia.Index != ssa.Value(ls.phi) || ld.X != ssa.Value(ia) || cmp.X != ssa.Value(ld) {
		return nil, "scan body is not `if b[k] == C`"
	}
	ch, isC := constInt(cmp.Y)
	if !isC {
		return nil, "scan compares with a non-constant"
	}
	iff, ok := B.Instrs[len(B.Instrs)-1].(*ssa.If)
	if !ok || iff.Cond != ssa.Value(cmp) {
		return nil, "scan body does not branch on the comparison"
	}
	brk, cont := B.Succs[0], B.Succs[1]
	if cmp.Op == token.NEQ {
		brk, cont = cont, brk
	} else if cmp.Op != token.EQL {
		return nil, "scan comparison is not ==/!="
	}
	if brk != ls.exit {
		return nil, "scan break does not go to the loop exit"
	}
	// cont: latch: k+1; jump header
	if len(cont.Succs) != 1 || cont.Succs[0] != h {
		return nil, "scan continue path does not return to the header"
	}
	for _, in := range cont.Instrs {
		switch in.(type) {
		case *ssa.BinOp, *ssa.Jump, *ssa.DebugRef:
		default:
			return nil, fmt.Sprintf("scan latch has an extra effect (%T)", in)
		}
	}
	return &firstIdxLoop{ls: ls, ch: ch}, ""
}

// aff: affine form over the semantic positions I, J, the length n and the second loop's index K.
type aff struct {
	co map[string]int64
	k  int64
}

func affConst(k int64) aff { return aff{map[string]int64{}, k} }
func affVar(v string) aff  { return aff{map[string]int64{v: 1}, 0} }
func (a aff) add(b aff, sign int64) aff {
	r := aff{map[string]int64{}, a.k + sign*b.k}
	for v, c := range a.co {
		r.co[v] += c
	}
	for v, c := range b.co {
		r.co[v] += sign * c
	}
	for v, c := range r.co {
		if c == 0 {
			delete(r.co, v)
		}
	}
	return r
}
func (a aff) String() string {
	var vs []string
	for v := range a.co {
		vs = append(vs, v)
	}
	sort.Strings(vs)
	out := ""
	for _, v := range vs {
		out += fmt.Sprintf("%+d*%s", a.co[v], v)
	}
	return out + fmt.Sprintf("%+d", a.k)
}

// affCmp turns `x op y` into a difference constraint between at most two variables (what a zone can decide).
func affCmp(x, y aff) (lterm, lterm, bool) {
	d := x.add(y, -1) // x - y
	l, r := lconst(d.k), lconst(0)
	nl, nr := 0, 0
	for v, c := range d.co {
		switch c {
		case 1:
			l = lterm{v, d.k}
			nl++
		case -1:
			r = lterm{v, 0}
			nr++
		default:
			return l, r, false
		}
	}
	if nl > 1 || nr > 1 {
		return l, r, false
	}
	return l, r, true
}

func checkHashTag(c *Ctx, fn *ssa.Function) {
	if len(fn.Params) != 1 {
		c.Undecided("O4", "hashtag signature", fn.Pos(), "expected one parameter")
		return
	}
	prm := fn.Params[0]
	// position sources: explicit first-index loops, or bytes.IndexByte(b[s:], C)
	type scan struct {
		loop  *firstIdxLoop
		call  *ssa.Call
		ch    int64
		start ssa.Value // nil = 0
		blk   *ssa.BasicBlock
		pos   token.Pos
	}
	var scans []*scan
	var lastScan *ssa.Call // a bytes.LastIndexByte scan: never the position the specification names
	loops := map[*ssa.BasicBlock]*firstIdxLoop{}
	for _, h := range loopHeaders(fn) {
		fl, why := recogniseFirstIdx(h, prm)
		if fl == nil {
			c.Undecided("O4", "hashtag scan", h.Instrs[0].Pos(), "not a first-index loop: "+why)
			return
		}
		loops[h] = fl
		sc := &scan{loop: fl, ch: fl.ch, blk: h, pos: fl.ls.phi.Pos()}
		if !fl.ls.initOK {
			sc.start = fl.ls.initTerm
		}
		scans = append(scans, sc)
	}
	extra := ""
	eachInstr(fn, func(b *ssa.BasicBlock, _ int, in ssa.Instruction) {
		if ia, ok := in.(*ssa.IndexAddr); ok && ia.X == ssa.Value(prm) {
			inScan := false
			for _, fl := range loops {
				if b == fl.ls.body {
					inScan = true
				}
			}
			if !inScan {
				extra = "element read outside the scans"
			}
		}
		cc := callOf(in)
		if cc == nil {
			return
		}
		if _, isB := cc.Value.(*ssa.Builtin); isB {
			return
		}
		call, _ := in.(*ssa.Call)
		g := calleeFn(cc)
		if call != nil && g != nil && g.Pkg != nil && g.Pkg.Pkg.Path() == "bytes" && g.Name() == "LastIndexByte" && len(cc.Args) == 2 {
			if ch, isC := constInt(cc.Args[1]); isC {
				lastScan = call
				scans = append(scans, &scan{call: call, ch: ch, blk: b, pos: call.Pos()})
				return
			}
		}
		if call != nil && g != nil && g.Pkg != nil && g.Pkg.Pkg.Path() == "bytes" && g.Name() == "IndexByte" && len(cc.Args) == 2 {
			ch, isC := constInt(cc.Args[1])
			var start ssa.Value
			okArg := cc.Args[0] == ssa.Value(prm)
			if sl, ok := cc.Args[0].(*ssa.Slice); ok && sl.X == ssa.Value(prm) && sl.High == nil && sl.Max == nil {
				okArg, start = true, sl.Low
			}
			if isC && okArg {
				scans = append(scans, &scan{call: call, ch: ch, start: start, blk: b, pos: call.Pos()})
				return
			}
		}
		extra = "call to " + cc.Value.String()
	})
	if len(scans) != 2 {
		c.Undecided("O4", "hashtag scans", fn.Pos(), fmt.Sprintf("expected two scans of the key (first-index loops or bytes.IndexByte), found %d", len(scans)))
		return
	}
	var s1, s2 *scan
	switch {
	case scans[0].blk.Dominates(scans[1].blk) && scans[0].blk != scans[1].blk:
		s1, s2 = scans[0], scans[1]
	case scans[1].blk.Dominates(scans[0].blk) && scans[0].blk != scans[1].blk:
		s1, s2 = scans[1], scans[0]
	case scans[0].blk == scans[1].blk && scans[0].call != nil && scans[1].call != nil:
		s1, s2 = scans[0], scans[1]
		for _, in := range s1.blk.Instrs {
			if in == ssa.Instruction(scans[1].call) {
				s1, s2 = scans[1], scans[0]
				break
			}
			if in == ssa.Instruction(scans[0].call) {
				break
			}
		}
	default:
		c.Undecided("O4", "hashtag scans", fn.Pos(), "the two scans are not sequential")
		return
	}
	c.Check(s1.ch == '{' && s1.start == nil, "O4", "first scan", s1.pos, "i = first index of '{' from 0", "first scan is not `first '{' from index 0`")
	c.Check(s2.ch == '}', "O4", "second scan byte", s2.pos, "second scan looks for '}'", "second scan does not look for '}'")
	if lastScan != nil {
		c.Fail("O4", "scans take the first occurrence", lastScan.Pos(), "a brace position is taken with bytes.LastIndexByte: the specification uses the first '{' and the first '}' after it - a key with two '}' after its '{' ({user1000}.{followers}) is hashed by a different tag")
		return
	}
	if s2.call != nil && s2.start == nil {
		c.Fail("O4", "second scan starts after the first '{'", s2.pos, "the closing brace is searched from the start of the key, not from the byte after the first '{': a '}' in front of the '{' (a}b{tag}c) ends the search there and the key is hashed whole instead of by its tag")
		return
	}
	c.Check(extra == "", "O4", "bytes touched only by the two scans", fn.Pos(), "no other element read or call", "the key bytes are read outside the two scans ("+extra+"): behaviour no longer depends only on the ordering of the two positions")

	// affine forms over I (first '{', n if none), J (first '}' after I, n if none), n, K (second loop's index variable)
	ri := 0
	var z *Zone
	var lin func(v ssa.Value) (aff, bool)
	startOfSecond := func() (aff, bool) {
		if s2.start == nil {
			return affConst(0), true
		}
		return lin(s2.start)
	}
	lin = func(v ssa.Value) (aff, bool) {
		switch x := v.(type) {
		case *ssa.Phi:
			if s1.loop != nil && x == s1.loop.ls.phi {
				return affVar("I"), true
			}
			if s2.loop != nil && x == s2.loop.ls.phi {
				return affVar("K"), true
			}
		case *ssa.Const:
			if cv, ok := constInt(x); ok {
				return affConst(cv), true
			}
		case *ssa.BinOp:
			if x.Op == token.ADD || x.Op == token.SUB {
				a, ok1 := lin(x.X)
				b, ok2 := lin(x.Y)
				if ok1 && ok2 {
					if x.Op == token.SUB {
						return a.add(b, -1), true
					}
					return a.add(b, 1), true
				}
			}
		case *ssa.Call:
			if isLenOf(x, prm) {
				return affVar("n"), true
			}
			if s1.call == x {
				// bytes.IndexByte(b, '{'): -1 when absent
				if ri == 0 {
					return affConst(-1), true
				}
				return affVar("I"), true
			}
			if s2.call == x {
				st, ok := startOfSecond()
				if !ok || ri == 0 {
					return aff{}, false
				}
				// the scan must start right after (or at) the first '{': b[I] = '{' is not '}'
				d := st.add(affVar("I"), -1)
				if len(d.co) != 0 || (d.k != 0 && d.k != 1) {
					return aff{}, false
				}
				if ri == 1 {
					return affConst(-1), true // no '}' after the '{'
				}
				return affVar("J").add(st, -1), true
			}
		}
		return aff{}, false
	}
	type region struct {
		name string
		mk   func(z *Zone)
		want string // "whole" or "tag"
	}
	regions := []region{
		{"no '{' (I=n)", func(z *Zone) { z.addEQ(lterm{"I", 0}, lterm{"n", 0}) }, "whole"},
		{"'{' but no '}' after it (I<n, J=n)", func(z *Zone) { z.addLT(lterm{"I", 0}, lterm{"n", 0}); z.addEQ(lterm{"J", 0}, lterm{"n", 0}) }, "whole"},
		{"empty tag (I<n, J=I+1<n)", func(z *Zone) {
			z.addLT(lterm{"I", 0}, lterm{"n", 0})
			z.addEQ(lterm{"J", 0}, lterm{"I", 1})
			z.addLT(lterm{"J", 0}, lterm{"n", 0})
		}, "whole"},
		{"non-empty tag (I<n, I+1<J<n)", func(z *Zone) {
			z.addLT(lterm{"I", 0}, lterm{"n", 0})
			z.addLT(lterm{"I", 1}, lterm{"J", 0})
			z.addLT(lterm{"J", 0}, lterm{"n", 0})
		}, "tag"},
	}
	wantText := map[string]string{"whole": "the whole key", "tag": "b[I+1:J]"}
	for k, rg := range regions {
		ri = k
		site := fmt.Sprintf("region %d: %s", ri+1, rg.name)
		z = newZone()
		z.addLE(lconst(0), lterm{"I", 0})
		z.addLE(lterm{"I", 0}, lterm{"n", 0})
		rg.mk(z)
		if ri > 0 { // J meaningful
			z.addLE(lterm{"I", 1}, lterm{"J", 0})
			z.addLE(lterm{"J", 0}, lterm{"n", 0})
		}
		b := fn.Blocks[0]
		steps := 0
		verdict := ""
		var at token.Pos
	walk:
		for steps < 64 {
			steps++
			if fl, isLoop := loops[b]; isLoop {
				if s2.loop == fl {
					st, ok := startOfSecond()
					l, r, okc := affCmp(st, affConst(0))
					_ = r
					if !ok || !okc {
						verdict = "start of the second scan is not a linear term of the first position"
						at = fl.ls.phi.Pos()
						break walk
					}
					init2 := l
					switch {
					case z.entLE(lterm{"n", 0}, init2): // start >= n: loop does not run
						z.addEQ(lterm{"K", 0}, init2)
					case ri > 0 && (z.entEQ(init2, lterm{"I", 1}) || z.entEQ(init2, lterm{"I", 0})):
						// first '}' from I+1; from I is the same position because b[I]='{' != '}'
						z.addEQ(lterm{"K", 0}, lterm{"J", 0})
					default:
						verdict = "second scan starts at " + st.String() + ", not right after the first '{'"
						at = fl.ls.phi.Pos()
						break walk
					}
				}
				b = fl.ls.exit
				continue
			}
			last := b.Instrs[len(b.Instrs)-1]
			switch t := last.(type) {
			case *ssa.Jump:
				b = b.Succs[0]
			case *ssa.If:
				cmp, ok := t.Cond.(*ssa.BinOp)
				if !ok {
					verdict = "branch on a non-comparison"
					at = t.Pos()
					break walk
				}
				x, ok1 := lin(cmp.X)
				y, ok2 := lin(cmp.Y)
				if !ok1 || !ok2 {
					verdict = "branch condition `" + cmp.String() + "` is not a comparison of scan positions in this region"
					at = cmp.Pos()
					break walk
				}
				l, r, okc := affCmp(x, y)
				if !okc {
					verdict = "branch condition `" + cmp.String() + "` relates more than two positions"
					at = cmp.Pos()
					break walk
				}
				d := z.decide(cmp.Op.String(), l, r)
				if d < 0 {
					verdict = "branch `" + cmp.String() + "` is not decided by the ordering of this region"
					at = cmp.Pos()
					break walk
				}
				if d == 1 {
					b = b.Succs[0]
				} else {
					b = b.Succs[1]
				}
			case *ssa.Return:
				at = t.Pos()
				r := returnedValues(t)[0]
				got := ""
				if r == ssa.Value(prm) {
					got = "whole"
				} else if sl, ok := r.(*ssa.Slice); ok && sl.Max == nil && sl.High != nil && sliceBaseIs(sl, prm) {
					// b[lo:hi], or rest[lo':hi'] with rest = b[s:]: positions relative to b
					off, okOff := affConst(0), true
					if inner, isIn := sl.X.(*ssa.Slice); isIn {
						off, okOff = lin(inner.Low)
					}
					lo, ok1 := affConst(0), true
					if sl.Low != nil {
						lo, ok1 = lin(sl.Low)
					}
					hi, ok2 := lin(sl.High)
					if okOff {
						lo, hi = lo.add(off, 1), hi.add(off, 1)
					} else {
						ok1 = false
					}
					got = "other slice"
					if ok1 && ok2 {
						l1, r1, c1 := affCmp(lo, affVar("I").add(affConst(1), 1))
						l2, r2, c2 := affCmp(hi, affVar("J"))
						if c1 && c2 && z.entEQ(l1, r1) && z.entEQ(l2, r2) {
							got = "tag"
						} else {
							got = fmt.Sprintf("b[%s : %s]", lo, hi)
						}
					}
				} else {
					got = "other value"
				}
				if got == rg.want {
					verdict = "OK"
				} else {
					gt := got
					if t, ok := wantText[got]; ok {
						gt = t
					}
					verdict = fmt.Sprintf("returns %s, the specification requires %s", gt, wantText[rg.want])
				}
				break walk
			default:
				verdict = fmt.Sprintf("unexpected terminator %T", last)
				break walk
			}
		}
		if verdict == "" {
			verdict = "decision tree walk did not terminate"
		}
		if verdict == "OK" {
			c.OK("O4", site, at, "decision tree returns "+wantText[rg.want])
		} else {
			c.Fail("O4", site, at, verdict)
		}
	}
}

// sliceBaseIs: sl slices prm directly, or slices a suffix prm[s:] of it.
func sliceBaseIs(sl *ssa.Slice, prm ssa.Value) bool {
	if sl.X == prm {
		return sl.Low != nil
	}
	if inner, ok := sl.X.(*ssa.Slice); ok && inner.X == prm && inner.High == nil && inner.Max == nil && inner.Low != nil {
		return true
	}
	return false
}
