package main

import (
	"fmt"
	"go/token"
	"go/types"

	"golang.org/x/tools/go/ssa"
)

// E-bounds: zone (difference-bound) facts about integer SSA values and container lengths,
// fed by dominating branch conditions and by definitions. Used to discharge index / slice
// obligations. Integer overflow of `x + const` is ignored (stated assumption).

type boundsCtx struct {
	p     *Prog
	fn    *ssa.Function
	z     *Zone // definitional facts (hold wherever the values are defined)
	names map[ssa.Value]string
	lens  map[ssa.Value]lterm
	// extra length facts by access path of the container, e.g. "req.body.Array" >= 1
	pathMin map[string]int64
	getters map[string]string
	depth   int
	// valMin: lower bound on len(v) for specific SSA values (call-site summaries)
	valMin func(v ssa.Value) (int64, bool)
	// facts that depend on path conditions (e.g. x % l is in [0,l) once l >= 1 is known)
	deferred []func(z *Zone, at *ssa.BasicBlock)
	phiPass  bool
}

func newBoundsCtx(p *Prog, fn *ssa.Function) *boundsCtx {
	bc := &boundsCtx{p: p, fn: fn, z: newZone(), names: map[ssa.Value]string{}, lens: map[ssa.Value]lterm{}, pathMin: map[string]int64{}}
	bc.libraryCallbackFacts()
	return bc
}

// libraryCallbackFacts: a closure that is only used as the callback of rand.Shuffle(n, swap), sort.Slice(x, less),
// sort.SliceStable or sort.Search(n, f) receives indices in [0, n) - the library's contract. When n is len(x) of a
// variable the closure captures (or x itself for sort.Slice), the integer parameters are bounded by that length.
func (bc *boundsCtx) libraryCallbackFacts() {
	fn := bc.fn
	par := fn.Parent()
	if par == nil {
		return
	}
	var mc *ssa.MakeClosure
	eachInstr(par, func(_ *ssa.BasicBlock, _ int, in ssa.Instruction) {
		if m, ok := in.(*ssa.MakeClosure); ok && m.Fn == ssa.Value(fn) {
			mc = m
		}
	})
	if mc == nil {
		return
	}
	for _, r := range *mc.Referrers() {
		call, ok := r.(*ssa.Call)
		if !ok {
			return // used otherwise: no contract
		}
		if !isCallTo(call, "math/rand.Shuffle", "sort.Slice", "sort.SliceStable", "sort.Search") {
			return
		}
		var container ssa.Value
		a0 := call.Call.Args[0]
		if lc, ok := a0.(*ssa.Call); ok {
			if b, isB := lc.Call.Value.(*ssa.Builtin); isB && b.Name() == "len" {
				container = lc.Call.Args[0]
			}
		}
		if mi, ok := a0.(*ssa.MakeInterface); ok {
			container = mi.X
		}
		if container == nil {
			return
		}
		// the container as the closure sees it: a captured variable
		u, ok := container.(*ssa.UnOp)
		if !ok || u.Op != token.MUL {
			return
		}
		k := -1
		for i, b := range mc.Bindings {
			if b == u.X {
				k = i
			}
		}
		if k < 0 || k >= len(fn.FreeVars) {
			return
		}
		var inner ssa.Value
		eachInstr(fn, func(_ *ssa.BasicBlock, _ int, in ssa.Instruction) {
			if l, ok := in.(*ssa.UnOp); ok && l.Op == token.MUL && l.X == ssa.Value(fn.FreeVars[k]) && inner == nil {
				inner = l
			}
		})
		if inner == nil {
			return
		}
		L := bc.lenOf(inner)
		for _, prm := range fn.Params {
			if b, ok := prm.Type().Underlying().(*types.Basic); ok && b.Info()&types.IsInteger != 0 {
				t := bc.term(prm)
				bc.z.addLE(lconst(0), t)
				bc.z.addLT(t, L)
			}
		}
	}
}

func (bc *boundsCtx) name(v ssa.Value) string {
	if n, ok := bc.names[v]; ok {
		return n
	}
	n := fmt.Sprintf("%s#%d", v.Name(), len(bc.names))
	bc.names[v] = n
	return n
}

func isUnsigned(t types.Type) bool {
	b, ok := t.Underlying().(*types.Basic)
	return ok && b.Info()&types.IsUnsigned != 0
}

func intBits(t types.Type) int {
	b, ok := t.Underlying().(*types.Basic)
	if !ok {
		return 0
	}
	switch b.Kind() {
	case types.Int8, types.Uint8:
		return 8
	case types.Int16, types.Uint16:
		return 16
	case types.Int32, types.Uint32:
		return 32
	case types.Int, types.Uint, types.Int64, types.Uint64, types.Uintptr:
		return 64
	}
	return 0
}

// term maps an integer SSA value to a linear term and records definitional facts.
func (bc *boundsCtx) term(v ssa.Value) lterm {
	bc.depth++
	defer func() { bc.depth-- }()
	if bc.depth > 40 {
		return lterm{bc.name(v), 0}
	}
	if c, ok := v.(*ssa.Const); ok {
		if cv, isC := constInt(c); isC {
			return lconst(cv)
		}
	}
	if n, ok := bc.names[v]; ok {
		return lterm{n, 0}
	}
	// two loads of the same integer field through the same access path name the same term (no store to that field in
	// this function in between is assumed - see the trusted base; a function that stores the field gets no such equality)
	if ld, ok := v.(*ssa.UnOp); ok && ld.Op == token.MUL && intBits(ld.Type()) > 0 {
		if fa, ok := ld.X.(*ssa.FieldAddr); ok {
			if ap := accessPath(ld, bc.getters, 0); ap != "" && !bc.storesField(fa) {
				n := "fld:" + ap
				bc.names[v] = n
				if isUnsigned(ld.Type()) {
					bc.z.addLE(lconst(0), lterm{n, 0})
					if b := intBits(ld.Type()); b < 63 {
						bc.z.addLE(lterm{n, 0}, lconst(int64(1)<<uint(b)-1))
					}
				}
				return lterm{n, 0}
			}
		}
	}
	// an integer parameter of an unexported function whose every caller passes a constant lies between the smallest and
	// the largest of them
	if prm, ok := v.(*ssa.Parameter); ok && intBits(prm.Type()) > 0 {
		fn := prm.Parent()
		if fn.Object() != nil && !fn.Object().Exported() {
			idx := paramIndex(fn, prm)
			lo, hi, n, okAll := int64(1<<62), int64(-(1 << 62)), 0, true
			for _, ed := range bc.p.callersOf(fn) {
				if bc.p.isTestFn(ed.Caller.Func) {
					continue
				}
				args := ed.Site.Common().Args
				if idx < 0 || idx >= len(args) {
					okAll = false
					continue
				}
				k, isC := constInt(args[idx])
				if !isC {
					okAll = false
					continue
				}
				n++
				if k < lo {
					lo = k
				}
				if k > hi {
					hi = k
				}
			}
			if okAll && n > 0 {
				me := lterm{bc.name(v), 0}
				bc.z.addLE(lconst(lo), me)
				bc.z.addLE(me, lconst(hi))
				return me
			}
		}
	}
	// a value read from a constant package-level table lies between its smallest and largest entry (0 included: a
	// missing key reads as the zero value)
	{
		var lk *ssa.Lookup
		if ex, ok := v.(*ssa.Extract); ok && ex.Index == 0 {
			lk, _ = ex.Tuple.(*ssa.Lookup)
		} else if l, ok := v.(*ssa.Lookup); ok && !l.CommaOk {
			lk = l
		}
		if lk != nil {
			if ld, ok := lk.X.(*ssa.UnOp); ok && ld.Op == token.MUL {
				if g, ok := ld.X.(*ssa.Global); ok {
					if tbl, ok := bc.p.globalIntTable(g); ok {
						lo, hi := int64(0), int64(0)
						for _, val := range tbl {
							if val < lo {
								lo = val
							}
							if val > hi {
								hi = val
							}
						}
						me := lterm{bc.name(v), 0}
						bc.z.addLE(lconst(lo), me)
						bc.z.addLE(me, lconst(hi))
						return me
					}
				}
			}
		}
	}
	switch x := v.(type) {
	case *ssa.BinOp:
		switch x.Op {
		case token.ADD, token.SUB:
			// fixed-width arithmetic wraps: for types narrower than 64 bits (and for unsigned subtraction) the
			// mathematical value is only the result when it fits, which is decided under the path conditions
			wrapAware := func(math lterm) lterm {
				bits := intBits(x.Type())
				uns := isUnsigned(x.Type())
				if bits == 0 || (bits >= 64 && !(uns && math.c < 0)) {
					return math
				}
				me := lterm{bc.name(v), 0}
				lo, hi := int64(0), int64(1)<<62-1
				if bits < 63 {
					if uns {
						hi = int64(1)<<uint(bits) - 1
					} else {
						lo, hi = -(int64(1) << uint(bits-1)), int64(1)<<uint(bits-1)-1
					}
				} else if !uns {
					return math
				}
				bc.z.addLE(lconst(lo), me)
				bc.z.addLE(me, lconst(hi))
				bc.deferred = append(bc.deferred, func(z *Zone, _ *ssa.BasicBlock) {
					if z.entLE(lconst(lo), math) && z.entLE(math, lconst(hi)) {
						z.addEQ(me, math)
					}
				})
				return me
			}
			if cv, isC := constInt(x.Y); isC {
				a := bc.term(x.X)
				if x.Op == token.SUB {
					cv = -cv
				}
				return wrapAware(lterm{a.v, a.c + cv})
			}
			if cv, isC := constInt(x.X); isC && x.Op == token.ADD {
				a := bc.term(x.Y)
				return wrapAware(lterm{a.v, a.c + cv})
			}
			// t = a - b with both variable: t >= 0 not known; t <= a when b >= 0
			me := lterm{bc.name(v), 0}
			a, b := bc.term(x.X), bc.term(x.Y)
			if x.Op == token.SUB && bc.z.entLE(lconst(0), b) {
				bc.z.addLE(me, a)
			}
			if x.Op == token.ADD {
				if bc.z.entLE(lconst(0), b) {
					bc.z.addLE(a, me)
				}
				if bc.z.entLE(lconst(0), a) {
					bc.z.addLE(b, me)
				}
			}
			return me
		case token.REM:
			me := lterm{bc.name(v), 0}
			if m, isC := constInt(x.Y); isC && m > 0 {
				bc.z.addLE(me, lconst(m-1))
				a := bc.term(x.X)
				if bc.z.entLE(lconst(0), a) {
					bc.z.addLE(lconst(0), me)
				} else {
					bc.z.addLE(lconst(-(m - 1)), me)
				}
			} else {
				// a % l with l > 0: |result| < l; decided once the path conditions are known
				a, l := bc.term(x.X), bc.term(x.Y)
				bc.deferred = append(bc.deferred, func(z *Zone, _ *ssa.BasicBlock) {
					if z.entLE(lconst(1), l) {
						z.addLT(me, l)
						if z.entLE(lconst(0), a) {
							z.addLE(lconst(0), me)
						}
					}
				})
			}
			return me
		case token.AND:
			me := lterm{bc.name(v), 0}
			if m, isC := constInt(x.Y); isC && m >= 0 {
				bc.z.addLE(lconst(0), me)
				bc.z.addLE(me, lconst(m))
			}
			return me
		case token.QUO:
			me := lterm{bc.name(v), 0}
			if m, isC := constInt(x.Y); isC && m > 0 {
				a := bc.term(x.X)
				if bc.z.entLE(lconst(0), a) {
					bc.z.addLE(lconst(0), me)
					bc.z.addLE(me, a)
				}
			}
			return me
		case token.SHR:
			me := lterm{bc.name(v), 0}
			a := bc.term(x.X)
			if bc.z.entLE(lconst(0), a) {
				bc.z.addLE(lconst(0), me)
				bc.z.addLE(me, a)
			}
			return me
		}
	case *ssa.Convert:
		if intBits(x.Type()) == 0 || intBits(x.X.Type()) == 0 {
			break
		}
		a := bc.term(x.X)
		fromU, toU := isUnsigned(x.X.Type()), isUnsigned(x.Type())
		fb, tb := intBits(x.X.Type()), intBits(x.Type())
		switch {
		case tb > fb && (fromU || !toU), tb == fb && fromU == toU:
			// value-preserving
			if fromU {
				bc.z.addLE(lconst(0), a)
			}
			return a
		}
		me := lterm{bc.name(v), 0}
		if toU {
			bc.z.addLE(lconst(0), me)
			if tb < 63 {
				bc.z.addLE(me, lconst(int64(1)<<uint(tb)-1))
			}
		}
		if fromU {
			bc.z.addLE(lconst(0), a)
		}
		// facts that need the path conditions: a non-negative value that fits is preserved,
		// a non-negative value that may not fit is only bounded from above by the original
		max := int64(1)<<62 - 1
		if tb < 63 {
			if toU {
				max = int64(1)<<uint(tb) - 1
			} else {
				max = int64(1)<<uint(tb-1) - 1
			}
		}
		bc.deferred = append(bc.deferred, func(z *Zone, _ *ssa.BasicBlock) {
			if !z.entLE(lconst(0), a) {
				return
			}
			if z.entLE(a, lconst(max)) {
				z.addEQ(me, a)
			} else {
				z.addLE(me, a)
			}
		})
		return me
	case *ssa.ChangeType:
		return bc.term(x.X)
	case *ssa.Call:
		if b, ok := x.Call.Value.(*ssa.Builtin); ok && len(x.Call.Args) == 1 {
			switch b.Name() {
			case "len":
				return bc.lenOf(x.Call.Args[0])
			case "cap":
				me := lterm{bc.name(v), 0}
				bc.z.addLE(bc.lenOf(x.Call.Args[0]), me)
				return me
			}
		}
		if isCallTo(x, "bytes.Index", "bytes.IndexByte", "strings.Index", "strings.IndexByte", "bytes.LastIndex", "bytes.LastIndexByte", "strings.LastIndex", "strings.LastIndexByte", "bytes.IndexAny", "strings.IndexAny", "bytes.IndexRune", "strings.IndexRune") {
			me := lterm{bc.name(v), 0}
			bc.z.addLE(lconst(-1), me)
			bc.z.addLT(me, bc.lenOf(x.Call.Args[0]))
			return me
		}
		// a module helper all of whose returns are `u % param` with u unsigned: the result lies in [0, argument)
		if g := calleeFn(x.Common()); g != nil && isModFn(g) && g.Blocks != nil && intBits(x.Type()) > 0 {
			pk := -1
			okAll, nret := true, 0
			eachInstr(g, func(_ *ssa.BasicBlock, _ int, in ssa.Instruction) {
				r, ok := in.(*ssa.Return)
				if !ok || len(r.Results) != 1 {
					return
				}
				nret++
				bo, ok := stripNoopConv(returnedValues(r)[0]).(*ssa.BinOp)
				if !ok || bo.Op != token.REM || !isUnsigned(bo.X.Type()) {
					okAll = false
					return
				}
				prm, ok := stripConv(bo.Y).(*ssa.Parameter)
				if !ok {
					okAll = false
					return
				}
				k := paramIndex(g, prm)
				if pk >= 0 && pk != k {
					okAll = false
				}
				pk = k
			})
			if okAll && nret > 0 && pk >= 0 && pk < len(x.Call.Args) {
				me := lterm{bc.name(v), 0}
				a := bc.term(x.Call.Args[pk])
				bc.z.addLE(lconst(0), me)
				bc.deferred = append(bc.deferred, func(z *Zone, _ *ssa.BasicBlock) {
					if z.entLE(lconst(1), a) {
						z.addLT(me, a)
					}
				})
				return me
			}
		}
		if isCallTo(x, "(time.Time).UnixNano", "(time.Time).Unix") {
			me := lterm{bc.name(v), 0}
			bc.z.addLE(lconst(0), me)
			return me
		}
		if isCallTo(x, "(*bytes.Buffer).Len") {
			if ap := accessPath(x.Call.Args[0], bc.getters, 0); ap != "" {
				me := lterm{"buflen:" + ap, 0}
				bc.z.addLE(lconst(0), me)
				return me
			}
		}
		if b, ok := x.Call.Value.(*ssa.Builtin); ok && b.Name() == "copy" {
			me := lterm{bc.name(v), 0}
			bc.z.addLE(lconst(0), me)
			bc.z.addLE(me, bc.lenOf(x.Call.Args[0]))
			bc.z.addLE(me, bc.lenOf(x.Call.Args[1]))
			return me
		}
	case *ssa.Phi:
		me := lterm{bc.name(v), 0}
		bc.installPhiPass()
		// induction: every edge is either an initial value or phi+c / (phi+1 of the range lowering) with the same sign
		var inits []ssa.Value
		up, down, other := false, false, false
		for _, e := range x.Edges {
			if e == ssa.Value(x) {
				continue
			}
			if bo, ok := e.(*ssa.BinOp); ok && bo.X == ssa.Value(x) {
				if cv, isC := constInt(bo.Y); isC && (bo.Op == token.ADD || bo.Op == token.SUB) {
					if bo.Op == token.SUB {
						cv = -cv
					}
					if cv > 0 {
						up = true
					} else if cv < 0 {
						down = true
					}
					continue
				}
			}
			inits = append(inits, e)
		}
		if (up || down) && !(up && down) {
			for _, iv := range inits {
				if _, isPhiSelf := iv.(*ssa.Phi); isPhiSelf && iv == ssa.Value(x) {
					continue
				}
			}
			if len(inits) == 1 {
				init := bc.term(inits[0])
				if up {
					bc.z.addLE(init, me)
				} else {
					bc.z.addLE(me, init)
				}
			} else {
				other = true
			}
		} else {
			other = true
		}
		if other || len(inits) > 1 {
			// join: constant edges give constant bounds; otherwise a lower bound that all edges share (decided with path facts)
			allConst := true
			var lo, hi int64
			first := true
			for _, e := range x.Edges {
				cv, isC := constInt(e)
				if !isC {
					allConst = false
					break
				}
				if first || cv < lo {
					lo = cv
				}
				if first || cv > hi {
					hi = cv
				}
				first = false
			}
			if allConst && !first {
				bc.z.addLE(lconst(lo), me)
				bc.z.addLE(me, lconst(hi))
			} else {
				var terms []lterm
				selfInc := false
				for _, e := range x.Edges {
					if e == ssa.Value(x) {
						continue
					}
					if bo, ok := e.(*ssa.BinOp); ok && bo.X == ssa.Value(x) {
						if cv, isC := constInt(bo.Y); isC && bo.Op == token.ADD && cv > 0 {
							selfInc = true
							continue
						}
					}
					terms = append(terms, bc.term(e))
				}
				_ = selfInc
				bc.deferred = append(bc.deferred, func(z *Zone, _ *ssa.BasicBlock) {
					for _, c0 := range []int64{1, 0, -1} {
						all := len(terms) > 0
						for _, t := range terms {
							if !z.entLE(lconst(c0), t) {
								all = false
							}
						}
						if all {
							z.addLE(lconst(c0), me)
							break
						}
					}
				})
			}
		}
		if isUnsigned(x.Type()) {
			bc.z.addLE(lconst(0), me)
		}
		return me
	}
	// load of a field of a local object that is stored exactly once before (msg.Len = x; ... msg.Len)
	if ld, ok := v.(*ssa.UnOp); ok && ld.Op == token.MUL {
		if fa, ok := ld.X.(*ssa.FieldAddr); ok && isFreshAlloc(fa.X) {
			f, base := fieldAddr(fa)
			var st *ssa.Store
			n := 0
			eachInstr(bc.fn, func(_ *ssa.BasicBlock, _ int, in ssa.Instruction) {
				if s, ok := in.(*ssa.Store); ok {
					if g, b2 := fieldAddr(s.Addr); g == f && b2 == base {
						st, n = s, n+1
					}
				}
			})
			if n == 1 && instrDominates(st, ld) {
				t := bc.term(st.Val)
				bc.names[v] = t.v
				if t.c == 0 {
					return t
				}
				delete(bc.names, v)
				return t
			}
		}
	}
	me := lterm{bc.name(v), 0}
	if isUnsigned(v.Type()) {
		bc.z.addLE(lconst(0), me)
		if b := intBits(v.Type()); b > 0 && b < 63 {
			bc.z.addLE(me, lconst(int64(1)<<uint(b)-1))
		}
	}
	// integer result of a module helper that only returns constants: bounded by them
	{
		var call *ssa.Call
		idx := 0
		if ex, ok := v.(*ssa.Extract); ok {
			call, _ = ex.Tuple.(*ssa.Call)
			idx = ex.Index
		} else if cl, ok := v.(*ssa.Call); ok {
			call = cl
		}
		if call != nil {
			if g := calleeFn(call.Common()); g != nil && isModFn(g) && g.Blocks != nil && intBits(v.Type()) > 0 {
				all, first := true, true
				var lo, hi int64
				eachInstr(g, func(_ *ssa.BasicBlock, _ int, in ssa.Instruction) {
					ret, ok := in.(*ssa.Return)
					if !ok || idx >= len(ret.Results) {
						return
					}
					cv, isC := constInt(returnedValues(ret)[idx])
					if !isC {
						all = false
						return
					}
					if first || cv < lo {
						lo = cv
					}
					if first || cv > hi {
						hi = cv
					}
					first = false
				})
				if all && !first {
					bc.z.addLE(lconst(lo), me)
					bc.z.addLE(me, lconst(hi))
				}
			}
		}
	}
	// byte counts returned by reads never exceed the buffer they were given
	if ex, ok := v.(*ssa.Extract); ok && ex.Index == 0 {
		if call, ok := ex.Tuple.(*ssa.Call); ok {
			cc := call.Common()
			name := ""
			if g := calleeFn(cc); g != nil {
				name = g.Name()
			} else if cc.IsInvoke() {
				name = cc.Method.Name()
			}
			switch name {
			case "ReadMsgUnix", "Read", "ReadFrom", "ReadFromUnix":
				bufIdx := 0
				if !cc.IsInvoke() && len(cc.Args) > 1 {
					bufIdx = 1
				}
				if bufIdx < len(cc.Args) {
					if _, isSl := cc.Args[bufIdx].Type().Underlying().(*types.Slice); isSl {
						bc.z.addLE(lconst(0), me)
						bc.z.addLE(me, bc.lenOf(cc.Args[bufIdx]))
					}
				}
			}
		}
	}
	return me
}

// lenOf gives the term for len(x) of a slice / string / array / pointer-to-array value.
func (bc *boundsCtx) lenOf(x ssa.Value) lterm {
	if t, ok := bc.lens[x]; ok {
		return t
	}
	t := bc.lenOf1(x)
	bc.lens[x] = t
	return t
}

func (bc *boundsCtx) lenOf1(x ssa.Value) lterm {
	// arrays
	if arr, ok := deref(x.Type()).Underlying().(*types.Array); ok {
		if _, isSlice := x.Type().Underlying().(*types.Slice); !isSlice {
			return lconst(arr.Len())
		}
	}
	switch y := x.(type) {
	case *ssa.Const:
		if s, ok := constString(y); ok {
			return lconst(int64(len(s)))
		}
		if y.Value == nil {
			return lconst(0) // nil slice
		}
	case *ssa.MakeSlice:
		return bc.term(y.Len)
	case *ssa.Slice:
		// len = high - low
		base := bc.lenOf(y.X)
		var lo, hi lterm
		lo = lconst(0)
		if y.Low != nil {
			lo = bc.term(y.Low)
		}
		hi = base
		if y.High != nil {
			hi = bc.term(y.High)
		}
		if lo.v == "0" {
			return lterm{hi.v, hi.c - lo.c}
		}
		if hi.v == lo.v {
			return lconst(hi.c - lo.c)
		}
		me := lterm{"len:" + bc.name(x), 0}
		bc.z.addLE(lconst(0), me)
		if bc.z.entLE(lconst(0), lo) {
			bc.z.addLE(me, hi)
		}
		return me
	case *ssa.Convert: // string <-> []byte
		return bc.lenOf(y.X)
	case *ssa.ChangeType:
		return bc.lenOf(y.X)
	case *ssa.Call:
		if isCallTo(y, "(*bytes.Buffer).Bytes") {
			if ap := accessPath(y.Call.Args[0], bc.getters, 0); ap != "" {
				me := lterm{"buflen:" + ap, 0}
				bc.z.addLE(lconst(0), me)
				return me
			}
		}
		if f := calleeFn(y.Common()); f != nil {
			switch f.String() {
			case "strings.Split", "bytes.Split":
				me := lterm{"len:" + bc.name(x), 0}
				if s, ok := constString(y.Call.Args[1]); ok && s != "" {
					bc.z.addLE(lconst(1), me)
				} else {
					bc.z.addLE(lconst(0), me)
				}
				return me
			case "bytes.ToLower", "bytes.ToUpper":
				// ASCII/UTF-8 case mapping may change length only for non-ASCII; not assumed equal
			}
		}
		if b, ok := y.Call.Value.(*ssa.Builtin); ok && b.Name() == "append" {
			me := lterm{"len:" + bc.name(x), 0}
			la := bc.lenOf(y.Call.Args[0])
			// append(a, e1, ..., ek): the variadic part is a full slice of a fresh [k]T
			k := int64(0)
			if len(y.Call.Args) == 2 {
				if sl, ok := y.Call.Args[1].(*ssa.Slice); ok && sl.Low == nil && sl.High == nil {
					if al, ok := sl.X.(*ssa.Alloc); ok {
						if at, ok := deref(al.Type()).Underlying().(*types.Array); ok {
							k = at.Len()
						}
					}
				}
			}
			bc.z.addLE(lterm{la.v, la.c + k}, me)
			return me
		}
	}
	// access-path based identity
	key := ""
	if ap := accessPath(x, bc.getters, 0); ap != "" {
		key = "len:" + ap
	} else {
		key = "len:" + bc.name(x)
	}
	me := lterm{key, 0}
	bc.z.addLE(lconst(0), me)
	if ap := accessPath(x, bc.getters, 0); ap != "" {
		if m, ok := bc.pathMin[ap]; ok {
			bc.z.addLE(lconst(m), me)
		}
	}
	if bc.valMin != nil {
		if m, ok := bc.valMin(x); ok {
			bc.z.addLE(lconst(m), me)
		}
	}
	if prm, ok := x.(*ssa.Parameter); ok {
		if m, ok := bc.p.paramMaxLen(prm); ok {
			bc.z.addLE(me, lconst(m))
		}
	}
	return me
}

// capConst: a constant upper bound on cap(v) when v is (a slice of) a constant-sized allocation.
func capConst(v ssa.Value, depth int) (int64, bool) {
	if depth > 6 {
		return 0, false
	}
	switch y := v.(type) {
	case *ssa.MakeSlice:
		if k, ok := constInt(y.Cap); ok {
			return k, true
		}
	case *ssa.Slice:
		if arr, ok := deref(y.X.Type()).Underlying().(*types.Array); ok {
			if _, isSlice := y.X.Type().Underlying().(*types.Slice); !isSlice {
				return arr.Len(), true
			}
		}
		return capConst(y.X, depth+1)
	case *ssa.ChangeType:
		return capConst(y.X, depth+1)
	}
	return 0, false
}

// paramMaxLen: upper bound on len(prm) of an unexported function: every caller passes (a slice of) a constant-sized
// allocation made in the caller.
func (p *Prog) paramMaxLen(prm *ssa.Parameter) (int64, bool) {
	fn := prm.Parent()
	if _, isSl := prm.Type().Underlying().(*types.Slice); !isSl || fn == nil || fn.Object() == nil || fn.Object().Exported() {
		return 0, false
	}
	idx := paramIndex(fn, prm)
	max, n := int64(-1), 0
	for _, ed := range p.callersOf(fn) {
		if p.isTestFn(ed.Caller.Func) {
			continue
		}
		args := ed.Site.Common().Args
		if idx < 0 || idx >= len(args) {
			return 0, false
		}
		k, ok := capConst(args[idx], 0)
		if !ok {
			return 0, false
		}
		n++
		if k > max {
			max = k
		}
	}
	if n == 0 {
		return 0, false
	}
	return max, true
}

type condFact struct {
	op   token.Token
	a, b lterm
}

// edgeConds collects comparison facts that hold on entry to block b:
// for every If in a dominator whose taken successor (single-pred) dominates b.
func (bc *boundsCtx) edgeConds(b *ssa.BasicBlock) []condFact {
	var out []condFact
	for _, d := range bc.fn.Blocks {
		if len(d.Instrs) == 0 {
			continue
		}
		iff, ok := d.Instrs[len(d.Instrs)-1].(*ssa.If)
		if !ok || !d.Dominates(b) {
			continue
		}
		for k := 0; k < 2; k++ {
			s := d.Succs[k]
			if len(s.Preds) != 1 || !(s == b || s.Dominates(b)) {
				continue
			}
			if d.Succs[0] == d.Succs[1] {
				continue
			}
			out = append(out, bc.condFacts(iff.Cond, k == 0)...)
		}
	}
	return out
}

func negate(op token.Token) token.Token {
	switch op {
	case token.LSS:
		return token.GEQ
	case token.LEQ:
		return token.GTR
	case token.GTR:
		return token.LEQ
	case token.GEQ:
		return token.LSS
	case token.EQL:
		return token.NEQ
	case token.NEQ:
		return token.EQL
	}
	return token.ILLEGAL
}

func (bc *boundsCtx) condFacts(cond ssa.Value, truth bool) []condFact {
	switch x := cond.(type) {
	case *ssa.UnOp:
		if x.Op == token.NOT {
			return bc.condFacts(x.X, !truth)
		}
	case *ssa.BinOp:
		op := x.Op
		switch op {
		case token.LSS, token.LEQ, token.GTR, token.GEQ, token.EQL, token.NEQ:
		default:
			return nil
		}
		if intBits(x.X.Type()) == 0 {
			// slice == nil  => len == 0
			if _, isSl := x.X.Type().Underlying().(*types.Slice); isSl && isNilConst(x.Y) {
				if (op == token.EQL) == truth {
					return []condFact{{token.EQL, bc.lenOf(x.X), lconst(0)}}
				}
			}
			// err == nil after a validating helper: whatever the helper establishes about the length of its slice
			// arguments on every nil-error return holds on this edge
			if isNilConst(x.Y) && (op == token.EQL) == truth {
				return bc.validatorFacts(x.X)
			}
			return nil
		}
		if !truth {
			op = negate(op)
		}
		return []condFact{{op, bc.term(x.X), bc.term(x.Y)}}
	}
	return nil
}

func (bc *boundsCtx) apply(z *Zone, f condFact) {
	switch f.op {
	case token.LSS:
		z.addLT(f.a, f.b)
	case token.LEQ:
		z.addLE(f.a, f.b)
	case token.GTR:
		z.addLT(f.b, f.a)
	case token.GEQ:
		z.addLE(f.b, f.a)
	case token.EQL:
		z.addEQ(f.a, f.b)
	case token.NEQ:
		// x != c with x >= c  => x >= c+1 ; x <= c => x <= c-1
		if z.entLE(f.b, f.a) {
			z.addLT(f.b, f.a)
		} else if z.entLE(f.a, f.b) {
			z.addLT(f.a, f.b)
		}
	}
}

// zoneAt builds the zone holding on entry to block b.
func (bc *boundsCtx) zoneAt(b *ssa.BasicBlock, extra ...lterm) *Zone {
	conds := bc.edgeConds(b) // creates terms and definitional facts first
	z := bc.z.clone()
	for i := 0; i < 2; i++ { // twice: NEQ refinement may need facts added later
		for _, f := range conds {
			bc.apply(z, f)
		}
		for _, d := range bc.deferred {
			d(z, b)
		}
	}
	return z
}

// proveIndex: 0 <= idx < len(x) at instruction site.
func (bc *boundsCtx) proveIndex(site ssa.Instruction, x, idx ssa.Value) (bool, string) {
	it := bc.term(idx)
	lt := bc.lenOf(x)
	z := bc.zoneAt(site.Block())
	lo := z.entLE(lconst(0), it)
	hi := z.entLT(it, lt)
	// a phi index: each incoming value under the conditions of its own edge (a relational join the zone of the
	// merge block cannot express); sound when the container is a parameter, whose length does not change
	if ph, isPhi := idx.(*ssa.Phi); isPhi && (!lo || !hi) {
		if _, isPrm := x.(*ssa.Parameter); isPrm {
			for _, e := range ph.Edges {
				bc.term(e)
			}
			allLo, allHi := true, true
			for i, e := range ph.Edges {
				pred := ph.Block().Preds[i]
				if iff, ok := pred.Instrs[len(pred.Instrs)-1].(*ssa.If); ok {
					bc.condFacts(iff.Cond, true)
				}
				ze := bc.zoneAt(pred)
				if iff, ok := pred.Instrs[len(pred.Instrs)-1].(*ssa.If); ok {
					for _, f := range bc.condFacts(iff.Cond, pred.Succs[0] == ph.Block()) {
						bc.apply(ze, f)
					}
				}
				et := bc.term(e)
				if !ze.entLE(lconst(0), et) {
					allLo = false
				}
				if !ze.entLT(et, lt) {
					allHi = false
				}
			}
			// the phi's block must dominate the use with no redefinition in between (SSA guarantees it)
			lo, hi = lo || allLo, hi || allHi
		}
	}
	if lo && hi {
		return true, fmt.Sprintf("0 <= %s%+d < %s%+d entailed by dominating conditions", it.v, it.c, lt.v, lt.c)
	}
	why := ""
	if !lo {
		why += "no witness for index >= 0; "
	}
	if !hi {
		why += fmt.Sprintf("no witness for index (%s%+d) < length (%s%+d)", it.v, it.c, lt.v, lt.c)
	}
	return false, why
}

// proveSlice: 0 <= lo <= hi <= len(x) (cap is not used as a witness).
func (bc *boundsCtx) proveSlice(s *ssa.Slice) (bool, string) {
	lt := bc.lenOf(s.X)
	lo, hi := lconst(0), lt
	if s.Low != nil {
		lo = bc.term(s.Low)
	}
	if s.High != nil {
		hi = bc.term(s.High)
	}
	z := bc.zoneAt(s.Block())
	a := z.entLE(lconst(0), lo)
	b := z.entLE(lo, hi)
	c := z.entLE(hi, lt)
	if a && b && c {
		return true, fmt.Sprintf("0 <= %s%+d <= %s%+d <= %s%+d entailed", lo.v, lo.c, hi.v, hi.c, lt.v, lt.c)
	}
	why := ""
	if !a {
		why += "no witness for low >= 0; "
	}
	if !b {
		why += fmt.Sprintf("no witness for low (%s%+d) <= high (%s%+d); ", lo.v, lo.c, hi.v, hi.c)
	}
	if !c {
		why += fmt.Sprintf("no witness for high (%s%+d) <= length (%s%+d)", hi.v, hi.c, lt.v, lt.c)
	}
	return false, why
}

// installPhiPass adds (once) a deferred pass that finds, optimistically, the integer phis of the function
// whose every incoming value is >= 0 (resp. >= 1) given the path facts: start from all phis, drop those with
// an incoming value that is neither entailed >= c nor (another candidate phi + non-negative constant).
func (bc *boundsCtx) installPhiPass() {
	if bc.phiPass {
		return
	}
	bc.phiPass = true
	var phis []*ssa.Phi
	for _, b := range bc.fn.Blocks {
		for _, in := range b.Instrs {
			if ph, ok := in.(*ssa.Phi); ok && intBits(ph.Type()) > 0 {
				phis = append(phis, ph)
			}
		}
	}
	// make sure every edge has a term (creates definitional facts) before the deferred pass runs
	bc.deferred = append(bc.deferred, func(z *Zone, _ *ssa.BasicBlock) {
		for _, c0 := range []int64{0} {
			cand := map[*ssa.Phi]bool{}
			for _, ph := range phis {
				cand[ph] = true
			}
			okEdge := func(e ssa.Value) bool {
				if cv, isC := constInt(e); isC {
					return cv >= c0
				}
				base, add := e, int64(0)
				if bo, ok := e.(*ssa.BinOp); ok && bo.Op == token.ADD {
					if k, isC := constInt(bo.Y); isC {
						base, add = bo.X, k
					}
				}
				if ph, ok := base.(*ssa.Phi); ok && cand[ph] && add >= 0 {
					return true
				}
				if n, has := bc.names[e]; has {
					return z.entLE(lconst(c0), lterm{n, 0})
				}
				if n, has := bc.names[base]; has {
					return z.entLE(lconst(c0), lterm{n, add})
				}
				return false
			}
			for changed := true; changed; {
				changed = false
				for _, ph := range phis {
					if !cand[ph] {
						continue
					}
					for _, e := range ph.Edges {
						if !okEdge(e) {
							delete(cand, ph)
							changed = true
							break
						}
					}
				}
			}
			for ph := range cand {
				if n, has := bc.names[ph]; has {
					z.addLE(lconst(c0), lterm{n, 0})
				}
			}
		}
	})
}

// storesField: the function under analysis stores to the same field (of any base) somewhere.
func (bc *boundsCtx) storesField(fa *ssa.FieldAddr) bool {
	f, _ := fieldAddr(fa)
	found := false
	eachInstr(bc.fn, func(_ *ssa.BasicBlock, _ int, in ssa.Instruction) {
		if st, ok := in.(*ssa.Store); ok {
			if g, _ := fieldAddr(st.Addr); g == f {
				found = true
			}
		}
	})
	return found
}

var validatorMemo = map[*ssa.Function]map[int]int64{}

// validatorFacts: errV is the error result of a call to a module function; returns len(arg_i) >= k for every slice
// argument for which every nil-error return of the callee has a zone witness len(param_i) >= k.
func (bc *boundsCtx) validatorFacts(errV ssa.Value) []condFact {
	var call *ssa.Call
	switch x := errV.(type) {
	case *ssa.Extract:
		call, _ = x.Tuple.(*ssa.Call)
		if call != nil && x.Index != call.Call.Signature().Results().Len()-1 {
			return nil
		}
	case *ssa.Call:
		call = x
	}
	if call == nil {
		return nil
	}
	g := calleeFn(call.Common())
	if g == nil || !isModFn(g) || g.Blocks == nil || g == bc.fn {
		return nil
	}
	sum, ok := validatorMemo[g]
	if !ok {
		sum = map[int]int64{}
		validatorMemo[g] = sum // guards against recursion
		gbc := newBoundsCtx(bc.p, g)
		for i, prm := range g.Params {
			if _, isSl := prm.Type().Underlying().(*types.Slice); !isSl {
				if b, isB := prm.Type().Underlying().(*types.Basic); !isB || b.Kind() != types.String {
					continue
				}
			}
			L := gbc.lenOf(prm)
			min := int64(1 << 30)
			nret := 0
			eachInstr(g, func(b *ssa.BasicBlock, _ int, in ssa.Instruction) {
				r, ok := in.(*ssa.Return)
				if !ok || len(r.Results) == 0 {
					return
				}
				if !isNilConst(returnedValues(r)[len(r.Results)-1]) {
					return
				}
				nret++
				z := gbc.zoneAt(b)
				k := int64(0)
				for t := int64(64); t >= 1; t-- {
					if z.entLE(lconst(t), L) {
						k = t
						break
					}
				}
				if k < min {
					min = k
				}
			})
			if nret > 0 && min >= 1 && min < 1<<30 {
				sum[i] = min
			}
		}
	}
	var out []condFact
	for i, k := range sum {
		if i < len(call.Call.Args) {
			out = append(out, condFact{token.GEQ, bc.lenOf(call.Call.Args[i]), lconst(k)})
		}
	}
	// ... and about the integer it returns with a nil error (a length read and range-checked by a helper): a constant
	// lower bound, and an upper bound that is a constant or one of the helper's integer parameters
	if g.Signature.Results().Len() == 2 && intBits(g.Signature.Results().At(0).Type()) > 0 {
		rs, ok := resultMemo[g]
		if !ok {
			rs = &resultSummary{hiParam: -1}
			resultMemo[g] = rs
			gbc := newBoundsCtx(bc.p, g)
			nret := 0
			loOK := map[int64]bool{-1: true, 0: true, 1: true}
			hiPrm := map[int]bool{}
			for i, prm := range g.Params {
				if intBits(prm.Type()) > 0 {
					hiPrm[i] = true
				}
			}
			eachInstr(g, func(b *ssa.BasicBlock, _ int, in ssa.Instruction) {
				r, isRet := in.(*ssa.Return)
				if !isRet {
					return
				}
				vals := returnedValues(r)
				if len(vals) != 2 || !isNilConst(vals[1]) {
					return
				}
				nret++
				z := gbc.zoneAt(b)
				rt := gbc.term(vals[0])
				for k := range loOK {
					if !z.entLE(lconst(k), rt) {
						delete(loOK, k)
					}
				}
				for i := range hiPrm {
					if !z.entLE(rt, gbc.term(g.Params[i])) {
						delete(hiPrm, i)
					}
				}
			})
			if nret > 0 {
				for _, k := range []int64{1, 0, -1} {
					if loOK[k] {
						rs.lo, rs.hasLo = k, true
						break
					}
				}
				for i := range hiPrm {
					rs.hiParam = i
				}
			}
		}
		var res ssa.Value
		for _, r := range *call.Referrers() {
			if ex, isEx := r.(*ssa.Extract); isEx && ex.Index == 0 {
				res = ex
			}
		}
		if res != nil {
			if rs.hasLo {
				out = append(out, condFact{token.GEQ, bc.term(res), lconst(rs.lo)})
			}
			if rs.hiParam >= 0 && rs.hiParam < len(call.Call.Args) {
				out = append(out, condFact{token.LEQ, bc.term(res), bc.term(call.Call.Args[rs.hiParam])})
			}
		}
	}
	return out
}

type resultSummary struct {
	lo      int64
	hasLo   bool
	hiParam int
}

var resultMemo = map[*ssa.Function]*resultSummary{}
