package main

import (
	"fmt"
	"go/constant"
	"go/token"
	"go/types"
	"sort"
	"strings"

	"golang.org/x/tools/go/ssa"
)

func init() {
	register(&propDef{
		id: "C02",
		li: levelInfo{
			Level:       "other",
			Explanation: "Static ownership (typestate) analysis. Every request object acquired in proc/redis (parameter of a consuming function, closure capture, constructor result that is waited on, receive from a request queue, child of a split) is followed along every acyclic CFG path of its function and of one loop iteration; on each path it must be completed exactly once - directly (SetResponse), by hand-off into a request queue, by a callee whose inferred summary consumes it, or by delegation to a hook of another request. Summaries (consumes / borrows / consumes-iff-Stop / wraps-iff-err-nil / delegates) are inferred bottom-up over the VTA call graph. Further rules: the terminal drain covers every request queue and runs after both loops are joined; every blocking queue operation is a select case next to the connection's quit latch; an enqueue that races with the final drain re-tests the latch and drains; child counters of split requests; close(done) only inside SetResponse. Decides the shape of the code on all paths; real scheduling and timing are not decided. R9: the connection is closed after the reader returns and before the writer is joined (shared with C07.R2), and no lock is held at a join that the joined goroutines need (shared with C09.R7). R10 (shared with C07.R1): the winner of a shared connect attempt stores the connection or error it returns into the in-flight entry before releasing the waiters (a deletion in a deferred closure is recognised). The terminal drain is evaluated per call site: a queue switched off by a nil channel counts only when the switching argument is the matching constant; the writer goroutine may be a closure or a method started with go; the child counter may be wrapped in a one-field type. R11: a slice field grown in place is never initialised with a two-index sub-slice of shared storage. R12: no request object is kept in a package-level variable (its done channel closes once). R6 accepts the counter test spelled as `!= 0` with an early return; completion hooks may be built by a factory function. R5 also: an enqueue into a backend queue waits for room (no default arm).",
			Assumptions: []string{"a request is shared only through the queues, hooks and wrappers the engine models (no other aliasing of *simpleRequest / *rawRequest)"},
			TrustedBase: []string{"go/ssa", "VTA call graph", "samlint eown.go path enumeration"},
		},
		run: checkC02,
	})
	techniques["C02"] = "static analysis: linear ownership/typestate of request objects over all acyclic SSA CFG paths with inferred call summaries; channel-operation classification (select-with-quit); who-may-close"
}

// runOwn runs the ownership engine over proc/redis and returns it (shared by C02, C04, C13, C20).
func runOwn(c *Ctx) *ownEngine {
	p := c.P
	e := newOwnEngine(p)
	// obligation-carrying queues: channel fields whose element type is *simpleRequest
	if pk := p.TPkg(redisPkg); pk != nil {
		sc := pk.Types.Scope()
		for _, n := range sc.Names() {
			tn, ok := sc.Lookup(n).(*types.TypeName)
			if !ok {
				continue
			}
			st, ok := tn.Type().Underlying().(*types.Struct)
			if !ok {
				continue
			}
			for i := 0; i < st.NumFields(); i++ {
				if ch, ok := st.Field(i).Type().Underlying().(*types.Chan); ok && modType(ch.Elem(), redisPkg, "simpleRequest") {
					e.queues[st.Field(i)] = true
				}
			}
		}
	}
	fns := p.FuncsIn(redisPkg)
	for _, fn := range fns {
		if p.isTestFn(fn) {
			continue
		}
		// skip the request types' own methods (they define completion)
		if fn.Signature.Recv() != nil && isReqType(fn.Signature.Recv().Type()) {
			continue
		}
		e.analyse(fn)
		for _, prm := range fn.Params {
			if isReqType(prm.Type()) {
				e.summary(fn, prm.Name())
			}
		}
		for _, fv := range fn.FreeVars {
			if pt, ok := fv.Type().Underlying().(*types.Pointer); ok && isReqType(pt.Elem()) {
				e.summary(fn, fv.Name())
			}
		}
		fo := e.done[fn]
		if fo != nil {
			for k := range fo.outcomes {
				e.summary(fn, k)
			}
		}
	}
	return e
}

func checkC02(c *Ctx) {
	p := c.P
	c.Rule("R1", "exactly-once ownership: every request is completed exactly once on every CFG path (0 = dropped, 2 = double completion)")
	c.Rule("R2", "filter contract: every Filter.Do completes the request iff it returns Stop; the chain stops at the first Stop")
	c.Rule("R3", "terminal drain receives from every request queue of the connection, completes what it receives, and runs after the reader returned and the writer was joined")
	c.Rule("R4", "every blocking send/receive on a request queue is a select case next to the connection's quit latch (or lies in the non-blocking drain)")
	c.Rule("R5", "an enqueue that can race with the final drain re-tests the quit latch afterwards and drains that queue on the closed branch; other senders are joined before the drain")
	c.Rule("R6", "split requests: every child carries the parent's done-hook, the counter is initialised to the number of children, the parent is completed only under Dec()==0")
	c.Rule("R7", "close(done) of a request occurs only inside its SetResponse; nothing sends on done")
	c.Rule("R8", "flush gate: every iteration of a writer loop passes the `queue empty => Flush` test before blocking on the queue again")

	e := runOwn(c)
	c.Note("ownership engine: %d functions analysed, %d paths enumerated, %d summaries", e.nfuncs, e.npaths, len(e.sums))

	// ---------------- R1 report
	reportOwn(c, e, "R1", nil)
	c.Expect("R1", 25)

	// ---------------- R2
	filt := p.Named(redisPkg, "Filter")
	if filt == nil {
		c.Unresolved("R2", "proc/redis.Filter")
	} else {
		iface := filt.Underlying().(*types.Interface)
		n := 0
		for _, fn := range p.FuncsIn(redisPkg) {
			if p.isTestFn(fn) || fn.Name() != "Do" || fn.Signature.Recv() == nil {
				continue
			}
			if !types.Implements(fn.Signature.Recv().Type(), iface) {
				continue
			}
			n++
			var rp *ssa.Parameter
			for _, prm := range fn.Params {
				if isReqType(prm.Type()) {
					rp = prm
				}
			}
			if rp == nil {
				continue
			}
			sm := e.summary(fn, rp.Name())
			site := "filter " + fnKey(fn)
			switch sm.kind {
			case ownStopIff:
				c.OK("R2", site, fn.Pos(), "completes the request exactly on the paths that return Stop")
			case ownBorrows:
				// must never return Stop
				stop := false
				eachInstr(fn, func(_ *ssa.BasicBlock, _ int, in ssa.Instruction) {
					if r, ok := in.(*ssa.Return); ok && len(r.Results) == 1 {
						if s, ok := constString(returnedValues(r)[0]); !ok || s != "Continue" {
							stop = true
						}
					}
				})
				c.Check(!stop, "R2", site, fn.Pos(), "never completes the request and only returns Continue", "filter can return Stop without completing the request: the writer drops it")
			default:
				c.Fail("R2", site, fn.Pos(), "filter does not satisfy the contract (summary: "+sm.kind.String()+" "+sm.why+")")
			}
		}
		if ch := p.Func(redisPkg, "(*FilterChain).Do"); ch != nil {
			var rp *ssa.Parameter
			for _, prm := range ch.Params {
				if isReqType(prm.Type()) {
					rp = prm
				}
			}
			sm := e.summary(ch, rp.Name())
			c.Check(sm.kind == ownStopIff, "R2", "filter chain", ch.Pos(), "chain returns Stop iff a filter completed the request, and calls no filter afterwards", "filter chain summary is "+sm.kind.String()+" "+sm.why)
		} else {
			c.Unresolved("R2", "(*FilterChain).Do")
		}
		c.Expect("R2", 3)
	}

	checkQueues(c, e)
	checkChildCounters(c, e, "R6")
	checkFlushGate(c, "R8")
	c.Rule("R9", "a writer blocked in a socket write is woken: the connection is closed after the reader returns and before the writer is joined (shared with C07.R2); no lock is held at a join that the joined goroutines need (shared with C09.R7)")
	checkCloseBeforeJoin(c, "R9")
	c.withAlias(map[string]string{"R7": "R9"}, func() { checkWaitForCycles(c) })
	c.Rule("R12", "a request object serves one request: none is kept in a package-level variable and completed by a second user")
	checkNoSharedRequestObject(c, "R12")
	c.Rule("R11", "hook lists (and every other slice field grown in place) own their spare capacity: no initialisation with a two-index sub-slice of storage shared with siblings")
	checkAppendableFieldsOwnTheirStorage(c, "R11")
	c.Rule("R10", "a shared connect attempt answers every waiter (shared with C07.R1): the winner stores the connection or the error it returns into the in-flight entry before it releases the waiters, and deletes the entry on every path")
	if calls := p.Field(redisPkg, "upstream", "createClientCalls"); calls != nil {
		checkSingleflightEntry(c, "R10", calls)
	} else {
		c.Unresolved("R10", "upstream.createClientCalls")
	}

	// ---------------- R7
	for _, tn := range []string{"simpleRequest", "rawRequest"} {
		f := p.Field(redisPkg, tn, "done")
		if f == nil {
			c.Unresolved("R7", tn+".done")
			continue
		}
		nclose := 0
		for _, op := range p.chanOpsOnField(f) {
			site := fmt.Sprintf("%s.done %s in %s", tn, op.Kind, fnKey(op.Fn))
			switch op.Kind {
			case opClose:
				nclose++
				ok := op.Fn.Name() == "SetResponse" && op.Fn.Signature.Recv() != nil && modType(op.Fn.Signature.Recv().Type(), redisPkg, tn)
				c.Check(ok, "R7", site, op.In.Pos(), "closed only by its own SetResponse", "a request's done latch is closed outside SetResponse: completion hooks are skipped or the latch can be closed twice")
			case opSend:
				c.Fail("R7", site, op.In.Pos(), "something sends on a request's done latch")
			case opRecv:
				c.OK("R7", site, op.In.Pos(), "wait on the latch")
			}
		}
		c.Check(nclose == 1, "R7", tn+".done closers", f.Pos(), "exactly one close site", fmt.Sprintf("%d close sites of the done latch", nclose))
		// SetResponse runs every hook exactly once: loop over the hooks slice with a dynamic call, then close
		sr := p.Func(redisPkg, "(*"+tn+").SetResponse")
		if sr == nil {
			c.Unresolved("R7", tn+".SetResponse")
			continue
		}
		ndyn := 0
		for _, hf := range append([]*ssa.Function{sr}, staticCalleesDeep(sr, 1)...) {
			eachInstr(hf, func(_ *ssa.BasicBlock, _ int, in ssa.Instruction) {
				if call, ok := in.(*ssa.Call); ok {
					if calleeFn(call.Common()) == nil && !call.Call.IsInvoke() {
						if _, isB := call.Call.Value.(*ssa.Builtin); !isB {
							ndyn++
						}
					}
				}
			})
		}
		isCloseDone := func(in ssa.Instruction) bool {
			if !isBuiltin(in, "close") {
				return false
			}
			g, _ := chanFieldOf(callOf(in).Args[0])
			return g == f
		}
		okShape := ndyn == 1
		if okShape {
			// every path to return crosses close(done) (directly or in a helper)
			ok2, _ := p.mustOnAllPaths(sr, isCloseDone, 1)
			okShape = ok2
		}
		c.Check(okShape, "R7", tn+".SetResponse shape", sr.Pos(), "one hook-call site in the loop, close(done) on every path", "SetResponse does not run the hooks and close the latch on every path")
	}
	c.Expect("R7", 6)
}

// reportOwn turns engine results into obligations. filter selects functions (nil = all).
func reportOwn(c *Ctx, e *ownEngine, rule string, filter func(fn *ssa.Function) bool) {
	bad := map[string]bool{}
	seen := map[string]bool{}
	for _, f := range e.findings {
		if filter != nil && !filter(f.fn) {
			continue
		}
		site := fmt.Sprintf("%s / %s %s via [%s]", fnKey(f.fn), f.kind, f.obj, f.trace)
		if seen[site] {
			continue
		}
		seen[site] = true
		bad[sumKey(f.fn, f.obj)] = true
		if f.kind == "undecided" {
			c.Undecided(rule, site, f.pos, f.detail)
		} else {
			c.Fail(rule, site, f.pos, f.detail)
		}
	}
	var keys []string
	for k := range e.sums {
		keys = append(keys, k)
	}
	sort.Strings(keys)
	for _, k := range keys {
		sm := e.sums[k]
		if bad[k] || sm.kind == ownBad {
			continue
		}
		parts := strings.SplitN(k, "|", 2)
		var fn *ssa.Function
		for f := range e.done {
			if fnKey(f) == parts[0] {
				fn = f
			}
		}
		if fn == nil || (filter != nil && !filter(fn)) {
			continue
		}
		c.OK(rule, parts[0]+" / "+parts[1], fn.Pos(), "uniform on all paths: "+sm.kind.String())
	}
}

// queue roles of the backend connection
type queueRoles struct {
	clientT  *types.Named
	quit     *types.Var
	queues   []*types.Var
	drain    *ssa.Function
	drainSel *ssa.Select
	start    *ssa.Function
}

func checkQueues(c *Ctx, e *ownEngine) {
	p := c.P
	quit := p.Field(redisPkg, "client", "quit")
	if quit == nil {
		c.Unresolved("R4", "client.quit")
		return
	}
	var queues []*types.Var
	for f := range e.queues {
		queues = append(queues, f)
	}
	sort.Slice(queues, func(i, j int) bool { return queues[i].Name() < queues[j].Name() })
	if len(queues) < 2 {
		c.Unresolved("R3", "expected at least two request queues in proc/redis")
		return
	}
	// ---- R3: find the drain: a non-blocking select receiving from request queues
	type drainInfo struct {
		fn  *ssa.Function
		sel *ssa.Select
		got map[*types.Var]bool
	}
	var drains []drainInfo
	for _, fn := range p.FuncsIn(redisPkg) {
		if p.isTestFn(fn) {
			continue
		}
		eachInstr(fn, func(_ *ssa.BasicBlock, _ int, in ssa.Instruction) {
			sel, ok := in.(*ssa.Select)
			if !ok || sel.Blocking {
				return
			}
			got := map[*types.Var]bool{}
			for _, st := range sel.States {
				if f, _ := chanFieldOf(st.Chan); f != nil && e.queues[f] && st.Dir == types.RecvOnly {
					got[f] = true
				}
			}
			if len(got) > 0 {
				drains = append(drains, drainInfo{fn, sel, got})
			}
		})
	}
	drainFns := map[*ssa.Function]map[*types.Var]bool{}
	for _, d := range drains {
		if drainFns[d.fn] == nil {
			drainFns[d.fn] = map[*types.Var]bool{}
		}
		for f := range d.got {
			drainFns[d.fn][f] = true
		}
	}
	// the terminal drain = the drain function called from the function that closes client.done
	doneF := p.Field(redisPkg, "client", "done")
	var starter *ssa.Function
	if doneF != nil {
		for _, op := range p.chanOpsOnField(doneF) {
			if op.Kind == opClose {
				starter = op.Fn
			}
		}
	}
	if starter == nil {
		c.Unresolved("R3", "function closing client.done")
		return
	}
	var termDrain *ssa.Function
	var drainCall ssa.Instruction
	var termCovered map[*types.Var]bool
	eachInstr(starter, func(_ *ssa.BasicBlock, _ int, in ssa.Instruction) {
		if cc := callOf(in); cc != nil {
			if g := calleeFn(cc); g != nil {
				if _, isGo := in.(*ssa.Go); !isGo {
					if cov, df := drainCovered(g, cc.Args, e.queues, 0); df != nil && len(cov) > 0 {
						termDrain, drainCall, termCovered = df, in, cov
					}
				}
			}
		}
	})
	if termDrain == nil {
		c.Fail("R3", "terminal drain call in "+fnKey(starter), starter.Pos(), "the function that ends the connection's life never drains the request queues: requests still queued are dropped")
		return
	}
	for _, q := range queues {
		if !types.Identical(namedOf(p.Field(redisPkg, "client", q.Name()).Type()), nil) {
			_ = q
		}
		owner := ""
		if st, ok := p.Named(redisPkg, "client").Underlying().(*types.Struct); ok {
			for i := 0; i < st.NumFields(); i++ {
				if st.Field(i) == q {
					owner = "client"
				}
			}
		}
		if owner != "client" {
			continue
		}
		c.Check(termCovered[q], "R3", "terminal drain covers "+q.Name(), termDrain.Pos(), "received in the drain's select", "the terminal drain does not receive from queue "+q.Name()+": requests left there when the connection dies are never answered")
	}
	// the drain returns only from its default arm: every Return is reached only via the default block
	for _, d := range drains {
		if d.fn != termDrain {
			continue
		}
		def := selectDefaultBlock(d.sel)
		okDef := def != nil
		if okDef {
			eachInstr(d.fn, func(b *ssa.BasicBlock, _ int, in ssa.Instruction) {
				if _, isRet := in.(*ssa.Return); isRet && !(b == def || def.Dominates(b)) {
					okDef = false
				}
			})
		}
		c.Check(okDef, "R3", "terminal drain returns only when empty", d.sel.Pos(), "all returns are in the default arm", "the terminal drain can return while requests are still queued")
	}
	// drain ordering in the starter: dominated by the reader-loop call and by the join on the writer goroutine
	var readerFns, writerFns []*ssa.Function
	for _, q := range queues {
		for _, op := range p.chanOpsOnField(q) {
			if drainFns[op.Fn] != nil && op.InSelect != nil && !op.Blocking {
				continue
			}
			if op.Kind == opRecv && q.Name() == "processingReqs" {
				readerFns = append(readerFns, op.Fn)
			}
			if op.Kind == opSend && q.Name() == "processingReqs" {
				writerFns = append(writerFns, op.Fn)
			}
		}
	}
	okReader, okJoin := false, false
	// the goroutines the starter spawns: closures, or methods/functions started with go
	joined := map[*ssa.Function]bool{}
	var goFns []*ssa.Function
	for _, a := range starter.AnonFuncs {
		goFns = append(goFns, a)
	}
	eachInstr(starter, func(_ *ssa.BasicBlock, _ int, in ssa.Instruction) {
		if g, ok := in.(*ssa.Go); ok {
			if f := calleeFn(&g.Call); f != nil && f.Blocks != nil && isModFn(f) {
				goFns = append(goFns, f)
			}
		}
	})
	eachInstr(starter, func(_ *ssa.BasicBlock, _ int, in ssa.Instruction) {
		if call, ok := in.(*ssa.Call); ok && isCallToFn(call, readerFns...) && instrDominates(in, drainCall) {
			okReader = true
		}
		if u, ok := in.(*ssa.UnOp); ok && u.Op == token.ARROW && instrDominates(in, drainCall) {
			// channel closed by a goroutine of this function after the writer loop returned
			if !localLatchClosedByGoroutine(starter, u.X) {
				return
			}
			for _, a := range goFns {
				var wcall, cl ssa.Instruction
				eachInstr(a, func(_ *ssa.BasicBlock, _ int, x ssa.Instruction) {
					if isCallToFn(x, writerFns...) {
						wcall = x
					}
					if isBuiltin(x, "close") {
						cl = x
					}
				})
				if wcall != nil && cl != nil && instrDominates(wcall, cl) {
					okJoin = true
					joined[a] = true
				}
			}
		}
	})
	c.Check(okReader, "R3", "drain after reader loop in "+fnKey(starter), drainCall.Pos(), "drain call is dominated by the reader loop's return", "the terminal drain can run while the reader loop still receives from the sent-queue")
	c.Check(okJoin, "R3", "drain after writer join in "+fnKey(starter), drainCall.Pos(), "drain call is dominated by a receive on the channel the writer goroutine closes after its loop", "the terminal drain is not preceded by a join on the writer goroutine: the writer can enqueue after the drain")
	c.Expect("R3", 5)

	// ---- R4 / R5: every op on the queues
	for _, q := range queues {
		for _, op := range p.chanOpsOnField(q) {
			if op.Kind != opSend && op.Kind != opRecv {
				continue
			}
			site := fmt.Sprintf("%s %s(%s)", fnKey(op.Fn), op.Kind, q.Name())
			if op.InSelect != nil && !op.Blocking && op.Kind == opSend {
				// an enqueue with a default arm: the request is refused (or dropped) when the queue is momentarily full,
				// although the backend is reachable and would serve it
				c.Fail("R5", fmt.Sprintf("%s send(%s) waits for room", fnKey(op.Fn), q.Name()), op.In.Pos(), "the enqueue into the backend connection's queue has a default arm: when the queue is momentarily full the request is answered with an error (or dropped) although the owner is reachable and would serve it - a MOVED/ASK relayed to a busy target fails, and of the ASKING/command pair one can be queued while the other is refused")
				continue
			}
			if op.InSelect != nil && !op.Blocking {
				c.OK("R4", site, op.In.Pos(), "non-blocking (drain)")
				continue
			}
			guarded := false
			for _, f := range op.Sel {
				if f == quit {
					guarded = true
				}
			}
			if op.InSelect != nil && guarded {
				c.OK("R4", site, op.In.Pos(), "select case next to client.quit")
			} else {
				what := "blocks for ever when the queue is full and the connection is dead"
				if op.Kind == opRecv {
					what = "blocks for ever when nothing is queued (e.g. unsolicited backend data); Stop then never returns"
				}
				c.Fail("R4", site, op.In.Pos(), "unguarded blocking "+op.Kind.String()+" on request queue "+q.Name()+": "+what)
			}
			if op.Kind != opSend {
				continue
			}
			// R5
			isWriter := false
			for _, w := range writerFns {
				if w == op.Fn {
					isWriter = true
				}
			}
			site5 := fmt.Sprintf("%s send(%s) vs final drain", fnKey(op.Fn), q.Name())
			if isWriter && okJoin {
				// the only callers of the writer loop are the joined goroutine
				only := true
				for _, ed := range p.callersOf(op.Fn) {
					if topFn(ed.Caller.Func) != starter && !joined[ed.Caller.Func] {
						only = false
					}
				}
				c.Check(only, "R5", site5, op.In.Pos(), "sender runs only in the goroutine that is joined before the drain", "the writer loop is also called from outside the joined goroutine")
				continue
			}
			// the enqueue waits for room: a select with a default arm answers "busy" (or drops) although the backend is
			// reachable - a redirected command is failed, or its ASKING is queued and the command is not
			if op.InSelect != nil && !op.InSelect.Blocking {
				c.Fail("R5", site5+" waits for room", op.In.Pos(), "the enqueue into the backend connection's queue has a default arm: when the queue is momentarily full the request is answered with an error (or dropped) although the owner is reachable and would serve it - a MOVED/ASK relayed to a busy target fails, and of the ASKING/command pair one can be queued while the other is refused")
				continue
			}
			// idiom (b): after the send, every path re-tests quit and drains this queue on the closed branch
			var after ipos
			if op.InSelect != nil {
				k := -1
				for i, st := range op.InSelect.States {
					if f, _ := chanFieldOf(st.Chan); f == q && st.Dir == types.SendOnly {
						k = i
					}
				}
				cb := selectCaseBlock(op.InSelect, k)
				if cb == nil {
					c.Undecided("R5", site5, op.In.Pos(), "cannot locate the select case block")
					continue
				}
				after = ipos{cb, -1}
			} else {
				after = posOf(op.In)
			}
			retest := func(in ssa.Instruction) bool {
				sel, ok := in.(*ssa.Select)
				if !ok {
					return false
				}
				for k, st := range sel.States {
					if f, _ := chanFieldOf(st.Chan); f == quit && st.Dir == types.RecvOnly {
						cb := selectCaseBlock(sel, k)
						if cb == nil {
							return false
						}
						// closed branch must reach a drain of q on every path
						path := findPath(ipos{cb, -1}, pathQuery{target: isReturn, avoid: func(x ssa.Instruction) bool {
							if cc := callOf(x); cc != nil {
								if g := calleeFn(cc); g != nil {
									if cov, _ := drainCovered(g, cc.Args, e.queues, 0); cov[q] {
										return true
									}
								}
							}
							return false
						}})
						return path == nil
					}
				}
				return false
			}
			path := findPath(after, pathQuery{target: isReturn, avoid: retest})
			if path != nil {
				c.Fail("R5", site5, op.In.Pos(), "check-then-act against the final drain: after the enqueue a path returns without re-testing the quit latch and draining ("+p.pathString(path)+"); a request enqueued just after the final drain is never answered")
			} else {
				c.OK("R5", site5, op.In.Pos(), "after the enqueue every path re-tests client.quit and drains the queue when it is closed")
			}
		}
	}
	c.Expect("R4", 5)
	c.Expect("R5", 2)
}

// atomicWrapper: a module struct type (or pointer to one) whose only field is an atomic counter.
func atomicWrapper(t types.Type) bool {
	st, ok := deref(t).Underlying().(*types.Struct)
	if !ok || st.NumFields() != 1 {
		return false
	}
	nt := namedOf(deref(t))
	return nt != nil && nt.Obj().Pkg() != nil && strings.HasPrefix(nt.Obj().Pkg().Path(), modPath) && typeIsAtomic(st.Field(0).Type())
}

// counterWrapperOp classifies a method of a counter wrapper: "deczero" - it decrements the atomic once and every return
// is "the result == 0"; "store" - it stores its (converted) parameter into the atomic; "" otherwise.
func counterWrapperOp(g *ssa.Function) string {
	if g == nil || g.Blocks == nil || g.Signature.Recv() == nil || !atomicWrapper(g.Signature.Recv().Type()) {
		return ""
	}
	var decs, stores []*ssa.Call
	other := false
	eachInstr(g, func(_ *ssa.BasicBlock, _ int, in ssa.Instruction) {
		call, ok := in.(*ssa.Call)
		if !ok {
			return
		}
		f := calleeFn(call.Common())
		if f == nil || len(call.Call.Args) == 0 || !typeIsAtomic(call.Call.Args[0].Type()) {
			other = true
			return
		}
		switch f.Name() {
		case "Dec":
			decs = append(decs, call)
		case "Store":
			stores = append(stores, call)
		default:
			other = true
		}
	})
	if other {
		return ""
	}
	if len(decs) == 1 && len(stores) == 0 {
		ok := true
		eachInstr(g, func(_ *ssa.BasicBlock, _ int, in ssa.Instruction) {
			ret, isRet := in.(*ssa.Return)
			if !isRet {
				return
			}
			if len(ret.Results) != 1 {
				ok = false
				return
			}
			bo, isBo := returnedValues(ret)[0].(*ssa.BinOp)
			if !isBo || bo.Op != token.EQL || bo.X != ssa.Value(decs[0]) {
				ok = false
				return
			}
			if z, isC := constInt(bo.Y); !isC || z != 0 {
				ok = false
			}
		})
		if ok {
			return "deczero"
		}
	}
	if len(stores) == 1 && len(decs) == 0 && len(g.Params) == 2 {
		if stripConv(stores[0].Call.Args[1]) == ssa.Value(g.Params[1]) {
			return "store"
		}
	}
	return ""
}

// drainCovered: the request queues that a call of g with these arguments drains - the receive cases of g's
// non-blocking selects. A case whose channel is "the queue or nil" (switched off by a nil channel) counts only when
// the parameter that switches it is the matching constant at this call. Wrappers that only call the drain are
// followed, with their constant arguments. The second result is the function that holds the select.
func drainCovered(g *ssa.Function, args []ssa.Value, isQueue map[*types.Var]bool, depth int) (map[*types.Var]bool, *ssa.Function) {
	if g == nil || g.Blocks == nil || depth > 3 {
		return nil, nil
	}
	cov := map[*types.Var]bool{}
	var holder *ssa.Function
	argConst := func(v ssa.Value) (bool, bool) {
		prm, ok := v.(*ssa.Parameter)
		if !ok {
			return false, false
		}
		idx := paramIndex(g, prm)
		if idx < 0 || idx >= len(args) {
			return false, false
		}
		if cst, ok := args[idx].(*ssa.Const); ok && cst.Value != nil && cst.Value.Kind() == constant.Bool {
			return constant.BoolVal(cst.Value), true
		}
		return false, false
	}
	eachInstr(g, func(_ *ssa.BasicBlock, _ int, in ssa.Instruction) {
		sel, ok := in.(*ssa.Select)
		if !ok || sel.Blocking {
			return
		}
		for _, st := range sel.States {
			if st.Dir != types.RecvOnly {
				continue
			}
			ph, isPhi := st.Chan.(*ssa.Phi)
			if !isPhi {
				if f, _ := chanFieldOf(st.Chan); f != nil && isQueue[f] {
					cov[f] = true
					holder = g
				}
				continue
			}
			f, _ := chanFieldOf(ph)
			if f == nil || !isQueue[f] {
				continue
			}
			// the edge that carries the queue comes from the branch of a test of a boolean parameter
			for i, ed := range ph.Edges {
				if isNilConst(ed) || ed == ssa.Value(ph) || i >= len(ph.Block().Preds) {
					continue
				}
				pb := ph.Block().Preds[i]
				if len(pb.Preds) != 1 {
					continue
				}
				d := pb.Preds[0]
				iff, ok := d.Instrs[len(d.Instrs)-1].(*ssa.If)
				if !ok {
					continue
				}
				want := d.Succs[0] == pb
				cond := iff.Cond
				if u, ok := cond.(*ssa.UnOp); ok && u.Op == token.NOT {
					cond, want = u.X, !want
				}
				if val, known := argConst(cond); known && val == want {
					cov[f] = true
					holder = g
				}
			}
		}
	})
	if holder != nil {
		return cov, holder
	}
	// a wrapper: its calls of drains, with its own arguments handed on
	eachInstr(g, func(_ *ssa.BasicBlock, _ int, in ssa.Instruction) {
		cc := callOf(in)
		if cc == nil {
			return
		}
		if _, isGo := in.(*ssa.Go); isGo {
			return
		}
		h := calleeFn(cc)
		if h == nil || h == g || !isModFn(h) {
			return
		}
		sub := make([]ssa.Value, len(cc.Args))
		for i, a := range cc.Args {
			sub[i] = a
			if prm, ok := a.(*ssa.Parameter); ok {
				if idx := paramIndex(g, prm); idx >= 0 && idx < len(args) {
					sub[i] = args[idx]
				}
			}
		}
		if c2, h2 := drainCovered(h, sub, isQueue, depth+1); h2 != nil {
			for f := range c2 {
				cov[f] = true
			}
			holder = h2
		}
	})
	return cov, holder
}

// checkChildCounters verifies the split/assemble counter protocol of every wrapper with children.
func checkChildCounters(c *Ctx, e *ownEngine, rule string) {
	p := c.P
	n := 0
	for _, tn := range []string{"msetRequest", "mgetRequest", "sumResultRequest"} {
		// roles, not names: the counter is the atomic field of the wrapper, the children its slice-of-requests field,
		// the done-hook is the method registered on every child in Split
		split := p.Func(redisPkg, "(*"+tn+").Split")
		var cw, ch *types.Var
		if nt := p.Named(redisPkg, tn); nt != nil {
			if st, ok := nt.Underlying().(*types.Struct); ok {
				for i := 0; i < st.NumFields(); i++ {
					f := st.Field(i)
					if typeIsAtomic(f.Type()) || atomicWrapper(f.Type()) {
						cw = f
					}
					if sl, ok := f.Type().Underlying().(*types.Slice); ok && isReqType(sl.Elem()) {
						ch = f
					}
				}
			}
		}
		var done *ssa.Function
		if split != nil {
			eachInstr(split, func(_ *ssa.BasicBlock, _ int, in ssa.Instruction) {
				if !isMethodCall(in, modPath+"/"+redisPkg, "simpleRequest", "RegisterHook") {
					return
				}
				if mc, ok := callOf(in).Args[1].(*ssa.MakeClosure); ok {
					g := mc.Fn.(*ssa.Function)
					if g.Synthetic != "" {
						eachInstr(g, func(_ *ssa.BasicBlock, _ int, x ssa.Instruction) {
							if c2 := callOf(x); c2 != nil && calleeFn(c2) != nil {
								done = calleeFn(c2)
							}
						})
					} else {
						done = g
					}
				}
			})
		}
		if split == nil || done == nil || cw == nil || ch == nil {
			c.Unresolved(rule, tn+" Split/onChildDone/childWait/children")
			continue
		}
		n++
		// (iii) onChildDone: completes r.raw exactly under Dec()==0
		var dec *ssa.Call
		decIsZeroTest := false // the call itself answers "was this the last one" (a counter wrapper's method)
		isCW := func(v ssa.Value) bool {
			if f, _ := loadedField(v); f == cw {
				return true
			}
			f, _ := fieldAddr(v)
			return f == cw
		}
		eachInstr(done, func(_ *ssa.BasicBlock, _ int, in ssa.Instruction) {
			call, ok := in.(*ssa.Call)
			if !ok || calleeFn(call.Common()) == nil || len(call.Call.Args) == 0 || !isCW(call.Call.Args[0]) {
				return
			}
			g := calleeFn(call.Common())
			if g.Name() == "Dec" && typeIsAtomic(cw.Type()) {
				dec = call
			} else if counterWrapperOp(g) == "deczero" {
				dec, decIsZeroTest = call, true
			}
		})
		site := tn + ".onChildDone"
		if dec == nil {
			c.Fail(rule, site+" decrements the counter", done.Pos(), "the child-done hook does not decrement childWait")
		} else {
			okZero := false
			var zeroBlock *ssa.BasicBlock
			for _, r := range *dec.Referrers() {
				if iff, ok := r.(*ssa.If); ok && decIsZeroTest {
					okZero = true
					zeroBlock = iff.Block().Succs[0]
				}
				if bo, ok := r.(*ssa.BinOp); ok && (bo.Op == token.EQL || bo.Op == token.NEQ) && !decIsZeroTest {
					if z, isC := constInt(bo.Y); isC && z == 0 {
						for _, u := range *bo.Referrers() {
							if iff, ok := u.(*ssa.If); ok {
								okZero = true
								// the ==0 side: the true edge of `== 0`, the false edge of `!= 0`
								if bo.Op == token.EQL {
									zeroBlock = iff.Block().Succs[0]
								} else {
									zeroBlock = iff.Block().Succs[1]
								}
							}
						}
					}
				}
			}
			c.Check(okZero, rule, site+" tests Dec()==0", dec.Pos(), "parent completion is guarded by Dec()==0", "the parent is not completed exactly when the counter reaches 0 (off-by-one completes early - reply assembled from unfinished children - or never)")
			if okZero {
				// all completions of r.raw are dominated by the zero branch, and the zero branch always completes
				completes := func(in ssa.Instruction) bool {
					if isMethodCall(in, modPath+"/"+redisPkg, "rawRequest", "SetResponse") {
						return true
					}
					if cc := callOf(in); cc != nil {
						if g := calleeFn(cc); g != nil && g.Name() == "setResponse" {
							ok, _ := p.mustOnAllPaths(g, func(x ssa.Instruction) bool {
								return isMethodCall(x, modPath+"/"+redisPkg, "rawRequest", "SetResponse")
							}, 1)
							return ok
						}
					}
					return false
				}
				okDom := true
				eachInstr(done, func(b *ssa.BasicBlock, _ int, in ssa.Instruction) {
					if completes(in) && !(b == zeroBlock || zeroBlock.Dominates(b)) {
						okDom = false
					}
				})
				path := findPath(ipos{zeroBlock, -1}, pathQuery{target: isReturn, avoid: completes})
				c.Check(okDom && path == nil && len(zeroBlock.Preds) == 1, rule, site+" completes parent exactly under ==0", dec.Pos(), "SetResponse of the parent only and always on the ==0 branch", "the parent can be completed on a branch other than Dec()==0, or not at all on that branch")
			}
		}
		// (i)+(ii) Split
		var ret *ssa.Return
		var storeCW *ssa.Call
		var storeCh *ssa.Store
		eachInstr(split, func(b *ssa.BasicBlock, _ int, in ssa.Instruction) {
			switch x := in.(type) {
			case *ssa.Call:
				if g := calleeFn(x.Common()); g != nil && len(x.Call.Args) == 2 && isCW(x.Call.Args[0]) {
					if (g.Name() == "Store" && typeIsAtomic(cw.Type())) || counterWrapperOp(g) == "store" {
						storeCW = x
					}
				}
			case *ssa.Store:
				if f, _ := fieldAddr(x.Addr); f == ch {
					storeCh = x
				}
			case *ssa.Return:
				// the return that follows the construction (dominated by the children store)
				if storeCh != nil && instrDominates(storeCh, x) {
					ret = x
				}
			}
		})
		site = tn + ".Split"
		if storeCW == nil || storeCh == nil || ret == nil {
			c.Fail(rule, site+" initialises counter and children", split.Pos(), "Split does not store the children and initialise childWait before returning them")
			continue
		}
		lenOK := false
		if call, ok := stripConv(storeCW.Call.Args[1]).(*ssa.Call); ok && isBuiltin(call, "len") && call.Call.Args[0] == storeCh.Val && returnedValues(ret)[0] == storeCh.Val {
			lenOK = true
		}
		c.Check(lenOK, rule, site+" counter = number of children", storeCW.Pos(), "childWait.Store(len(children)) of the very slice that is stored and returned", "childWait is not initialised to the number of children that are handed out (parent completes early or never)")
		// every appended child has the hook
		nApp := 0
		eachInstr(split, func(b *ssa.BasicBlock, _ int, in ssa.Instruction) {
			call, ok := in.(*ssa.Call)
			if !ok || !isBuiltin(call, "append") || len(call.Call.Args) != 2 {
				return
			}
			sl, ok := call.Call.Args[1].(*ssa.Slice)
			if !ok {
				return
			}
			var elem ssa.Value
			if al, ok := sl.X.(*ssa.Alloc); ok {
				for _, r := range *al.Referrers() {
					if ia, ok := r.(*ssa.IndexAddr); ok {
						for _, rr := range *ia.Referrers() {
							if s, ok := rr.(*ssa.Store); ok && s.Addr == ssa.Value(ia) {
								elem = s.Val
							}
						}
					}
				}
			}
			if elem == nil || !isReqType(elem.Type()) {
				return
			}
			nApp++
			hooked := false
			eachInstr(split, func(b2 *ssa.BasicBlock, _ int, in2 ssa.Instruction) {
				if !isMethodCall(in2, modPath+"/"+redisPkg, "simpleRequest", "RegisterHook") {
					return
				}
				cc := callOf(in2)
				if cc.Args[0] != elem {
					return
				}
				if mc, ok := cc.Args[1].(*ssa.MakeClosure); ok {
					bound := false
					eachInstr(mc.Fn.(*ssa.Function), func(_ *ssa.BasicBlock, _ int, x ssa.Instruction) {
						if isCallToFn(x, done) {
							bound = true
						}
					})
					if bound && instrDominates(in2, call) {
						hooked = true
					}
				}
			})
			c.Check(hooked, rule, fmt.Sprintf("%s child#%d carries the done-hook", site, nApp), call.Pos(), "RegisterHook(r.onChildDone) dominates the append of the child", "a child is handed out without the parent's done-hook: the parent waits for ever")
		})
		c.Check(nApp >= 1, rule, site+" builds children", split.Pos(), "children are appended", "no child is built")
	}
	c.Expect(rule, 12)
	_ = e
	_ = n
}

// checkFlushGate: a writer loop batches writes and flushes only when its queue is empty. Every path of one iteration,
// from the dequeue back to the (blocking) dequeue, must cross the test `len(queue) == 0` whose empty branch flushes;
// otherwise bytes written earlier can sit in the buffer while the loop blocks, and the request they belong to is
// never answered until some unrelated request happens to come along.
func checkFlushGate(c *Ctx, rule string) {
	p := c.P
	n := 0
	for _, q := range []*types.Var{p.Field(redisPkg, "client", "pendingReqs"), p.Field(redisPkg, "session", "processingReqs")} {
		if q == nil {
			c.Unresolved(rule, "writer queue")
			continue
		}
		for _, op := range p.chanOpsOnField(q) {
			if op.Kind != opRecv || op.InSelect == nil || !op.Blocking {
				continue
			}
			fn := op.Fn
			// writer: also encodes (itself or in a helper)
			var enc ssa.Instruction
			for _, hf := range append([]*ssa.Function{fn}, staticCalleesDeep(fn, 2)...) {
				if hf.Pkg == nil || hf.Pkg.Pkg.Path() != modPath+"/"+redisPkg {
					continue
				}
				eachInstr(hf, func(_ *ssa.BasicBlock, _ int, in ssa.Instruction) {
					if cc := callOf(in); cc != nil {
						if g := calleeFn(cc); g != nil && g.Name() == "Encode" {
							enc = in
						}
					}
				})
			}
			if enc == nil {
				continue
			}
			n++
			sel := op.InSelect
			k := -1
			for i, st := range sel.States {
				if f, _ := chanFieldOf(st.Chan); f == q && st.Dir == types.RecvOnly {
					k = i
				}
			}
			cb := selectCaseBlock(sel, k)
			if cb == nil {
				c.Undecided(rule, fnKey(fn)+" dequeue", sel.Pos(), "cannot locate the dequeue branch")
				continue
			}
			// gates
			type gate struct {
				iff   *ssa.If
				empty int // successor index taken when the queue is empty
			}
			var gates []gate
			eachInstr(fn, func(_ *ssa.BasicBlock, _ int, in ssa.Instruction) {
				iff, ok := in.(*ssa.If)
				if !ok {
					return
				}
				bo, ok := iff.Cond.(*ssa.BinOp)
				if !ok || (bo.Op != token.EQL && bo.Op != token.NEQ) {
					return
				}
				call, ok := bo.X.(*ssa.Call)
				z, isZ := constInt(bo.Y)
				if !ok || !isBuiltin(call, "len") || !isZ || z != 0 {
					return
				}
				if f, _ := chanFieldOf(call.Call.Args[0]); f != q {
					return
				}
				e := 0
				if bo.Op == token.NEQ {
					e = 1
				}
				gates = append(gates, gate{iff, e})
			})
			site := fnKey(fn) + " writer loop"
			// gate helpers: a helper every non-error return of which is preceded by a queue-empty test whose empty edge
			// flushes (flushIfIdle), or by a call to such a helper (writeRequest); its error returns must leave the loop
			isFlushI := func(x ssa.Instruction) bool {
				cc := callOf(x)
				if cc == nil {
					return false
				}
				gf := calleeFn(cc)
				return gf != nil && gf.Name() == "Flush"
			}
			gateHelper := map[*ssa.Function]bool{}
			var isGateHelper func(h *ssa.Function, d int) bool
			isGateHelper = func(h *ssa.Function, d int) bool {
				if v, ok := gateHelper[h]; ok {
					return v
				}
				gateHelper[h] = false
				if d < 0 || !isModFn(h) || h.Blocks == nil {
					return false
				}
				// local gates of h, each flushing on its empty edge before any return
				localGate := map[ssa.Instruction]bool{}
				okGates := true
				eachInstr(h, func(_ *ssa.BasicBlock, _ int, in ssa.Instruction) {
					iff, ok := in.(*ssa.If)
					if !ok {
						return
					}
					bo, ok := iff.Cond.(*ssa.BinOp)
					if !ok || (bo.Op != token.EQL && bo.Op != token.NEQ) {
						return
					}
					call, ok := bo.X.(*ssa.Call)
					z, isZ := constInt(bo.Y)
					if !ok || !isBuiltin(call, "len") || !isZ || z != 0 {
						return
					}
					if f, _ := chanFieldOf(call.Call.Args[0]); f != q {
						return
					}
					e := 0
					if bo.Op == token.NEQ {
						e = 1
					}
					localGate[in] = true
					if findPath(ipos{iff.Block().Succs[e], -1}, pathQuery{target: isReturn, avoid: isFlushI}) != nil {
						okGates = false
					}
				})
				if !okGates {
					return false
				}
				crosses := func(x ssa.Instruction) bool {
					if localGate[x] {
						return true
					}
					if call, ok := x.(*ssa.Call); ok {
						if g := calleeFn(call.Common()); g != nil && g != h && isGateHelper(g, d-1) {
							return true
						}
					}
					return false
				}
				okAll, nret := true, 0
				eachInstr(h, func(b *ssa.BasicBlock, _ int, in ssa.Instruction) {
					r, ok := in.(*ssa.Return)
					if !ok {
						return
					}
					// an error return (value tested non-nil on the dominating edge) leaves the caller's loop: checked there
					if len(r.Results) > 0 {
						last := returnedValues(r)[len(r.Results)-1]
						for _, ref := range refsOf(last) {
							if bo, ok := ref.(*ssa.BinOp); ok && bo.Op == token.NEQ && isNilConst(bo.Y) && condEdge(b, bo, true) {
								return
							}
						}
					}
					nret++
					if findPath(entryPos(h), pathQuery{target: func(x ssa.Instruction) bool { return x == in }, avoid: crosses}) != nil {
						okAll = false
					}
				})
				gateHelper[h] = okAll && nret > 0
				return gateHelper[h]
			}
			var helperGateCalls []*ssa.Call
			eachInstr(fn, func(_ *ssa.BasicBlock, _ int, in ssa.Instruction) {
				if call, ok := in.(*ssa.Call); ok {
					if g := calleeFn(call.Common()); g != nil && g != fn && isModFn(g) && isGateHelper(g, 2) {
						helperGateCalls = append(helperGateCalls, call)
					}
				}
			})
			if len(gates) == 0 && len(helperGateCalls) == 0 {
				c.Fail(rule, site+" has a flush gate", sel.Pos(), "the writer never tests its queue for emptiness to flush: written requests/replies can stay in the buffer")
				continue
			}
			isGate := func(x ssa.Instruction) bool {
				for _, g := range gates {
					if x == ssa.Instruction(g.iff) {
						return true
					}
				}
				for _, hc := range helperGateCalls {
					if x == ssa.Instruction(hc) {
						return true
					}
				}
				return false
			}
			again := func(x ssa.Instruction) bool { return x == ssa.Instruction(sel) }
			// the error edge of a gate helper must leave the loop (its error returns skip the gate)
			for hi, hc := range helperGateCalls {
				okErr := true
				for _, ref := range refsOf(hc) {
					bo, ok := ref.(*ssa.BinOp)
					if !ok || bo.Op != token.NEQ || !isNilConst(bo.Y) {
						continue
					}
					for _, r2 := range *bo.Referrers() {
						if iff, ok := r2.(*ssa.If); ok {
							if findPath(ipos{iff.Block().Succs[0], -1}, pathQuery{target: again}) != nil {
								okErr = false
							}
						}
					}
				}
				c.Check(okErr, rule, fmt.Sprintf("%s gate helper call#%d: its error leaves the loop", site, hi+1), hc.Pos(), "the error branch never returns to the dequeue", "after the flush helper failed the loop goes back to the blocking dequeue: what was written stays unflushed")
			}
			path := findPath(ipos{cb, -1}, pathQuery{target: again, avoid: isGate})
			if path != nil {
				c.Fail(rule, site+" every iteration passes the flush gate", sel.Pos(), "an iteration can return to the blocking dequeue without testing `len(queue) == 0` ("+p.pathString(path)+"): what earlier iterations wrote stays unflushed while the loop blocks, and the requests it belongs to are not answered until an unrelated request arrives")
			} else {
				c.OK(rule, site+" every iteration passes the flush gate", sel.Pos(), "every path from the dequeue back to the dequeue crosses the queue-empty test")
			}
			for gi, g := range gates {
				isFlush := func(x ssa.Instruction) bool {
					cc := callOf(x)
					if cc == nil {
						return false
					}
					gf := calleeFn(cc)
					return gf != nil && gf.Name() == "Flush"
				}
				pth := findPath(ipos{g.iff.Block().Succs[g.empty], -1}, pathQuery{target: again, avoid: isFlush})
				c.Check(pth == nil, rule, fmt.Sprintf("%s gate#%d flushes when the queue is empty", site, gi+1), g.iff.Pos(), "the empty branch reaches Flush before the next dequeue", "on the queue-empty branch the loop goes back to the blocking dequeue without flushing")
			}
		}
	}
	if n < 2 {
		c.Unresolved(rule, fmt.Sprintf("expected two writer loops, found %d", n))
	}
}

// refsOf: referrers of a value, or of the error component of a tuple-returning call (through its Extracts).
func refsOf(v ssa.Value) []ssa.Instruction {
	var out []ssa.Instruction
	if v.Referrers() == nil {
		return nil
	}
	for _, r := range *v.Referrers() {
		out = append(out, r)
		if ex, ok := r.(*ssa.Extract); ok {
			out = append(out, *ex.Referrers()...)
		}
	}
	return out
}

// checkAppendableFieldsOwnTheirStorage (C02.R11, C04.R9): a slice field that is grown in place (x.f = append(x.f, ...))
// must own the spare capacity behind its length. Initialising it with a two-index sub-slice of a slab shared with its
// siblings gives it the siblings' storage as capacity: the append that exceeds the reserved part overwrites the first
// element of the next sibling - for the hook lists of split requests that is the sibling's completion hook, so the
// parent is never completed. Such a field is initialised by its own allocation, nil, or a three-index slice.
func checkAppendableFieldsOwnTheirStorage(c *Ctx, rule string) {
	p := c.P
	grown := map[*types.Var]bool{}
	for _, fn := range p.FuncsIn(redisPkg) {
		if p.isTestFn(fn) {
			continue
		}
		eachInstr(fn, func(_ *ssa.BasicBlock, _ int, in ssa.Instruction) {
			st, ok := in.(*ssa.Store)
			if !ok {
				return
			}
			f, base := fieldAddr(st.Addr)
			if f == nil {
				return
			}
			call, ok := st.Val.(*ssa.Call)
			if !ok || !isBuiltin(call, "append") || len(call.Call.Args) == 0 {
				return
			}
			if f2, b2 := loadedField(call.Call.Args[0]); f2 == f && b2 == base {
				grown[f] = true
			}
		})
	}
	if len(grown) == 0 {
		c.Unresolved(rule, "no slice field grown in place in proc/redis")
		return
	}
	n, nbad := 0, 0
	for _, fn := range p.FuncsIn(redisPkg) {
		if p.isTestFn(fn) {
			continue
		}
		eachInstr(fn, func(_ *ssa.BasicBlock, _ int, in ssa.Instruction) {
			st, ok := in.(*ssa.Store)
			if !ok {
				return
			}
			f, _ := fieldAddr(st.Addr)
			if f == nil || !grown[f] {
				return
			}
			n++
			sl, ok := st.Val.(*ssa.Slice)
			if !ok || sl.Max != nil {
				return
			}
			// a slice of a fresh array that nothing else slices owns its storage (make with constant sizes and
			// slice literals are lowered to this form)
			if al, ok := sl.X.(*ssa.Alloc); ok && al.Heap {
				others := 0
				for _, r := range *al.Referrers() {
					if o, isSl := r.(*ssa.Slice); isSl && o != sl {
						others++
					}
				}
				if others == 0 {
					return
				}
			}
			// x.f[:0] of the field itself (reset) keeps its own storage
			if f2, _ := loadedField(sl.X); f2 == f {
				return
			}
			nbad++
			c.Fail(rule, fmt.Sprintf("%s initialises %s.%s with a capacity-unbounded sub-slice#%d", fnKey(fn), ownerOf(p, f), f.Name(), nbad), st.Pos(), "a slice field that is grown in place is initialised with a two-index sub-slice of shared storage: its capacity reaches into the storage of its siblings, and the append that exceeds the reserved part overwrites a sibling's first element (for the hook list of a split request: the sibling's completion hook - the parent request is then never answered)")
		})
	}
	if nbad == 0 {
		c.OK(rule, "fields grown in place own their spare capacity", token.NoPos, fmt.Sprintf("%d fields grown in place, %d stores into them examined", len(grown), n))
	}
}

// checkNoSharedRequestObject (C02.R12): a request object serves one request - it owns a done channel that is closed
// exactly once. A request kept in a package-level variable (a "constant" ASKING request in the style of the shared
// reply values) is completed again by its second user: close of a closed channel, raised in a backend reader goroutine
// that nobody recovers, takes the whole proxy down and every request in flight is never answered.
func checkNoSharedRequestObject(c *Ctx, rule string) {
	p := c.P
	var holds func(t types.Type, depth int) bool
	holds = func(t types.Type, depth int) bool {
		if depth > 3 {
			return false
		}
		if isReqType(t) {
			return true
		}
		switch u := t.Underlying().(type) {
		case *types.Pointer:
			if n := namedOf(u.Elem()); n != nil && n.Obj().Pkg() != nil && n.Obj().Pkg().Path() == modPath+"/"+redisPkg && (n.Obj().Name() == "simpleRequest" || n.Obj().Name() == "rawRequest") {
				return true
			}
			return holds(u.Elem(), depth+1)
		case *types.Slice:
			return holds(u.Elem(), depth+1)
		case *types.Array:
			return holds(u.Elem(), depth+1)
		case *types.Map:
			return holds(u.Elem(), depth+1) || holds(u.Key(), depth+1)
		case *types.Chan:
			return holds(u.Elem(), depth+1)
		}
		if n := namedOf(t); n != nil && n.Obj().Pkg() != nil && n.Obj().Pkg().Path() == modPath+"/"+redisPkg && (n.Obj().Name() == "simpleRequest" || n.Obj().Name() == "rawRequest") {
			return true
		}
		return false
	}
	sp := p.Pkg(redisPkg)
	if sp == nil {
		c.Unresolved(rule, "package "+redisPkg)
		return
	}
	var names []string
	for name, m := range sp.Members {
		g, ok := m.(*ssa.Global)
		if !ok {
			continue
		}
		if pos := p.Pos(g.Pos()); strings.Contains(pos, "_test.go") {
			continue
		}
		if pt, ok := g.Type().(*types.Pointer); ok && holds(pt.Elem(), 0) {
			names = append(names, name)
		}
	}
	sort.Strings(names)
	for _, name := range names {
		c.Fail(rule, "package-level request "+name, sp.Members[name].Pos(), "a request object is kept in a package-level variable: its done channel is closed by the first completion, the second user completes it again - close of a closed channel in a goroutine nobody recovers crashes the proxy, and no request in flight is answered")
	}
	if len(names) == 0 {
		c.OK(rule, "no package-level request object", sp.Pkg.Scope().Pos(), "every request is built for one use")
	}
}
