package main

import (
	"fmt"
	"go/token"
	"go/types"
	"strings"

	"golang.org/x/tools/go/ssa"
)

func init() {
	register(&propDef{
		id: "C18",
		li: levelInfo{
			Level:       "other",
			Explanation: "Static analysis of the SCAN cursor codec and dispatcher. R1 (exhaustive for the codec): the SSA of the cursor composer and parser is interpreted over GF(2)-affine bit forms in the 16 node-index bits and the 48 low node-cursor bits; parse(compose(idx,c)) must be the identity bit-matrix, i.e. for every 16-bit index and every cursor < 2^48. R2: every index/slice of the node list in the scan handler has a zone witness (index < len) and the complementary branch completes the request with the terminal reply constant [\"0\", []]. R3: the node index is incremented exactly on the branch next-cursor == 0 and the new cursor is composed from the updated index. R4: the rewrite stores only into request argument 1 and reply element 0. R5: the node list is the sorted usable-host snapshot. R6: the reply hook indexes element 0 only with a length witness. Key coverage itself is the backend's SCAN contract and is not decided. R5 also: the shared healthy-hosts snapshot is never written or sorted in place (shared with C15.R9). R7: hook order - the cursor rewrite of the reply runs before the hook that completes the client-facing request (execution order read from the loop in SetResponse). R4 also: an in-place append into a decoded text requires capacity-limited slab slices. R8: no object that is given back to a sync.Pool is still captured by a registered completion hook. Hooks may be method values. R4 covers the whole SCAN path: constructor and handler never store into the client request. R9: MakeRequestToHost looks the connection up for its own address parameter only. R10 (shared with C15.R7): the previous object of a re-announced address is purged from the healthy tiers before the new one is inserted. R11 (shared with C08.R10): every host event is handed to the host set on every path.",
			Assumptions: []string{"decimal text <-> integer conversion (strconv.FormatUint / btoi64) round-trips", "node cursors handed out by backends are below 2^48 (the property's own premise)", "x + const does not overflow (zone domain)"},
			TrustedBase: []string{"go/ssa", "samlint ebits.go", "samlint ebounds.go + zone.go"},
		},
		run: checkC18,
	})
	techniques["C18"] = "static analysis: GF(2)-affine abstract interpretation of cursor compose/parse (identity matrix), zone-domain index witnesses, dominance on the SSA CFG"
}

func singleBlockResults(fn *ssa.Function) ([]ssa.Value, bool) {
	if fn == nil || len(fn.Blocks) != 1 {
		return nil, false
	}
	ret, ok := fn.Blocks[0].Instrs[len(fn.Blocks[0].Instrs)-1].(*ssa.Return)
	if !ok {
		return nil, false
	}
	return ret.Results, true
}

func checkC18(c *Ctx) {
	p := c.P
	c.Rule("R1", "cursor codec: parse(compose(idx, c)) == (idx, c) as GF(2) bit-matrices for every 16-bit idx and every c < 2^48")
	c.Rule("R2", "guard before index: every index/slice of the node list in the scan handler has a zone witness; the past-the-end branch answers with the terminal reply [\"0\", []]")
	c.Rule("R3", "advance: node index incremented exactly on next-cursor == 0; new cursor composed from the updated index and the node's cursor")
	c.Rule("R4", "narrow rewrite: the conversion stores only into request argument 1 and reply element 0")
	c.Rule("R5", "node list is the sorted usable-host snapshot")
	c.Rule("R6", "reply hook indexes the reply array only with a length witness")
	c.Rule("R7", "hook order: the cursor rewrite of the reply runs before the hook that completes the client-facing request")

	gen := p.Func(redisPkg, "(*scanRequest).genCursor")
	parse := p.Func(redisPkg, "(*scanRequest).parseCursor")
	conv := p.Func(redisPkg, "(*scanRequest).Convert")
	hscan := p.Func(redisPkg, "handleScan")
	if gen == nil || parse == nil || conv == nil || hscan == nil {
		c.Unresolved("R1", "scanRequest.genCursor / parseCursor / Convert / handleScan")
		return
	}

	// ---------------- R1
	func() {
		gres, ok1 := singleBlockResults(gen)
		pres, ok2 := singleBlockResults(parse)
		if !ok1 || !ok2 || len(gres) != 1 || len(pres) != 2 || len(gen.Params) != 3 || len(parse.Params) != 2 {
			c.Undecided("R1", "codec shape", gen.Pos(), "compose/parse are not single-block functions with (idx,cursor)->cursor and cursor->(idx,cursor) signatures")
			return
		}
		var gi, gc *ssa.Parameter
		for _, prm := range gen.Params[1:] {
			if w, _ := uintWidth(prm.Type()); w == 16 {
				gi = prm
			} else if w == 64 {
				gc = prm
			}
		}
		if gi == nil || gc == nil {
			c.Undecided("R1", "codec shape", gen.Pos(), "compose does not take a 16-bit index and a 64-bit cursor")
			return
		}
		env := &bitsEnv{p: p, known: map[ssa.Value]bvec{}, table: func(*ssa.Global) ([]uint64, bool) { return nil, false }}
		idxIn := bvInput(0, 16)
		curIn := bvInput(16, 48) // bits 48..63 of the node cursor are zero: premise c < 2^48
		curIn.w = 64
		env.known[gi] = idxIn
		env.known[gc] = curIn
		composed, ok := env.eval(gres[0])
		if !ok {
			c.Undecided("R1", "compose affine", gen.Pos(), "compose is outside the GF(2)-affine fragment: "+env.why)
			return
		}
		env2 := &bitsEnv{p: p, known: map[ssa.Value]bvec{}, table: env.table}
		env2.known[parse.Params[1]] = composed
		var outIdx, outCur ssa.Value
		for _, r := range pres {
			if w, _ := uintWidth(r.Type()); w == 16 {
				outIdx = r
			} else {
				outCur = r
			}
		}
		if outIdx == nil || outCur == nil {
			c.Undecided("R1", "codec shape", parse.Pos(), "parse does not return (16-bit index, 64-bit cursor)")
			return
		}
		ri, ok := env2.eval(outIdx)
		if !ok {
			c.Undecided("R1", "parse affine", parse.Pos(), "parse is outside the GF(2)-affine fragment: "+env2.why)
			return
		}
		rc, ok := env2.eval(outCur)
		if !ok {
			c.Undecided("R1", "parse affine", parse.Pos(), "parse is outside the GF(2)-affine fragment: "+env2.why)
			return
		}
		bad := ""
		for k := 0; k < 16; k++ {
			if ri.b[k] != idxIn.b[k] {
				bad = fmt.Sprintf("node-index bit %d comes back as %s", k, ri.b[k])
				break
			}
		}
		for k := 0; k < 64 && bad == ""; k++ {
			if rc.b[k] != curIn.b[k] {
				bad = fmt.Sprintf("node-cursor bit %d comes back as form %s instead of input bit %d (variables: 0-15 index, 16-63 cursor bits 0-47)", k, rc.b[k], k)
			}
		}
		if bad != "" {
			c.Fail("R1", "parse(compose(idx,c)) identity", parse.Pos(), "cursor codec is lossy: "+bad)
		} else {
			c.OK("R1", "parse(compose(idx,c)) identity", parse.Pos(), "identity on all 64 input bits: every idx < 2^16 and c < 2^48")
			c.Extra["exhaustive_codec"] = true
		}
		// composed value uses disjoint supports (no information overlap) -- implied by identity
	}()

	// ---------------- R2 + R5
	func() {
		hostsFn := p.Func(redisPkg, "(*upstream).Hosts")
		var hostsVal ssa.Value
		eachInstr(hscan, func(b *ssa.BasicBlock, i int, in ssa.Instruction) {
			if call, ok := in.(*ssa.Call); ok && hostsFn != nil && isCallToFn(call, hostsFn) {
				hostsVal = call
			}
		})
		if hostsVal == nil {
			c.Undecided("R5", "node list in "+fnKey(hscan), hscan.Pos(), "the scan handler does not obtain its node list from upstream.Hosts()")
			return
		}
		// R5: Hosts() returns hosts.Healthy()
		okSnap := false
		if res, ok := singleBlockResults(hostsFn); ok && len(res) == 1 {
			if call, ok := res[0].(*ssa.Call); ok && isMethodCall(call, modPath+"/host", "Set", "Healthy") {
				okSnap = true
			}
		}
		c.Check(okSnap, "R5", "node list source", hostsFn.Pos(), "upstream.Hosts() returns host.Set.Healthy(), the sorted usable-host snapshot (sortedness: C15.R4)", "the SCAN node list is not the sorted usable-host snapshot; node order may differ between calls")
		bc := newBoundsCtx(p, hscan)
		n := 0
		var guardFalse *ssa.BasicBlock
		eachInstr(hscan, func(b *ssa.BasicBlock, i int, in ssa.Instruction) {
			switch x := in.(type) {
			case *ssa.IndexAddr:
				if !derives(x.X, func(v ssa.Value) bool { return v == hostsVal }) {
					return
				}
				n++
				ok, w := bc.proveIndex(x, x.X, x.Index)
				site := fmt.Sprintf("%s index#%d of node list", fnKey(hscan), n)
				if ok {
					c.OK("R2", site, x.Pos(), w)
				} else {
					c.Fail("R2", site, x.Pos(), "node list indexed by a client-supplied node index without a length witness (crash on a cursor past the last node): "+w)
				}
			case *ssa.Slice:
				if !derives(x.X, func(v ssa.Value) bool { return v == hostsVal }) {
					return
				}
				n++
				ok, w := bc.proveSlice(x)
				site := fmt.Sprintf("%s slice#%d of node list", fnKey(hscan), n)
				if ok {
					c.OK("R2", site, x.Pos(), w)
				} else {
					c.Fail("R2", site, x.Pos(), "node list sliced by a client-supplied node index without a length witness: "+w)
				}
			}
		})
		if n == 0 {
			c.Undecided("R2", "node list use in "+fnKey(hscan), hscan.Pos(), "no index or slice of the node list found")
		}
		// terminal reply: on the branch where the index is out of range the request is completed with respScanTerm
		term := p.Global(redisPkg, "respScanTerm")
		if term == nil {
			c.Unresolved("R2", "respScanTerm")
			return
		}
		nterm := 0
		eachInstr(hscan, func(b *ssa.BasicBlock, i int, in ssa.Instruction) {
			if !isMethodCall(in, modPath+"/"+redisPkg, "rawRequest", "SetResponse") {
				return
			}
			arg := callOf(in).Args[1]
			if u, ok := arg.(*ssa.UnOp); ok && u.X == ssa.Value(term) {
				nterm++
				guardFalse = b
			}
		})
		c.Check(nterm == 1, "R2", "terminal reply sent from "+fnKey(hscan), hscan.Pos(), "one SetResponse(respScanTerm)", "the scan handler does not answer a past-the-end cursor with the terminal reply")
		_ = guardFalse
		// constant shape of respScanTerm: newArray(*newBulkString("0"), *newArray())
		checkScanTermConst(c, term)
	}()

	// ---------------- R3 + R4 + R6 (Convert and its hooks)
	func() {
		nodeIdxF := p.Field(redisPkg, "scanRequest", "nodeIdx")
		if nodeIdxF == nil {
			c.Unresolved("R3", "scanRequest.nodeIdx")
			return
		}
		fns := withAnon(conv)
		// R4: stores into RespValue fields / elements inside Convert and its closures - and anywhere else on the SCAN
		// path (the constructor, the handler): MATCH and COUNT are passed through as they are
		nst := 0
		var others []*ssa.Function
		for _, f2 := range p.FuncsIn(redisPkg) {
			if p.isTestFn(f2) {
				continue
			}
			inFns := false
			for _, f3 := range fns {
				if f3 == f2 {
					inFns = true
				}
			}
			if inFns {
				continue
			}
			isScan := f2.Signature.Recv() != nil && modType(f2.Signature.Recv().Type(), redisPkg, "scanRequest")
			if res := f2.Signature.Results(); res.Len() > 0 {
				if pt, ok := res.At(0).Type().(*types.Pointer); ok && modType(pt.Elem(), redisPkg, "scanRequest") {
					isScan = true
				}
			}
			if topFn(f2).Name() == "handleScan" {
				isScan = true
			}
			if isScan {
				others = append(others, f2)
			}
		}
		for _, fn := range others {
			eachInstr(fn, func(_ *ssa.BasicBlock, _ int, in ssa.Instruction) {
				st, ok := in.(*ssa.Store)
				if !ok {
					return
				}
				f, base := fieldAddr(st.Addr)
				if f == nil || !modType(base.Type(), redisPkg, "RespValue") || isFreshAlloc(base) {
					return
				}
				nst++
				c.Fail("R4", fmt.Sprintf("%s store#%d to RespValue.%s", fnKey(fn), nst, f.Name()), st.Pos(), "the SCAN path rewrites an argument of the client's request outside the cursor conversion: MATCH/COUNT (or a pattern that merely looks like an option name) no longer reach the node as the client sent them")
			})
		}
		for _, fn := range fns {
			bc := newBoundsCtx(p, fn)
			eachInstr(fn, func(b *ssa.BasicBlock, i int, in ssa.Instruction) {
				st, ok := in.(*ssa.Store)
				if !ok {
					return
				}
				f, base := fieldAddr(st.Addr)
				if f == nil || !modType(types.NewPointer(f.Type()), redisPkg, "x") && f.Name() != "Text" && f.Name() != "Array" && f.Name() != "Int" && f.Name() != "Type" {
					return
				}
				if !modType(base.Type(), redisPkg, "RespValue") {
					return
				}
				nst++
				site := fmt.Sprintf("%s store#%d to RespValue.%s", fnKey(fn), nst, f.Name())
				ia, isIA := base.(*ssa.IndexAddr)
				idx := int64(-1)
				if isIA {
					idx, _ = constInt(ia.Index)
				}
				want := int64(1) // request argument 1 in Convert itself
				what := "request argument 1 (the cursor)"
				if fn != conv {
					want = 0
					what = "reply element 0 (the next cursor)"
				}
				if !isIA || f.Name() != "Text" || idx != want {
					c.Fail("R4", site, st.Pos(), "the SCAN rewrite writes something other than "+what+": MATCH/COUNT arguments or returned keys would be altered")
					return
				}
				c.OK("R4", site, st.Pos(), "writes only "+what)
				// R6: that element access has a length witness
				ok2, w := bc.proveIndex(ia, ia.X, ia.Index)
				if fn != conv {
					if ok2 {
						c.OK("R6", site+" length witness", st.Pos(), w)
					} else {
						c.Fail("R6", site+" length witness", st.Pos(), "reply array element written without a length witness: "+w)
					}
				}
			})
		}
		// R6: all reads of reply array elements inside the hooks
		nrd := 0
		for _, fn := range fns {
			if fn == conv {
				continue
			}
			bc := newBoundsCtx(p, fn)
			eachInstr(fn, func(b *ssa.BasicBlock, i int, in ssa.Instruction) {
				ia, ok := in.(*ssa.IndexAddr)
				if !ok {
					return
				}
				if f, _ := loadedField(ia.X); f == nil || f.Name() != "Array" {
					return
				}
				isRead := false
				for _, r := range *ia.Referrers() {
					switch y := r.(type) {
					case *ssa.UnOp:
						isRead = true
					case *ssa.FieldAddr:
						for _, rr := range *y.Referrers() {
							if _, isLoad := rr.(*ssa.UnOp); isLoad {
								isRead = true
							}
						}
					}
				}
				if !isRead {
					return
				}
				nrd++
				site := fmt.Sprintf("%s read#%d of reply element", fnKey(fn), nrd)
				ok2, w := bc.proveIndex(ia, ia.X, ia.Index)
				if ok2 {
					c.OK("R6", site, ia.Pos(), w)
				} else {
					c.Fail("R6", site, ia.Pos(), "a backend SCAN reply with an empty array (\"*0\") makes this index panic: "+w)
				}
			})
		}
		// R3: stores to nodeIdx
		ninc := 0
		for _, a := range p.fieldAccesses(nodeIdxF) {
			st, ok := a.In.(*ssa.Store)
			if !ok || !a.Write {
				continue
			}
			inHooks := false
			for _, hf := range fns {
				if hf == a.Fn {
					inHooks = true
				}
			}
			if !inHooks {
				// constructor assigns from parseCursor: checked below
				continue
			}
			ninc++
			site := fmt.Sprintf("%s nodeIdx update#%d", fnKey(a.Fn), ninc)
			bo, ok := st.Val.(*ssa.BinOp)
			cv, isC := constInt(boY(st.Val))
			if !ok || bo.Op != token.ADD || !isC || cv != 1 {
				c.Fail("R3", site, st.Pos(), "node index is not advanced by exactly 1")
				continue
			}
			// dominated by next == 0 true edge
			okc := false
			for _, d := range a.Fn.Blocks {
				iff, isIf := d.Instrs[len(d.Instrs)-1].(*ssa.If)
				if !isIf {
					continue
				}
				cmp, isCmp := iff.Cond.(*ssa.BinOp)
				if !isCmp || cmp.Op != token.EQL {
					continue
				}
				if z, isZ := constInt(cmp.Y); !isZ || z != 0 {
					continue
				}
				if s := d.Succs[0]; len(s.Preds) == 1 && (s == st.Block() || s.Dominates(st.Block())) {
					// cmp.X must be the parsed next cursor: Extract #0 of call btoi64(resp.Array[0].Text)
					if ex, isEx := cmp.X.(*ssa.Extract); isEx && ex.Index == 0 {
						if call, isCall := ex.Tuple.(*ssa.Call); isCall && calleeFn(call.Common()) != nil && calleeFn(call.Common()).Name() == "btoi64" {
							okc = true
						}
					}
				}
			}
			c.Check(okc, "R3", site+" only when node finished", st.Pos(), "increment is guarded by (parsed next cursor == 0)", "node index is advanced on a branch other than `node's next cursor == 0`: nodes are skipped or repeated")
		}
		c.Check(ninc == 1, "R3", "exactly one advance site in "+fnKey(conv), conv.Pos(), "one increment", fmt.Sprintf("expected exactly one increment of the node index in the reply hook, found %d", ninc))
		// new cursor composed from the *updated* index: the genCursor call's idx argument is a load of nodeIdx that is
		// not dominated-before the increment, i.e. the call is reachable after the store and loads the field afresh
		ngen := 0
		for _, fn := range fns {
			eachInstr(fn, func(b *ssa.BasicBlock, i int, in ssa.Instruction) {
				call, ok := in.(*ssa.Call)
				if !ok || !isCallToFn(call, gen) {
					return
				}
				ngen++
				site := fmt.Sprintf("%s compose#%d", fnKey(fn), ngen)
				f, _ := loadedField(call.Call.Args[1])
				ld, isLd := call.Call.Args[1].(*ssa.UnOp)
				okLoad := f == nodeIdxF && isLd && ld.Block() == call.Block()
				c.Check(okLoad, "R3", site+" uses current node index", call.Pos(), "index argument is r.nodeIdx loaded after the advance", "the cursor handed to the client is not composed from the (updated) node index")
				// cursor argument is the parsed next cursor
				ex, isEx := stripConv(call.Call.Args[2]).(*ssa.Extract)
				okCur := false
				if isEx && ex.Index == 0 {
					if cl, isCall := ex.Tuple.(*ssa.Call); isCall && calleeFn(cl.Common()) != nil && calleeFn(cl.Common()).Name() == "btoi64" {
						okCur = true
					}
				}
				c.Check(okCur, "R3", site+" uses node's next cursor", call.Pos(), "cursor argument is the node's parsed next cursor", "the cursor handed to the client is not composed from the node's next cursor")
			})
		}
		c.Check(ngen >= 1, "R3", "compose is used in the reply hook", conv.Pos(), "found", "no call of the cursor composer in the SCAN rewrite")
		// constructor: nodeIdx, nodeCursor = parseCursor(uint64(cursor of argument 1))
		ctor := p.Func(redisPkg, "newScanRequest")
		if ctor == nil {
			c.Unresolved("R3", "newScanRequest")
		} else {
			found := false
			eachInstr(ctor, func(b *ssa.BasicBlock, i int, in ssa.Instruction) {
				if call, ok := in.(*ssa.Call); ok && isCallToFn(call, parse) {
					found = true
				}
			})
			c.Check(found, "R3", "constructor parses the client cursor", ctor.Pos(), "parseCursor is applied in the constructor", "the client cursor is not decomposed with the cursor parser")
		}
		// the rewritten request argument is the node cursor
		eachInstr(conv, func(b *ssa.BasicBlock, i int, in ssa.Instruction) {
			call, ok := in.(*ssa.Call)
			if !ok || !isCallTo(call, "strconv.FormatUint") {
				return
			}
			f, _ := loadedField(call.Call.Args[0])
			c.Check(f != nil && f.Name() == "nodeCursor", "R3", "node request carries the node cursor", call.Pos(), "argument 1 := FormatUint(r.nodeCursor)", "the request sent to the node does not carry the decoded node cursor")
		})
	}()
	c.Expect("R1", 1)
	c.Expect("R2", 3)
	c.Expect("R3", 6)
	c.Expect("R4", 2)
	c.Expect("R6", 2)
	checkInPlaceTextRewrite(c, "R4")
	checkSnapshotImmutable(c, "R5")
	checkHookOrder(c, "R7")
	c.Expect("R7", 2)
	c.Rule("R10", "a host that is announced again stays in the node list (shared with C15.R7): the previous object of the address is purged from the healthy tiers before the new one is inserted, never after")
	c.withAlias(map[string]string{"R7": "R10", "R1": "", "R2": "", "R3": "", "R4": "", "R5": "", "R6": "", "R8": "", "R9": "", "R10": "", "R11": "", "R12": ""}, func() { checkC15(c) })
	c.Rule("R11", "a removed host leaves the node list (shared with C08.R10/C06.R12): every add/remove/replace handler hands the event's hosts to the host set on every path, whether or not a connection to them exists")
	checkEndpointEventsReachSet(c, "R11")
	c.Rule("R9", "the node that answers is the node asked: a request addressed to a host is sent to the connection of that address or failed")
	checkRequestGoesToTheAddressAsked(c, "R9")
	c.Rule("R8", "no object that is given back to a sync.Pool is still captured by a registered completion hook")
	checkNoPooledObjectInHook(c, "R8")
}

// checkScanTermConst verifies respScanTerm = Array[ BulkString "0", Array[] ] from its initialiser.
func checkScanTermConst(c *Ctx, g *ssa.Global) {
	p := c.P
	var st *ssa.Store
	n := 0
	for _, in := range p.globalUses(g) {
		if s, ok := in.(*ssa.Store); ok && s.Addr == ssa.Value(g) {
			st = s
			n++
		}
	}
	if n != 1 {
		c.Fail("R2", "terminal reply constant", g.Pos(), fmt.Sprintf("respScanTerm is assigned %d times", n))
		return
	}
	// newArray(a, b): variadic slice of two RespValues; first = *newBulkString("0"), second = *newArray()
	call, ok := st.Val.(*ssa.Call)
	if !ok || calleeFn(call.Common()) == nil || calleeFn(call.Common()).Name() != "newArray" {
		c.Undecided("R2", "terminal reply constant", st.Pos(), "respScanTerm is not built with newArray(...)")
		return
	}
	sl, ok := call.Call.Args[0].(*ssa.Slice)
	if !ok {
		c.Undecided("R2", "terminal reply constant", st.Pos(), "newArray argument is not a literal")
		return
	}
	al, ok := sl.X.(*ssa.Alloc)
	arr, isArr := deref(al.Type()).Underlying().(*types.Array)
	if !ok || !isArr || arr.Len() != 2 {
		c.Fail("R2", "terminal reply constant", st.Pos(), "terminal reply does not have exactly two elements (cursor, keys)")
		return
	}
	cells := map[int64]ssa.Value{}
	for _, r := range *al.Referrers() {
		if ia, ok := r.(*ssa.IndexAddr); ok {
			k, _ := constInt(ia.Index)
			for _, rr := range *ia.Referrers() {
				if s, ok := rr.(*ssa.Store); ok && s.Addr == ssa.Value(ia) {
					cells[k] = s.Val
				}
			}
		}
	}
	okc := false
	if u, ok := cells[0].(*ssa.UnOp); ok {
		if cl, ok := u.X.(*ssa.Call); ok && calleeFn(cl.Common()) != nil && calleeFn(cl.Common()).Name() == "newBulkString" {
			if s, ok := constString(cl.Call.Args[0]); ok && s == "0" {
				okc = true
			}
		}
	}
	oka := false
	if u, ok := cells[1].(*ssa.UnOp); ok {
		if cl, ok := u.X.(*ssa.Call); ok && calleeFn(cl.Common()) != nil && calleeFn(cl.Common()).Name() == "newArray" {
			// empty, non-nil slice literal
			switch a := cl.Call.Args[0].(type) {
			case *ssa.Slice:
				if al2, ok := a.X.(*ssa.Alloc); ok {
					if arr2, ok := deref(al2.Type()).Underlying().(*types.Array); ok && arr2.Len() == 0 {
						oka = true
					}
				}
			case *ssa.Const:
				// nil slice would encode as a null array "*-1": clients expect an empty array
				oka = false
			}
		}
	}
	c.Check(okc, "R2", "terminal reply cursor is \"0\"", st.Pos(), "element 0 is bulk string \"0\"", "terminal reply's cursor is not the bulk string \"0\": clients never see the end of the iteration")
	c.Check(oka, "R2", "terminal reply key list is an empty array", st.Pos(), "element 1 is an empty, non-null array", "terminal reply's key list is not an empty non-null array")
}

// checkHookOrder (C18.R7, C13.R9): hooks of a request run in an order fixed by SetResponse (read from its loop). A hook
// that completes the client-facing request hands the reply to the session writer at once; a hook that rewrites the
// reply (SCAN cursor, decompression) must therefore run before it. Where one function registers both kinds on the same
// request, the registration order must give that execution order.
func checkHookOrder(c *Ctx, rule string) {
	p := c.P
	sr := p.Func(redisPkg, "(*simpleRequest).SetResponse")
	reg := p.Func(redisPkg, "(*simpleRequest).RegisterHook")
	if sr == nil || reg == nil {
		c.Unresolved(rule, "simpleRequest.SetResponse / RegisterHook")
		return
	}
	// execution order: the loop index of the hook loop starts at len-1 and decreases (LIFO) or at 0 and increases (FIFO)
	lifo, known := false, false
	for _, lf := range append([]*ssa.Function{sr}, staticCalleesDeep(sr, 2)...) {
		if lf.Pkg == nil || lf.Pkg.Pkg.Path() != modPath+"/"+redisPkg {
			continue
		}
		// only a function that calls the hooks (a dynamic call)
		dyn := false
		eachInstr(lf, func(_ *ssa.BasicBlock, _ int, in ssa.Instruction) {
			if cc := callOf(in); cc != nil && calleeFn(cc) == nil && !cc.IsInvoke() {
				if _, isB := cc.Value.(*ssa.Builtin); !isB {
					dyn = true
				}
			}
		})
		if !dyn {
			continue
		}
		eachInstr(lf, func(_ *ssa.BasicBlock, _ int, in ssa.Instruction) {
			ph, ok := in.(*ssa.Phi)
			if !ok {
				return
			}
			for _, e := range ph.Edges {
				bo, ok := e.(*ssa.BinOp)
				if !ok || bo.X != ssa.Value(ph) {
					continue
				}
				if k, isC := constInt(bo.Y); isC && k == 1 {
					known = true
					lifo = bo.Op == token.SUB
				}
			}
		})
	}
	if !known {
		c.Undecided(rule, "hook execution order", sr.Pos(), "the loop that runs the hooks is not a counted loop")
		return
	}
	order := map[bool]string{true: "last registered runs first", false: "first registered runs first"}[lifo]
	c.OK(rule, "hook execution order", sr.Pos(), order)
	type hk struct {
		call      *ssa.Call
		req       ssa.Value
		completes bool
		mutates   bool
	}
	isRespVal := func(t types.Type) bool {
		if pt, ok := t.Underlying().(*types.Pointer); ok {
			t = pt.Elem()
		}
		return modType(t, redisPkg, "RespValue")
	}
	npairs := 0
	for _, fn := range p.FuncsIn(redisPkg) {
		if p.isTestFn(fn) {
			continue
		}
		var hooks []hk
		eachInstr(fn, func(_ *ssa.BasicBlock, _ int, in ssa.Instruction) {
			call, ok := in.(*ssa.Call)
			if !ok || !isCallToFn(call, reg) {
				return
			}
			h := hk{call: call, req: call.Call.Args[0]}
			g := funcValue(call.Call.Args[1])
			if g == nil {
				return
			}
			// the request the hook is called with: the closure's parameter, or - for a method value - the method's
			// parameter after the receiver
			var hostPrm ssa.Value
			if len(g.Params) > 0 {
				hostPrm = g.Params[0]
			}
			if g.Synthetic != "" {
				if mo, _ := g.Object().(*types.Func); mo != nil {
					if m := g.Prog.FuncValue(mo); m != nil && m.Blocks != nil {
						g = m
						hostPrm = nil
						if len(m.Params) > 1 {
							hostPrm = m.Params[1]
						}
					}
				}
			}
			for _, f := range append([]*ssa.Function{g}, staticCalleesDeep(g, 2)...) {
				eachInstr(f, func(_ *ssa.BasicBlock, _ int, x ssa.Instruction) {
					if cc := callOf(x); cc != nil {
						if t := calleeFn(cc); t != nil && t.Name() == "SetResponse" && len(cc.Args) > 0 && cc.Args[0] != hostPrm {
							h.completes = true
						}
					}
					if st, ok := x.(*ssa.Store); ok && f == g {
						if fld, base := fieldAddr(st.Addr); fld != nil && isRespVal(base.Type()) {
							h.mutates = true
						}
					}
				})
			}
			hooks = append(hooks, h)
		})
		for _, a := range hooks {
			for _, b := range hooks {
				if !a.completes || !b.mutates || a.call == b.call || a.req != b.req {
					continue
				}
				npairs++
				site := fmt.Sprintf("%s: reply rewritten before the client-facing request is completed", fnKey(fn))
				// the mutator must run first
				good := false
				if lifo {
					good = instrDominates(a.call, b.call) // completer registered first, runs last
				} else {
					good = instrDominates(b.call, a.call)
				}
				c.Check(good, rule, site, b.call.Pos(), "registration order makes the rewriting hook run before the completing hook ("+order+")", "with hooks executed as "+order+", the hook that completes the client-facing request runs before the hook that rewrites the reply: the session writer can encode the reply before (or while) it is patched - a SCAN client receives the bare node cursor (iteration ends early or jumps to another node)")
			}
		}
	}
	if npairs == 0 {
		c.Note("no function registers both a completing and a rewriting hook on one request")
	}
}

// checkInPlaceTextRewrite (C18.R4 ext, C10.R2 ext): decoded texts are cut from a shared slab. Appending into a decoded
// text in place (append(x.Text[:0], ...), strconv.AppendUint(x.Text[:0], ...)) is only harmless while every slab
// slice is handed out with its capacity cut to its length (three-index slice) - then an append that outgrows the text
// reallocates. If the slab hands out plain two-index slices, such an append overwrites the bytes of the neighbouring
// values of the same reply (the SCAN cursor patch overwrites the first keys of the batch).
func checkInPlaceTextRewrite(c *Ctx, rule string) {
	p := c.P
	mk := p.Func(redisPkg, "(*sliceAlloc).Make")
	if mk == nil {
		c.Unresolved(rule, "(*sliceAlloc).Make")
		return
	}
	// does every slice of the slab that Make returns carry a capacity bound?
	capLimited := true
	nsl := 0
	eachInstr(mk, func(_ *ssa.BasicBlock, _ int, in ssa.Instruction) {
		sl, ok := in.(*ssa.Slice)
		if !ok || sl.Low != nil {
			return // the remainder buf[n:] is not handed out
		}
		if f, _ := loadedField(sl.X); f == nil || f.Name() != "buf" {
			return
		}
		nsl++
		if sl.Max == nil {
			capLimited = false
		}
	})
	// in-place appends into a RESP text
	var sites []ssa.Instruction
	for _, fn := range p.FuncsIn(redisPkg) {
		if p.isTestFn(fn) {
			continue
		}
		eachInstr(fn, func(_ *ssa.BasicBlock, _ int, in ssa.Instruction) {
			call, ok := in.(*ssa.Call)
			if !ok || len(call.Call.Args) == 0 {
				return
			}
			isAppend := isBuiltin(call, "append")
			if g := calleeFn(call.Common()); g != nil && g.Pkg != nil && g.Pkg.Pkg.Path() == "strconv" && strings.HasPrefix(g.Name(), "Append") {
				isAppend = true
			}
			if !isAppend {
				return
			}
			sl, ok := call.Call.Args[0].(*ssa.Slice)
			if !ok {
				return
			}
			if f, b := loadedField(sl.X); f != nil && f.Name() == "Text" && modType(b.Type(), redisPkg, "RespValue") {
				sites = append(sites, in)
			}
		})
	}
	if len(sites) == 0 {
		c.OK(rule, "no in-place append into a decoded text", mk.Pos(), fmt.Sprintf("slab slices capacity-limited: %v (%d slice sites)", capLimited, nsl))
		return
	}
	for i, s := range sites {
		c.Check(capLimited && nsl > 0, rule, fmt.Sprintf("in-place append into a decoded text #%d is confined to that text", i+1), s.Pos(), "the slab hands out capacity-limited slices, an append that outgrows the text reallocates", "a decoded text is appended to in place while the slab allocator hands out slices whose capacity reaches into the following values: the append overwrites the neighbouring elements of the same reply (a longer SCAN cursor overwrites the first keys of the batch - the client receives key names that exist on no node)")
	}
}

// checkNoPooledObjectInHook (C18.R8, C02): a completion hook runs when the backend answers - after the handler that
// registered it has returned. An object that is given back to a sync.Pool by the handler while a registered hook still
// captures it is handed to the next request: the hook then reads and writes that other request's state (a SCAN reply
// carries another iteration's node index - the iteration jumps to another node and loses keys).
func checkNoPooledObjectInHook(c *Ctx, rule string) {
	p := c.P
	reg := p.Func(redisPkg, "(*simpleRequest).RegisterHook")
	rreg := p.Func(redisPkg, "(*rawRequest).RegisterHook")
	// types whose values are put into a sync.Pool
	pooled := map[*types.Named]ssa.Instruction{}
	// types captured by registered hooks
	captured := map[*types.Named]ssa.Instruction{}
	nHooks := 0
	for _, fn := range p.FuncsIn(redisPkg) {
		if p.isTestFn(fn) {
			continue
		}
		eachInstr(fn, func(_ *ssa.BasicBlock, _ int, in ssa.Instruction) {
			call, ok := in.(ssa.CallInstruction)
			if !ok {
				return
			}
			cc := call.Common()
			if g := calleeFn(cc); g != nil && g.String() == "(*sync.Pool).Put" && len(cc.Args) == 2 {
				v := cc.Args[1]
				if mi, ok := v.(*ssa.MakeInterface); ok {
					v = mi.X
				}
				if nt := namedOf(deref(v.Type())); nt != nil && nt.Obj().Pkg() != nil && nt.Obj().Pkg().Path() == modPath+"/"+redisPkg {
					pooled[nt] = in
				}
			}
			if (reg != nil && isCallToFn(in, reg)) || (rreg != nil && isCallToFn(in, rreg)) {
				nHooks++
				mc, ok := cc.Args[1].(*ssa.MakeClosure)
				if !ok {
					return
				}
				for _, b := range mc.Bindings {
					t := b.Type()
					// a captured cell: pointer to the variable
					if pt, ok := t.Underlying().(*types.Pointer); ok {
						if nt := namedOf(deref(pt.Elem())); nt != nil && nt.Obj().Pkg() != nil && nt.Obj().Pkg().Path() == modPath+"/"+redisPkg {
							captured[nt] = in
						}
					}
					if nt := namedOf(deref(t)); nt != nil && nt.Obj().Pkg() != nil && nt.Obj().Pkg().Path() == modPath+"/"+redisPkg {
						captured[nt] = in
					}
				}
			}
		})
	}
	bad := 0
	for nt, at := range pooled {
		if hk, ok := captured[nt]; ok {
			bad++
			c.Fail(rule, "pooled "+nt.Obj().Name()+" captured by a registered hook", at.Pos(), "values of type "+nt.Obj().Name()+" are given back to a sync.Pool while a completion hook registered at "+p.Pos(hk.Pos())+" still captures one: the hook runs after the release, on an object that meanwhile belongs to another request - it reads and overwrites that request's state")
		}
	}
	if bad == 0 {
		c.OK(rule, "no pooled object is captured by a registered hook", token.NoPos, fmt.Sprintf("%d hook registrations, %d pooled types", nHooks, len(pooled)))
	}
	if nHooks == 0 {
		c.Unresolved(rule, "no hook registration found")
	}
}

// checkRequestGoesToTheAddressAsked (C18.R9): SCAN files the keys and the cursor of a reply under the node index it
// asked; the function that sends a request to a given address therefore sends it to that address or fails it - a
// fallback to "some other member, it will redirect" makes node j answer for node i, and the iteration ends without
// node i's keys.
func checkRequestGoesToTheAddressAsked(c *Ctx, rule string) {
	p := c.P
	mrth := p.Func(redisPkg, "(*upstream).MakeRequestToHost")
	if mrth == nil {
		c.Unresolved(rule, "(*upstream).MakeRequestToHost")
		return
	}
	var addr *ssa.Parameter
	for _, prm := range mrth.Params[1:] {
		if b, ok := prm.Type().Underlying().(*types.Basic); ok && b.Kind() == types.String {
			addr = prm
		}
	}
	if addr == nil {
		c.Unresolved(rule, "address parameter of MakeRequestToHost")
		return
	}
	n := 0
	for _, fn := range append([]*ssa.Function{mrth}, staticCalleesDeep(mrth, 1)...) {
		if fn != mrth {
			continue
		}
		eachInstr(fn, func(_ *ssa.BasicBlock, _ int, in ssa.Instruction) {
			call, ok := in.(*ssa.Call)
			if !ok {
				return
			}
			g := calleeFn(call.Common())
			if g == nil || !isModFn(g) || g.Signature.Results().Len() == 0 {
				return
			}
			// a function that hands out a backend connection for an address
			r0 := g.Signature.Results().At(0).Type()
			if pt, isPtr := r0.Underlying().(*types.Pointer); !isPtr || !modType(pt, redisPkg, "client") {
				return
			}
			n++
			okArg := false
			for _, a := range call.Call.Args {
				if stripConv(a) == ssa.Value(addr) {
					okArg = true
				}
			}
			c.Check(okArg, rule, fmt.Sprintf("%s connection lookup#%d uses the address asked", fnKey(fn), n), call.Pos(), "the connection is looked up for the address parameter", "a request addressed to one node is handed to the connection of another address: keyed commands correct themselves through MOVED, but SCAN files the answer under the node it asked - the keys and the cursor of node j are taken for node i's, and the iteration finishes without node i's keys")
		})
	}
	if n == 0 {
		c.Unresolved(rule, "MakeRequestToHost does not look a connection up")
	}
}
