package main

import (
	"fmt"
	"go/constant"
	"go/token"
	"go/types"
	"sort"
	"strings"

	"golang.org/x/tools/go/ssa"
)

func init() {
	register(&propDef{
		id: "C14",
		li: levelInfo{
			Level:       "other",
			Explanation: "Static table and dominance analysis. The set of command names that can be stored into the handler table and the read-only set are computed from the SSA of the program (every MapUpdate on the table, keys resolved through call sites and constant slices) and compared entry by entry with an embedded Redis <= 5.0 command reference; who-may-call rules over the VTA call graph bound which functions can hand a request to a backend connection; in the host-choosing function every return that can yield a replica address is dominated by IsReadOnly()==true and by a read-strategy comparison that permits replicas. Decides the table/dominance clauses for all command names and all three strategies; slot layouts are runtime data and are not decided. R5 additionally: every address the router returns is taken from the slot entry unless the entry is nil, and replica addresses are not copied out of the routing entry into another structure. R7: no alias of the read buffer escapes into a request (the validated command is the forwarded one; shared with C10.R2). R8: command names are normalised byte-wise (ASCII only). R9 (shared with C12): the key->slot function obligations O1-O5. R4 also forbids the handler of a command that can write to call MakeRequestToHost itself. R10 (shared with C13.R11): no function returns memory of a pooled object it has given back (the command name that is looked up is this request's). R6 names a routing table that is replaced as a whole.",
			Assumptions: []string{
				"Redis <= 5.0 command table (flags, first-key position) embedded in samlint/refdata.go is the reference",
			},
			TrustedBase: []string{"go/ssa", "VTA call graph", "embedded Redis 5.0 command reference"},
		},
		run: checkC14,
	})
}

const redisPkg = "proc/redis"

// handlerBinding is one (command name -> handler function) pair the program can install.
type handlerBinding struct {
	name string
	fn   *ssa.Function
	pos  token.Pos
}

// handlerTable computes every (name, handler) pair that can be stored into redisProc.cmdHdlrs.
func handlerTable(c *Ctx, rule string) (binds []handlerBinding, ok bool) {
	p := c.P
	fld := p.Field(redisPkg, "redisProc", "cmdHdlrs")
	hf := p.Field(redisPkg, "commandHandler", "handle")
	if fld == nil || hf == nil {
		c.Unresolved(rule, "redisProc.cmdHdlrs / commandHandler.handle")
		return nil, false
	}
	t := p.mapTableOf(nil, fld)
	if len(t.Updates) == 0 {
		c.Unresolved(rule, "no store into redisProc.cmdHdlrs found")
		return nil, false
	}
	for _, e := range t.Escapes {
		c.Undecided(rule, "handler table escapes in "+fnKey(e.Parent()), e.Pos(), "the handler table is handed to another function; its contents can no longer be enumerated")
		ok = false
	}
	for _, d := range t.Deletes {
		_ = d // deleting entries only shrinks the supported set
	}
	for _, a := range t.Assigns {
		if mk, isMk := a.Val.(*ssa.MakeMap); !isMk || mk == nil {
			c.Undecided(rule, "handler table assigned in "+fnKey(a.Parent()), a.Pos(), "cmdHdlrs is assigned something other than a fresh make(map)")
		}
	}
	ok = true
	for _, u := range t.Updates {
		// value: *commandHandler allocated here with handle = H
		var hv ssa.Value
		if al, isAl := u.Value.(*ssa.Alloc); isAl {
			for _, r := range *al.Referrers() {
				if fa, isFA := r.(*ssa.FieldAddr); isFA {
					if f, _ := fieldAddr(fa); f == hf {
						for _, rr := range *fa.Referrers() {
							if s, isS := rr.(*ssa.Store); isS && s.Addr == fa {
								hv = s.Val
							}
						}
					}
				}
			}
		}
		if hv == nil {
			c.Undecided(rule, "store into cmdHdlrs in "+fnKey(u.Parent()), u.Pos(), "stored value is not a freshly built commandHandler with a resolvable handle field")
			ok = false
			continue
		}
		pairs, good, why := resolvePairs(p, u.Parent(), u.Key, hv, 0)
		if !good {
			c.Undecided(rule, "store into cmdHdlrs in "+fnKey(u.Parent()), u.Pos(), "cannot enumerate (name, handler) pairs: "+why)
			ok = false
			continue
		}
		binds = append(binds, pairs...)
	}
	sort.Slice(binds, func(i, j int) bool { return binds[i].name < binds[j].name })
	return binds, ok
}

func paramIndex(fn *ssa.Function, v ssa.Value) int {
	for i, pp := range fn.Params {
		if ssa.Value(pp) == v {
			return i
		}
	}
	return -1
}

func funcValue(v ssa.Value) *ssa.Function {
	v = stripConv(v)
	switch x := v.(type) {
	case *ssa.Function:
		return x
	case *ssa.MakeClosure:
		f, _ := x.Fn.(*ssa.Function)
		return f
	case *ssa.Call:
		// a factory: a module function whose single return hands out a closure or function
		g := x.Call.StaticCallee()
		if g == nil || g.Blocks == nil || !isModFn(g) {
			return nil
		}
		var out *ssa.Function
		n := 0
		eachInstr(g, func(_ *ssa.BasicBlock, _ int, in ssa.Instruction) {
			if ret, ok := in.(*ssa.Return); ok {
				n++
				if vals := returnedValues(ret); len(vals) == 1 {
					if _, isCall := stripConv(vals[0]).(*ssa.Call); !isCall {
						out = funcValue(vals[0])
					}
				}
			}
		})
		if n == 1 {
			return out
		}
	}
	return nil
}

// resolvePairs resolves (key, handler) where each may be a constant/function or a
// parameter of fn (then every call site of fn is enumerated).
func resolvePairs(p *Prog, fn *ssa.Function, key, h ssa.Value, depth int) ([]handlerBinding, bool, string) {
	if depth > 3 {
		return nil, false, "depth"
	}
	ki, hi := paramIndex(fn, stripConv(key)), paramIndex(fn, stripConv(h))
	if ki < 0 && hi < 0 {
		names, ok, why := p.strSet(key, 0)
		if !ok {
			return nil, false, why
		}
		f := funcValue(h)
		if f == nil {
			return nil, false, "handler is not a function constant"
		}
		var out []handlerBinding
		for _, n := range names {
			out = append(out, handlerBinding{n, f, key.Pos()})
		}
		return out, true, ""
	}
	edges := p.callersOf(fn)
	if len(edges) == 0 {
		return nil, false, "no callers of " + fnKey(fn)
	}
	var out []handlerBinding
	for _, e := range edges {
		args := e.Site.Common().Args
		k2, h2 := key, h
		if ki >= 0 {
			k2 = args[ki]
		}
		if hi >= 0 {
			h2 = args[hi]
		}
		caller := e.Caller.Func
		if paramIndex(caller, stripConv(k2)) >= 0 || paramIndex(caller, stripConv(h2)) >= 0 {
			pairs, ok, why := resolvePairs(p, caller, k2, h2, depth+1)
			if !ok {
				return nil, false, why
			}
			out = append(out, pairs...)
			continue
		}
		names, ok, why := p.strSet(k2, 0)
		if !ok {
			return nil, false, fmt.Sprintf("%s: %s", p.Pos(e.Pos()), why)
		}
		f := funcValue(h2)
		if f == nil {
			return nil, false, fmt.Sprintf("%s: handler argument is not a function constant", p.Pos(e.Pos()))
		}
		for _, n := range names {
			out = append(out, handlerBinding{n, f, e.Pos()})
		}
	}
	return out, true, ""
}

// derives reports whether pred holds for some value in the backward slice of v
// (through phis, loads, element/field addressing, slicing, append, conversions and
// values stored into local allocations).
func derives(v ssa.Value, pred func(ssa.Value) bool) bool {
	seen := map[ssa.Value]bool{}
	var walk func(v ssa.Value) bool
	walk = func(v ssa.Value) bool {
		if v == nil || seen[v] {
			return false
		}
		seen[v] = true
		if pred(v) {
			return true
		}
		switch x := v.(type) {
		case *ssa.Phi:
			for _, e := range x.Edges {
				if walk(e) {
					return true
				}
			}
		case *ssa.UnOp:
			return walk(x.X)
		case *ssa.IndexAddr:
			return walk(x.X)
		case *ssa.Index:
			return walk(x.X)
		case *ssa.FieldAddr:
			return walk(x.X)
		case *ssa.Field:
			return walk(x.X)
		case *ssa.Slice:
			return walk(x.X)
		case *ssa.ChangeType:
			return walk(x.X)
		case *ssa.Convert:
			return walk(x.X)
		case *ssa.MakeInterface:
			return walk(x.X)
		case *ssa.TypeAssert:
			return walk(x.X)
		case *ssa.Extract:
			return walk(x.Tuple)
		case *ssa.Alloc:
			for _, r := range *x.Referrers() {
				switch y := r.(type) {
				case *ssa.Store:
					if y.Addr == ssa.Value(x) && walk(y.Val) {
						return true
					}
				case *ssa.IndexAddr:
					for _, rr := range *y.Referrers() {
						if s, ok := rr.(*ssa.Store); ok && s.Addr == ssa.Value(y) && walk(s.Val) {
							return true
						}
					}
				case *ssa.FieldAddr:
					for _, rr := range *y.Referrers() {
						if s, ok := rr.(*ssa.Store); ok && s.Addr == ssa.Value(y) && walk(s.Val) {
							return true
						}
					}
				}
			}
		case *ssa.Call:
			if b, ok := x.Call.Value.(*ssa.Builtin); ok && b.Name() == "append" {
				for _, a := range x.Call.Args {
					if walk(a) {
						return true
					}
				}
			}
		}
		return false
	}
	return walk(v)
}

// condEdge: block b is dominated by the successor (true when want, else false) of an If
// on condition cond, and that successor is entered only from the If.
func condEdge(b *ssa.BasicBlock, cond ssa.Value, want bool) bool {
	refs := cond.Referrers()
	if refs == nil {
		return false
	}
	for _, r := range *refs {
		iff, ok := r.(*ssa.If)
		if !ok {
			continue
		}
		k := 1
		if want {
			k = 0
		}
		s := iff.Block().Succs[k]
		if len(s.Preds) == 1 && s.Dominates(b) {
			return true
		}
	}
	return false
}

func checkC14(c *Ctx) {
	p := c.P
	c.Rule("R1", "supported set: every name bound to a generic forwarding handler is a keyed data command with first key at position 1 in the Redis<=5.0 reference; no must-not-forward name is bound to a forwarding handler; keys lower-case; lookup lower-cases")
	c.Rule("R2", "read-only set: every key that can be stored into readOnlyCommands is read-only (and not write) in the reference; IsReadOnly() is exactly membership of the lower-cased command name")
	c.Rule("R3", "local handlers (ping, quit, select, info, time, hotkey) cannot reach the backend send function in the call graph")
	c.Rule("R4", "who may send: callers of client.Send / MakeRequestToHost / MakeRequest are the allowed roles; the unknown-command and invalid-request arms never call a handler")
	c.Rule("R5", "host choice: a return that can yield a replica address is dominated by IsReadOnly()==true and by a strategy test that permits replicas; the non-read-only branch returns the slot entry's own address")
	c.Rule("R6", "replicas are attached only to the master named by their own master id; slot entries only from master lines")
	c.Rule("R8", "command names are normalised byte-wise (ASCII): a name that is not a supported command byte-for-byte (ignoring ASCII case) cannot fold into one")
	c.Rule("R7", "the command that was validated is the command that is forwarded: no alias of the read buffer escapes into a request (shared with C10.R2)")

	send := p.Func(redisPkg, "(*client).Send")
	mrth := p.Func(redisPkg, "(*upstream).MakeRequestToHost")
	mr := p.Func(redisPkg, "(*upstream).MakeRequest")
	if send == nil || mrth == nil || mr == nil {
		c.Unresolved("R4", "client.Send / upstream.MakeRequestToHost / upstream.MakeRequest")
		return
	}

	// ---------------- R1
	binds, _ := handlerTable(c, "R1")
	byFn := map[*ssa.Function][]string{}
	nameFn := map[string]*ssa.Function{}
	for _, b := range binds {
		byFn[b.fn] = append(byFn[b.fn], b.name)
		if prev, dup := nameFn[b.name]; dup && prev != b.fn {
			c.Fail("R1", "command "+b.name+" bound twice", b.pos, "name is bound to two different handlers; the later registration silently wins")
		}
		nameFn[b.name] = b.fn
	}
	c.Note("handler table: %d names bound to %d handler functions", len(nameFn), len(byFn))
	reachSend := func(fn *ssa.Function) bool {
		return p.reachable([]*ssa.Function{fn}, nil)[send]
	}
	dedicated := map[string]bool{}
	for _, d := range dedicatedHandlers {
		dedicated[d] = true
	}
	var names []string
	for n := range nameFn {
		names = append(names, n)
	}
	sort.Strings(names)
	for _, n := range names {
		fn := nameFn[n]
		generic := len(byFn[fn]) > 1
		site := "command " + n
		if n != strings.ToLower(n) || strings.TrimSpace(n) != n || n == "" {
			c.Fail("R1", site+" key form", fn.Pos(), "table key is not lower-case ASCII; lookup lower-cases its argument so this entry is unreachable or aliases another")
			continue
		}
		ref, inRef := redisRef[n]
		switch {
		case generic:
			if !inRef {
				c.Fail("R1", site, fn.Pos(), "bound to generic forwarding handler "+fn.Name()+" but absent from the Redis<=5.0 reference")
			} else if ref.class != "" {
				c.Fail("R1", site, fn.Pos(), fmt.Sprintf("must-not-forward command (class %s) is bound to generic forwarding handler %s", ref.class, fn.Name()))
			} else if ref.firstKey != 1 {
				c.Fail("R1", site, fn.Pos(), fmt.Sprintf("first key position is %d in the reference, generic handlers route by argument 1", ref.firstKey))
			} else {
				c.OK("R1", site, fn.Pos(), "generic handler "+fn.Name()+"; reference: keyed data command, first key 1, flags "+ref.flags)
			}
		case dedicated[n]:
			c.OK("R1", site, fn.Pos(), "dedicated handler "+fn.Name())
		default:
			fwd := reachSend(fn)
			if !fwd {
				c.OK("R1", site, fn.Pos(), "new dedicated handler "+fn.Name()+" answers locally (cannot reach client.Send)")
			} else if inRef && ref.class == "" && ref.firstKey == 1 {
				c.OK("R1", site, fn.Pos(), "dedicated forwarding handler "+fn.Name()+" for a keyed data command")
			} else {
				why := "not in the reference"
				if inRef {
					why = "class " + ref.class
				}
				c.Fail("R1", site, fn.Pos(), "command ("+why+") is bound to handler "+fn.Name()+" which can reach a backend")
			}
		}
	}
	for _, d := range dedicatedHandlers {
		if fn, ok := nameFn[d]; !ok {
			c.Fail("R1", "dedicated "+d, token.NoPos, "command "+d+" is no longer registered")
		} else if len(byFn[fn]) > 1 {
			c.Fail("R1", "dedicated "+d, fn.Pos(), "command "+d+" must have its own handler but shares generic handler "+fn.Name())
		}
	}
	// documented unsupported list: report only
	var docHits []string
	for _, d := range docUnsupported {
		if _, ok := nameFn[d]; ok && d != "scan" {
			docHits = append(docHits, d)
		}
	}
	c.Extra["documented_unsupported_but_registered"] = docHits
	// lookup lower-cases
	cmdF := p.Field(redisPkg, "redisProc", "cmdHdlrs")
	t := p.mapTableOf(nil, cmdF)
	for _, l := range t.Lookups {
		site := "lookup in " + fnKey(l.Parent())
		if kind, _ := lowerCallKind(l.Index); kind != "" {
			c.OK("R1", site, l.Pos(), "index is the lower-cased command name ("+kind+")")
			c.Check(kind == "ascii", "R8", "name normalisation in "+fnKey(l.Parent()), l.Pos(), "byte-wise ASCII lower-casing", unicodeLowerWhy)
		} else {
			c.Fail("R1", site, l.Pos(), "handler lookup does not lower-case the command name: upper-case forms of supported commands are rejected / mixed-case entries bypass")
		}
	}
	c.Expect("R1", 100)

	// ---------------- R2
	roG := p.Global(redisPkg, "readOnlyCommands")
	if roG == nil {
		c.Unresolved("R2", "readOnlyCommands")
	} else {
		rt := p.mapTableOf(roG, nil)
		keys, ok, why := p.mapKeys(rt)
		if !ok {
			c.Undecided("R2", "readOnlyCommands keys", roG.Pos(), why)
		}
		for _, e := range rt.Escapes {
			c.Undecided("R2", "readOnlyCommands escapes in "+fnKey(e.Parent()), e.Pos(), "map handed elsewhere")
		}
		for _, k := range keys {
			ref, inRef := redisRef[k]
			site := "read-only " + k
			switch {
			case !inRef:
				c.Fail("R2", site, roG.Pos(), "not in the Redis<=5.0 reference")
			case !ref.isReadOnly():
				c.Fail("R2", site, roG.Pos(), "command is write-flagged in Redis<=5.0 (flags "+ref.flags+") but is in the read-only set: it may be sent to a replica")
			default:
				c.OK("R2", site, roG.Pos(), "reference flags "+ref.flags)
			}
		}
		c.Note("read-only set: %d names", len(keys))
		// IsReadOnly shape
		iro := p.Func(redisPkg, "(*simpleRequest).IsReadOnly")
		if iro == nil {
			c.Unresolved("R2", "(*simpleRequest).IsReadOnly")
		} else {
			checkIsReadOnly(c, iro, roG)
		}
	}
	c.Expect("R2", 40)

	// ---------------- R3
	for _, n := range localCommands {
		fn, ok := nameFn[n]
		if !ok {
			c.Fail("R3", "local "+n, token.NoPos, "not registered")
			continue
		}
		reach := p.reachable([]*ssa.Function{fn}, nil)
		if reach[send] || reach[mrth] {
			c.Fail("R3", "local "+n, fn.Pos(), "handler "+fn.Name()+" can reach the backend send path: "+strings.Join(p.reachChain(fn, send), " -> "))
		} else {
			c.OK("R3", "local "+n, fn.Pos(), fmt.Sprintf("%d functions reachable from %s, none is client.Send/MakeRequestToHost", len(reach), fn.Name()))
		}
	}
	c.Expect("R3", 6)

	// ---------------- R4
	regd := map[*ssa.Function]bool{}
	for fn := range byFn {
		for _, f := range withAnon(fn) {
			regd[f] = true
		}
	}
	var allowD func(caller *ssa.Function, ok map[string]bool, handlersOK bool, depth int) bool
	allowD = func(caller *ssa.Function, ok map[string]bool, handlersOK bool, depth int) bool {
		top := topFn(caller)
		if ok[fnKey(top)] {
			return true
		}
		if handlersOK && regd[top] {
			return true
		}
		// a helper all of whose callers are allowed
		if depth <= 0 {
			return false
		}
		edges := p.callersOf(top)
		if len(edges) == 0 {
			return false
		}
		for _, ed := range edges {
			if !allowD(ed.Caller.Func, ok, handlersOK, depth-1) {
				return false
			}
		}
		return true
	}
	allow := func(caller *ssa.Function, ok map[string]bool, handlersOK bool) bool {
		return allowD(caller, ok, handlersOK, 2)
	}
	for _, e := range p.callersOf(send) {
		caller := e.Caller.Func
		site := "caller of client.Send: " + fnKey(topFn(caller))
		if allow(caller, map[string]bool{redisPkg + ".(*upstream).MakeRequestToHost": true, redisPkg + ".newClient": true}, false) {
			c.OK("R4", site, e.Pos(), "allowed role")
		} else {
			c.Fail("R4", site, e.Pos(), "function hands a request to a backend connection outside the routing path (MakeRequestToHost / READONLY handshake)")
		}
	}
	// the callback roles: functions stored into client.onRedirection (resolved via VTA callers)
	redirectFns := map[string]bool{}
	if f := p.Field(redisPkg, "client", "onRedirection"); f != nil {
		for _, fn := range p.funcsStoredInto(f) {
			redirectFns[fnKey(fn)] = true
		}
	}
	for _, e := range p.callersOf(mrth) {
		caller := e.Caller.Func
		top := topFn(caller)
		site := "caller of MakeRequestToHost: " + fnKey(top)
		ok := map[string]bool{redisPkg + ".(*upstream).MakeRequest": true, redisPkg + ".(*upstream).doSlotsRefresh": true}
		for k := range redirectFns {
			ok[k] = true
		}
		// a command handler that picks the node itself bypasses the router (owner of the key's slot, master for writes):
		// only the handlers of commands that cannot write may do so (SCAN addresses a node by its cursor)
		if names, isHandler := byFn[top]; isHandler {
			var writers []string
			for _, n := range names {
				if ref, inRef := redisRef[n]; !inRef || !ref.isReadOnly() {
					writers = append(writers, n)
				}
			}
			sort.Strings(writers)
			if len(writers) > 0 {
				c.Fail("R4", site+" picks the node itself", e.Pos(), "the handler of "+strings.Join(writers, ",")+" - which can modify data - sends to a node it chose itself instead of going through the router: the request can reach a replica or a master that does not own the data (EVAL with numkeys 0 still runs a script that may write)")
				continue
			}
		}
		if allow(caller, ok, true) {
			c.OK("R4", site, e.Pos(), "allowed role (router, registered handler, redirect callback or slot refresh)")
		} else {
			c.Fail("R4", site, e.Pos(), "function sends to a chosen host but is neither the router, a registered handler, the redirect callback nor the slot refresh")
		}
	}
	for _, e := range p.callersOf(mr) {
		caller := e.Caller.Func
		site := "caller of MakeRequest: " + fnKey(topFn(caller))
		if allow(caller, nil, true) {
			c.OK("R4", site, e.Pos(), "registered handler")
		} else {
			c.Fail("R4", site, e.Pos(), "MakeRequest is called from a function that is not a registered command handler")
		}
	}
	// dispatcher: the dynamic call of commandHandler.handle is dominated by ok==true and IsValid()==true
	checkDispatcherGuards(c, "R4")
	c.Expect("R4", 8)

	// ---------------- R5
	checkChooseHost(c)
	// ---------------- R6
	checkReplicaAttach(c, "R6")
	checkReadBufferAlias(c, "R7")
	c.Rule("R10", "the name that is looked up in the command tables is this request's name (shared with C13.R11/C19.R11): no function returns memory of a pooled object it has given back")
	checkPooledBytesEscape(c, "R10")
	c.Rule("R9", "the master a write reaches is the owner of the key's slot: the key->slot function is the Redis Cluster one (the C12 obligations O1-O5 re-evaluated: CRC table and step, fold, hash-tag decision tree, routing index)")
	{
		exh, had := c.Extra["exhaustive"]
		c.withAlias(map[string]string{"O1": "R9", "O2": "R9", "O3": "R9", "O4": "R9", "O5": "R9"}, func() { checkC12(c) })
		if had {
			c.Extra["exhaustive"] = exh
		} else {
			delete(c.Extra, "exhaustive")
		}
	}
	checkSlotFill(c, "R6")
	c.Expect("R6", 3)
}

// funcsStoredInto: functions (or bound methods) that can be stored into field f.
func (p *Prog) funcsStoredInto(f *types.Var) []*ssa.Function {
	var out []*ssa.Function
	seen := map[*ssa.Function]bool{}
	var resolve, resolveAddr func(v ssa.Value, depth int)
	resolve = func(v ssa.Value, depth int) {
		if depth > 4 {
			return
		}
		v = stripConv(v)
		switch x := v.(type) {
		case *ssa.Function:
			if !seen[x] {
				seen[x] = true
				out = append(out, x)
			}
		case *ssa.MakeClosure:
			fn := x.Fn.(*ssa.Function)
			// bound method wrapper: resolve to the method itself
			if fn.Synthetic != "" && strings.HasSuffix(fn.Name(), "$bound") {
				eachInstr(fn, func(b *ssa.BasicBlock, i int, in ssa.Instruction) {
					if cc := callOf(in); cc != nil {
						if g := calleeFn(cc); g != nil && !seen[g] {
							seen[g] = true
							out = append(out, g)
						}
					}
				})
				return
			}
			if !seen[fn] {
				seen[fn] = true
				out = append(out, fn)
			}
		case *ssa.FreeVar:
			// closure capturing a parameter of the enclosing function: resolve through its MakeClosure bindings
			fn := x.Parent()
			idx := -1
			for i, fv := range fn.FreeVars {
				if fv == x {
					idx = i
				}
			}
			par := fn.Parent()
			if par == nil || idx < 0 {
				return
			}
			eachInstr(par, func(b *ssa.BasicBlock, i int, in ssa.Instruction) {
				if mc, ok := in.(*ssa.MakeClosure); ok && mc.Fn == ssa.Value(fn) {
					resolve(mc.Bindings[idx], depth+1)
				}
			})
		case *ssa.Parameter:
			fn := x.Parent()
			idx := paramIndex(fn, x)
			for _, e := range p.callersOf(fn) {
				args := e.Site.Common().Args
				if idx < len(args) {
					resolve(args[idx], depth+1)
				}
			}
		case *ssa.UnOp:
			if x.Op == token.MUL {
				resolveAddr(x.X, depth+1)
			}
		}
	}
	resolveAddr = func(a ssa.Value, depth int) {
		if depth > 6 {
			return
		}
		switch y := a.(type) {
		case *ssa.Alloc:
			for _, r := range *y.Referrers() {
				if s, ok := r.(*ssa.Store); ok && s.Addr == ssa.Value(y) {
					resolve(s.Val, depth+1)
				}
			}
		case *ssa.FreeVar:
			fn := y.Parent()
			idx := -1
			for i, fv := range fn.FreeVars {
				if fv == y {
					idx = i
				}
			}
			par := fn.Parent()
			if par == nil || idx < 0 {
				return
			}
			eachInstr(par, func(b *ssa.BasicBlock, i int, in ssa.Instruction) {
				if mc, ok := in.(*ssa.MakeClosure); ok && mc.Fn == ssa.Value(fn) {
					resolveAddr(mc.Bindings[idx], depth+1)
				}
			})
		}
	}
	for _, a := range p.fieldAccesses(f) {
		if s, ok := a.In.(*ssa.Store); ok && a.Write {
			resolve(s.Val, 0)
		}
	}
	return out
}

func checkIsReadOnly(c *Ctx, iro *ssa.Function, roG *ssa.Global) {
	p := c.P
	site := "IsReadOnly shape"
	var rets []*ssa.Return
	eachInstr(iro, func(b *ssa.BasicBlock, i int, in ssa.Instruction) {
		if r, ok := in.(*ssa.Return); ok {
			rets = append(rets, r)
		}
	})
	if len(rets) != 1 || len(rets[0].Results) != 1 {
		c.Undecided("R2", site, iro.Pos(), "expected a single return of one value")
		return
	}
	ex, ok := rets[0].Results[0].(*ssa.Extract)
	if !ok || ex.Index != 1 {
		c.Fail("R2", site, rets[0].Pos(), "IsReadOnly does not return the comma-ok of the read-only table lookup (negated or otherwise transformed)")
		return
	}
	lk, ok := ex.Tuple.(*ssa.Lookup)
	if !ok || !lk.CommaOk {
		c.Fail("R2", site, rets[0].Pos(), "result is not a table lookup")
		return
	}
	if u, ok := lk.X.(*ssa.UnOp); !ok || u.X != ssa.Value(roG) {
		c.Fail("R2", site, lk.Pos(), "lookup is not in readOnlyCommands")
		return
	}
	// key = string(bytes.ToLower(r.body.Array[0].Text))
	kind, arg := lowerCallKind(lk.Index)
	if kind == "" {
		c.Fail("R2", site, lk.Pos(), "lookup key is not the lower-cased command name: read-only classification would depend on letter case")
		return
	}
	c.Check(kind == "ascii", "R8", "name normalisation in "+fnKey(iro), lk.Pos(), "byte-wise ASCII lower-casing", unicodeLowerWhy)
	ap := accessPath(stripConv(arg), nil, 0)
	if ap != "r.body.Array[0].Text" {
		c.Fail("R2", site, lk.Pos(), "lookup key is not the request's own command name (argument 0), got path "+ap)
		return
	}
	c.OK("R2", site, lk.Pos(), "returns ok of readOnlyCommands[lower("+ap+")]")
	_ = p
}

// checkDispatcherGuards: every dynamic call through commandHandler.handle is dominated by
// the found==true branch of the table lookup and by IsValid()==true.
func checkDispatcherGuards(c *Ctx, rule string) {
	p := c.P
	hf := p.Field(redisPkg, "commandHandler", "handle")
	isValid := p.Func(redisPkg, "(*rawRequest).IsValid")
	if hf == nil || isValid == nil {
		c.Unresolved(rule, "commandHandler.handle / rawRequest.IsValid")
		return
	}
	n := 0
	for _, fn := range p.FuncsIn(redisPkg) {
		if p.isTestFn(fn) {
			continue
		}
		eachInstr(fn, func(b *ssa.BasicBlock, i int, in ssa.Instruction) {
			call, ok := in.(*ssa.Call)
			if !ok {
				return
			}
			f, base := loadedField(call.Call.Value)
			if f != hf {
				return
			}
			n++
			site := "dispatch call in " + fnKey(fn)
			// base = hdlr: from Extract(call findHandler,0) or Extract(Lookup,0)
			var okv ssa.Value
			bv := base
			if ex, isEx := bv.(*ssa.Extract); isEx {
				for _, r := range *ex.Tuple.Referrers() {
					if e2, isE := r.(*ssa.Extract); isE && e2.Index == 1 {
						okv = e2
					}
				}
			}
			if okv == nil || !condEdge(b, okv, true) {
				c.Fail(rule, site+" found-guard", call.Pos(), "handler call is not dominated by the found==true branch of the handler lookup: an unknown command could be dispatched (nil handler) or forwarded")
			} else {
				c.OK(rule, site+" found-guard", call.Pos(), "dominated by found==true")
			}
			// IsValid
			var vv ssa.Value
			eachInstr(fn, func(b2 *ssa.BasicBlock, j int, in2 ssa.Instruction) {
				if c2, ok := in2.(*ssa.Call); ok && isCallToFn(c2, isValid) {
					vv = c2
				}
			})
			if vv == nil || !condEdge(b, vv, true) {
				c.Fail(rule, site+" valid-guard", call.Pos(), "handler call is not dominated by IsValid()==true: handlers index Array[0]/Array[1] of unvalidated input")
			} else {
				c.OK(rule, site+" valid-guard", call.Pos(), "dominated by IsValid()==true")
			}
			// the not-found arm completes the request: from the false edge every path reaches SetResponse before return
			if okv != nil {
				for _, r := range *okv.Referrers() {
					if iff, isIf := r.(*ssa.If); isIf {
						fb := iff.Block().Succs[1]
						path := findPath(ipos{fb, -1}, pathQuery{target: isReturn, avoid: func(x ssa.Instruction) bool {
							return isMethodCall(x, modPath+"/"+redisPkg, "rawRequest", "SetResponse")
						}})
						if path != nil {
							c.Fail(rule, site+" unknown-arm", iff.Pos(), "unknown-command arm can return without answering: "+p.pathString(path))
						} else {
							c.OK(rule, site+" unknown-arm", iff.Pos(), "unknown-command arm answers before returning and calls no handler")
						}
					}
				}
			}
		})
	}
	if n == 0 {
		c.Unresolved(rule, "no dynamic call through commandHandler.handle found")
	}
}

func checkChooseHost(c *Ctx) {
	p := c.P
	slotsF := p.Field(redisPkg, "upstream", "slots")
	replF := p.Field(redisPkg, "instance", "Replicas")
	addrF := p.Field(redisPkg, "instance", "Addr")
	iro := p.Func(redisPkg, "(*simpleRequest).IsReadOnly")
	if slotsF == nil || replF == nil || addrF == nil || iro == nil {
		c.Unresolved("R5", "upstream.slots / instance.Replicas / instance.Addr / IsReadOnly")
		return
	}
	// role: the function(s) that read an element of upstream.slots
	var choosers []*ssa.Function
	for _, a := range p.fieldAccesses(slotsF) {
		if ia, ok := a.In.(*ssa.IndexAddr); ok && !a.Write {
			dup := false
			for _, f := range choosers {
				if f == a.Fn {
					dup = true
				}
			}
			if !dup {
				choosers = append(choosers, a.Fn)
			}
			_ = ia
		}
	}
	if len(choosers) == 0 {
		c.Unresolved("R5", "no function reads upstream.slots[i]")
		return
	}
	rsConst := map[string]int64{}
	if pk := p.TPkg("pb/config/protocol/redis"); pk != nil {
		for _, n := range []string{"ReadStrategy_MASTER", "ReadStrategy_REPLICA", "ReadStrategy_BOTH"} {
			if o, ok := pk.Types.Scope().Lookup(n).(*types.Const); ok {
				v, _ := constant.Int64Val(o.Val())
				rsConst[n] = v
			}
		}
	}
	if len(rsConst) != 3 {
		c.Unresolved("R5", "ReadStrategy constants")
		return
	}
	for _, fn := range choosers {
		// replica accesses anywhere in fn (incl. other functions would be a who-may-read question: checked below)
		var iroCall ssa.Value
		eachInstr(fn, func(b *ssa.BasicBlock, i int, in ssa.Instruction) {
			if call, ok := in.(*ssa.Call); ok && isCallToFn(call, iro) {
				iroCall = call
			}
		})
		isRepl := func(v ssa.Value) bool {
			f, _ := fieldAddr(v)
			if f == replF {
				return true
			}
			f, _ = loadedField(v)
			return f == replF
		}
		nret := 0
		eachInstr(fn, func(b *ssa.BasicBlock, i int, in ssa.Instruction) {
			ret, ok := in.(*ssa.Return)
			if !ok || len(ret.Results) == 0 {
				return
			}
			nret++
			site := fmt.Sprintf("%s return#%d", fnKey(fn), nret)
			v := returnedValues(ret)[0]
			if derivesIP(v, isRepl, 2) {
				if iroCall != nil && condEdge(b, iroCall, true) {
					c.OK("R5", site+" replica-under-readonly", ret.Pos(), "return value can derive from Replicas; dominated by IsReadOnly()==true")
				} else {
					c.Fail("R5", site+" replica-under-readonly", ret.Pos(), "a replica address can be returned on a path not dominated by IsReadOnly()==true: a write could be routed to a replica")
				}
			} else if iroCall != nil && condEdge(b, iroCall, false) {
				// write branch: must be the slot entry's own address
				f, base := loadedField(v)
				okOwn := false
				if f == addrF {
					if u, isU := base.(*ssa.UnOp); isU {
						if ia, isIA := u.X.(*ssa.IndexAddr); isIA {
							if sf, _ := fieldAddr(ia.X); sf == slotsF {
								okOwn = true
							}
						}
					}
				}
				if okOwn {
					c.OK("R5", site+" write-to-owner", ret.Pos(), "non-read-only branch returns slots[slot].Addr")
				} else {
					c.Fail("R5", site+" write-to-owner", ret.Pos(), "non-read-only branch does not return the slot owner's own address")
				}
			}
		})
		if iroCall == nil {
			c.Fail("R5", fnKey(fn)+" readonly-test", fn.Pos(), "host-choosing function never consults IsReadOnly()")
		}
		// owner or fallback: a returned address comes from the slot entry, unless the entry is nil
		fromEntry := func(v ssa.Value) bool {
			return derivesIP(v, func(y ssa.Value) bool {
				f, base := fieldAddr(y)
				if f == nil {
					f, base = loadedField(y)
				}
				if f != addrF && f != replF {
					return false
				}
				isSlotIA := func(z ssa.Value) bool {
					if ia, isIA := z.(*ssa.IndexAddr); isIA {
						sf, _ := fieldAddr(ia.X)
						return sf == slotsF
					}
					return false
				}
				if derives(base, isSlotIA) {
					return true
				}
				// inside a helper: the entry is the helper's parameter, handed over by every caller
				if prm, isP := base.(*ssa.Parameter); isP && prm.Parent() != fn {
					g := prm.Parent()
					idx := paramIndex(g, prm)
					edges := p.callersOf(g)
					if len(edges) == 0 {
						return false
					}
					for _, ed := range edges {
						args := ed.Site.Common().Args
						if idx >= len(args) || !derives(resolveCell(args[idx]), isSlotIA) {
							return false
						}
					}
					return true
				}
				return false
			}, 2)
		}
		var nilCmps []*ssa.BinOp
		eachInstr(fn, func(_ *ssa.BasicBlock, _ int, in ssa.Instruction) {
			bo, ok := in.(*ssa.BinOp)
			if !ok || (bo.Op != token.EQL && bo.Op != token.NEQ) || !isNilConst(bo.Y) {
				return
			}
			if u, isU := bo.X.(*ssa.UnOp); isU {
				if ia, isIA := u.X.(*ssa.IndexAddr); isIA {
					if sf, _ := fieldAddr(ia.X); sf == slotsF {
						nilCmps = append(nilCmps, bo)
					}
				}
			}
		})
		nr := 0
		eachInstr(fn, func(b *ssa.BasicBlock, _ int, in ssa.Instruction) {
			ret, ok := in.(*ssa.Return)
			if !ok || len(ret.Results) == 0 {
				return
			}
			nr++
			site := fmt.Sprintf("%s return#%d owner-or-fallback", fnKey(fn), nr)
			v := returnedValues(ret)[0]
			if _, isC := v.(*ssa.Const); isC {
				c.OK("R5", site, ret.Pos(), "constant (error path)")
				return
			}
			if fromEntry(v) {
				c.OK("R5", site, ret.Pos(), "address taken from the slot entry")
				return
			}
			under := false
			for _, bo := range nilCmps {
				if condEdge(b, bo, bo.Op == token.EQL) {
					under = true
				}
			}
			c.Check(under, "R5", site, ret.Pos(), "fallback taken only when the slot has no entry", "a host is returned that is not taken from the slot entry of the key although the routing table may have an owner for it: the command is sent to a node that does not own the key (MOVED round trip at best; for a write, not the master of the slot)")
		})
		// strategy gate: every path from entry to a Replicas access crosses the true edge of (strategy == REPLICA|BOTH);
		// the access may live in the chooser or in a helper it calls
		nacc := 0
		for _, gf := range append([]*ssa.Function{fn}, staticCalleesDeep(fn, 2)...) {
			gf := gf
			permit := map[*ssa.BasicBlock]map[int]bool{} // If block -> succ index that is a permitting edge
			master := map[*ssa.BasicBlock]map[int]bool{}
			eachInstr(gf, func(b *ssa.BasicBlock, i int, in ssa.Instruction) {
				bo, ok := in.(*ssa.BinOp)
				if !ok || (bo.Op != token.EQL && bo.Op != token.NEQ) {
					return
				}
				var other ssa.Value
				cv, isC := constInt(bo.Y)
				other = bo.X
				if !isC {
					cv, isC = constInt(bo.X)
					other = bo.Y
				}
				if !isC || !modType(other.Type(), "pb/config/protocol/redis", "ReadStrategy") {
					return
				}
				for _, r := range *bo.Referrers() {
					iff, ok := r.(*ssa.If)
					if !ok {
						continue
					}
					k := 0
					if bo.Op == token.NEQ {
						k = 1
					}
					m := permit
					if cv == rsConst["ReadStrategy_MASTER"] {
						m = master
					}
					if m[iff.Block()] == nil {
						m[iff.Block()] = map[int]bool{}
					}
					m[iff.Block()][k] = true
				}
			})
			eachInstr(gf, func(b *ssa.BasicBlock, i int, in ssa.Instruction) {
				fa, ok := in.(*ssa.FieldAddr)
				if !ok {
					return
				}
				if f, _ := fieldAddr(fa); f != replF {
					return
				}
				nacc++
				site := fmt.Sprintf("%s replicas-access#%d strategy-gate", fnKey(fn), nacc)
				path := findPath(entryPos(gf), pathQuery{
					target: func(x ssa.Instruction) bool { return x == ssa.Instruction(fa) },
					edge: func(bb *ssa.BasicBlock, k int) bool {
						if permit[bb] != nil && permit[bb][k] {
							return false // do not follow permitting edges
						}
						return true
					},
				})
				if path != nil {
					c.Fail("R5", site, fa.Pos(), "replicas can be added to the candidates on a path that does not test the read strategy for REPLICA/BOTH: "+p.pathString(path))
				} else {
					c.OK("R5", site, fa.Pos(), "every path to the replica list crosses strategy==REPLICA or strategy==BOTH")
				}
				// and not reachable from the MASTER arm
				for bb, ks := range master {
					for k := range ks {
						path := findPath(ipos{bb.Succs[k], -1}, pathQuery{target: func(x ssa.Instruction) bool { return x == ssa.Instruction(fa) }})
						if len(bb.Succs[k].Preds) == 1 && path != nil {
							c.Fail("R5", site+" master-arm", fa.Pos(), "replica list is reachable from the strategy==MASTER arm")
						}
					}
				}
				// the replicas come from the same slot entry (directly, or through the helper's parameter)
				isSlotEntry := func(v ssa.Value) bool {
					if u, isU := v.(*ssa.UnOp); isU {
						if ia, isIA := u.X.(*ssa.IndexAddr); isIA {
							if sf, _ := fieldAddr(ia.X); sf == slotsF {
								return true
							}
						}
					}
					return false
				}
				okSame := isSlotEntry(fa.X)
				if prm, isP := fa.X.(*ssa.Parameter); isP && gf != fn {
					okSame = true
					idx := paramIndex(gf, prm)
					for _, ed := range p.callersOf(gf) {
						if idx >= len(ed.Site.Common().Args) || !isSlotEntry(resolveCell(ed.Site.Common().Args[idx])) {
							okSame = false
						}
					}
				}
				c.Check(okSame, "R5", fmt.Sprintf("%s replicas-access#%d same-entry", fnKey(fn), nacc), fa.Pos(),
					"replicas are read from slots[slot] itself", "replica list is not read from the slot entry chosen for the key")
			})
		}
		if nacc == 0 {
			c.Note("host chooser %s reads no replica list (all traffic to masters)", fnKey(fn))
		}
	}
	// who else reads instance.Replicas: outside the choosers (and their helpers) replica addresses must not be copied
	// into another structure - there the per-request strategy test no longer governs them
	inCone := map[*ssa.Function]bool{}
	for _, f := range choosers {
		inCone[f] = true
		for _, g := range staticCalleesDeep(f, 2) {
			inCone[g] = true
		}
	}
	isReplV := func(v ssa.Value) bool {
		f, _ := fieldAddr(v)
		if f == replF {
			return true
		}
		f, _ = loadedField(v)
		return f == replF
	}
	for _, fn := range p.FuncsIn(redisPkg) {
		if p.isTestFn(fn) || inCone[topFn(fn)] || inCone[fn] {
			continue
		}
		eachInstr(fn, func(_ *ssa.BasicBlock, _ int, in ssa.Instruction) {
			var val ssa.Value
			var tf *types.Var
			switch x := in.(type) {
			case *ssa.Store:
				tf, _ = fieldAddr(x.Addr)
				val = x.Val
			case *ssa.MapUpdate:
				tf, _ = loadedField(x.Map)
				val = x.Value
			}
			if tf == nil || tf == replF || val == nil {
				return
			}
			if derivesIP(val, isReplV, 2) {
				c.Fail("R5", "replica addresses copied out of the routing entry in "+fnKey(fn), in.Pos(), "values derived from instance.Replicas are stored into field "+tf.Name()+" outside the host chooser: whatever reads that copy later is not governed by the per-request read-strategy test (a strategy change to MASTER keeps sending reads to replicas until the copy is rebuilt)")
			}
		})
	}
	c.Expect("R5", 4)
}

// checkReplicaAttach: in the CLUSTER NODES parser a replica is appended only to insts[replica.MasterID].Replicas.
func checkReplicaAttach(c *Ctx, rule string) {
	p := c.P
	replF := p.Field(redisPkg, "instance", "Replicas")
	midF := p.Field(redisPkg, "instance", "MasterID")
	if replF == nil || midF == nil {
		c.Unresolved(rule, "instance.Replicas / instance.MasterID")
		return
	}
	n := 0
	for _, a := range p.fieldAccesses(replF) {
		st, ok := a.In.(*ssa.Store)
		if !ok || !a.Write {
			continue
		}
		n++
		site := "store to Replicas in " + fnKey(a.Fn)
		// value = append(load(Replicas of same base), X); base = lookup(insts, X.MasterID)
		call, ok := st.Val.(*ssa.Call)
		if !ok || !isBuiltin(call, "append") {
			c.Undecided(rule, site, st.Pos(), "Replicas is assigned something other than append(...)")
			continue
		}
		// appended element
		var elem ssa.Value
		if sl, ok := call.Call.Args[1].(*ssa.Slice); ok {
			if al, ok := sl.X.(*ssa.Alloc); ok {
				for _, r := range *al.Referrers() {
					if ia, ok := r.(*ssa.IndexAddr); ok {
						for _, rr := range *ia.Referrers() {
							if s, ok := rr.(*ssa.Store); ok && s.Addr == ssa.Value(ia) {
								elem = s.Val
							}
						}
					}
				}
			}
		}
		lk, _ := a.Base.(*ssa.Lookup)
		if ex, isEx := a.Base.(*ssa.Extract); isEx && ex.Index == 0 {
			lk, _ = ex.Tuple.(*ssa.Lookup) // comma-ok form
		}
		if elem == nil || lk == nil {
			c.Undecided(rule, site, st.Pos(), "cannot identify the appended replica or the master lookup")
			continue
		}
		kf, kbase := loadedField(lk.Index)
		if kf == midF && kbase == elem {
			c.OK(rule, site, st.Pos(), "replica x is appended to insts[x.MasterID].Replicas")
		} else {
			c.Fail(rule, site, st.Pos(), "a replica is attached to a master other than the one named by its own master id")
		}
	}
	if n == 0 {
		c.Unresolved(rule, "no store to instance.Replicas")
	}
}

// checkSlotFill: the routing table is (re)written for every slot a master line lists.
// Between reading slot number s out of inst.Slots and the store slots[s] = inst the only
// branch conditions are range tests of s against constants; the stored instance is the one
// whose Slots list is being walked. A refresh that skips or filters entries leaves stale
// owners/replica lists behind (writes and replica reads then go to the wrong node).
func checkSlotFill(c *Ctx, rule string) {
	p := c.P
	slotsF := p.Field(redisPkg, "upstream", "slots")
	instSlotsF := p.Field(redisPkg, "instance", "Slots")
	if slotsF == nil || instSlotsF == nil {
		c.Unresolved(rule, "upstream.slots / instance.Slots")
		return
	}
	n := 0
	for _, a := range p.fieldAccesses(slotsF) {
		ia, ok := a.In.(*ssa.IndexAddr)
		if !ok || !a.Write {
			continue
		}
		var st *ssa.Store
		for _, r := range *ia.Referrers() {
			if s, ok := r.(*ssa.Store); ok && s.Addr == ssa.Value(ia) {
				st = s
			}
		}
		if st == nil {
			continue
		}
		n++
		site := "store slots[s] in " + fnKey(a.Fn)
		// index s = load(IndexAddr(load(FieldAddr(X, Slots)), k)) and stored value == X
		sv := ia.Index
		okSrc := false
		if u, isU := sv.(*ssa.UnOp); isU && u.Op == token.MUL {
			if ia2, isIA := u.X.(*ssa.IndexAddr); isIA {
				if f, base := loadedField(ia2.X); f == instSlotsF && base == st.Val {
					okSrc = true
				}
			}
		}
		c.Check(okSrc, rule, site+" source", st.Pos(), "s ranges over inst.Slots of the instance that is stored", "the stored instance is not the one whose slot list is being walked")
		// conditions after s is defined
		defB := a.In.Block()
		if in, ok := sv.(ssa.Instruction); ok {
			defB = in.Block()
		}
		bad := ""
		for _, b := range a.Fn.Blocks {
			if !defB.Dominates(b) || !b.Dominates(st.Block()) || b == st.Block() {
				continue
			}
			iff, ok := b.Instrs[len(b.Instrs)-1].(*ssa.If)
			if !ok {
				continue
			}
			cmp, ok := iff.Cond.(*ssa.BinOp)
			okc := false
			if ok {
				_, c1 := constInt(cmp.Y)
				_, c2 := constInt(cmp.X)
				if (cmp.X == sv && c1) || (cmp.Y == sv && c2) {
					okc = true
				}
			}
			if !okc {
				bad = p.Pos(iff.Cond.Pos()) + ": " + iff.Cond.String()
			}
		}
		if bad != "" {
			c.Fail(rule, site+" unconditional", st.Pos(), "the store is skipped depending on a condition other than the range test of the slot number ("+bad+"): a refresh can leave a stale owner / replica list in the table")
		} else {
			c.OK(rule, site+" unconditional", st.Pos(), "only range tests of s against constants guard the store")
		}
	}
	if n == 0 {
		// the table replaced as a whole instead of updated entry by entry
		slotsF := p.Field(redisPkg, "upstream", "slots")
		var whole *ssa.Store
		if slotsF != nil {
			for _, fn := range p.FuncsIn(redisPkg) {
				if p.isTestFn(fn) {
					continue
				}
				eachInstr(fn, func(_ *ssa.BasicBlock, _ int, in ssa.Instruction) {
					if st, ok := in.(*ssa.Store); ok {
						if f, base := fieldAddr(st.Addr); f == slotsF && !isFreshAlloc(base) {
							whole = st
						}
					}
				})
			}
		}
		if whole != nil {
			c.Fail(rule, "the routing table is updated slot by slot", whole.Pos(), "the routing table is replaced as a whole by what one CLUSTER NODES reply lists: a slot missing from that reply - a node with a partial view: just restarted, freshly added, partitioned - loses its known owner, and commands for it (writes included) go to a random seed host, possibly a replica or another shard, although the owning master is alive and was known")
			return
		}
		c.Unresolved(rule, "no store into upstream.slots[s]")
	}
}

const unicodeLowerWhy = "the command name is normalised with a Unicode-aware lower-casing (strings/bytes.ToLower): names that are not Redis commands byte-wise - e.g. \"\u0130NCR\" (dotted capital I) or \"H\u212aEYS\" (Kelvin sign) - fold to supported names, pass the validation and are forwarded verbatim: a command that is not in the supported set reaches the backend"

// lowerCallKind classifies the call that produces a table key from the command name: "unicode" for
// strings.ToLower/bytes.ToLower, "ascii" for a module helper that maps only 'A'..'Z' (no call into the
// strings/bytes/unicode case functions, compares bytes with 'A' and 'Z'), "" otherwise. Returns the name argument.
func lowerCallKind(v ssa.Value) (string, ssa.Value) {
	call, ok := stripConv(v).(*ssa.Call)
	if !ok || len(call.Call.Args) == 0 {
		return "", nil
	}
	if isCallTo(call, "bytes.ToLower") || isCallTo(call, "strings.ToLower") {
		return "unicode", call.Call.Args[0]
	}
	g := calleeFn(call.Common())
	if g == nil || !isModFn(g) || g.Blocks == nil {
		return "", nil
	}
	hasA, hasZ, calls := false, false, false
	for _, f := range append([]*ssa.Function{g}, staticCalleesDeep(g, 1)...) {
		eachInstr(f, func(_ *ssa.BasicBlock, _ int, in ssa.Instruction) {
			if cc := callOf(in); cc != nil {
				if h := calleeFn(cc); h != nil && h.Pkg != nil {
					switch h.Pkg.Pkg.Path() {
					case "strings", "bytes", "unicode", "unicode/utf8":
						if strings.HasPrefix(h.Name(), "To") || strings.Contains(h.Name(), "Fold") || strings.Contains(h.Name(), "Map") {
							calls = true
						}
					}
				}
			}
			if bo, ok := in.(*ssa.BinOp); ok {
				for _, y := range []ssa.Value{bo.X, bo.Y} {
					if k, isC := constInt(y); isC {
						if k == 'A' {
							hasA = true
						}
						if k == 'Z' {
							hasZ = true
						}
					}
				}
			}
		})
	}
	if hasA && hasZ && !calls {
		return "ascii", call.Call.Args[0]
	}
	return "", nil
}
