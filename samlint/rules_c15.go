package main

import (
	"fmt"
	"go/token"
	"go/types"
	"strings"

	"golang.org/x/tools/go/ssa"
)

func init() {
	register(&propDef{
		id: "C15",
		li: levelInfo{
			Level:       "other",
			Explanation: "Static rules on the host set and the health monitor. R1 (lockset analysis): the member map and the two healthy tiers are read only under the set's read or write lock and written only under the write lock; helpers that touch them without locking are entered only with the lock held (constructor exempt). R2: every function that writes or replaces a healthy tier reaches buildHealthyCache on every path. R3: healthy() returns the main tier iff it is non-empty, else the backup tier. R4: the cache is built from the keys of one map, sorted before use, into a freshly allocated slice that is never one handed out before. R5: the two hysteresis counters are mirror images, both setters reset both, every check outcome reaches exactly one counter increment, thresholds are paired with the right mark function. R6: a removed address has markRemoved called on the stored object. R7: an address overwritten in the member map has its previous object purged from the healthy tiers first. Interleavings of the lock-free health flag CAS with set operations are not decided. R7 also orders the purge of a replaced object before the insertion of the new one. R8 (tier identity): tier mutators are called only with the stored object (loaded from the member map, just stored with nothing in between, or identity-tested). R9: the snapshot handed out by Healthy() is never written or sorted in place by a reader. R10: from every delete on the member map the stored object reaches a tier purge on every path, independent of its health flag. R11: the health state object of a host (flag and check streaks) is written at construction only. R6 also requires an overwritten member object to be notified. R2 also: every store into the healthy-hosts cache happens under the set's write lock; the cache builder is found by role. R12: no store through a pointer to a configuration message (pb/) held in a field - configuration objects are shared.",
			TrustedBase: []string{"go/ssa", "samlint elock.go"},
		},
		run: checkC15,
	})
	techniques["C15"] = "static analysis: must-hold lockset dataflow, must-pass-through, sibling-symmetry and value-identity rules on SSA"
}

const hostPkg = "host"

func checkC15(c *Ctx) {
	p := c.P
	c.Rule("R1", "lockset: Set.all / healthyMain / healthyBackup only under the set's lock (write lock for writes)")
	c.Rule("R2", "rebuild: every function that writes or replaces a healthy tier reaches buildHealthyCache on every path")
	c.Rule("R3", "tier preference: main iff non-empty, else backup")
	c.Rule("R4", "cache: keys of one map, sorted, built into a fresh slice")
	c.Rule("R5", "hysteresis: mirror-image counters, setters reset both, every outcome counted once, thresholds paired with marks")
	c.Rule("R6", "notification identity: markRemoved on the stored object of every removed address")
	c.Rule("R7", "overwrite: the previous object of an address is purged from the healthy tiers before the member map is overwritten")
	c.Rule("R9", "the healthy-hosts snapshot handed out by Healthy() is never written or sorted in place by a reader")
	c.Rule("R12", "configuration messages are shared and never written in place: a component replaces the pointer it holds")
	checkConfigObjectsNotWrittenThrough(c, "R12")
	c.Rule("R8", "tier identity: the healthy tiers are written and purged only with the object the member map stores for the address")

	all := p.Field(hostPkg, "Set", "all")
	hm := p.Field(hostPkg, "Set", "healthyMain")
	hb := p.Field(hostPkg, "Set", "healthyBackup")
	mu := p.Field(hostPkg, "Set", "RWMutex")
	cache := p.Field(hostPkg, "Set", "healthyCache")
	build := cacheBuilder(p)
	if all == nil || hm == nil || hb == nil || mu == nil || cache == nil || build == nil {
		c.Unresolved("R1", "host.Set fields / buildHealthyCache")
		return
	}
	le := newLockEngine(p, "host")
	for _, f := range []*types.Var{all, hm, hb} {
		le.checkGuarded(c, "R1", "Set", f, mu, nil)
	}
	// Healthy() is lock-free and must read only the atomic cache
	if h := p.Func(hostPkg, "(*Set).Healthy"); h != nil {
		bad := false
		eachInstr(h, func(_ *ssa.BasicBlock, _ int, in ssa.Instruction) {
			if fa, ok := in.(*ssa.FieldAddr); ok {
				if f, _ := fieldAddr(fa); f == all || f == hm || f == hb {
					bad = true
				}
			}
		})
		c.Check(!bad, "R1", "Healthy() reads only the cache", h.Pos(), "no access to the maps", "the lock-free Healthy() touches a map guarded by the lock")
	}
	c.Expect("R1", 15)

	checkTierRebuild(c, "R2")
	c.Expect("R2", 2)

	checkTierIdentity(c, "R8")
	checkSnapshotImmutable(c, "R9")
	c.Rule("R10", "a deleted member leaves the tiers: from every delete on the member map the stored object reaches a tier purge on every path, independent of its health flag")
	checkMemberDeleteLeavesTiers(c, "R10")
	c.Rule("R11", "the health state object of a host (flag and check streaks) is set at construction only - tier membership and flag cannot be made to disagree by importing another host's state")
	checkHealthStateNotReplaced(c, "R11")

	// ---------------- R3
	if h := p.Func(hostPkg, "(*Set).healthy"); h == nil {
		c.Unresolved("R3", "(*Set).healthy")
	} else {
		ok := false
		var why string
		eachInstr(h, func(_ *ssa.BasicBlock, _ int, in ssa.Instruction) {
			ret, isRet := in.(*ssa.Return)
			if !isRet {
				return
			}
			ph, isPhi := returnedValues(ret)[0].(*ssa.Phi)
			if !isPhi || len(ph.Edges) != 2 {
				why = "result is not a choice between two tiers"
				return
			}
			// find the If deciding
			for k, pred := range ph.Block().Preds {
				f, _ := loadedField(ph.Edges[k])
				// the edge that comes from the `len(main)==0` true branch must carry backup
				for _, d := range h.Blocks {
					iff, isIf := d.Instrs[len(d.Instrs)-1].(*ssa.If)
					if !isIf {
						continue
					}
					cmp, isCmp := iff.Cond.(*ssa.BinOp)
					if !isCmp || cmp.Op != token.EQL {
						continue
					}
					call, isCall := cmp.X.(*ssa.Call)
					z, isZ := constInt(cmp.Y)
					if !isCall || !isBuiltin(call, "len") || !isZ || z != 0 {
						continue
					}
					if lf, _ := loadedField(call.Call.Args[0]); lf != hm {
						continue
					}
					T := d.Succs[0]
					if pred == T || T.Dominates(pred) {
						if f == hb {
							ok = true
						} else {
							why = "when no main host is healthy the function does not fall back to the backup tier"
						}
					} else if f != hm {
						why = "when a main host is healthy the function does not return the main tier"
						ok = false
					}
				}
			}
		})
		c.Check(ok && why == "", "R3", "healthy() tier choice", h.Pos(), "backup exactly when len(healthyMain)==0", "tier preference broken: "+why)
	}

	// ---------------- R4
	func() {
		var store *ssa.Call
		var sorted *ssa.Call
		eachInstr(build, func(_ *ssa.BasicBlock, _ int, in ssa.Instruction) {
			call, ok := in.(*ssa.Call)
			if !ok {
				return
			}
			if isCallTo(call, "(*sync/atomic.Value).Store") {
				// the cache may be a wrapper struct embedding sync/atomic.Value
				if derives(call.Call.Args[0], func(v ssa.Value) bool { f, _ := fieldAddr(v); return f == cache }) {
					store = call
				}
			}
			if isCallTo(call, "sort.Strings") {
				sorted = call
			}
		})
		if store == nil {
			c.Fail("R4", "cache store", build.Pos(), "buildHealthyCache does not store into healthyCache")
			return
		}
		v := stripConv(store.Call.Args[1])
		// the list may be assembled by a helper (sortedByAddr(map)): look at what the helper returns
		if hc, ok := v.(*ssa.Call); ok {
			if g := calleeFn(hc.Common()); g != nil && isModFn(g) && g.Blocks != nil {
				var rets []ssa.Value
				eachInstr(g, func(_ *ssa.BasicBlock, _ int, in ssa.Instruction) {
					if r, ok := in.(*ssa.Return); ok && len(r.Results) == 1 {
						rets = append(rets, returnedValues(r)[0])
					}
					if call, ok := in.(*ssa.Call); ok && isCallTo(call, "sort.Strings") {
						sorted = call
					}
				})
				if len(rets) == 1 {
					v = stripConv(rets[0])
				}
			}
		}
		fresh := derives(v, func(x ssa.Value) bool { _, ok := x.(*ssa.MakeSlice); return ok })
		fromOld := derives(v, func(x ssa.Value) bool {
			cl, ok := x.(*ssa.Call)
			return ok && isCallTo(cl, "(*sync/atomic.Value).Load")
		})
		c.Check(fresh && !fromOld, "R4", "published slice is fresh", store.Pos(), "built with make() in this call, never derived from the previously published slice", "the slice that is published is (or can be) the one handed out before: readers holding a Healthy() result see it overwritten (duplicates, unsorted views)")
		c.Check(sorted != nil && (sorted.Parent() != store.Parent() || instrDominates(sorted, store)), "R4", "keys sorted before publishing", store.Pos(), "sort.Strings precedes the store", "the host list is published without sorting by address")
		// elements are hostMap[k] for k over the sorted keys
		okElems := false
		if sorted != nil {
			keys := sorted.Call.Args[0]
			isKeyed := func(x ssa.Value) bool {
				return derives(x, func(x2 ssa.Value) bool {
					lk, ok := x2.(*ssa.Lookup)
					if !ok {
						return false
					}
					return derives(lk.Index, func(y ssa.Value) bool { return y == keys || sameSliceVar(y, keys) })
				})
			}
			okElems = isKeyed(v)
			// hosts := make(..., len(keys)); hosts[i] = tier[keys[i]]: element stores into the made slice
			if mk, ok := v.(*ssa.MakeSlice); ok && !okElems {
				n, good := 0, true
				for _, r := range *mk.Referrers() {
					if ia, ok := r.(*ssa.IndexAddr); ok {
						for _, r2 := range *ia.Referrers() {
							if st, ok := r2.(*ssa.Store); ok && st.Addr == ssa.Value(ia) {
								n++
								if !isKeyed(st.Val) {
									good = false
								}
							}
						}
					}
				}
				okElems = n > 0 && good
			}
		}
		c.Check(okElems, "R4", "elements looked up by the sorted keys", store.Pos(), "hosts[i] = tier[keys[i]]", "the published list is not built from the sorted key list (order/uniqueness not by construction)")
	}()
	c.Expect("R4", 3)

	checkHysteresis(c)
	checkRemovalIdentity(c, "R6")

	// ---------------- R7
	tierInserters, tierDeleters := map[*ssa.Function]bool{}, map[*ssa.Function]bool{}
	for _, fn := range p.FuncsIn(hostPkg) {
		if p.isTestFn(fn) {
			continue
		}
		eachInstr(fn, func(_ *ssa.BasicBlock, _ int, in ssa.Instruction) {
			switch x := in.(type) {
			case *ssa.MapUpdate:
				if isTierMapValue(x.Map, hm, hb) {
					tierInserters[fn] = true
				}
			case *ssa.Call:
				if isBuiltin(x, "delete") {
					if isTierMapValue(x.Call.Args[0], hm, hb) {
						tierDeleters[fn] = true
					}
				}
			}
		})
	}
	nUp := 0
	for _, fn := range p.FuncsIn(hostPkg) {
		if p.isTestFn(fn) {
			continue
		}
		eachInstr(fn, func(b *ssa.BasicBlock, _ int, in ssa.Instruction) {
			mu2, ok := in.(*ssa.MapUpdate)
			if !ok {
				return
			}
			if f, _ := loadedField(mu2.Map); f != all {
				return
			}
			nUp++
			site := fmt.Sprintf("%s member overwrite#%d", fnKey(fn), nUp)
			// a lookup all[sameKey] whose found branch calls removeFromHealthy(old) / deletes from both tiers, dominating the update
			purged := false
			var lateAt ssa.Instruction
			eachInstr(fn, func(b2 *ssa.BasicBlock, _ int, in2 ssa.Instruction) {
				lk, ok := in2.(*ssa.Lookup)
				if !ok || !lk.CommaOk {
					return
				}
				if f, _ := loadedField(lk.X); f != all {
					return
				}
				if accessPath(lk.Index, nil, 0) != accessPath(mu2.Key, nil, 0) || !instrDominates(in2, in) {
					return
				}
				var old ssa.Value
				for _, r := range *lk.Referrers() {
					if ex, ok := r.(*ssa.Extract); ok && ex.Index == 0 {
						old = ex
					}
				}
				if old == nil {
					return
				}
				eachInstr(fn, func(_ *ssa.BasicBlock, _ int, in3 ssa.Instruction) {
					cc := callOf(in3)
					if cc == nil {
						return
					}
					if g := calleeFn(cc); g != nil && tierDeleters[g] {
						if derives(cc.Args[len(cc.Args)-1], func(v ssa.Value) bool { return v == old }) {
							purged = true
							// the purge deletes by address: it must not run after the new object was inserted
							eachInstr(fn, func(_ *ssa.BasicBlock, _ int, in4 ssa.Instruction) {
								c4 := callOf(in4)
								if c4 == nil {
									return
								}
								if g4 := calleeFn(c4); g4 != nil && tierInserters[g4] {
									// (a path that re-reads the member map first purges what is stored then: fine)
									if findPath(posOf(in4), pathQuery{target: func(x ssa.Instruction) bool { return x == in3 }, avoid: func(x ssa.Instruction) bool { return x == in2 }}) != nil {
										lateAt = in3
									}
								}
							})
						}
					}
				})
			})
			if purged && lateAt != nil {
				c.Fail("R7", site, lateAt.Pos(), "the previous object of the address is purged from the healthy tiers after the new objects were inserted: the purge deletes by type and address, so a re-announced host is inserted and deleted again - it stays a member, marked healthy, but is in no tier and never comes back")
			} else if purged {
				c.OK("R7", site, in.Pos(), "the previous object of the address is removed from the healthy tiers first")
			} else {
				c.Fail("R7", site, in.Pos(), "the member map entry of an address is overwritten without purging the previous object from the healthy tiers: re-adding an address with another type leaves the old object in the old tier, where it is still reported although it is no longer a member")
			}
		})
	}
	c.Expect("R7", 1)
}

// sameSliceVar: y is the same local slice variable as keys (through append phis).
func sameSliceVar(y, keys ssa.Value) bool {
	return derives(keys, func(v ssa.Value) bool { return v == y }) || derives(y, func(v ssa.Value) bool { return v == keys })
}

func checkHysteresis(c *Ctx) {
	p := c.P
	fc := p.Field(hostPkg, "Stats", "failedCount")
	sc := p.Field(hostPkg, "Stats", "successfulCount")
	if fc == nil || sc == nil {
		c.Unresolved("R5", "host.Stats.failedCount/successfulCount")
		return
	}
	shape := func(name string, own, other *types.Var) {
		fn := p.Func(hostPkg, "(*Stats)."+name)
		if fn == nil {
			c.Unresolved("R5", name)
			return
		}
		resetOther, incOwn, retInc := false, false, false
		var inc ssa.Value
		eachInstr(fn, func(_ *ssa.BasicBlock, _ int, in ssa.Instruction) {
			switch x := in.(type) {
			case *ssa.Call:
				g := calleeFn(x.Common())
				if g == nil || len(x.Call.Args) == 0 {
					return
				}
				f, _ := fieldAddr(x.Call.Args[0])
				if g.Name() == "Store" && f == other {
					if z, ok := constInt(x.Call.Args[1]); ok && z == 0 {
						resetOther = true
					}
				}
				if g.Name() == "Inc" && f == own {
					incOwn = true
					inc = x
				}
				if (g.Name() == "Store" || g.Name() == "Inc") && f == own && g.Name() == "Store" {
					incOwn = false
				}
			case *ssa.Return:
				if len(x.Results) == 1 && returnedValues(x)[0] == inc {
					retInc = true
				}
			}
		})
		c.Check(resetOther && incOwn && retInc, "R5", name+" shape", fn.Pos(), "resets the opposite counter, increments and returns its own", "the consecutive-result counter does not reset the opposite counter / return its own incremented value: any opposite result must restart the count")
	}
	shape("IncFailedCount", fc, sc)
	shape("IncSuccessfulCount", sc, fc)
	for _, name := range []string{"setHealthy", "setUnhealthy"} {
		fn := p.Func(hostPkg, "(*Stats)."+name)
		if fn == nil {
			c.Unresolved("R5", name)
			continue
		}
		r1, r2 := false, false
		eachInstr(fn, func(_ *ssa.BasicBlock, _ int, in ssa.Instruction) {
			if call, ok := in.(*ssa.Call); ok {
				if g := calleeFn(call.Common()); g != nil && g.Name() == "Store" && len(call.Call.Args) == 2 {
					f, _ := fieldAddr(call.Call.Args[0])
					if z, ok := constInt(call.Call.Args[1]); ok && z == 0 {
						if f == fc {
							r1 = true
						}
						if f == sc {
							r2 = true
						}
					}
				}
			}
		})
		c.Check(r1 && r2, "R5", name+" resets both counters", fn.Pos(), "both counters reset on a health flip", "a health flip does not reset both counters: the next flip needs fewer than the configured number of results")
	}
	// monitor: the function that runs one check and everything it calls statically
	checkHost := p.Func("proc/internal/hc", "(*Monitor).checkHost")
	if checkHost == nil {
		c.Unresolved("R5", "(*Monitor).checkHost")
		return
	}
	var mon *ssa.Function
	var chk *ssa.Call
	for _, ed := range p.callersOf(checkHost) {
		if call, ok := ed.Site.(*ssa.Call); ok {
			mon, chk = ed.Caller.Func, call
		}
	}
	if mon == nil {
		c.Fail("R5", "monitor calls", checkHost.Pos(), "nothing calls the health check")
		return
	}
	findCall := func(name string) (*ssa.Call, *ssa.Function) {
		for _, f := range withHelpers(mon) {
			var hit *ssa.Call
			eachInstr(f, func(_ *ssa.BasicBlock, _ int, in ssa.Instruction) {
				if call, ok := in.(*ssa.Call); ok {
					if g := calleeFn(call.Common()); g != nil && g.Name() == name {
						hit = call
					}
				}
			})
			if hit != nil {
				return hit, f
			}
		}
		return nil, nil
	}
	incS, fS := findCall("IncSuccessfulCount")
	incF, fF := findCall("IncFailedCount")
	markH, _ := findCall("MarkHostHealthy")
	markU, _ := findCall("MarkHostUnhealthy")
	if incS == nil || incF == nil || markH == nil || markU == nil {
		c.Fail("R5", "monitor calls", mon.Pos(), "the monitor does not check, count and mark")
		return
	}
	// an instruction of mon "performs" X if it is X or a call of a helper that performs X on every path
	performs := func(target *ssa.Call) func(ssa.Instruction) bool {
		return p.deepMatcher(func(in ssa.Instruction) bool { return in == ssa.Instruction(target) }, 2)
	}
	underEdge := func(target *ssa.Call, want bool) bool {
		m := performs(target)
		ok := false
		eachInstr(mon, func(b *ssa.BasicBlock, _ int, in ssa.Instruction) {
			if m(in) && condEdge(b, chk, want) {
				ok = true
			}
		})
		return ok
	}
	c.Check(underEdge(incS, true) && underEdge(incF, false), "R5", "outcome -> counter", mon.Pos(), "success result increments the success counter, failure the failure counter", "check outcomes are counted on the wrong counter")
	// every path counts exactly one
	mS, mF := performs(incS), performs(incF)
	path := escapesWithout(entryPos(mon), func(in ssa.Instruction) bool { return mS(in) || mF(in) })
	c.Check(path == nil, "R5", "every outcome is counted", mon.Pos(), "every path crosses exactly one increment", "a check outcome is dropped without touching the counters ("+p.pathString(path)+"): results that agree with the current state no longer restart the opposite count, so contrary results accumulate instead of having to be consecutive")
	// thresholds
	thr := func(inc, mark *ssa.Call, field, label string) {
		ok := false
		for _, r := range *inc.Referrers() {
			bo, isBo := r.(*ssa.BinOp)
			if !isBo || bo.X != ssa.Value(inc) {
				continue
			}
			holds := -1 // successor index on which count >(=) threshold holds
			switch bo.Op {
			case token.GTR, token.GEQ:
				holds = 0
			case token.LEQ, token.LSS:
				holds = 1
			default:
				continue
			}
			f, _ := loadedField(stripConv(bo.Y))
			if f == nil || f.Name() != field || mark.Parent() != inc.Parent() {
				continue
			}
			// the mark is reachable only through the edge on which the threshold is exceeded
			isMark := func(x ssa.Instruction) bool { return x == ssa.Instruction(mark) }
			reach := findPath(posOf(inc), pathQuery{target: isMark}) != nil
			bypass := findPath(posOf(inc), pathQuery{target: isMark, edge: func(b *ssa.BasicBlock, k int) bool {
				if iff, isIf := b.Instrs[len(b.Instrs)-1].(*ssa.If); isIf && iff.Cond == ssa.Value(bo) && k == holds {
					return false
				}
				return true
			}}) != nil
			if reach && !bypass {
				ok = true
			}
		}
		c.Check(ok, "R5", label, inc.Pos(), "count > "+field+" (or >=) guards the matching mark", "the "+label+" is not `own count >(=) "+field+"` guarding the matching mark function")
	}
	_ = fS
	_ = fF
	thr(incS, markH, "RiseThreshold", "rise threshold pairing")
	thr(incF, markU, "FallThreshold", "fall threshold pairing")
	c.Expect("R5", 8)
}

// checkRemovalIdentity: every address deleted from the member map has markRemoved called on the stored object.
func checkRemovalIdentity(c *Ctx, rule string) {
	p := c.P
	all := p.Field(hostPkg, "Set", "all")
	mr := p.Func(hostPkg, "(*Host).markRemoved")
	if all == nil || mr == nil {
		c.Unresolved(rule, "Set.all / Host.markRemoved")
		return
	}
	n := 0
	for _, fn := range p.FuncsIn(hostPkg) {
		if p.isTestFn(fn) {
			continue
		}
		eachInstr(fn, func(b *ssa.BasicBlock, _ int, in ssa.Instruction) {
			call, ok := in.(*ssa.Call)
			if !ok || !isBuiltin(call, "delete") {
				return
			}
			if f, _ := loadedField(call.Call.Args[0]); f != all {
				return
			}
			n++
			site := fmt.Sprintf("%s member delete#%d", fnKey(fn), n)
			key := accessPath(call.Call.Args[1], nil, 0)
			// a markRemoved call in the same loop iteration / block region whose receiver is a lookup all[key]
			okStored, onArg := false, false
			eachInstr(fn, func(_ *ssa.BasicBlock, _ int, in2 ssa.Instruction) {
				c2, ok := in2.(*ssa.Call)
				if !ok || !isCallToFn(c2, mr) {
					return
				}
				recv := c2.Call.Args[0]
				stored := derives(recv, func(v ssa.Value) bool {
					lk, ok := v.(*ssa.Lookup)
					if !ok {
						return false
					}
					f, _ := loadedField(lk.X)
					return f == all && accessPath(lk.Index, nil, 0) == key
				})
				if stored {
					okStored = true
				} else {
					onArg = true
				}
			})
			switch {
			case okStored:
				c.OK(rule, site, call.Pos(), "markRemoved is called on the object loaded from the member map for the same address")
			case onArg:
				c.Fail(rule, site, call.Pos(), "markRemoved is called on the caller's object, not on the stored one: removal events carry freshly built Host objects, so the stored host - the one established connections wait on - is never notified and its connections are not closed")
			default:
				c.Fail(rule, site, call.Pos(), "an address is deleted from the member map without notifying the stored host")
			}
		})
	}
	if n == 0 {
		c.Unresolved(rule, "no delete from Set.all")
	}
	// an entry overwritten by another object: the object that leaves the map is notified too - a later removal of the
	// address only reaches the object stored then
	nu := 0
	for _, fn := range p.FuncsIn(hostPkg) {
		if p.isTestFn(fn) {
			continue
		}
		eachInstr(fn, func(_ *ssa.BasicBlock, _ int, in ssa.Instruction) {
			mu, ok := in.(*ssa.MapUpdate)
			if !ok {
				return
			}
			if f, _ := loadedField(mu.Map); f != all {
				return
			}
			nu++
			site := fmt.Sprintf("%s member overwrite#%d notifies the object it replaces", fnKey(fn), nu)
			key := accessPath(mu.Key, nil, 0)
			notified := false
			eachInstr(fn, func(_ *ssa.BasicBlock, _ int, in2 ssa.Instruction) {
				c2, ok := in2.(*ssa.Call)
				if !ok || !isCallToFn(c2, mr) {
					return
				}
				fromOld := derives(c2.Call.Args[0], func(v ssa.Value) bool {
					lk, ok := v.(*ssa.Lookup)
					if !ok {
						return false
					}
					f, _ := loadedField(lk.X)
					return f == all && accessPath(lk.Index, nil, 0) == key
				})
				if fromOld && findPath(posOf(in2), pathQuery{target: func(x ssa.Instruction) bool { return x == in }}) != nil {
					notified = true
				}
			})
			c.Check(notified, rule, site, mu.Pos(), "the previous object for the address is marked removed before the entry is overwritten", "an entry of the member map can be overwritten by another object without the object that leaves being notified: sessions established on it wait on its removal latch, and a later removal of the address reaches only the object stored then - established connections to a removed host stay open")
		})
	}
}

// cacheStoreSites: the calls that store into the set's healthy-hosts cache (an atomic.Value field, possibly wrapped).
func cacheStoreSites(p *Prog, cache *types.Var) []*ssa.Call {
	var out []*ssa.Call
	for _, fn := range p.FuncsIn(hostPkg) {
		if p.isTestFn(fn) {
			continue
		}
		eachInstr(fn, func(_ *ssa.BasicBlock, _ int, in ssa.Instruction) {
			call, ok := in.(*ssa.Call)
			if !ok || !isCallTo(call, "(*sync/atomic.Value).Store") {
				return
			}
			if derives(call.Call.Args[0], func(v ssa.Value) bool { f, _ := fieldAddr(v); return f == cache }) {
				out = append(out, call)
			}
		})
	}
	return out
}

// cacheBuilder: the function that rebuilds the healthy-hosts cache - by its name, or by its role (it stores into the
// cache field and sorts).
func cacheBuilder(p *Prog) *ssa.Function {
	if b := p.Func(hostPkg, "(*Set).buildHealthyCache"); b != nil {
		return b
	}
	cache := p.Field(hostPkg, "Set", "healthyCache")
	if cache == nil {
		return nil
	}
	var cands []*ssa.Function
	for _, st := range cacheStoreSites(p, cache) {
		fn := st.Parent()
		sorts := false
		for _, g := range append([]*ssa.Function{fn}, staticCalleesDeep(fn, 1)...) {
			if g.Blocks == nil {
				continue
			}
			eachInstr(g, func(_ *ssa.BasicBlock, _ int, in ssa.Instruction) {
				if isCallTo(in, "sort.Strings", "sort.Slice", "sort.Sort", "sort.SliceStable") {
					sorts = true
				}
			})
		}
		if sorts && fn.Name() != "Healthy" {
			cands = append(cands, fn)
		}
	}
	if len(cands) == 1 {
		return cands[0]
	}
	return nil
}

// checkTierRebuild: every function that writes or replaces a healthy tier reaches buildHealthyCache on every path.
func checkTierRebuild(c *Ctx, rule string) {
	p := c.P
	hm := p.Field(hostPkg, "Set", "healthyMain")
	hb := p.Field(hostPkg, "Set", "healthyBackup")
	cacheF := p.Field(hostPkg, "Set", "healthyCache")
	muF := p.Field(hostPkg, "Set", "RWMutex")
	// the cache is replaced only under the set's write lock: a list that is assembled under the lock but stored after
	// releasing it (a lazy rebuild in the reader) overwrites the result of a change that landed in between - the cache
	// is then non-empty and stale, and nobody rebuilds it until the next change of the set
	if cacheF != nil && muF != nil {
		le := newLockEngine(p, "host")
		for i, st := range cacheStoreSites(p, cacheF) {
			site := fmt.Sprintf("%s cache store#%d under the write lock", fnKey(st.Parent()), i+1)
			if derives(st.Call.Args[0], func(v ssa.Value) bool { return isFreshAlloc(v) }) {
				c.OK(rule, site, st.Pos(), "object not yet shared (constructor)")
				continue
			}
			held := le.before[st][muF] == lockWrite
			c.Check(held, rule, site, st.Pos(), "the set's write lock is held at the store", "the healthy-hosts cache is replaced without the set's write lock: a Remove, MarkHostUnhealthy or ReplaceAll that lands between assembling the list and storing it is overwritten by the stale list - removed or unhealthy hosts (or backups while a main host is healthy) are handed to every new connection until the set changes again")
		}
	}
	build := cacheBuilder(p)
	if hm == nil || hb == nil || build == nil {
		c.Unresolved(rule, "Set.healthyMain/healthyBackup/buildHealthyCache")
		return
	}
	isBuild := func(in ssa.Instruction) bool { return isCallToFn(in, build) }
	mm := p.deepMatcher(isBuild, 3)
	nW := 0
	for _, fn := range p.FuncsIn(hostPkg) {
		if p.isTestFn(fn) || fn == build {
			continue
		}
		var writes []ssa.Instruction
		eachInstr(fn, func(_ *ssa.BasicBlock, _ int, in ssa.Instruction) {
			switch x := in.(type) {
			case *ssa.MapUpdate:
				if isTierMapValue(x.Map, hm, hb) {
					writes = append(writes, in)
				}
			case *ssa.Call:
				if isBuiltin(x, "delete") {
					if isTierMapValue(x.Call.Args[0], hm, hb) {
						writes = append(writes, in)
					}
				}
			case *ssa.Store:
				if f, base := fieldAddr(x.Addr); (f == hm || f == hb) && !isFreshAlloc(base) {
					writes = append(writes, in)
				}
			}
		})
		for i, w := range writes {
			nW++
			site := fmt.Sprintf("%s tier write#%d", fnKey(fn), i+1)
			path := findPath(posOf(w), pathQuery{target: isReturn, avoid: mm})
			if path != nil {
				c.Fail(rule, site, w.Pos(), "after a healthy tier is modified a path returns without rebuilding the cache ("+p.pathString(path)+"): Healthy() keeps reporting removed or unhealthy hosts")
			} else {
				c.OK(rule, site, w.Pos(), "every path after the write reaches buildHealthyCache")
			}
		}
	}

}

// checkTierIdentity (C15.R8, C06.R8): the healthy tiers only ever hold - and are only ever purged on behalf of - the
// object that the member map stores for the address. Tier mutators are the functions that write a tier map with a
// value/key taken from their parameter; at each of their call sites every element handed over must be
//
//	(a) loaded from the member map, or a slice built only by appending such objects,
//	(b) the elements of a slice parameter that the same function stores into the member map on every path of the
//	    loop that ranges over it, or
//	(c) a value whose identity with the stored object is tested (`all[x.Addr] == x`) on the edge dominating the call.
//
// A stale object in a tier is selectable although the monitor and removal act on the stored one; purging by the
// address of a stale object removes the stored (healthy) object from the tier for good.
func checkTierIdentity(c *Ctx, rule string) {
	p := c.P
	all := p.Field(hostPkg, "Set", "all")
	hm := p.Field(hostPkg, "Set", "healthyMain")
	hb := p.Field(hostPkg, "Set", "healthyBackup")
	if all == nil || hm == nil || hb == nil {
		c.Unresolved(rule, "Set.all/healthyMain/healthyBackup")
		return
	}
	// mutators: write a tier from a slice parameter
	mutators := map[*ssa.Function]bool{}
	for _, fn := range p.FuncsIn(hostPkg) {
		if p.isTestFn(fn) {
			continue
		}
		eachInstr(fn, func(_ *ssa.BasicBlock, _ int, in ssa.Instruction) {
			var m ssa.Value
			switch x := in.(type) {
			case *ssa.MapUpdate:
				m = x.Map
			case *ssa.Call:
				if isBuiltin(x, "delete") {
					m = x.Call.Args[0]
				}
			}
			if m == nil {
				return
			}
			if isTierMapValue(m, hm, hb) {
				for _, prm := range fn.Params {
					if _, isSl := prm.Type().Underlying().(*types.Slice); isSl {
						mutators[fn] = true
					}
				}
			}
		})
	}
	if len(mutators) == 0 {
		c.Unresolved(rule, "no function writes a healthy tier from a slice parameter")
		return
	}
	fromAll := func(v ssa.Value) bool {
		return derives(v, func(y ssa.Value) bool {
			switch lk := y.(type) {
			case *ssa.Lookup:
				f, _ := loadedField(lk.X)
				return f == all
			case *ssa.Next: // range over the member map
				if rg, ok := lk.Iter.(*ssa.Range); ok {
					f, _ := loadedField(rg.X)
					return f == all
				}
			}
			return false
		})
	}
	n := 0
	perFn := map[*ssa.Function]int{}
	for _, fn := range p.FuncsIn(hostPkg) {
		if p.isTestFn(fn) {
			continue
		}
		eachInstr(fn, func(b *ssa.BasicBlock, _ int, in ssa.Instruction) {
			call, ok := in.(*ssa.Call)
			if !ok {
				return
			}
			g := calleeFn(call.Common())
			if g == nil {
				// the mutator handed in as a function value: every caller passes a tier mutator
				if prm, isPrm := call.Call.Value.(*ssa.Parameter); isPrm {
					ts := p.paramFuncTargets(fn, prm)
					for _, t := range ts {
						if !mutators[t] {
							ts = nil
							break
						}
					}
					if len(ts) > 0 {
						g = ts[0]
					}
				}
			}
			if g == nil || !mutators[g] {
				return
			}
			n++
			perFn[fn]++
			site := fmt.Sprintf("%s call#%d of %s", fnKey(fn), perFn[fn], g.Name())
			arg := call.Call.Args[len(call.Call.Args)-1]
			// elements
			var elems []ssa.Value
			kind := ""
			switch x := arg.(type) {
			case *ssa.Slice:
				if al, isAl := x.X.(*ssa.Alloc); isAl {
					for _, r := range *al.Referrers() {
						if ia, isIA := r.(*ssa.IndexAddr); isIA {
							for _, r2 := range *ia.Referrers() {
								if st, isSt := r2.(*ssa.Store); isSt {
									elems = append(elems, st.Val)
								}
							}
						}
					}
					kind = "explicit"
				}
			case *ssa.Parameter:
				kind = "param"
			}
			if kind == "" {
				// a slice built by appends
				okAll, cnt := true, 0
				var walk func(v ssa.Value, d int)
				seen := map[ssa.Value]bool{}
				walk = func(v ssa.Value, d int) {
					if seen[v] || d > 6 {
						return
					}
					seen[v] = true
					switch x := v.(type) {
					case *ssa.Phi:
						for _, e := range x.Edges {
							walk(e, d+1)
						}
					case *ssa.MakeSlice:
					case *ssa.Const: // nil slice
					case *ssa.Call:
						if isBuiltin(x, "append") {
							walk(x.Call.Args[0], d+1)
							// appended element(s): a one-element slice of a fresh array
							if sl, isSl := x.Call.Args[1].(*ssa.Slice); isSl {
								if al, isAl := sl.X.(*ssa.Alloc); isAl {
									for _, r := range *al.Referrers() {
										if ia, isIA := r.(*ssa.IndexAddr); isIA {
											for _, r2 := range *ia.Referrers() {
												if st, isSt := r2.(*ssa.Store); isSt {
													cnt++
													if !fromAll(st.Val) {
														okAll = false
													}
												}
											}
										}
									}
									return
								}
							}
							okAll = false
						} else {
							okAll = false
						}
					default:
						okAll = false
					}
				}
				walk(arg, 0)
				c.Check(okAll && cnt > 0, rule, site, call.Pos(), "the slice is built only from objects loaded from the member map", "the objects handed to the tier mutator are not known to be the stored ones")
				return
			}
			if kind == "explicit" {
				okE := len(elems) > 0
				why := ""
				for _, e := range elems {
					if fromAll(e) {
						continue
					}
					// just stored: all[k] = e dominates the call and nothing else writes the member map in between
					justStored := false
					eachInstr(fn, func(_ *ssa.BasicBlock, _ int, x ssa.Instruction) {
						mu, isMU := x.(*ssa.MapUpdate)
						if !isMU || mu.Value != e {
							return
						}
						if f, _ := loadedField(mu.Map); f != all {
							return
						}
						if !instrDominates(x, call) {
							return
						}
						other := findPath(posOf(x), pathQuery{target: func(y ssa.Instruction) bool {
							if y == x {
								return false
							}
							if m2, ok := y.(*ssa.MapUpdate); ok {
								f, _ := loadedField(m2.Map)
								return f == all
							}
							if isBuiltin(y, "delete") {
								f, _ := loadedField(callOf(y).Args[0])
								return f == all
							}
							return false
						}, avoid: func(y ssa.Instruction) bool { return y == ssa.Instruction(call) }})
						if other == nil {
							justStored = true
						}
					})
					if justStored {
						continue
					}
					// (c) identity guard
					guarded := false
					for _, blk := range fn.Blocks {
						for _, x := range blk.Instrs {
							bo, isBo := x.(*ssa.BinOp)
							if !isBo || (bo.Op != token.EQL && bo.Op != token.NEQ) {
								continue
							}
							var other ssa.Value
							if bo.X == e {
								other = bo.Y
							} else if bo.Y == e {
								other = bo.X
							} else {
								continue
							}
							if !fromAll(other) {
								continue
							}
							if condEdge(b, bo, bo.Op == token.EQL) {
								guarded = true
							}
						}
					}
					// (c') the identity test lives in a helper: a call h(.., e, ..) whose result is true only when
					// all[e.Addr] == e, and the tier call is on the true edge of that result
					if !guarded {
						eachInstr(fn, func(_ *ssa.BasicBlock, _ int, x ssa.Instruction) {
							hc, isCall := x.(*ssa.Call)
							if !isCall || guarded {
								return
							}
							h := calleeFn(hc.Common())
							if h == nil || !isModFn(h) || h.Blocks == nil {
								return
							}
							idx := -1
							for i, a := range hc.Call.Args {
								if a == e {
									idx = i
								}
							}
							if idx < 0 || idx >= len(h.Params) || !condEdge(b, hc, true) {
								return
							}
							prm := h.Params[idx]
							isIdent := func(v ssa.Value, want token.Token) bool {
								bo, ok := v.(*ssa.BinOp)
								if !ok || bo.Op != want {
									return false
								}
								return (bo.X == ssa.Value(prm) && fromAll(bo.Y)) || (bo.Y == ssa.Value(prm) && fromAll(bo.X))
							}
							var trueImplies func(v ssa.Value, d int) bool
							trueImplies = func(v ssa.Value, d int) bool {
								if d > 4 {
									return false
								}
								switch y := v.(type) {
								case *ssa.Const:
									return y.Value != nil && y.Value.String() == "false"
								case *ssa.BinOp:
									return isIdent(y, token.EQL)
								case *ssa.Phi:
									for _, ed := range y.Edges {
										if !trueImplies(ed, d+1) {
											return false
										}
									}
									return true
								case *ssa.UnOp:
									if y.Op == token.NOT {
										// !x is true only if x is false: x false must imply identity
										switch z := y.X.(type) {
										case *ssa.BinOp:
											return isIdent(z, token.NEQ)
										case *ssa.Phi:
											for _, ed := range z.Edges {
												if c2, isC := ed.(*ssa.Const); isC && c2.Value != nil && c2.Value.String() == "true" {
													continue
												}
												if bo, isB := ed.(*ssa.BinOp); isB && isIdent(bo, token.NEQ) {
													continue
												}
												return false
											}
											return true
										}
									}
								}
								return false
							}
							all := true
							nret := 0
							eachInstr(h, func(_ *ssa.BasicBlock, _ int, y ssa.Instruction) {
								if r, ok := y.(*ssa.Return); ok && len(r.Results) == 1 {
									nret++
									if !trueImplies(returnedValues(r)[0], 0) {
										all = false
									}
								}
							})
							if all && nret > 0 {
								guarded = true
							}
						})
					}
					if !guarded {
						okE = false
						why = "the object comes from the caller and only its address is looked up, not its identity"
					}
				}
				c.Check(okE, rule, site, call.Pos(), "the object is the stored one (loaded from the member map, or compared with it)", why+": a health result or re-add for a stale object of a replaced address puts that stale object into the tier (selectable, but never notified of removal) or purges the current object's entry")
				return
			}
			// kind == param: the same slice is ranged over and each element stored into the member map on every path
			prm := arg.(*ssa.Parameter)
			var ld *ssa.UnOp
			var upd ssa.Instruction
			eachInstr(fn, func(_ *ssa.BasicBlock, _ int, x ssa.Instruction) {
				mu, isMU := x.(*ssa.MapUpdate)
				if !isMU {
					return
				}
				if f, _ := loadedField(mu.Map); f != all {
					return
				}
				if l, isL := mu.Value.(*ssa.UnOp); isL && l.Op == token.MUL {
					if ia, isIA := l.X.(*ssa.IndexAddr); isIA && ia.X == ssa.Value(prm) {
						ld, upd = l, x
					}
				}
			})
			if ld == nil {
				// a forwarding wrapper (Add -> add): the obligation is checked at the callee
				if g2 := fn; mutators[g2] || true {
					fwd := false
					for _, prm2 := range fn.Params {
						if prm2 == prm {
							fwd = true
						}
					}
					if fwd && p.paramOnlyForwarded(fn, prm, mutators) {
						c.OK(rule, site, call.Pos(), "forwards its own parameter; checked at its callers")
						return
					}
				}
				c.Fail(rule, site, call.Pos(), "the elements of the slice handed to the tier mutator are not stored into the member map by this function: the tiers can hold objects the member map does not know")
				return
			}
			// a later element of the same batch may overwrite the entry before the batch is handed to the tier
			if again := findPath(posOf(upd), pathQuery{target: func(x ssa.Instruction) bool { return x == upd }, avoid: func(x ssa.Instruction) bool { return x == ssa.Instruction(call) }}); again != nil {
				c.Fail(rule, site, call.Pos(), "the whole batch is handed to the tier after the loop that stores it into the member map: when one batch names an address twice (e.g. with two types) the earlier object is overwritten in the member map but still inserted into its tier - reported as usable although it is not a member")
				return
			}
			path := findPath(posOf(ld), pathQuery{target: func(x ssa.Instruction) bool { return x == ssa.Instruction(call) }, avoid: func(x ssa.Instruction) bool { return x == upd }})
			c.Check(path == nil, rule, site, call.Pos(), "every element of the slice is stored into the member map before the slice is handed to the tier", "an element can skip the store into the member map and still be handed to the tier ("+p.pathString(path)+"): the tier then holds an object that is not the set's entry for that address - selectable, but the monitor and removal act on the stored one")
		})
	}
	// roles: the add path, the remove path and the health-change path each hand objects to a tier mutator
	c.Expect(rule, 3)
}

// paramOnlyForwarded: fn is itself a tier mutator wrapper whose slice parameter is only passed on.
func (p *Prog) paramOnlyForwarded(fn *ssa.Function, prm *ssa.Parameter, mutators map[*ssa.Function]bool) bool {
	return mutators[fn]
}

// checkSnapshotImmutable (C15.R9, C18.R5): Healthy() hands out the cached slice itself, shared by every reader (the
// balancers, the SCAN node order, the slot refresh). Nobody may write its elements - in place sorting or shuffling by
// one reader reorders what every other reader sees. Every store into a []*Host element is traced back to where the
// slice came from (through locals, captured variables and module functions that return the snapshot).
func checkSnapshotImmutable(c *Ctx, rule string) {
	healthy := c.P.Func(hostPkg, "(*Set).Healthy")
	if healthy == nil {
		c.Unresolved(rule, "(*Set).Healthy")
		return
	}
	checkSharedListImmutable(c, rule, healthy, "host.Host")
}

// checkSharedListImmutable: the slice that src returns is shared by all its readers (a published cache); no reader
// sorts it in place, stores into its elements or uses a sub-slice of it as the destination of append/copy.
func checkSharedListImmutable(c *Ctx, rule string, healthy *ssa.Function, elemSuffix string) {
	p := c.P
	what := "the slice returned by " + fnKey(healthy) + " is shared by all its readers; "
	// module functions that return the snapshot unchanged
	returnsSnap := map[*ssa.Function]bool{healthy: true}
	for changed := true; changed; {
		changed = false
		for _, fn := range p.SrcFns {
			if returnsSnap[fn] || p.isTestFn(fn) || !isModFn(fn) {
				continue
			}
			eachInstr(fn, func(_ *ssa.BasicBlock, _ int, in ssa.Instruction) {
				r, ok := in.(*ssa.Return)
				if !ok || len(r.Results) != 1 {
					return
				}
				if call, ok := returnedValues(r)[0].(*ssa.Call); ok {
					for _, g := range p.callees(call) {
						if returnsSnap[g] && !returnsSnap[fn] {
							returnsSnap[fn] = true
							changed = true
						}
					}
				}
			})
		}
	}
	var fromSnap func(v ssa.Value, d int) bool
	fromSnap = func(v ssa.Value, d int) bool {
		if d > 8 {
			return false
		}
		switch x := v.(type) {
		case *ssa.Call:
			for _, g := range p.callees(x) {
				if returnsSnap[g] {
					return true
				}
			}
		case *ssa.Slice:
			return fromSnap(x.X, d+1)
		case *ssa.Phi:
			for _, e := range x.Edges {
				if fromSnap(e, d+1) {
					return true
				}
			}
		case *ssa.ChangeType:
			return fromSnap(x.X, d+1)
		case *ssa.Parameter:
			// a helper's slice parameter: the snapshot when some caller passes it
			g := x.Parent()
			idx := paramIndex(g, x)
			for _, ed := range p.callersOf(g) {
				if p.isTestFn(ed.Caller.Func) {
					continue
				}
				args := ed.Site.Common().Args
				k := idx
				if ed.Site.Common().IsInvoke() {
					k = idx - 1 // interface calls carry the receiver apart from the arguments
				}
				if k >= 0 && k < len(args) && fromSnap(args[k], d+1) {
					return true
				}
			}
		case *ssa.UnOp:
			if x.Op != token.MUL {
				return false
			}
			cell := x.X
			if fv, ok := cell.(*ssa.FreeVar); ok {
				fn := fv.Parent()
				for i, q := range fn.FreeVars {
					if q != fv || fn.Parent() == nil {
						continue
					}
					found := false
					eachInstr(fn.Parent(), func(_ *ssa.BasicBlock, _ int, in ssa.Instruction) {
						if mc, ok := in.(*ssa.MakeClosure); ok && mc.Fn == ssa.Value(fn) && i < len(mc.Bindings) {
							cell = mc.Bindings[i]
							found = true
						}
					})
					if !found {
						return false
					}
				}
			}
			if al, ok := cell.(*ssa.Alloc); ok {
				for _, r := range *al.Referrers() {
					if st, ok := r.(*ssa.Store); ok && st.Addr == ssa.Value(al) && fromSnap(st.Val, d+1) {
						return true
					}
				}
			}
		}
		return false
	}
	n, nbad := 0, 0
	for _, fn := range p.SrcFns {
		if p.isTestFn(fn) || !isModFn(fn) {
			continue
		}
		eachInstr(fn, func(_ *ssa.BasicBlock, _ int, in ssa.Instruction) {
			// consumers of the snapshot: one obligation per function that obtains it
			if call, ok := in.(*ssa.Call); ok {
				for _, g := range p.callees(call) {
					if returnsSnap[g] && !returnsSnap[fn] {
						n++
					}
				}
				// handing the snapshot to an in-place sorter / shuffler
				if g := calleeFn(call.Common()); g != nil && g.Pkg != nil && (g.Pkg.Pkg.Path() == "sort" || g.Pkg.Pkg.Path() == "slices") && len(call.Call.Args) > 0 {
					a := call.Call.Args[0]
					if mi, ok := a.(*ssa.MakeInterface); ok {
						a = mi.X
					}
					if cv, ok := a.(*ssa.ChangeType); ok {
						a = cv.X
					}
					if fromSnap(a, 0) {
						nbad++
						c.Fail(rule, fmt.Sprintf("snapshot sorted in place in %s", fnKey(fn)), in.Pos(), what+"it is handed to an in-place sort: every other reader (balancers, SCAN node order) sees the elements move")
					}
				}
			}
			// append(snapshot[:i], ...) and copy(snapshot[i:], ...) write into the snapshot's backing array
			if call, ok := in.(*ssa.Call); ok && (isBuiltin(call, "append") || isBuiltin(call, "copy")) {
				dst := call.Call.Args[0]
				if sl, isSl := dst.(*ssa.Slice); isSl && fromSnap(sl.X, 0) {
					if st2, ok := sl.X.Type().Underlying().(*types.Slice); ok && strings.HasSuffix(types.TypeString(st2.Elem(), nil), elemSuffix) {
						nbad++
						c.Fail(rule, fmt.Sprintf("snapshot overwritten by %s in %s", call.Call.Value.Name(), fnKey(fn)), in.Pos(), what+"a sub-slice of it is the destination of append/copy: the elements behind it are overwritten in the cache every reader shares - a still-healthy host disappears from the candidate list and another one is listed twice until the next rebuild")
					}
				}
			}
			st, ok := in.(*ssa.Store)
			if !ok {
				return
			}
			ia, ok := st.Addr.(*ssa.IndexAddr)
			if !ok {
				return
			}
			if sl, ok := ia.X.Type().Underlying().(*types.Slice); !ok || !strings.HasSuffix(types.TypeString(sl.Elem(), nil), elemSuffix) {
				return
			}
			if fromSnap(ia.X, 0) {
				nbad++
				c.Fail(rule, fmt.Sprintf("element of the snapshot written in %s", fnKey(fn)), in.Pos(), what+"an element of it is overwritten: that slice is the cache shared by all readers, so the order every balancer and the SCAN node index rely on changes under them (a SCAN in progress continues on a different node)")
			}
		})
	}
	if nbad == 0 {
		c.OK(rule, "no writer of the healthy-hosts snapshot", healthy.Pos(), fmt.Sprintf("%d call sites obtain the snapshot, none stores into it or sorts it in place", n))
	}
	if n == 0 {
		c.Unresolved(rule, "no reader of "+fnKey(healthy))
	}
}

// isTierMapValue: v is one of the two healthy-tier maps - loaded from its field, or obtained from a getter that returns
// one of them (healthyTier(typ)).
func isTierMapValue(v ssa.Value, hm, hb *types.Var) bool {
	if f, _ := loadedField(v); f == hm || f == hb {
		return f != nil
	}
	return derivesIP(v, func(y ssa.Value) bool {
		f, _ := loadedField(y)
		return f != nil && (f == hm || f == hb)
	}, 2)
}

// checkMemberDeleteLeavesTiers (C15.R10, C06.R11): whoever deletes an address from the member map must take the stored
// object out of the healthy tiers on every path, whatever the object's health flag says - the flag and the tier
// membership are not updated together (MarkHostUnhealthy flips the flag before it takes the set lock, add inserts
// whatever the flag says), so "it is flagged unhealthy, it has left its tier already" does not hold. Checked as two
// path conditions: from the delete, no return is reachable without a call of a tier purger, and the purger is not
// reachable without passing the stored object on (directly, or appended to the batch the purger is given).
func checkMemberDeleteLeavesTiers(c *Ctx, rule string) {
	p := c.P
	all := p.Field(hostPkg, "Set", "all")
	hm := p.Field(hostPkg, "Set", "healthyMain")
	hb := p.Field(hostPkg, "Set", "healthyBackup")
	if all == nil || hm == nil || hb == nil {
		c.Unresolved(rule, "Set.all/healthyMain/healthyBackup")
		return
	}
	// purgers: functions that delete from a tier map
	purgers := map[*ssa.Function]bool{}
	for _, fn := range p.FuncsIn(hostPkg) {
		if p.isTestFn(fn) {
			continue
		}
		eachInstr(fn, func(_ *ssa.BasicBlock, _ int, in ssa.Instruction) {
			if call, ok := in.(*ssa.Call); ok && isBuiltin(call, "delete") && isTierMapValue(call.Call.Args[0], hm, hb) {
				purgers[fn] = true
			}
		})
	}
	// the value is the object loaded from the member map (not merely something computed from it)
	var fromAll func(v ssa.Value) bool
	fromAll = func(v ssa.Value) bool {
		v = stripConv(resolveCell(stripConv(v)))
		switch x := v.(type) {
		case *ssa.Lookup:
			f, _ := loadedField(x.X)
			return f == all
		case *ssa.Extract:
			if lk, ok := x.Tuple.(*ssa.Lookup); ok && x.Index == 0 {
				f, _ := loadedField(lk.X)
				return f == all
			}
		case *ssa.Phi:
			for _, e := range x.Edges {
				if e == ssa.Value(x) {
					continue
				}
				if _, isPhi := e.(*ssa.Phi); isPhi || !fromAll(e) {
					return false
				}
			}
			return len(x.Edges) > 0
		case *ssa.UnOp:
			if al, ok := x.X.(*ssa.Alloc); ok && x.Op == token.MUL {
				n := 0
				for _, r := range *al.Referrers() {
					if st, ok := r.(*ssa.Store); ok && st.Addr == ssa.Value(al) {
						n++
						if !fromAll(st.Val) {
							return false
						}
					}
				}
				return n > 0
			}
		}
		return false
	}
	// the elements of a variadic / literal slice argument
	sliceElems := func(v ssa.Value) []ssa.Value {
		var out []ssa.Value
		if sl, ok := v.(*ssa.Slice); ok {
			if al, ok := sl.X.(*ssa.Alloc); ok {
				for _, r := range *al.Referrers() {
					if ia, ok := r.(*ssa.IndexAddr); ok {
						for _, r2 := range *ia.Referrers() {
							if st, ok := r2.(*ssa.Store); ok {
								out = append(out, st.Val)
							}
						}
					}
				}
			}
		}
		return out
	}
	n := 0
	for _, fn := range p.FuncsIn(hostPkg) {
		if p.isTestFn(fn) || purgers[fn] {
			continue
		}
		fn := fn
		isPurge := func(in ssa.Instruction) bool {
			cc := callOf(in)
			if cc == nil {
				return false
			}
			if _, isGo := in.(*ssa.Go); isGo {
				return false
			}
			g := calleeFn(cc)
			return g != nil && purgers[g]
		}
		handsOn := func(in ssa.Instruction) bool {
			call, ok := in.(*ssa.Call)
			if !ok {
				return false
			}
			if isBuiltin(call, "append") && len(call.Call.Args) == 2 {
				for _, e := range sliceElems(call.Call.Args[1]) {
					if fromAll(e) {
						return true
					}
				}
			}
			if isPurge(in) {
				for _, a := range call.Call.Args {
					if fromAll(a) {
						return true
					}
					for _, e := range sliceElems(a) {
						if fromAll(e) {
							return true
						}
					}
				}
			}
			return false
		}
		eachInstr(fn, func(b *ssa.BasicBlock, _ int, in ssa.Instruction) {
			call, ok := in.(*ssa.Call)
			if !ok || !isBuiltin(call, "delete") {
				return
			}
			if f, _ := loadedField(call.Call.Args[0]); f != all {
				return
			}
			n++
			site := fmt.Sprintf("%s member delete#%d leaves the tiers", fnKey(fn), n)
			if path := findPath(posOf(in), pathQuery{target: isReturn, avoid: isPurge}); path != nil {
				c.Fail(rule, site, in.Pos(), "after the address is deleted from the member map a return is reachable without purging the healthy tiers ("+p.pathString(path)+"): the removed host stays a candidate")
				return
			}
			if path := findPath(posOf(in), pathQuery{target: func(x ssa.Instruction) bool { return isPurge(x) && !handsOn(x) }, avoid: handsOn}); path != nil {
				c.Fail(rule, site, in.Pos(), "the stored object of a deleted address does not reach the tier purge on every path ("+p.pathString(path)+"): a removed host whose health flag and tier membership disagree (a health result in flight, an object re-added with a stale flag) stays in the candidate list and keeps being handed out by Healthy()")
				return
			}
			c.OK(rule, site, in.Pos(), "every path from the delete hands the stored object to a tier purger before the function returns")
		})
	}
	if n == 0 {
		c.Unresolved(rule, "no delete from Set.all outside the tier purgers")
	}
}

// checkHealthStateNotReplaced (C15.R11): a host's health flag lives in a state object reached through a pointer field of
// the host. The tiers are filled on the assumption that a host that enters the set is flagged healthy (add inserts
// without looking at the flag) and that only the host's own setHealthy/setUnhealthy change the flag. Assigning another
// state object to an existing host imports a foreign flag (and foreign check streaks): the host is in a healthy tier
// while flagged unhealthy, and MarkHostUnhealthy - which acts only on a true->false flip - can never take it out.
// The field is written at construction only.
func checkHealthStateNotReplaced(c *Ctx, rule string) {
	p := c.P
	hostT := p.Named(hostPkg, "Host")
	if hostT == nil {
		c.Unresolved(rule, "host.Host")
		return
	}
	st, _ := hostT.Underlying().(*types.Struct)
	var stateF *types.Var
	for i := 0; st != nil && i < st.NumFields(); i++ {
		f := st.Field(i)
		pt, ok := f.Type().(*types.Pointer)
		if !ok {
			continue
		}
		if inner, ok := pt.Elem().Underlying().(*types.Struct); ok {
			for k := 0; k < inner.NumFields(); k++ {
				if ts := types.TypeString(inner.Field(k).Type(), nil); strings.HasSuffix(ts, "atomic.Bool") {
					stateF = f
				}
			}
		}
	}
	if stateF == nil {
		c.Unresolved(rule, "the field of host.Host that holds the health flag")
		return
	}
	nw, nbad := 0, 0
	for _, a := range p.fieldAccesses(stateF) {
		if !a.Write || p.isTestFn(a.Fn) {
			continue
		}
		nw++
		if isFreshAlloc(a.Base) {
			continue
		}
		nbad++
		c.Fail(rule, fmt.Sprintf("%s write#%d of the health state of an existing host", fnKey(a.Fn), nbad), a.In.Pos(), "the health state object of an existing host is replaced: the host takes over a foreign health flag and check streak while the tiers were (or are about to be) filled on the assumption that an entering host is healthy - a host flagged unhealthy sits in a healthy tier, is handed out by Healthy(), and MarkHostUnhealthy cannot take it out because the flag does not flip")
	}
	if nbad == 0 {
		c.OK(rule, "health state set at construction only", token.NoPos, fmt.Sprintf("%d writes of Host.%s, all on freshly constructed hosts", nw, stateF.Name()))
	}
}

// checkConfigObjectsNotWrittenThrough (C15.R12): configuration messages (the protobuf types under pb/) are shared - one
// object is handed to every monitor of a service, and a monitor with invalid settings points at the package-level
// default. A component replaces the pointer it holds; it never writes through it: `*m.config = *config` changes the
// thresholds of every other monitor that points at the same object, which then flips hosts after fewer (or more)
// contrary results than it was configured with.
func checkConfigObjectsNotWrittenThrough(c *Ctx, rule string) {
	p := c.P
	isPB := func(t types.Type) bool {
		pt, ok := t.Underlying().(*types.Pointer)
		if !ok {
			return false
		}
		n := namedOf(pt.Elem())
		return n != nil && n.Obj().Pkg() != nil && strings.HasPrefix(n.Obj().Pkg().Path(), modPath+"/pb/")
	}
	n, nbad := 0, 0
	for _, rel := range []string{"proc/internal/hc", "proc/tcp", "proc/redis", "proc", "host"} {
		for _, fn := range p.FuncsIn(rel) {
			if p.isTestFn(fn) {
				continue
			}
			eachInstr(fn, func(_ *ssa.BasicBlock, _ int, in ssa.Instruction) {
				st, ok := in.(*ssa.Store)
				if !ok {
					return
				}
				// the address written: the object a configuration pointer field points at, or a field of it
				addr := st.Addr
				if fa, isFA := addr.(*ssa.FieldAddr); isFA {
					addr = fa.X
				}
				ld, isLd := addr.(*ssa.UnOp)
				if !isLd || ld.Op != token.MUL || !isPB(ld.Type()) {
					return
				}
				f, base := fieldAddr(ld.X)
				if f == nil || isFreshAlloc(base) {
					return
				}
				n++
				nbad++
				c.Fail(rule, fmt.Sprintf("%s writes through configuration pointer %s#%d", fnKey(fn), f.Name(), nbad), st.Pos(), "the configuration object that field "+f.Name()+" points at is written in place: the object is shared - the same message is handed to other components, and a component with invalid settings points at the package-level default - so the thresholds of every other monitor pointing at it change as well, and it flips hosts after a different number of contrary results than configured")
			})
		}
	}
	if nbad == 0 {
		c.OK(rule, "no store through a configuration pointer", token.NoPos, "components replace the configuration pointer they hold")
	}
}
