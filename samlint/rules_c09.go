package main

import (
	"fmt"
	"go/token"
	"go/types"
	"sort"
	"strings"

	"golang.org/x/tools/go/ssa"
)

func init() {
	register(&propDef{
		id: "C09",
		li: levelInfo{
			Level:       "other",
			Explanation: "Static lifecycle rules. R1: for every component whose Stop/Close blocks on a done latch, the function that closes the latch closes it on every return path. R2: inside the goroutines of listener, session, backend connection, upstream and the two procs every blocking channel operation is guarded (select with a quit latch), a join on a lifecycle latch, or bounded by a timer. R3 (lockset analysis): listener.conns and listener.ln are accessed only under listener.mu, or before the object is shared, or (ln, written once) in code that runs only after the write; the assignment of ln is followed by a re-test of quit/drain that closes the socket. R4: nothing reachable from Drain touches the registry or the quit latch. R5: limit test and insertion are in one critical section and the admission predicate is right over the orderings of len vs limit. R6: Stop closes the listener and every connection of the snapshot taken under the lock, marks the registry stopped in the same critical section, then joins. R7: no lock -> latch wait-for cycle: at every call that joins a lifecycle latch, no lock of the must-hold lockset is acquired anywhere in the code the joined goroutines run before the latch closes (a quit test in front of such an acquisition is not accepted: test-then-lock is not atomic). R4 also requires that Drain closes the drain latch whether or not the port is bound (shared with C17.R6). Wall-clock bounds and goroutine counts are not decided. R8: every quit latch that guards blocking operations has a closer that does not itself wait on it, is called from outside the component and not only on its creation path. The publication of the socket may sit in a helper that performs it on every path: everything dominated by its single call site counts as after the write. R9 (stop order): at every join of a component lifecycle latch, each blocking select of the goroutines the join waits for (the closer's own code and the goroutines it waits for through a WaitGroup) watches a latch that is closed by then - by the stop function before the join, by a component it has already stopped and joined, or by the joined call itself - or a timer; a select that offers a data channel and watches only a latch closed later in the stop sequence is reported. This is a sufficient condition: a design that relies on the data channel making progress instead of a latch is reported too. R10: the terminal sweep of the backend connections ranges over a snapshot read under the table mutex (E-lock), and a single address is deleted from the connection table only by the goroutine that ran that connection. R11: the drain latch is read by the binding and accepting code only, never per accepted connection. R12 (shared with C05.R7): no goroutine started in a loop captures the loop variable. R13: a component field (Start/Stop) of a component is overwritten only when nil or after the old value was stopped. R9 follows goroutines the closer waits for and counts what the closer closes before its Wait. R10 also: (c) when a connection's goroutines can reach the Send of the connection type, the terminal sweep asks every connection of the snapshot to quit before it waits for the first; (d) a connection is registered only on the miss side of a comma-ok lookup of the same address under the table mutex. R14: the goroutine a Start method runs for its listener calls Serve on every path. R6 also: every path of listener.Stop from the stopped mark reaches the join; the backend connection's Stop closes the socket itself on every path to its wait.",
			TrustedBase: []string{"go/ssa", "VTA call graph", "samlint elock.go, echan.go, zone.go"},
		},
		run: checkC09,
	})
	techniques["C09"] = "static analysis: must-pass-through on the SSA CFG (latch closed on every return), blocking-operation classification, must-hold lockset dataflow, lock->latch wait-for cycle detection, zone-domain decision tree for the connection limit"
}

const procPkg = "proc"

// doneLatchFields: struct fields named done/quit of type chan struct{} in module packages.
func latchFields(p *Prog, name string) []*types.Var {
	var out []*types.Var
	for _, pk := range p.Pkgs {
		if pk.Types == nil {
			continue
		}
		sc := pk.Types.Scope()
		for _, n := range sc.Names() {
			tn, ok := sc.Lookup(n).(*types.TypeName)
			if !ok {
				continue
			}
			st, ok := tn.Type().Underlying().(*types.Struct)
			if !ok {
				continue
			}
			for i := 0; i < st.NumFields(); i++ {
				f := st.Field(i)
				if f.Name() != name {
					continue
				}
				if ch, ok := f.Type().Underlying().(*types.Chan); ok {
					if s, ok := ch.Elem().Underlying().(*types.Struct); ok && s.NumFields() == 0 {
						out = append(out, f)
					}
				}
			}
		}
	}
	sort.Slice(out, func(i, j int) bool { return out[i].Pkg().Path()+out[i].Name() < out[j].Pkg().Path()+out[j].Name() })
	return out
}

func ownerOf(p *Prog, f *types.Var) string {
	for _, pk := range p.Pkgs {
		if pk.Types == nil || pk.Types != f.Pkg() {
			continue
		}
		sc := pk.Types.Scope()
		for _, n := range sc.Names() {
			if tn, ok := sc.Lookup(n).(*types.TypeName); ok {
				if st, ok := tn.Type().Underlying().(*types.Struct); ok {
					for i := 0; i < st.NumFields(); i++ {
						if st.Field(i) == f {
							return relPkg(pk.PkgPath) + "." + n
						}
					}
				}
			}
		}
	}
	return "?"
}

func checkC09(c *Ctx) {
	p := c.P
	c.Rule("R1", "done latch is closed on every return path of the function that closes it")
	c.Rule("R2", "blocking channel operations in the service goroutines are guarded, joins or bounded")
	c.Rule("R3", "listener.conns / listener.ln lock discipline; re-test of quit/drain after the socket is published")
	c.Rule("R4", "drain is narrow: nothing reachable from Drain touches the connection registry or the quit latch")
	c.Rule("R5", "connection limit: test and insertion in one critical section; admitted iff limit==0 or len<limit")
	c.Rule("R6", "stop is wide: closes listener and every registered connection (snapshot + stopped mark in one critical section), then joins")
	c.Rule("R7", "no lock->latch wait-for cycle between Stop paths and the goroutines they join")
	c.Rule("R8", "every quit latch that guards blocking operations can be closed by a function that does not itself wait on it and is called from outside the component")

	ce := newChanEngine(p)

	// ---------------- R1
	doneFields := latchFields(p, "done")
	joinOK := map[*types.Var]bool{}
	nR1 := 0
	for _, f := range doneFields {
		owner := ownerOf(p, f)
		if strings.HasSuffix(owner, "simpleRequest") || strings.HasSuffix(owner, "rawRequest") {
			continue // request completion latches: C02
		}
		ops := p.chanOpsOnField(f)
		var closers []chanOp
		waited := false
		for _, op := range ops {
			if op.Kind == opClose {
				closers = append(closers, op)
			}
			if op.Kind == opRecv {
				waited = true
			}
		}
		if !waited {
			continue
		}
		if len(closers) == 0 {
			c.Fail("R1", owner+".done has a closer", f.Pos(), "something waits on this latch but nothing closes it")
			continue
		}
		allOK := true
		for _, cl := range closers {
			nR1++
			fn := cl.Fn
			site := fmt.Sprintf("%s.done closed on every return of %s", owner, fnKey(fn))
			isClose := func(in ssa.Instruction) bool {
				if !isBuiltin(in, "close") {
					return false
				}
				g, _ := chanFieldOf(callOf(in).Args[0])
				return g == f
			}
			// a latch created together with its owner in the closing function is a one-shot result
			// latch (singleflight), not a lifecycle latch
			ownerHere := false
			eachInstr(topFn(fn), func(_ *ssa.BasicBlock, _ int, in ssa.Instruction) {
				if al, ok := in.(*ssa.Alloc); ok && al.Heap {
					if st, ok := deref(al.Type()).Underlying().(*types.Struct); ok {
						for i := 0; i < st.NumFields(); i++ {
							if st.Field(i) == f {
								ownerHere = true
							}
						}
					}
				}
			})
			if ownerHere && fn.Parent() == nil && strings.HasSuffix(owner, "createClientCall") {
				nR1--
				continue
			}
			ok, path := p.mustOnAllPaths(fn, isClose, 2)
			if !ok && fn.Parent() != nil {
				// close inside a closure that the parent invokes (once.Do(func(){close}), defer func(){close}()):
				// judge the parent through the closure
				par := fn.Parent()
				ok, path = p.mustOnAllPaths(par, func(in ssa.Instruction) bool {
					if isClose(in) {
						return true
					}
					if cc := callOf(in); cc != nil {
						if _, isGo := in.(*ssa.Go); isGo {
							return false
						}
						if g := funcValue(cc.Value); g != nil && g == fn {
							return true
						}
						for _, a := range cc.Args {
							if g := funcValue(a); g != nil && g == fn {
								return true
							}
						}
					}
					return false
				}, 2)
				site = fmt.Sprintf("%s.done closed on every return of %s", owner, fnKey(par))
			}
			if ok {
				c.OK("R1", site, cl.In.Pos(), "every path from entry to return crosses the close (deferred closes count where they are pushed)")
			} else {
				allOK = false
				c.Fail("R1", site, cl.In.Pos(), "a return path skips close(done): whoever waits on the latch (Stop/Close) blocks for ever - path "+p.pathString(path))
			}
		}
		if allOK {
			joinOK[f] = true
		}
	}
	c.Expect("R1", 5)

	// ---------------- R2
	scope := []string{"proc", "proc/redis", "proc/tcp"}
	// join latches: lifecycle done latches with a sound closer, plus the singleflight latch
	joins := map[*types.Var]bool{}
	for f := range joinOK {
		joins[f] = true
	}
	// a latch whose every close site is reached on all paths of its function after a bounded call is a join too
	if f := p.Field(redisPkg, "createClientCall", "done"); f != nil {
		joins[f] = true
	}
	// latches of components whose closer is broken are still classified as join here; R1 carries the finding
	for _, f := range doneFields {
		o := ownerOf(p, f)
		if !strings.HasSuffix(o, "simpleRequest") && !strings.HasSuffix(o, "rawRequest") {
			joins[f] = true
		}
	}
	nops := 0
	for _, rel := range scope {
		for _, fn := range p.FuncsIn(rel) {
			if p.isTestFn(fn) {
				continue
			}
			for _, op := range ce.classify(fn, joins) {
				nops++
				site := fmt.Sprintf("%s %s", fnKey(fn), op.What)
				if op.Class == bcUnguarded {
					// trivially inlined wrappers (Wait() = <-r.done) are reported at their call sites instead
					if fn.Name() == "Wait" && fn.Signature.Recv() != nil && isReqType(fn.Signature.Recv().Type()) {
						continue
					}
					c.Fail("R2", site, op.In.Pos(), "unbounded blocking operation in a service goroutine: "+op.Why+"; a silent peer keeps this goroutine - and every Stop/Close that joins it - for ever")
				} else {
					c.OK("R2", site, op.In.Pos(), op.Class.String())
				}
			}
			// calls of request.Wait(): a bare wait on a request's completion
			eachInstr(fn, func(_ *ssa.BasicBlock, _ int, in ssa.Instruction) {
				cc := callOf(in)
				if cc == nil {
					return
				}
				g := calleeFn(cc)
				if g == nil || g.Name() != "Wait" || g.Signature.Recv() == nil || !isReqType(g.Signature.Recv().Type()) {
					return
				}
				nops++
				c.Fail("R2", fmt.Sprintf("%s bare wait on a request", fnKey(fn)), in.Pos(), "waits for a request's completion with no quit case: a backend that never answers keeps this goroutine, its session/refresh loop and Stop for ever")
			})
		}
	}
	c.Note("blocking operations classified: %d", nops)
	c.Expect("R2", 15)

	// ---------------- R3..R6 listener
	checkListener(c, ce)

	// ---------------- R7
	checkWaitForCycles(c)
	checkQuitHasExternalCloser(c, "R8")
	c.Rule("R9", "stop order: at every join of a stop function, each blocking select the joined goroutines can be parked in watches a latch that is closed by then - not one that the stop function closes only after the join")
	checkJoinBeforeRelease(c, "R9")
	c.Rule("R10", "connection table discipline: the terminal sweep ranges over a snapshot read under the table mutex; one address is deleted from the table only by the goroutine that ran the connection registered under it")
	checkClientTableDiscipline(c, "R10")
	c.Rule("R11", "draining keeps established connections: the drain latch is read by the binding and accepting code only, never by code that runs per accepted connection")
	checkDrainKeepsAccepted(c, "R11")
	c.Rule("R12", "a goroutine started in a loop gets that iteration's values (shared with C05.R7): stopping the components of a table concurrently must not capture the loop variable - all goroutines would stop the last one and the others would never be stopped")
	checkLoopGoroutineCapture(c, "R12")
	c.Rule("R14", "the goroutine a processor starts for its listener calls Serve on every path (Listener.Stop waits for the latch only Serve closes)")
	checkStartAlwaysServes(c, "R14")
	c.Rule("R13", "a field that holds a running component (Start/Stop) is overwritten only when it is nil or after the old component was stopped")
	checkComponentFieldNotOrphaned(c, "R13")
}

func checkListener(c *Ctx, ce *chanEngine) {
	p := c.P
	mu := p.Field(procPkg, "listener", "mu")
	conns := p.Field(procPkg, "listener", "conns")
	ln := p.Field(procPkg, "listener", "ln")
	quit := p.Field(procPkg, "listener", "quit")
	drain := p.Field(procPkg, "listener", "drain")
	done := p.Field(procPkg, "listener", "done")
	if mu == nil || conns == nil || ln == nil || quit == nil || drain == nil || done == nil {
		c.Unresolved("R3", "listener.mu/conns/ln/quit/drain/done")
		return
	}
	le := newLockEngine(p, "proc")
	le.checkGuarded(c, "R3", "listener", conns, mu, nil)

	// ln: written once under the lock; reads hold the lock or run only after the write
	var writes []fieldAccess
	for _, a := range p.fieldAccesses(ln) {
		if a.Write && !isFreshAlloc(a.Base) {
			writes = append(writes, a)
		}
	}
	if len(writes) != 1 {
		c.Undecided("R3", "listener.ln written once", ln.Pos(), fmt.Sprintf("%d writes of listener.ln", len(writes)))
	} else {
		w := writes[0]
		held := le.heldAt(w.In)
		c.Check(held[mu] == lockWrite, "R3", "listener.ln write in "+fnKey(w.Fn), w.In.Pos(), "published under listener.mu", "listener.ln is published without listener.mu: a concurrent Stop/Drain can read nil (or a torn value) and leave the socket open for ever")
		// after-write functions
		after := afterWriteFns(p, w.Fn, w.In)
		for _, a := range p.fieldAccesses(ln) {
			if a.Write || isFreshAlloc(a.Base) {
				continue
			}
			if _, isFA := a.In.(*ssa.FieldAddr); isFA {
				continue
			}
			site := "listener.ln read in " + fnKey(a.Fn)
			switch {
			case le.heldAt(a.In)[mu] >= lockRead:
				c.OK("R3", site, a.In.Pos(), "under listener.mu")
			case a.Fn == w.Fn && instrDominates(w.In, a.In):
				c.OK("R3", site, a.In.Pos(), "same goroutine, after the write")
			case func() bool { wp, ok := writePoints(p, w.Fn, w.In)[a.Fn]; return ok && instrDominates(wp, a.In) }():
				c.OK("R3", site, a.In.Pos(), "same goroutine, after the call that performs the write")
			case after[a.Fn]:
				c.OK("R3", site, a.In.Pos(), "runs only after the write (called/spawned from code dominated by it)")
			default:
				c.Fail("R3", site, a.In.Pos(), "listener.ln is read without listener.mu in code that can run concurrently with its assignment (an immediate Stop/Drain sees nil and misses the socket)")
			}
		}
		// re-test after publish
		var sel *ssa.Select
		eachInstr(w.Fn, func(_ *ssa.BasicBlock, _ int, in ssa.Instruction) {
			s, ok := in.(*ssa.Select)
			if !ok || s.Blocking || !instrDominates(w.In, in) {
				return
			}
			hasQ, hasD := false, false
			for _, st := range s.States {
				if f, _ := chanFieldOf(st.Chan); f == quit {
					hasQ = true
				} else if f == drain {
					hasD = true
				}
			}
			if hasQ && hasD {
				sel = s
			}
		})
		okRetest := sel != nil
		if okRetest {
			for k, st := range sel.States {
				f, _ := chanFieldOf(st.Chan)
				if f != quit && f != drain {
					continue
				}
				cb := selectCaseBlock(sel, k)
				closes := false
				if cb != nil {
					for _, in := range cb.Instrs {
						if cc := callOf(in); cc != nil && cc.IsInvoke() && cc.Method.Name() == "Close" {
							closes = true
						}
					}
				}
				if !closes {
					okRetest = false
				}
			}
		}
		// the re-test may be a predicate helper: `if l.interrupted() { ln.Close() }` where the helper is a non-blocking
		// select that returns true on quit and on drain and false otherwise
		if !okRetest {
			eachInstr(w.Fn, func(_ *ssa.BasicBlock, _ int, in ssa.Instruction) {
				call, ok := in.(*ssa.Call)
				if !ok || !instrDominates(w.In, in) || okRetest {
					return
				}
				g := calleeFn(call.Common())
				if g == nil || !isModFn(g) || g.Blocks == nil {
					return
				}
				good := false
				eachInstr(g, func(_ *ssa.BasicBlock, _ int, x ssa.Instruction) {
					s2, ok := x.(*ssa.Select)
					if !ok || s2.Blocking {
						return
					}
					hasQ, hasD, allTrue := false, false, true
					for k, st := range s2.States {
						f, _ := chanFieldOf(st.Chan)
						if f != quit && f != drain {
							continue
						}
						if f == quit {
							hasQ = true
						} else {
							hasD = true
						}
						cb := selectCaseBlock(s2, k)
						retTrue := false
						if cb != nil {
							if r, ok := cb.Instrs[len(cb.Instrs)-1].(*ssa.Return); ok && len(r.Results) == 1 {
								if cv, ok := returnedValues(r)[0].(*ssa.Const); ok && cv.Value != nil && cv.Value.String() == "true" {
									retTrue = true
								}
							}
						}
						if !retTrue {
							allTrue = false
						}
					}
					if hasQ && hasD && allTrue {
						good = true
					}
				})
				if !good {
					return
				}
				// the true edge of the call closes the socket
				for _, r := range *call.Referrers() {
					iff, ok := r.(*ssa.If)
					if !ok {
						continue
					}
					tb := iff.Block().Succs[0]
					for _, x := range tb.Instrs {
						if cc := callOf(x); cc != nil && cc.IsInvoke() && cc.Method.Name() == "Close" {
							okRetest = true
						}
					}
				}
			})
		}
		c.Check(okRetest, "R3", "re-test of quit/drain after publishing the socket", w.In.Pos(), "non-blocking select on quit and drain after the assignment closes the socket", "after listener.ln is assigned nothing re-tests quit/drain: a Stop or Drain that ran while binding saw nil, closed nothing, and the accept loop then runs for ever (Stop hangs, port stays open)")
	}

	// ---------------- R4
	drainFn := p.Func(procPkg, "(*listener).Drain")
	if drainFn == nil {
		c.Unresolved("R4", "(*listener).Drain")
	} else {
		reach := p.reachable([]*ssa.Function{drainFn}, nil)
		bad := ""
		for fn := range reach {
			if !isModFn(fn) {
				continue
			}
			eachInstr(fn, func(_ *ssa.BasicBlock, _ int, in ssa.Instruction) {
				if isBuiltin(in, "close") {
					if f, _ := chanFieldOf(callOf(in).Args[0]); f == quit {
						bad = "closes listener.quit in " + fnKey(fn)
					}
				}
				if fa, ok := in.(*ssa.FieldAddr); ok {
					if f, _ := fieldAddr(fa); f == conns {
						bad = "touches listener.conns in " + fnKey(fn)
					}
				}
			})
		}
		c.Check(bad == "", "R4", "Drain reach", drainFn.Pos(), fmt.Sprintf("%d functions reachable, none touches the registry or quit", len(reach)), "draining "+bad+": established connections are no longer left untouched")
		// Drain closes the drain latch and the listener
		closesDrain := len(p.closeSitesIn(drainFn, drain)) > 0
		closesLn := false
		eachInstr(drainFn, func(_ *ssa.BasicBlock, _ int, in ssa.Instruction) {
			if cc := callOf(in); cc != nil && cc.IsInvoke() && cc.Method.Name() == "Close" && derivesIP(cc.Value, func(v ssa.Value) bool { f, _ := fieldAddr(v); return f == ln }, 2) {
				closesLn = true
			}
		})
		c.Check(closesDrain && closesLn, "R4", "Drain stops accepting", drainFn.Pos(), "closes the drain latch and the listening socket", "Drain does not close both the drain latch and the listening socket")
		checkDrainLatch(c, "R4")
	}

	// ---------------- R5
	add := p.Func(procPkg, "(*listener).addConn")
	lim := p.Func(procPkg, "(*listener).connsLimit")
	if add == nil || lim == nil {
		c.Unresolved("R5", "(*listener).addConn / connsLimit")
	} else {
		var ins *ssa.MapUpdate
		var limCall *ssa.Call
		eachInstr(add, func(_ *ssa.BasicBlock, _ int, in ssa.Instruction) {
			if mu2, ok := in.(*ssa.MapUpdate); ok {
				if f, _ := loadedField(mu2.Map); f == conns {
					ins = mu2
				}
			}
			if call, ok := in.(*ssa.Call); ok && isCallToFn(call, lim) {
				limCall = call
			}
		})
		if ins == nil || limCall == nil {
			c.Fail("R5", "limit test and insertion in "+fnKey(add), add.Pos(), "the function that registers a connection does not both test the limit and insert")
		} else {
			c.Check(le.heldAt(ins)[mu] == lockWrite && le.heldAt(limCall)[mu] == lockWrite, "R5", "one critical section", ins.Pos(), "limit test and insertion both under listener.mu with no unlock in between", "limit test and insertion are not in one critical section: two concurrent accepts can both pass the test")
			c.Check(condEdge(ins.Block(), limCall, false), "R5", "insertion only under the limit", ins.Pos(), "insertion dominated by connsLimit()==false", "a connection is registered although the limit test failed (or without testing)")
			// nil registry (stopped) check dominates too
			okStopped := false
			for _, d := range add.Blocks {
				if iff, ok := d.Instrs[len(d.Instrs)-1].(*ssa.If); ok {
					if bo, ok := iff.Cond.(*ssa.BinOp); ok && isNilConst(bo.Y) {
						if f, _ := loadedField(bo.X); f == conns {
							k := 1
							if bo.Op == token.NEQ {
								k = 0
							}
							if s := d.Succs[k]; len(s.Preds) == 1 && (s == ins.Block() || s.Dominates(ins.Block())) {
								okStopped = true
							}
						}
					}
				}
			}
			c.Check(okStopped, "R6", "registration refused after Stop", ins.Pos(), "insertion dominated by conns != nil", "a connection accepted while Stop runs can still be registered; nothing will ever close it and Stop waits for it for ever")
		}
		// admission predicate over orderings
		checkLimitPredicate(c, lim, conns)
	}

	// ---------------- R6
	stop := p.Func(procPkg, "(*listener).Stop")
	if stop == nil {
		c.Unresolved("R6", "(*listener).Stop")
		return
	}
	var snap ssa.Value
	var nilStore *ssa.Store
	var rangeClose, lnClose, join, quitClose bool
	quitClose = len(p.closeSitesIn(stop, quit)) > 0
	// the snapshot may be taken by a helper (`ln, conns := l.detach()`): it loads the registry and sets it to nil under
	// the mutex and returns what it loaded
	var lnFromHelper ssa.Value
	var markAt ssa.Instruction
	eachInstr(stop, func(_ *ssa.BasicBlock, _ int, in ssa.Instruction) {
		call, ok := in.(*ssa.Call)
		if !ok || snap != nil {
			return
		}
		g := call.Call.StaticCallee()
		if g == nil || g.Blocks == nil || g.Pkg != stop.Pkg || g.Parent() != nil || g == stop {
			return
		}
		var gsnap ssa.Value
		var gnil *ssa.Store
		eachInstr(g, func(_ *ssa.BasicBlock, _ int, y ssa.Instruction) {
			switch x := y.(type) {
			case *ssa.UnOp:
				if x.Op == token.MUL {
					if f, _ := fieldAddr(x.X); f == conns && le.heldAt(y)[mu] == lockWrite {
						gsnap = x
					}
				}
			case *ssa.Store:
				if f, _ := fieldAddr(x.Addr); f == conns && isNilConst(x.Val) && le.heldAt(y)[mu] == lockWrite {
					gnil = x
				}
			}
		})
		if gsnap == nil || gnil == nil {
			return
		}
		ci, li := -1, -1
		eachInstr(g, func(_ *ssa.BasicBlock, _ int, y ssa.Instruction) {
			if r, ok := y.(*ssa.Return); ok {
				for i, v := range returnedValues(r) {
					if v == gsnap {
						ci = i
					}
					if derives(v, func(w ssa.Value) bool { f, _ := fieldAddr(w); return f == ln }) {
						li = i
					}
				}
			}
		})
		for _, r := range *call.Referrers() {
			if ex, ok := r.(*ssa.Extract); ok {
				if ex.Index == ci {
					snap = ex
				}
				if ex.Index == li {
					lnFromHelper = ex
				}
			}
		}
		if ci == 0 && call.Call.Signature().Results().Len() == 1 {
			snap = call
		}
		if snap != nil {
			nilStore = gnil
			markAt = in
		}
	})
	eachInstr(stop, func(_ *ssa.BasicBlock, _ int, in ssa.Instruction) {
		switch x := in.(type) {
		case *ssa.UnOp:
			if x.Op == token.MUL {
				if f, _ := fieldAddr(x.X); f == conns && le.heldAt(in)[mu] == lockWrite {
					snap = x
				}
			}
			if x.Op == token.ARROW {
				if f, _ := chanFieldOf(x.X); f == done {
					join = true
				}
			}
		case *ssa.Store:
			if f, _ := fieldAddr(x.Addr); f == conns && isNilConst(x.Val) && le.heldAt(in)[mu] == lockWrite {
				nilStore = x
			}
		case *ssa.Call:
			if x.Call.IsInvoke() && x.Call.Method.Name() == "Close" {
				if derives(x.Call.Value, func(v ssa.Value) bool {
					f, _ := fieldAddr(v)
					return f == ln || (lnFromHelper != nil && v == lnFromHelper)
				}) {
					lnClose = true
				}
				// key of a range over the snapshot
				if derives(x.Call.Value, func(v ssa.Value) bool {
					if r, ok := v.(*ssa.Range); ok && snap != nil && r.X == snap {
						return true
					}
					if nx, ok := v.(*ssa.Next); ok {
						if r, ok := nx.Iter.(*ssa.Range); ok && snap != nil && r.X == snap {
							return true
						}
					}
					return false
				}) {
					rangeClose = true
				}
			}
		}
	})
	c.Check(quitClose, "R6", "Stop closes quit", stop.Pos(), "quit latch closed (once)", "Stop does not close the quit latch")
	c.Check(snap != nil && nilStore != nil, "R6", "snapshot and stopped mark in one critical section", stop.Pos(), "registry loaded and set to nil under listener.mu", "Stop does not take the registry snapshot and mark it stopped (nil) under the lock: a connection registered during Stop is never closed")
	c.Check(rangeClose, "R6", "Stop closes every registered connection", stop.Pos(), "range over the snapshot calling Close", "Stop does not close every connection of its snapshot")
	c.Check(lnClose, "R6", "Stop closes the listening socket", stop.Pos(), "listener closed", "Stop does not close the listening socket")
	c.Check(join, "R6", "Stop joins the serving goroutine", stop.Pos(), "receive on done", "Stop does not wait for the serving goroutine")
	// ... on every path: once the registry has been taken (and set to nil) nobody else will ever close those connections,
	// so no return - an error of closing the already drained listening socket, say - may come before the connections
	// are closed and the serving goroutine is joined
	if nilStore != nil && join {
		isJoin := func(x ssa.Instruction) bool {
			u, ok := x.(*ssa.UnOp)
			if !ok || u.Op != token.ARROW {
				return false
			}
			f, _ := chanFieldOf(u.X)
			return f == done
		}
		from := posOf(nilStore)
		if markAt != nil {
			from = posOf(markAt)
		}
		early := findPath(from, pathQuery{target: isReturn, avoid: isJoin})
		c.Check(early == nil, "R6", "Stop closes the connections and joins on every path", nilStore.Pos(), "every path from the stopped mark reaches the join", "a path returns from Stop after the registry was taken but before the connections are closed and the serving goroutine is joined ("+p.pathString(early)+"): after a Drain the second close of the listening socket fails, Stop returns that error, the established connections are never closed (the registry is already nil) and their handlers keep running")
	}
	// the backend connection of the Redis upstream: Stop closes the socket itself, unconditionally - a close that
	// only happens inside the once of the quit latch is skipped when somebody else (the sweep that asks every
	// connection to quit first) has used the once, and a writer blocked in a socket write never looks at the latch
	if cs := p.Func(redisPkg, "(*client).Stop"); cs != nil {
		cdone := p.Field(redisPkg, "client", "done")
		isClose := func(x ssa.Instruction) bool {
			cc := callOf(x)
			if cc == nil || !cc.IsInvoke() || cc.Method.Name() != "Close" {
				return false
			}
			f, _ := loadedField(cc.Value)
			return f != nil && f.Name() == "conn"
		}
		isWait := func(x ssa.Instruction) bool {
			u, ok := x.(*ssa.UnOp)
			if !ok || u.Op != token.ARROW {
				return false
			}
			f, _ := chanFieldOf(u.X)
			return f == cdone && f != nil
		}
		// the close may sit in a same-package helper called from Stop (not in a closure handed to Once.Do)
		closesOrCalls := func(x ssa.Instruction) bool {
			if isClose(x) {
				return true
			}
			if cc := callOf(x); cc != nil {
				if g := cc.StaticCallee(); g != nil && g.Blocks != nil && g.Pkg == cs.Pkg && g.Parent() == nil {
					okAll, _ := p.mustOnAllPaths(g, isClose, 1)
					return okAll
				}
			}
			return false
		}
		skip := findPath(entryPos(cs), pathQuery{target: isWait, avoid: closesOrCalls})
		c.Check(skip == nil, "R6", "the backend connection's Stop closes the socket before it waits", cs.Pos(), "every path to the wait closes the connection in Stop itself", "Stop can reach the wait for the connection's goroutines without having closed the socket itself ("+p.pathString(skip)+"): when the close only happens together with the quit latch (inside its once), a Stop that comes after somebody else closed the latch never closes the socket - a writer blocked in a write to a backend that stopped reading is never woken, and Stop hangs")
	}
	// proc-level Stop reaches the listener Stop (and upstream Stop for redis)
	for _, pr := range []struct{ rel, fn string }{{"proc/redis", "(*redisProc).Stop"}, {"proc/tcp", "(*tcpProc).Stop"}} {
		fn := p.Func(pr.rel, pr.fn)
		if fn == nil {
			c.Unresolved("R6", pr.fn)
			continue
		}
		reach := p.reachable([]*ssa.Function{fn}, nil)
		c.Check(reach[stop], "R6", pr.rel+" Stop reaches listener.Stop", fn.Pos(), "reaches", "the service's Stop does not stop its listener")
		if pr.rel == "proc/redis" {
			us := p.Func(redisPkg, "(*upstream).Stop")
			c.Check(us != nil && reach[us], "R6", "redis Stop reaches upstream.Stop", fn.Pos(), "reaches", "the Redis service's Stop does not stop its upstream (backend connections stay open)")
		}
	}
	c.Expect("R3", 6)
	c.Expect("R5", 4)
	c.Expect("R6", 7)
}

// afterWriteFns: functions all of whose callers are (a) sites in writerFn dominated by the
// write instruction, or (b) sites inside functions already in the set (greatest fixpoint).
// writePoints: the write itself and, when it sits in a helper that performs it on every path and has a single
// (synchronous) call site, that call site - and so on upwards: everything dominated by such a point runs after the write.
func writePoints(p *Prog, fn *ssa.Function, w ssa.Instruction) map[*ssa.Function]ssa.Instruction {
	out := map[*ssa.Function]ssa.Instruction{fn: w}
	for depth := 0; depth < 3; depth++ {
		must := true
		eachInstr(fn, func(_ *ssa.BasicBlock, _ int, in ssa.Instruction) {
			if _, isRet := in.(*ssa.Return); isRet && !instrDominates(w, in) {
				must = false
			}
		})
		edges := p.callersOf(fn)
		if !must || len(edges) != 1 || fn.Parent() != nil {
			break
		}
		site := edges[0].Site
		if _, isCall := site.(*ssa.Call); !isCall {
			break
		}
		cf := edges[0].Caller.Func
		if _, seen := out[cf]; seen {
			break
		}
		out[cf] = site
		fn, w = cf, site
	}
	return out
}

func afterWriteFns(p *Prog, writerFn *ssa.Function, w ssa.Instruction) map[*ssa.Function]bool {
	wps := writePoints(p, writerFn, w)
	cand := map[*ssa.Function]bool{}
	for _, fn := range p.SrcFns {
		if _, isWP := wps[fn]; isModFn(fn) && !isWP {
			cand[fn] = true
		}
	}
	for changed := true; changed; {
		changed = false
		for fn := range cand {
			ok := true
			edges := p.callersOf(fn)
			if fn.Parent() != nil {
				// closure: "called" where it is created
				par := fn.Parent()
				created := false
				eachInstr(par, func(_ *ssa.BasicBlock, _ int, in ssa.Instruction) {
					if mc, isMC := in.(*ssa.MakeClosure); isMC && mc.Fn == ssa.Value(fn) {
						created = true
						if wp, isWP := wps[par]; isWP {
							if !instrDominates(wp, in) {
								ok = false
							}
						} else if !cand[par] {
							ok = false
						}
					}
				})
				if !created {
					ok = false
				}
			} else {
				if len(edges) == 0 {
					ok = false
				}
				for _, ed := range edges {
					cf := ed.Caller.Func
					if wp, isWP := wps[cf]; isWP {
						if !instrDominates(wp, ed.Site) {
							ok = false
						}
					} else if !cand[cf] {
						ok = false
					}
				}
			}
			if !ok {
				delete(cand, fn)
				changed = true
			}
		}
	}
	return cand
}

// checkLimitPredicate: connsLimit() == false  <=>  limit == 0 || len < limit, over the three orderings.
func checkLimitPredicate(c *Ctx, lim *ssa.Function, conns *types.Var) {
	type region struct {
		name string
		mk   func(z *Zone)
		want bool // limited?
	}
	regions := []region{
		{"limit == 0", func(z *Zone) { z.addEQ(lterm{"limit", 0}, lconst(0)) }, false},
		{"limit > 0, len < limit", func(z *Zone) { z.addLE(lconst(1), lterm{"limit", 0}); z.addLT(lterm{"len", 0}, lterm{"limit", 0}) }, false},
		{"limit > 0, len == limit", func(z *Zone) { z.addLE(lconst(1), lterm{"limit", 0}); z.addEQ(lterm{"len", 0}, lterm{"limit", 0}) }, true},
		{"limit > 0, len > limit", func(z *Zone) { z.addLE(lconst(1), lterm{"limit", 0}); z.addLT(lterm{"limit", 0}, lterm{"len", 0}) }, true},
	}
	lin := func(v ssa.Value) (lterm, bool) {
		v = stripConv(v)
		if cv, ok := constInt(v); ok {
			return lconst(cv), true
		}
		if call, ok := v.(*ssa.Call); ok && isBuiltin(call, "len") {
			if f, _ := loadedField(call.Call.Args[0]); f == conns {
				return lterm{"len", 0}, true
			}
		}
		if f, _ := loadedField(v); f != nil && f.Name() == "ConnectionLimit" {
			return lterm{"limit", 0}, true
		}
		return lterm{}, false
	}
	for i, rg := range regions {
		z := newZone()
		z.addLE(lconst(0), lterm{"len", 0})
		z.addLE(lconst(0), lterm{"limit", 0})
		rg.mk(z)
		site := fmt.Sprintf("admission region %d: %s", i+1, rg.name)
		b := lim.Blocks[0]
		var prev *ssa.BasicBlock
		verdict := ""
		var at token.Pos
		for steps := 0; steps < 32 && verdict == ""; steps++ {
			last := b.Instrs[len(b.Instrs)-1]
			at = last.Pos()
			switch t := last.(type) {
			case *ssa.Jump:
				prev, b = b, b.Succs[0]
			case *ssa.If:
				cmp, ok := t.Cond.(*ssa.BinOp)
				if !ok {
					verdict = "branch on a non-comparison"
					break
				}
				x, ok1 := lin(cmp.X)
				y, ok2 := lin(cmp.Y)
				if !ok1 || !ok2 {
					verdict = "condition is not a comparison of len(conns)/limit/constants"
					break
				}
				d := z.decide(cmp.Op.String(), x, y)
				if d < 0 {
					verdict = "condition `" + cmp.String() + "` undecided in this region"
					break
				}
				if d == 1 {
					prev, b = b, b.Succs[0]
				} else {
					prev, b = b, b.Succs[1]
				}
			case *ssa.Return:
				res := returnedValues(t)[0]
				// `return a && b` / `a || b`: a phi whose incoming value for the path taken is a constant or a comparison
				if ph, isPhi := res.(*ssa.Phi); isPhi && prev != nil {
					for k, pb := range ph.Block().Preds {
						if pb == prev {
							res = ph.Edges[k]
						}
					}
				}
				got := false
				if cmp, isCmp := res.(*ssa.BinOp); isCmp {
					x, ok1 := lin(cmp.X)
					y, ok2 := lin(cmp.Y)
					if !ok1 || !ok2 {
						verdict = "result is not a comparison of len(conns)/limit/constants"
						break
					}
					d := z.decide(cmp.Op.String(), x, y)
					if d < 0 {
						verdict = "result `" + cmp.String() + "` undecided in this region"
						break
					}
					got = d == 1
				} else if cv, ok := res.(*ssa.Const); ok {
					got = cv.Value.String() == "true"
				} else {
					verdict = "result is not a constant"
					break
				}
				_ = got
				if got == rg.want {
					verdict = "OK"
				} else {
					verdict = fmt.Sprintf("limit predicate returns %v, must be %v", got, rg.want)
				}
			default:
				verdict = "unexpected terminator"
			}
		}
		if verdict == "OK" {
			c.OK("R5", site, at, fmt.Sprintf("limited=%v", rg.want))
		} else {
			c.Fail("R5", site, at, verdict+" (admit iff limit==0 or len<limit)")
		}
	}
}

// checkWaitForCycles: a lock held while joining a latch must not be acquired (unguarded by a
// quit test) by the goroutines that have to finish before the latch closes.
func checkWaitForCycles(c *Ctx) {
	p := c.P
	le := newLockEngine(p, "proc", "proc/redis", "proc/tcp")
	_ = newChanEngine
	doneFields := latchFields(p, "done")
	n := 0
	seenSite := map[string]int{}
	for _, fn := range le.fns {
		eachInstr(fn, func(_ *ssa.BasicBlock, _ int, in ssa.Instruction) {
			cc := callOf(in)
			if cc == nil {
				return
			}
			if _, isGo := in.(*ssa.Go); isGo {
				return
			}
			g := calleeFn(cc)
			if g == nil || !isModFn(g) {
				return
			}
			held := le.heldAt(in)
			for _, d := range doneFields {
				o := ownerOf(p, d)
				if strings.HasSuffix(o, "Request") {
					continue
				}
				if p.waitsOn(g, d, 3, map[*ssa.Function]bool{}) == nil {
					continue
				}
				n++
				site := fmt.Sprintf("%s joins %s.done via %s", fnKey(fn), o, g.Name())
				if _, dup := seenSite[site]; dup {
					seenSite[site]++
					site = fmt.Sprintf("%s #%d", site, seenSite[site])
				} else {
					seenSite[site] = 1
				}
				if len(held) == 0 {
					c.OK("R7", site, in.Pos(), "no lock held at the join")
					continue
				}
				// closers of d and everything they run before closing
				var roots []*ssa.Function
				for _, op := range p.chanOpsOnField(d) {
					if op.Kind == opClose {
						roots = append(roots, topFn(op.Fn))
					}
				}
				bad := ""
				var names []string
				for L := range held {
					names = append(names, L.Name())
					// walk everything the goroutines that must finish first can run. A quit test in front of the
					// acquisition is NOT accepted: test-then-lock is not atomic, the joiner can take the lock in between.
					seen := map[*ssa.Function]bool{}
					var walk func(f *ssa.Function) string
					walk = func(f *ssa.Function) string {
						if seen[f] || !ownAnalysable(f) {
							return ""
						}
						seen[f] = true
						hit := ""
						eachInstr(f, func(b *ssa.BasicBlock, _ int, x ssa.Instruction) {
							if hit != "" {
								return
							}
							if fld, op := mutexOp(x); (op == "Lock" || op == "RLock") && fld == L {
								if _, isDefer := x.(*ssa.Defer); !isDefer {
									hit = fnKey(f)
								}
								return
							}
							if ci, ok := x.(ssa.CallInstruction); ok {
								if _, isB := ci.Common().Value.(*ssa.Builtin); isB {
									return
								}
								for _, h := range p.callees(ci) {
									if r := walk(h); r != "" {
										hit = fnKey(f) + " -> " + r
										return
									}
								}
							}
						})
						return hit
					}
					for _, r := range roots {
						if bad == "" {
							if w := walk(r); w != "" {
								bad = w + " which acquires " + L.Name()
							}
						}
					}
				}
				sort.Strings(names)
				if bad != "" {
					c.Fail("R7", site, in.Pos(), "wait-for cycle: "+strings.Join(names, ",")+" held at the join, and the latch closes only after "+bad+" (a quit test in front of the acquisition does not help: the joiner can take the lock between the test and the acquisition); both sides then wait for ever")
				} else {
					c.OK("R7", site, in.Pos(), "locks held at the join ("+strings.Join(names, ",")+") are never acquired by a goroutine that must finish first")
				}
			}
		})
	}
	c.Note("%d join sites of lifecycle latches examined", n)
}

// quitGuarded: block b is dominated by the default arm of a non-blocking select that watches a quit-like latch.
func quitGuarded(ce *chanEngine, b *ssa.BasicBlock) bool {
	fn := b.Parent()
	for _, d := range fn.Blocks {
		for _, in := range d.Instrs {
			sel, ok := in.(*ssa.Select)
			if !ok || sel.Blocking {
				continue
			}
			q := false
			for _, st := range sel.States {
				if ok, _ := ce.isQuitLike(st.Chan); ok && st.Dir == types.RecvOnly {
					q = true
				}
			}
			if !q {
				continue
			}
			def := selectDefaultBlock(sel)
			if def != nil && (def == b || def.Dominates(b)) {
				return true
			}
		}
	}
	return false
}

func unguardedAcquirers(p *Prog, ce *chanEngine, L *types.Var) map[*ssa.Function]bool {
	return map[*ssa.Function]bool{}
}

// checkQuitHasExternalCloser (C09.R8): a quit latch makes a blocking select interruptible only if somebody who is not
// itself waiting on the latch can close it. For every component whose goroutines block on its quit latch, some
// function that closes the latch (directly or through a helper) must (1) not run the code that blocks on it - a closer
// that only runs after the component's own loop returned cannot end that loop - and (2) be called from outside the
// component. Otherwise, when all goroutines of the component are parked in quit-guarded selects (reader on a full
// pipeline, writer on a reply that never comes), nothing ends them: closing the connection wakes neither, and every
// Stop that joins the component hangs.
func checkQuitHasExternalCloser(c *Ctx, rule string) {
	p := c.P
	n := 0
	for _, q := range latchFields(p, "quit") {
		owner := ownerOf(p, q)
		if !strings.HasPrefix(owner, "proc") {
			continue
		}
		var blockers, closers []*ssa.Function
		for _, op := range p.chanOpsOnField(q) {
			switch op.Kind {
			case opRecv:
				if op.Blocking {
					blockers = append(blockers, op.Fn)
				}
			case opClose:
				closers = append(closers, op.Fn)
			}
		}
		if len(blockers) == 0 || len(closers) == 0 {
			continue
		}
		n++
		site := "quit latch of " + owner + " can be closed by a non-waiter"
		isBlocker := map[*ssa.Function]bool{}
		for _, f := range blockers {
			isBlocker[f] = true
		}
		isCloser := map[*ssa.Function]bool{}
		for _, f := range closers {
			isCloser[topFn(f)] = true
			isCloser[f] = true
		}
		// owner type methods
		ownerName := owner[strings.LastIndex(owner, ".")+1:]
		isOwnerMethod := func(f *ssa.Function) bool {
			t := topFn(f)
			if t.Signature.Recv() == nil {
				return false
			}
			nt := namedOf(t.Signature.Recv().Type())
			return nt != nil && nt.Obj().Name() == ownerName && nt.Obj().Pkg() == q.Pkg()
		}
		// candidate closing entry points: module functions that reach a closer
		found := ""
		for _, f := range p.SrcFns {
			if p.isTestFn(f) || !isModFn(f) || f.Parent() != nil {
				continue
			}
			reach := p.reachable([]*ssa.Function{f}, nil)
			closes, blocks := false, false
			for g := range reach {
				if isCloser[g] {
					closes = true
				}
				if isBlocker[g] {
					blocks = true
				}
			}
			if !closes || blocks {
				continue
			}
			// called from outside the component, by a caller that does not also create the component (a closer that
			// only runs on the creation path cannot end a component that is already running)
			ext := false
			for _, ed := range p.callersOf(f) {
				caller := ed.Caller.Func
				if p.isTestFn(caller) || isOwnerMethod(caller) {
					continue
				}
				creates := false
				for _, h := range append([]*ssa.Function{caller}, staticCalleesDeep(caller, 1)...) {
					eachInstr(h, func(_ *ssa.BasicBlock, _ int, x ssa.Instruction) {
						if al, ok := x.(*ssa.Alloc); ok && al.Heap {
							if nt := namedOf(deref(al.Type())); nt != nil && nt.Obj().Name() == ownerName && nt.Obj().Pkg() == q.Pkg() {
								creates = true
							}
						}
					})
				}
				if !creates {
					ext = true
				}
			}
			if ext {
				found = fnKey(f)
				break
			}
		}
		c.Check(found != "", rule, site, q.Pos(), "closed by "+found+", which does not wait on it and is called from outside the component", "every function that closes this latch either runs the component's own blocking loops first or is never called from outside: once the component's goroutines are all parked in selects guarded by this latch (a reader on a full pipeline, a writer waiting for a backend that never answers) nothing can end them - closing the connection does not wake them, so the handler never returns and Stop hangs")
	}
	if n == 0 {
		c.Unresolved(rule, "no component blocks on a quit latch")
	}
}

// checkJoinBeforeRelease (C09.R9): when a stop function waits for a group of goroutines (a join on a lifecycle latch),
// every blocking select those goroutines can be parked in must watch a latch that is already closed at that moment -
// closed by the stop function before the join (directly, or by a component it has already stopped and joined), or by
// the joined call itself before it waits. A select whose only latch belongs to a component the stop function stops
// AFTER the join is released too late: if the data channel it offers is stuck (a full queue towards a silent backend),
// the join never ends and the later stop is never reached.
func checkJoinBeforeRelease(c *Ctx, rule string) {
	p := c.P
	ce := newChanEngine(p)
	le := newLockEngine(p, "proc", "proc/redis", "proc/tcp")
	doneFields := latchFields(p, "done")
	closersOf := func(d *types.Var) []*ssa.Function {
		var roots []*ssa.Function
		for _, op := range p.chanOpsOnField(d) {
			if op.Kind == opClose {
				roots = append(roots, topFn(op.Fn))
			}
		}
		return roots
	}
	// everything a call runs on its own goroutine (module functions, dynamic callees resolved, go statements not followed)
	var pref types.Type // receiver type of the stop function whose join is examined
	var reach func(f *ssa.Function, seen map[*ssa.Function]bool, depth int)
	reach = func(f *ssa.Function, seen map[*ssa.Function]bool, depth int) {
		if f == nil || seen[f] || !ownAnalysable(f) || depth > 14 {
			return
		}
		seen[f] = true
		eachInstr(f, func(_ *ssa.BasicBlock, _ int, x ssa.Instruction) {
			ci, ok := x.(ssa.CallInstruction)
			if !ok {
				return
			}
			if _, isGo := x.(*ssa.Go); isGo {
				// a goroutine the function waits for (it calls WaitGroup.Wait) has run when the function returns
				waits := false
				eachInstr(f, func(_ *ssa.BasicBlock, _ int, y ssa.Instruction) {
					if cc := callOf(y); cc != nil {
						if h := calleeFn(cc); h != nil && h.String() == "(*sync.WaitGroup).Wait" {
							waits = true
						}
					}
				})
				if !waits {
					return
				}
			}
			if _, isB := ci.Common().Value.(*ssa.Builtin); isB {
				return
			}
			hs := p.callees(ci)
			// a callback stored in a shared component (the listener's connection handler) resolves to the callbacks
			// of every user of that component: for the join of one owner only its own method values count
			if pref != nil && len(hs) > 1 && ci.Common().StaticCallee() == nil && !ci.Common().IsInvoke() {
				var mine []*ssa.Function
				for _, h := range hs {
					if h.Synthetic != "" && len(h.FreeVars) == 1 && types.Identical(h.FreeVars[0].Type(), pref) {
						mine = append(mine, h)
					}
				}
				if len(mine) > 0 {
					hs = mine
				}
			}
			for _, h := range hs {
				reach(h, seen, depth+1)
			}
		})
	}
	closedIn := func(fns map[*ssa.Function]bool, out map[*types.Var]bool) {
		for f := range fns {
			eachInstr(f, func(_ *ssa.BasicBlock, _ int, x ssa.Instruction) {
				if isBuiltin(x, "close") {
					if fld, _ := chanFieldOf(callOf(x).Args[0]); fld != nil {
						out[fld] = true
					}
				}
			})
			// sync.Once.Do(func(){ close(l) }) closures, or the method value of a closing method handed to Do
			for _, a := range withAnon(f)[1:] {
				eachInstr(a, func(_ *ssa.BasicBlock, _ int, x ssa.Instruction) {
					if isBuiltin(x, "close") {
						if fld, _ := chanFieldOf(callOf(x).Args[0]); fld != nil {
							out[fld] = true
						}
					}
				})
			}
		}
	}
	// latches closed once the call of g has returned: what g runs, plus - for every lifecycle latch g waits for - what
	// the closer of that latch runs before closing it
	var closedBy func(g *ssa.Function, out map[*types.Var]bool, depth int)
	closedBy = func(g *ssa.Function, out map[*types.Var]bool, depth int) {
		if depth > 2 {
			return
		}
		seen := map[*ssa.Function]bool{}
		reach(g, seen, 0)
		closedIn(seen, out)
		for _, d := range doneFields {
			if strings.HasSuffix(ownerOf(p, d), "Request") {
				continue
			}
			if p.waitsOn(g, d, 3, map[*ssa.Function]bool{}) != nil {
				for _, r := range closersOf(d) {
					closedBy(r, out, depth+1)
				}
			}
		}
	}
	n := 0
	seenSite := map[string]int{}
	for _, fn := range le.fns {
		eachInstr(fn, func(_ *ssa.BasicBlock, _ int, in ssa.Instruction) {
			cc := callOf(in)
			if cc == nil {
				return
			}
			if _, isGo := in.(*ssa.Go); isGo {
				return
			}
			var gs []*ssa.Function
			if g := calleeFn(cc); g != nil {
				gs = []*ssa.Function{g}
			} else if ci, ok := in.(ssa.CallInstruction); ok && cc.IsInvoke() {
				gs = p.callees(ci)
			}
			for _, g := range gs {
				if g == nil || !isModFn(g) || strings.Contains(g.String(), "/mock") {
					continue
				}
				for _, d := range doneFields {
					o := ownerOf(p, d)
					if strings.HasSuffix(o, "Request") {
						continue
					}
					if p.waitsOn(g, d, 3, map[*ssa.Function]bool{}) == nil {
						continue
					}
					// a component's lifecycle latch (its owner also has a latch that asks it to stop), not the latch of a
					// one-shot result
					if !hasStopLatch(ce, d) {
						continue
					}
					n++
					site := fmt.Sprintf("%s joins %s.done via %s: the joined goroutines are released first", fnKey(fn), o, g.Name())
					if _, dup := seenSite[site]; dup {
						seenSite[site]++
						site = fmt.Sprintf("%s #%d", site, seenSite[site])
					} else {
						seenSite[site] = 1
					}
					pref = nil
					if fn.Signature.Recv() != nil {
						pref = fn.Signature.Recv().Type()
					}
					// latches closed at the time of the wait: by this function before the join, and - when the stop
					// sequence is split into helpers - by every caller before it calls this function
					before := map[*types.Var]bool{}
					var callerBefore func(f *ssa.Function, depth int) map[*types.Var]bool
					callerBefore = func(f *ssa.Function, depth int) map[*types.Var]bool {
						edges := p.callersOf(f)
						if depth > 2 || len(edges) == 0 || f.Parent() != nil {
							return nil
						}
						var inter map[*types.Var]bool
						for _, ed := range edges {
							cf := ed.Caller.Func
							if p.isTestFn(cf) {
								continue
							}
							if _, isCall := ed.Site.(*ssa.Call); !isCall {
								return nil
							}
							m := map[*types.Var]bool{}
							eachInstr(cf, func(_ *ssa.BasicBlock, _ int, x ssa.Instruction) {
								if x == ed.Site || !instrDominates(x, ed.Site) {
									return
								}
								if isBuiltin(x, "close") {
									if fld, _ := chanFieldOf(callOf(x).Args[0]); fld != nil {
										m[fld] = true
									}
								}
								if ci, ok := x.(ssa.CallInstruction); ok {
									if _, isGo := x.(*ssa.Go); isGo {
										return
									}
									if _, isB := ci.Common().Value.(*ssa.Builtin); isB {
										return
									}
									for _, h := range p.callees(ci) {
										closedBy(h, m, 0)
									}
								}
							})
							for k := range callerBefore(cf, depth+1) {
								m[k] = true
							}
							if inter == nil {
								inter = m
							} else {
								for k := range inter {
									if !m[k] {
										delete(inter, k)
									}
								}
							}
						}
						return inter
					}
					for k := range callerBefore(fn, 0) {
						before[k] = true
					}
					eachInstr(fn, func(_ *ssa.BasicBlock, _ int, x ssa.Instruction) {
						if x == in || !instrDominates(x, in) {
							return
						}
						if isBuiltin(x, "close") {
							if fld, _ := chanFieldOf(callOf(x).Args[0]); fld != nil {
								before[fld] = true
							}
						}
						if ci, ok := x.(ssa.CallInstruction); ok {
							if _, isGo := x.(*ssa.Go); isGo {
								return
							}
							if _, isB := ci.Common().Value.(*ssa.Builtin); isB {
								return
							}
							for _, h := range p.callees(ci) {
								closedBy(h, before, 0)
							}
						}
					})
					gseen := map[*ssa.Function]bool{}
					reach(g, gseen, 0)
					closedIn(gseen, before)
					// the goroutines that must finish before d is closed: the closer's own code, and the goroutines it
					// spawns and waits for through a WaitGroup
					roots := closersOf(d)
					// what the closer itself closes before it waits for its own goroutines releases those goroutines
					for _, r := range roots {
						var waits []ssa.Instruction
						eachInstr(r, func(_ *ssa.BasicBlock, _ int, x ssa.Instruction) {
							if cc := callOf(x); cc != nil {
								if h := calleeFn(cc); h != nil && h.String() == "(*sync.WaitGroup).Wait" {
									waits = append(waits, x)
								}
							}
						})
						if len(waits) == 0 {
							continue
						}
						hdrs := loopHeaders(r)
						// x runs before w on every path, or for every element of a loop that precedes w
						beforeWait := func(x, w ssa.Instruction) bool {
							if instrDominates(x, w) {
								return true
							}
							for _, h := range hdrs {
								if h.Dominates(x.Block()) && h.Dominates(w.Block()) && h != w.Block() {
									// x is inside the loop: its block reaches the header again
									inLoop := false
									seen := map[*ssa.BasicBlock]bool{}
									var dfs func(b *ssa.BasicBlock)
									dfs = func(b *ssa.BasicBlock) {
										if seen[b] || inLoop {
											return
										}
										seen[b] = true
										for _, sc := range b.Succs {
											if sc == h {
												inLoop = true
												return
											}
											if h.Dominates(sc) {
												dfs(sc)
											}
										}
									}
									dfs(x.Block())
									// and w is behind the loop, not inside it
									wInLoop := false
									seen = map[*ssa.BasicBlock]bool{}
									var dfs2 func(b *ssa.BasicBlock)
									dfs2 = func(b *ssa.BasicBlock) {
										if seen[b] || wInLoop {
											return
										}
										seen[b] = true
										for _, sc := range b.Succs {
											if sc == h {
												wInLoop = true
												return
											}
											if h.Dominates(sc) {
												dfs2(sc)
											}
										}
									}
									dfs2(w.Block())
									if inLoop && !wInLoop {
										return true
									}
								}
							}
							return false
						}
						eachInstr(r, func(_ *ssa.BasicBlock, _ int, x ssa.Instruction) {
							for _, w := range waits {
								if x == w || !beforeWait(x, w) {
									return
								}
							}
							if isBuiltin(x, "close") {
								if fld, _ := chanFieldOf(callOf(x).Args[0]); fld != nil {
									before[fld] = true
								}
							}
							if ci, ok := x.(ssa.CallInstruction); ok {
								if _, isGo := x.(*ssa.Go); isGo {
									return
								}
								if _, isB := ci.Common().Value.(*ssa.Builtin); isB {
									return
								}
								for _, h := range p.callees(ci) {
									closedBy(h, before, 0)
								}
							}
						})
					}
					own := map[*ssa.Function]bool{}
					for _, r := range roots {
						reach(r, own, 0)
					}
					waited := map[*types.Var]bool{}
					for f := range own {
						eachInstr(f, func(_ *ssa.BasicBlock, _ int, x ssa.Instruction) {
							if cc := callOf(x); cc != nil {
								if h := calleeFn(cc); h != nil && h.String() == "(*sync.WaitGroup).Wait" {
									if fld, _ := fieldAddr(cc.Args[0]); fld != nil {
										waited[fld] = true
									}
								}
							}
						})
					}
					all := map[*ssa.Function]bool{}
					for f := range own {
						all[f] = true
					}
					for changed := true; changed; {
						changed = false
						for f := range all {
							eachInstr(f, func(_ *ssa.BasicBlock, _ int, x ssa.Instruction) {
								gi, ok := x.(*ssa.Go)
								if !ok {
									return
								}
								for _, h := range p.callees(gi) {
									sub := map[*ssa.Function]bool{}
									reach(h, sub, 0)
									isWaited := false
									for sf := range sub {
										eachInstr(sf, func(_ *ssa.BasicBlock, _ int, y ssa.Instruction) {
											if cc := callOf(y); cc != nil {
												if hh := calleeFn(cc); hh != nil && hh.String() == "(*sync.WaitGroup).Done" {
													if fld, _ := fieldAddr(cc.Args[0]); fld != nil && waited[fld] {
														isWaited = true
													}
												}
											}
										})
									}
									if !isWaited {
										continue
									}
									for sf := range sub {
										if !all[sf] {
											all[sf] = true
											changed = true
										}
									}
								}
							})
						}
					}
					bad := ""
					var fl []*ssa.Function
					for f := range all {
						fl = append(fl, f)
					}
					sort.Slice(fl, func(i, j int) bool { return fnKey(fl[i]) < fnKey(fl[j]) })
					for _, f := range fl {
						if bad != "" || p.isTestFn(f) {
							break
						}
						eachInstr(f, func(_ *ssa.BasicBlock, _ int, x ssa.Instruction) {
							sel, ok := x.(*ssa.Select)
							if !ok || !sel.Blocking || bad != "" {
								return
							}
							var latches []string
							released, data := false, false
							for _, st := range sel.States {
								if isTimerChan(st.Chan) {
									released = true
									continue
								}
								if q, what := ce.isQuitLike(st.Chan); q && st.Dir == types.RecvOnly {
									fld, _ := chanFieldOf(st.Chan)
									if fld == nil || before[fld] {
										released = true
									} else {
										latches = append(latches, ownerOf(p, fld)+"."+what)
									}
									continue
								}
								data = true
							}
							if !released && data && len(latches) > 0 {
								bad = fmt.Sprintf("%s (%s) offers a data channel and watches only %s", fnKey(f), p.Pos(sel.Pos()), strings.Join(latches, ", "))
							}
						})
					}
					if bad != "" {
						c.Fail(rule, site, in.Pos(), "a goroutine this join waits for can be parked in a select that no latch closed so far releases: "+bad+", which is closed only later in this stop sequence (or never by it) - when the data channel is stuck (a full queue towards a peer that stopped answering) the join never ends and the stop function hangs")
					} else {
						c.OK(rule, site, in.Pos(), fmt.Sprintf("every blocking select of the %d functions the join waits for watches a latch that is closed by then (or a timer)", len(all)))
					}
				}
			}
		})
	}
	if n == 0 {
		c.Unresolved(rule, "no join site of a lifecycle latch")
	}
}

// hasStopLatch: the struct that owns the done latch d has another lifecycle latch (quit / drain / stop).
func hasStopLatch(ce *chanEngine, d *types.Var) bool {
	for f := range ce.latch {
		if f != d && sameOwner(ce.p, f, d) {
			return true
		}
	}
	return false
}

func sameOwner(p *Prog, a, b *types.Var) bool {
	return ownerOf(p, a) == ownerOf(p, b) && ownerOf(p, a) != ""
}

// checkClientTableDiscipline (C09.R10): Stop releases every backend connection only if the table of connections is
// swept completely and nothing falls out of it unseen.
//
//	(a) The terminal sweep - the loop that stops the connections before the component's done latch is closed - ranges
//	    over a snapshot of the table that is read while the table's mutex is held: publishers test the quit latch and
//	    publish under that mutex, so a snapshot read outside it can miss a connection that is published a moment later
//	    and that nobody will ever stop.
//	(b) A single address is deleted from the table only by the goroutine that ran the connection registered under it
//	    (after its run returned). Any other deleter lets a replacement be registered under the address while the old
//	    connection is still winding down; the old goroutine then deletes the replacement, which is in no table any
//	    more - Stop does not stop it and its goroutines survive.
func checkClientTableDiscipline(c *Ctx, rule string) {
	p := c.P
	up := p.Named(redisPkg, "upstream")
	clientStop := p.Func(redisPkg, "(*client).Stop")
	start := p.Func(redisPkg, "(*client).Start")
	doneF := p.Field(redisPkg, "upstream", "done")
	if up == nil || clientStop == nil || start == nil || doneF == nil {
		c.Unresolved(rule, "upstream / client.Stop / client.Start / upstream.done")
		return
	}
	// the table: the field of upstream whose loaded value is a map of connections; its mutex: the sync.Mutex field
	var mu *types.Var
	if st, ok := up.Underlying().(*types.Struct); ok {
		for i := 0; i < st.NumFields(); i++ {
			if ts := types.TypeString(st.Field(i).Type(), nil); (ts == "sync.Mutex" || ts == "sync.RWMutex") && strings.Contains(strings.ToLower(st.Field(i).Name()), "client") {
				mu = st.Field(i)
			}
		}
	}
	if mu == nil {
		c.Unresolved(rule, "mutex of the connection table")
		return
	}
	isTableMap := func(t types.Type) bool {
		m, ok := t.Underlying().(*types.Map)
		if !ok {
			return false
		}
		pt, ok := m.Elem().(*types.Pointer)
		return ok && modType(pt.Elem(), redisPkg, "client")
	}
	le := newLockEngine(p, "proc/redis")
	// (a) terminal sweep
	var closer *ssa.Function
	for _, op := range p.chanOpsOnField(doneF) {
		if op.Kind == opClose {
			closer = topFn(op.Fn)
		}
	}
	if closer == nil {
		c.Unresolved(rule, "closer of upstream.done")
		return
	}
	nsweep := 0
	for _, fn := range append([]*ssa.Function{closer}, staticCalleesDeep(closer, 2)...) {
		if fn.Blocks == nil || !isModFn(fn) {
			continue
		}
		eachInstr(fn, func(_ *ssa.BasicBlock, _ int, in ssa.Instruction) {
			if !isCallToFn(in, clientStop) {
				return
			}
			// the connection stopped comes out of a range over a table snapshot
			var snap ssa.Value
			derives(callOf(in).Args[0], func(v ssa.Value) bool {
				if nx, ok := v.(*ssa.Next); ok {
					if rg, ok := nx.Iter.(*ssa.Range); ok && isTableMap(rg.X.Type()) {
						snap = rg.X
					}
				}
				return false
			})
			if snap == nil {
				return
			}
			nsweep++
			// (c) the reader of one connection resends redirected requests through the Send of another connection of
			// the same table, and that Send only gives up when *that* connection is asked to quit. A sweep that asks
			// and waits connection by connection waits for a reader that is parked on a connection it has not asked
			// yet (full queue, silent backend): every connection of the snapshot is asked to quit before the first
			// one is waited for.
			if send := p.Func(redisPkg, "(*client).Send"); send != nil && p.reachable([]*ssa.Function{start}, nil)[send] {
				quitF := p.Field(redisPkg, "client", "quit")
				cdone := p.Field(redisPkg, "client", "done")
				askedFirst := false
				if quitF != nil && cdone != nil {
					var sweepRange *ssa.Range
					derives(callOf(in).Args[0], func(v ssa.Value) bool {
						if nx, ok := v.(*ssa.Next); ok {
							if rg, ok := nx.Iter.(*ssa.Range); ok && rg.X == snap {
								sweepRange = rg
							}
						}
						return false
					})
					eachInstr(fn, func(_ *ssa.BasicBlock, _ int, x ssa.Instruction) {
						cc := callOf(x)
						if cc == nil || x == in || len(cc.Args) == 0 {
							return
						}
						g := calleeFn(cc)
						if g == nil || !isModFn(g) || g.Blocks == nil {
							return
						}
						var rg0 *ssa.Range
						derives(cc.Args[0], func(v ssa.Value) bool {
							if nx, ok := v.(*ssa.Next); ok {
								if rg, ok := nx.Iter.(*ssa.Range); ok && resolveCell(rg.X) == resolveCell(snap) {
									rg0 = rg
								}
							}
							return false
						})
						if rg0 == nil || sweepRange == nil || rg0 == sweepRange || !instrDominates(rg0, sweepRange) {
							return
						}
						closes := false
						for _, gf := range append([]*ssa.Function{g}, staticCalleesDeep(g, 1)...) {
							if gf.Blocks == nil {
								continue
							}
							for _, hf := range withAnon(gf) {
								if len(p.closeSitesIn(hf, quitF)) > 0 {
									closes = true
								}
							}
						}
						if closes && p.waitsOn(g, cdone, 3, map[*ssa.Function]bool{}) == nil {
							askedFirst = true
						}
					})
				}
				c.Check(askedFirst, rule, fmt.Sprintf("%s terminal sweep#%d asks every connection to quit before it waits for the first", fnKey(fn), nsweep), in.Pos(), "a loop over the same snapshot closes every quit latch before the stopping loop", "the sweep asks and waits connection by connection: the reader of a connection can be parked in the Send of another connection of the table (a redirected request, that connection's queues full towards a backend that stopped answering), and that wait only ends when the other connection is asked to quit - which the sweep does only after it has waited for this one. Stop hangs, depending on the iteration order of the table")
			}
			site := fmt.Sprintf("%s terminal sweep#%d ranges over a snapshot read under the table mutex", fnKey(fn), nsweep)
			snapV := stripConv(resolveCell(snap))
			origin, _ := snapV.(ssa.Instruction)
			if prm, isPrm := snapV.(*ssa.Parameter); isPrm {
				// the sweep is a helper that is handed the snapshot: every caller reads it under the mutex
				okAll, ncall := true, 0
				var at token.Pos = in.Pos()
				inCone := map[*ssa.Function]bool{closer: true}
				for _, cf := range staticCalleesDeep(closer, 2) {
					inCone[cf] = true
				}
				for _, ed := range p.callersOf(fn) {
					// only the callers on the way to closing the done latch form the terminal sweep
					if p.isTestFn(ed.Caller.Func) || !inCone[ed.Caller.Func] {
						continue
					}
					ncall++
					args := ed.Site.Common().Args
					idx := paramIndex(fn, prm)
					if idx < 0 || idx >= len(args) || !snapshotUnderLock(le, mu, isTableMap, args[idx], 0) {
						okAll = false
						at = ed.Site.Pos()
					}
				}
				c.Check(okAll && ncall > 0, rule, site, at, "every caller hands over a snapshot read while "+mu.Name()+" is held", "the connections that Stop stops are taken from a snapshot of the table read without "+mu.Name()+": a connection that is being established passes its quit test, and is published under the mutex right after the snapshot - it is in no snapshot, nobody stops it, its goroutines and its socket outlive Stop and the request that triggered it is never answered")
				return
			}
			if origin == nil {
				c.Undecided(rule, site, in.Pos(), "cannot find where the snapshot is read")
				return
			}
			ov, _ := origin.(ssa.Value)
			c.Check(ov != nil && snapshotUnderLock(le, mu, isTableMap, ov, 0), rule, site, origin.Pos(), "the snapshot is read while "+mu.Name()+" is held", "the connections that Stop stops are taken from a snapshot of the table read without "+mu.Name()+": a connection that is being established passes its quit test, and is published under the mutex right after the snapshot - it is in no snapshot, nobody stops it, its goroutines and its socket outlive Stop and the request that triggered it is never answered")
		})
	}
	if nsweep == 0 {
		c.Fail(rule, "terminal sweep", closer.Pos(), "the function that ends the upstream does not stop the connections of the table before closing its done latch")
	}
	// (b) single-address deleters
	var deleters []*ssa.Function
	for _, fn := range p.FuncsIn(redisPkg) {
		if p.isTestFn(fn) {
			continue
		}
		eachInstr(fn, func(_ *ssa.BasicBlock, _ int, in ssa.Instruction) {
			if call, ok := in.(*ssa.Call); ok && isBuiltin(call, "delete") && isTableMap(call.Call.Args[0].Type()) {
				deleters = append(deleters, fn)
			}
		})
	}
	nd := 0
	seen := map[*ssa.Function]bool{}
	var visit func(fn *ssa.Function, depth int)
	visit = func(fn *ssa.Function, depth int) {
		if seen[fn] || depth > 3 {
			return
		}
		seen[fn] = true
		for _, ed := range p.callersOf(fn) {
			cf := ed.Caller.Func
			if p.isTestFn(cf) {
				continue
			}
			// a helper that only forwards (removeClient -> removeClientLocked): look at its callers
			if cf.Signature.Recv() != nil && types.Identical(cf.Signature.Recv().Type(), fn.Signature.Recv().Type()) && strings.HasPrefix(fn.Name(), cf.Name()) {
				visit(cf, depth+1)
				continue
			}
			nd++
			site := fmt.Sprintf("%s deletes one address from the connection table", fnKey(cf))
			// the goroutine that ran the connection: the call is dominated by a call of the connection's run function
			own := false
			eachInstr(cf, func(_ *ssa.BasicBlock, _ int, x ssa.Instruction) {
				if isCallToFn(x, start) && instrDominates(x, ed.Site) {
					own = true
				}
			})
			c.Check(own, rule, site, ed.Site.Pos(), "only the goroutine that ran the connection, after its run returned", "an address is deleted from the connection table by code other than the goroutine that ran the connection registered under it: a replacement can then be registered under the address while the old connection is still winding down, the old goroutine deletes the replacement when it ends, and the replacement - in no table - is never stopped by Stop")
		}
	}
	for _, d := range deleters {
		visit(d, 0)
	}
	if nd == 0 {
		c.Unresolved(rule, "no deleter of a single address of the connection table")
	}
	// (d) an entry is never overwritten: a connection is registered under an address only on the miss side of a
	// lookup of that address (made under the table mutex). The goroutine of a connection deletes the table entry of
	// its address when it ends - by address: if a dying connection can be replaced in the table before it has ended,
	// its cleanup deletes the replacement, which lives on in no table and is never stopped by Stop.
	ni := 0
	for _, fn := range p.FuncsIn(redisPkg) {
		if p.isTestFn(fn) {
			continue
		}
		eachInstr(fn, func(b *ssa.BasicBlock, _ int, in ssa.Instruction) {
			mu2, ok := in.(*ssa.MapUpdate)
			if !ok || !isTableMap(mu2.Map.Type()) {
				return
			}
			// a copy of the table (cpy[k] = v while ranging over it) registers nothing
			if derives(mu2.Value, func(v ssa.Value) bool {
				if nx, ok := v.(*ssa.Next); ok {
					if rg, ok := nx.Iter.(*ssa.Range); ok && isTableMap(rg.X.Type()) {
						return true
					}
				}
				return false
			}) {
				return
			}
			ni++
			site := fmt.Sprintf("%s registers a connection only when the address has none#%d", fnKey(fn), ni)
			var missAt func(b *ssa.BasicBlock, key ssa.Value, depth int) bool
			missAt = func(b *ssa.BasicBlock, key ssa.Value, depth int) bool {
				for _, a := range atomsAt(b, 0) {
					if a.cmp != nil || a.truth {
						continue
					}
					ex, isEx := a.val.(*ssa.Extract)
					if !isEx || ex.Index != 1 {
						continue
					}
					lk, isLk := ex.Tuple.(*ssa.Lookup)
					if !isLk || !lk.CommaOk || !isTableMap(lk.X.Type()) {
						continue
					}
					if stripConv(resolveCell(lk.Index)) == stripConv(resolveCell(key)) && le.before[lk][mu] != 0 {
						return true
					}
				}
				// the insert lives in a helper that is handed the address: every caller is on the miss side
				if prm, isPrm := stripConv(resolveCell(key)).(*ssa.Parameter); isPrm && depth < 2 {
					g := prm.Parent()
					idx := paramIndex(g, prm)
					edges := p.callersOf(g)
					if idx < 0 || len(edges) == 0 {
						return false
					}
					for _, ed := range edges {
						if p.isTestFn(ed.Caller.Func) {
							continue
						}
						args := ed.Site.Common().Args
						if idx >= len(args) || !missAt(ed.Site.Block(), args[idx], depth+1) {
							return false
						}
					}
					return true
				}
				return false
			}
			missed := missAt(b, mu2.Key, 0)
			c.Check(missed, rule, site, in.Pos(), "the insert is on the miss side of a comma-ok lookup of the same address made under "+mu.Name(), "a connection can be registered under an address that still has one (the lookup's hit is overruled by a further condition, or there is no lookup under the mutex): the connection it replaces is still winding down, and when its goroutine ends it deletes the table entry of its address - the replacement. That one lives on in no table: the stop sweep never stops it, its socket and goroutines outlive Stop")
		})
	}
	if ni == 0 {
		c.Unresolved(rule, "no insert into the connection table")
	}
}

// checkDrainKeepsAccepted (C09.R11, C17.R10): draining stops the accepting of new connections and keeps the established
// ones. A connection that Accept has returned is established - its goroutine may reach the admission code only after
// Drain closed the latch. The drain latch may therefore be read by the binding and accepting code only, never by the
// code that runs per accepted connection (admission, registration, the handler call).
func checkDrainKeepsAccepted(c *Ctx, rule string) {
	p := c.P
	drain := p.Field(procPkg, "listener", "drain")
	perConn := p.Func(procPkg, "(*listener).handleRawConn")
	if drain == nil || perConn == nil {
		c.Unresolved(rule, "listener.drain / listener.handleRawConn")
		return
	}
	cone := map[*ssa.Function]bool{}
	var walk func(f *ssa.Function, depth int)
	walk = func(f *ssa.Function, depth int) {
		if f == nil || cone[f] || f.Blocks == nil || depth > 6 {
			return
		}
		if pk := fnPkg(f); pk == nil || pk.Pkg.Path() != modPath+"/"+procPkg {
			return
		}
		cone[f] = true
		for _, a := range f.AnonFuncs {
			walk(a, depth+1)
		}
		eachInstr(f, func(_ *ssa.BasicBlock, _ int, in ssa.Instruction) {
			if ci, ok := in.(ssa.CallInstruction); ok {
				for _, h := range p.callees(ci) {
					walk(h, depth+1)
				}
			}
		})
	}
	walk(perConn, 0)
	n := 0
	for _, op := range p.chanOpsOnField(drain) {
		if op.Kind != opRecv || p.isTestFn(op.Fn) {
			continue
		}
		n++
		site := fmt.Sprintf("%s reads the drain latch on the accepting side", fnKey(op.Fn))
		c.Check(!cone[op.Fn] && !cone[topFn(op.Fn)], rule, site, op.In.Pos(), "binding / accepting code", "the drain latch is tested by code that runs for a connection Accept has already returned: a connection established just before the drain is closed unserved, although draining must keep established connections")
	}
	if n == 0 {
		c.Unresolved(rule, "no read of listener.drain")
	}
}

// snapshotUnderLock: the value is a read of the connection table made while mu is held - the call that loads the
// table (an atomic load inside), possibly returned through helpers that take the lock themselves.
func snapshotUnderLock(le *lockEngine, mu *types.Var, isTableMap func(types.Type) bool, v ssa.Value, depth int) bool {
	v = stripConv(resolveCell(stripConv(v)))
	call, ok := v.(*ssa.Call)
	if !ok || depth > 3 {
		if instr, ok := v.(ssa.Instruction); ok {
			return le.heldAt(instr)[mu] >= lockRead
		}
		return false
	}
	if le.heldAt(call)[mu] >= lockRead {
		return true
	}
	g := calleeFn(call.Common())
	if g == nil || !isModFn(g) || g.Blocks == nil {
		return false
	}
	okAll, nret := true, 0
	eachInstr(g, func(_ *ssa.BasicBlock, _ int, x ssa.Instruction) {
		ret, isRet := x.(*ssa.Return)
		if !isRet || len(ret.Results) == 0 {
			return
		}
		for _, r := range returnedValues(ret) {
			if !isTableMap(r.Type()) {
				continue
			}
			nret++
			if !snapshotUnderLock(le, mu, isTableMap, r, depth+1) {
				okAll = false
			}
		}
	})
	return okAll && nret > 0
}

// checkComponentFieldNotOrphaned (C09.R13): a processor's Stop stops the components its fields point to. A field that
// holds a running component (it has Start and Stop methods: the health monitor) may only be overwritten when it is nil
// or after the old component was stopped - otherwise the old one keeps running after Stop, with nobody left who could
// stop it.
func checkComponentFieldNotOrphaned(c *Ctx, rule string) {
	p := c.P
	n := 0
	for _, rel := range []string{"proc/tcp", "proc/redis"} {
		for _, fn := range p.FuncsIn(rel) {
			if p.isTestFn(fn) {
				continue
			}
			eachInstr(fn, func(b *ssa.BasicBlock, _ int, in ssa.Instruction) {
				st, ok := in.(*ssa.Store)
				if !ok {
					return
				}
				f, base := fieldAddr(st.Addr)
				if f == nil || isFreshAlloc(base) || isNilConst(st.Val) {
					return
				}
				pt, ok := f.Type().(*types.Pointer)
				if !ok {
					return
				}
				ms := types.NewMethodSet(pt)
				hasStart, hasStop := false, false
				for i := 0; i < ms.Len(); i++ {
					switch ms.At(i).Obj().Name() {
					case "Start":
						hasStart = true
					case "Stop":
						hasStop = true
					}
				}
				nt := namedOf(pt.Elem())
				if !hasStart || !hasStop || nt == nil || nt.Obj().Pkg() == nil || !strings.HasPrefix(nt.Obj().Pkg().Path(), modPath) {
					return
				}
				// the owner is itself a component that is stopped (it has a Stop method), not a one-shot result slot
				ownerStops := false
				if ot := namedOf(deref(base.Type())); ot != nil {
					oms := types.NewMethodSet(types.NewPointer(ot))
					for i := 0; i < oms.Len(); i++ {
						if oms.At(i).Obj().Name() == "Stop" {
							ownerStops = true
						}
					}
				}
				if !ownerStops {
					return
				}
				n++
				site := fmt.Sprintf("%s store#%d into component field %s.%s", fnKey(fn), n, ownerOf(p, f), f.Name())
				// dominated by the nil side of a test of the same field ...
				okStore := false
				for _, d := range fn.Blocks {
					iff, isIf := d.Instrs[len(d.Instrs)-1].(*ssa.If)
					if !isIf {
						continue
					}
					bo, isBo := iff.Cond.(*ssa.BinOp)
					if !isBo || (bo.Op != token.EQL && bo.Op != token.NEQ) || !isNilConst(bo.Y) {
						continue
					}
					if f2, _ := loadedField(bo.X); f2 != f {
						continue
					}
					k := 0
					if bo.Op == token.NEQ {
						k = 1
					}
					if sb := d.Succs[k]; len(sb.Preds) == 1 && (sb == b || sb.Dominates(b)) {
						okStore = true
					}
				}
				// ... or preceded by Stop on the old value
				eachInstr(fn, func(_ *ssa.BasicBlock, _ int, x ssa.Instruction) {
					cc := callOf(x)
					if cc == nil || len(cc.Args) == 0 {
						return
					}
					if g := calleeFn(cc); g != nil && g.Name() == "Stop" {
						if f2, _ := loadedField(cc.Args[0]); f2 == f && instrDominates(x, in) {
							okStore = true
						}
					}
				})
				c.Check(okStore, rule, site, st.Pos(), "the field is nil here, or the old component was stopped first", "a field that holds a running component is overwritten while it may point to one that is running: the old component is never stopped - Stop only reaches the new one, so the old one's goroutine outlives the processor (a health monitor keeps probing the stopped service's backends and flipping host health)")
			})
		}
	}
	if n == 0 {
		c.OK(rule, "no component field is overwritten outside constructors", token.NoPos, "")
	}
}

// checkStartAlwaysServes (C09.R14): listener.Stop waits for the latch that only Serve closes. The goroutine a
// processor starts for its listener therefore calls Serve on every path - a start that waits for something else
// first and gives up when the processor is stopped leaves Stop waiting for ever.
func checkStartAlwaysServes(c *Ctx, rule string) {
	p := c.P
	n := 0
	for _, rel := range []string{"proc/redis", "proc/tcp"} {
		for _, fn := range p.FuncsIn(rel) {
			if p.isTestFn(fn) || fn.Name() != "Start" || fn.Signature.Recv() == nil {
				continue
			}
			cands := withAnon(fn)[1:]
			eachInstr(fn, func(_ *ssa.BasicBlock, _ int, in ssa.Instruction) {
				if gi, ok := in.(*ssa.Go); ok {
					if g, _ := methodCall(&gi.Call); g != nil && g.Blocks != nil && isModFn(g) {
						cands = append(cands, g)
					}
				}
			})
			for _, g := range cands {
				isServe := func(in ssa.Instruction) bool {
					cc := callOf(in)
					if cc == nil {
						return false
					}
					if cc.IsInvoke() && cc.Method.Name() == "Serve" && strings.HasSuffix(types.TypeString(cc.Value.Type(), nil), "proc.Listener") {
						return true
					}
					return false
				}
				has := false
				eachInstr(g, func(_ *ssa.BasicBlock, _ int, in ssa.Instruction) {
					if isServe(in) {
						has = true
					}
				})
				if !has {
					continue
				}
				n++
				path := findPath(entryPos(g), pathQuery{target: isReturn, avoid: isServe})
				c.Check(path == nil, rule, fmt.Sprintf("%s serves its listener on every path", fnKey(g)), g.Pos(), "every path of the goroutine calls Listener.Serve", "the goroutine started for the listener can return without calling Serve ("+p.pathString(path)+"): Listener.Stop waits for the latch only Serve closes, so stopping the processor at that point - before the condition the start waits for - never returns")
			}
		}
	}
	if n == 0 {
		c.Unresolved(rule, "no Start method runs Listener.Serve in a goroutine")
	}
}
