package main

import (
	"fmt"
	"go/token"
	"go/types"
	"sort"
	"strings"

	"golang.org/x/tools/go/ssa"
)

func init() {
	register(&propDef{
		id: "C03",
		li: levelInfo{
			Level:       "other",
			Explanation: "Static necessary conditions of single-server equivalence on a stable cluster. R1 (routing-key agreement): at every call of MakeRequest(key, req) the key is Array[p].Text of the body of the very request that is passed, with p the key position of that handler kind (1 for simple, sum-result and split children, 3 for EVAL); every name routed by a generic handler has first-key position 1 in the Redis <= 5.0 reference. R2: split/assemble agreement (shared with C01.R3). R3 (who-may-write): the only functions that write into an existing RESP value (its fields, its array elements or the bytes of its text) are the compression filter and the SCAN cursor rewrite - nothing else can alter relayed bytes. R4 (routing-table fill): CLUSTER NODES fields are read at positions 0 / 1 / 3 / 8+, only master lines receive slots, replicas are removed from the returned map, slot ranges are expanded inclusively, a refresh rewrites every listed slot with the parsed instance under the range guard and nothing else writes the table. R5: no alias of the read buffer escapes (shared with C10.R2). R6 (owner first): the key->slot function equals the Redis Cluster specification - the C12 obligations (CRC table and step by GF(2)-affine interpretation, fold order, hash-tag decision tree over the four orderings, routing index crc16(hashtag(key))&16383) are re-evaluated here. R7 (pipeline order): a request stays on the goroutine that read it until it is enqueued on a backend queue - no go statement carries a request into code that can enqueue it. Reply equivalence for all programs is value-level and is not decided. R8 (shared with C11.R4): the decoder nesting counter is balanced on every path, so no sequence of replies makes a later one fail. R9 (shared with C10.R9): no RESP text is replaced by a copy made with an idiom that turns empty into nil or nil into empty (append(empty, t...), []byte(string(t)), make+copy) unless under a test of the source. R10 (shared with C04.R1): only error replies are classified as redirections. R11 (shared with C13.R12): the decompression hook is registered only with a compression section. R4 also forbids substring tests on columns of a CLUSTER NODES line. R4 also: the parser rejects a whole view only for a short line, an address without host:port shape, or an error of a callee. R4 also: every non-empty line of CLUSTER NODES yields a node (no skip that depends on a column).",
			Assumptions: []string{"Redis <= 5.0 command table and CLUSTER NODES line format embedded as references"},
			TrustedBase: []string{"go/ssa", "VTA call graph", "embedded references"},
		},
		run: checkC03,
	})
	techniques["C03"] = "static analysis: access-path equality between routing key and request body, who-may-write over all stores into RESP values, constant field positions and loop forms of the CLUSTER NODES parser"
}

func checkC03(c *Ctx) {
	p := c.P
	c.Rule("R1", "routing key is the request's own key argument (position by handler kind)")
	c.Rule("R2", "split/assemble agreement")
	c.Rule("R3", "payload writers: only the compression filter and the SCAN cursor rewrite write into existing RESP values")
	c.Rule("R4", "routing table fill: CLUSTER NODES field positions, master-only slots, inclusive ranges, full rewrite, single writer")
	c.Rule("R5", "no alias of the read buffer escapes into a value")
	c.Rule("R6", "owner first: the key->slot function is the Redis Cluster one (the C12 obligations O1-O5 re-evaluated: CRC table and step, fold, hash-tag decision tree, routing index)")

	mr := p.Func(redisPkg, "(*upstream).MakeRequest")
	if mr == nil {
		c.Unresolved("R1", "upstream.MakeRequest")
		return
	}
	_ = map[string]string{
		"(*" + modPath + "/" + redisPkg + ".rawRequest).Body":    "body",
		"(*" + modPath + "/" + redisPkg + ".simpleRequest).Body": "body",
		"ctor:" + modPath + "/" + redisPkg + ".newSimpleRequest": "body",
		"ctor:" + modPath + "/" + redisPkg + ".newRawRequest":    "body",
	}
	// ---------------- R1
	// key position by handler kind: a function bound (in the handler table) to EVAL/EVALSHA routes by argument 3,
	// every other keyed command by argument 1
	bindsR1, _ := handlerTable(c, "R1")
	keyPosOf := func(fn *ssa.Function) int64 {
		for _, b := range bindsR1 {
			if b.fn == fn && (b.name == "eval" || b.name == "evalsha") {
				return 3
			}
		}
		return 1
	}
	nCall := 0
	for _, ed := range p.callersOf(mr) {
		nCall++
		fn := ed.Caller.Func
		args := ed.Site.Common().Args
		key, req := args[1], args[2]
		site := fmt.Sprintf("MakeRequest in %s", fnKey(fn))
		pos := keyPosOf(fn)
		// key = B.Array[p].Text with B the body of the request that is passed
		okKey, why := false, "the key is not of the form body.Array[p].Text"
		if ld, ok := key.(*ssa.UnOp); ok && ld.Op == token.MUL {
			if fa, ok := ld.X.(*ssa.FieldAddr); ok {
				if f, base := fieldAddr(fa); f != nil && f.Name() == "Text" {
					if ia, ok := base.(*ssa.IndexAddr); ok {
						pk, isC := constInt(ia.Index)
						af, b := loadedField(ia.X)
						// the position may be a parameter of a shared helper: every caller passes the constant of its kind
						viaParam := ""
						if prm, isP := ia.Index.(*ssa.Parameter); isP && !isC && prm.Parent() == fn {
							idx := paramIndex(fn, prm)
							edges := p.callersOf(fn)
							isC = len(edges) > 0
							for _, ce := range edges {
								if p.isTestFn(ce.Caller.Func) {
									continue
								}
								ca := ce.Site.Common().Args
								k, okk := int64(0), false
								if idx < len(ca) {
									k, okk = constInt(ca[idx])
								}
								if !okk {
									isC = false
									continue
								}
								if want := keyPosOf(ce.Caller.Func); k != want {
									viaParam = fmt.Sprintf("%s passes key position %d, the key of its kind of command is argument %d", fnKey(ce.Caller.Func), k, want)
								}
							}
							pk, pos = 0, 0 // compared per caller above
						}
						if af != nil && af.Name() == "Array" && isC {
							// b is the body value: Body(R) or a variable holding it
							var bodyOf ssa.Value // request whose body it is
							if cl, ok := b.(*ssa.Call); ok {
								if g := calleeFn(cl.Common()); g != nil && g.Name() == "Body" {
									bodyOf = cl.Call.Args[0]
								}
							}
							same := false
							if bodyOf != nil && resolveCell(bodyOf) == resolveCell(req) {
								same = true
							}
							if cl, ok := req.(*ssa.Call); ok {
								if g := calleeFn(cl.Common()); g != nil && g.Name() == "newSimpleRequest" && cl.Call.Args[0] == b {
									same = true
								}
							}
							switch {
							case !same:
								why = "the key is taken from the body of another request than the one that is sent"
							case viaParam != "":
								why = viaParam
							case pk != pos:
								why = fmt.Sprintf("the key is argument %d, the key of this kind of command is argument %d", pk, pos)
							default:
								okKey = true
								why = fmt.Sprintf("key = body.Array[%d].Text of the request that is sent", pk)
							}
						}
					}
				}
			}
		}
		if okKey {
			c.OK("R1", site, ed.Pos(), why)
		} else {
			c.Fail("R1", site, ed.Pos(), why+": the command is routed by other bytes than its own key and is answered MOVED (or all children of a split go to the node of one key)")
		}
	}
	c.Check(nCall >= 2, "R1", "MakeRequest call sites", mr.Pos(), fmt.Sprintf("%d sites", nCall), "no keyed call site of MakeRequest")
	// generic handler names have first key 1 (C14.R1 checks the same table; repeated here because R1 relies on it)
	binds, _ := handlerTable(c, "R1")
	byFn := map[*ssa.Function][]string{}
	for _, b := range binds {
		byFn[b.fn] = append(byFn[b.fn], b.name)
	}
	for fn, names := range byFn {
		if len(names) < 2 {
			continue
		}
		sort.Strings(names)
		bad := []string{}
		for _, n := range names {
			if ref, ok := redisRef[n]; !ok || ref.firstKey != 1 {
				bad = append(bad, n)
			}
		}
		c.Check(len(bad) == 0, "R1", "first-key position of names bound to "+fn.Name(), fn.Pos(), fmt.Sprintf("%d names, all with first key at argument 1", len(names)), "commands "+strings.Join(bad, ",")+" do not have their first key at argument 1 but are routed by argument 1")
	}
	c.Expect("R1", 4)

	// ---------------- R2
	checkSplitAssemble(c, "R2")

	// ---------------- R3
	// by role: the compression filter (any of its methods and their closures) rewrites values (C13), the SCAN
	// request rewrites its cursor (C18.R4)
	allowedRecv := map[string]string{
		"compressFilter": "the compression filter replaces a value by header+stream and back (C13)",
		"scanRequest":    "the SCAN request rewrites the cursor argument and the cursor element of the reply (C18.R4)",
	}
	allowed := map[string]string{}
	for _, fn := range p.SrcFns {
		t := topFn(fn)
		if t.Signature.Recv() == nil || !isModFn(fn) {
			continue
		}
		if n := namedOf(t.Signature.Recv().Type()); n != nil && n.Obj().Pkg() != nil && n.Obj().Pkg().Path() == modPath+"/"+redisPkg {
			if why, ok := allowedRecv[n.Obj().Name()]; ok {
				allowed[fnKey(fn)] = why
			}
		}
	}
	nW := 0
	for _, fn := range p.SrcFns {
		if p.isTestFn(fn) || !isModFn(fn) {
			continue
		}
		perFn := 0
		eachInstr(fn, func(_ *ssa.BasicBlock, _ int, in ssa.Instruction) {
			what := ""
			switch x := in.(type) {
			case *ssa.Store:
				if f, base := fieldAddr(x.Addr); f != nil && modType(base.Type(), redisPkg, "RespValue") && !isFreshAlloc(base) && !freshElem(base) {
					what = "field " + f.Name()
				}
				if ia, ok := x.Addr.(*ssa.IndexAddr); ok {
					if sl, ok := ia.X.Type().Underlying().(*types.Slice); ok && modType(sl.Elem(), redisPkg, "RespValue") && !freshSlice(ia.X) {
						what = "array element"
					}
					// byte of a Text
					if f, _ := loadedField(ia.X); f != nil && f.Name() == "Text" {
						what = "byte of Text"
					}
				}
			case *ssa.Call:
				if isBuiltin(x, "copy") {
					dst := x.Call.Args[0]
					if derives(dst, func(v ssa.Value) bool {
						f, b := loadedField(v)
						return f != nil && f.Name() == "Text" && modType(b.Type(), redisPkg, "RespValue")
					}) {
						what = "bytes of Text (copy)"
					}
					// copy into a []byte parameter that callers fill with a value's Text
					if prm, ok := dst.(*ssa.Parameter); ok && fnPkg(fn) != nil && fnPkg(fn).Pkg.Path() == modPath+"/"+redisPkg {
						for _, ed := range p.callersOf(fn) {
							idx := paramIndex(fn, prm)
							if idx < len(ed.Site.Common().Args) {
								a := ed.Site.Common().Args[idx]
								if derives(a, func(v ssa.Value) bool {
									f, _ := loadedField(v)
									if f != nil && f.Name() == "Text" {
										return true
									}
									f2, _ := loadedField(v)
									return f2 != nil && f2.Name() == "Text"
								}) || derives(a, func(v ssa.Value) bool {
									fl, ok := v.(*ssa.Field)
									return ok && fl.X.Type().Underlying().(*types.Struct).Field(fl.Field).Name() == "Text"
								}) {
									what = "bytes of a value's Text (copy into parameter)"
								}
							}
						}
					}
				}
			}
			if what == "" {
				return
			}
			nW++
			perFn++
			site := fmt.Sprintf("write#%d into an existing RESP value in %s", perFn, fnKey(fn))
			if why, ok := allowed[fnKey(fn)]; ok {
				c.OK("R3", site, in.Pos(), what+": "+why)
			} else {
				c.Fail("R3", site, in.Pos(), what+" of a RESP value that already exists is modified here: keys, arguments or values are no longer relayed byte-for-byte (only the compression filter and the SCAN cursor rewrite may do that)")
			}
		})
	}
	c.Check(nW >= 3, "R3", "payload writers found", token.NoPos, fmt.Sprintf("%d write sites", nW), "the known payload writers (compression, SCAN rewrite) were not found: the rule would pass vacuously")

	// ---------------- R4
	checkClusterNodesParser(c, "R4")
	checkSlotFill(c, "R4")
	// single writer of the table
	if slotsF := p.Field(redisPkg, "upstream", "slots"); slotsF != nil {
		writers := map[string]bool{}
		for _, a := range p.fieldAccesses(slotsF) {
			if a.Write {
				writers[fnKey(a.Fn)] = true
			}
		}
		var ws []string
		for w := range writers {
			ws = append(ws, w)
		}
		sort.Strings(ws)
		c.Check(len(ws) == 1, "R4", "single writer of the routing table", slotsF.Pos(), strings.Join(ws, ","), "the routing table is written by "+strings.Join(ws, ", ")+": a second writer can clear or overwrite entries while requests are being routed")
	}
	c.Expect("R4", 9)

	// ---------------- R5
	checkReadBufferAlias(c, "R5")

	// ---------------- R7
	c.Rule("R7", "pipeline order: no go statement hands a request to code that can enqueue it on a request queue")
	checkNoRequestGoroutine(c, "R7")

	c.Rule("R9", "replies are relayed byte for byte: a multi-key reply is assembled from the children's replies without a copy that turns an empty string into the null bulk or back (shared with C10.R9)")
	checkTextNilness(c, "R9")
	c.Rule("R11", "a service without a compression section relays values byte for byte (shared with C13.R12): the decompression hook is registered only when a compression configuration exists")
	checkDecompressOnlyWhenConfigured(c, "R11")
	c.Rule("R10", "values are relayed as values (shared with C04.R1): the redirect / cluster-down classification of a backend reply is applied to error replies only, to the first word of the error text, case-insensitively")
	c.withAlias(map[string]string{"R1": "R10", "R2": "", "R3": "", "R4": "", "R5": "", "R6": "", "R7": "", "R8": "", "R9": "", "R10": "", "R11": ""}, func() { checkC04(c) })
	c.Rule("R8", "every reply shape is relayed, one message after the other: the decoder's nesting counter is balanced on every path (shared with C11.R4), so no sequence of replies (null arrays included) makes a later well-formed reply fail")
	c.withAlias(map[string]string{"R4": "R8"}, func() { checkRecursion(c, inputCone(p)) })

	// ---------------- R6
	exh, had := c.Extra["exhaustive"]
	c.withAlias(map[string]string{"O1": "R6", "O2": "R6", "O3": "R6", "O4": "R6", "O5": "R6"}, func() { checkC12(c) })
	if had {
		c.Extra["exhaustive"] = exh
	} else {
		delete(c.Extra, "exhaustive")
	}
}

func freshSlice(v ssa.Value) bool {
	switch x := v.(type) {
	case *ssa.MakeSlice:
		return true
	case *ssa.Slice:
		_, ok := x.X.(*ssa.Alloc)
		return ok
	case *ssa.Phi:
		for _, e := range x.Edges {
			if !freshSlice(e) {
				return false
			}
		}
		return true
	case *ssa.Call:
		return isBuiltin(x, "append") && freshSlice(x.Call.Args[0])
	}
	return false
}

// freshElem: base is an element/cell of a freshly made slice or local copy (range variable).
func freshElem(base ssa.Value) bool {
	switch x := base.(type) {
	case *ssa.IndexAddr:
		if _, isAlloc := x.X.(*ssa.Alloc); isAlloc {
			return true // cell of an array literal being built
		}
		return freshSlice(x.X)
	case *ssa.Alloc:
		return true
	}
	return false
}

// checkClusterNodesParser: field positions and loop forms of the CLUSTER NODES parser.
func checkClusterNodesParser(c *Ctx, rule string) {
	p := c.P
	fn := p.Func(redisPkg, "parseClusterNodes")
	sl := p.Func(redisPkg, "parseClusterNodesSlot")
	if fn == nil || sl == nil {
		c.Unresolved(rule, "parseClusterNodes / parseClusterNodesSlot")
		return
	}
	// fields := strings.Fields(line)
	// (the per-line work may live in a helper of the parser)
	var fields ssa.Value
	host := fn
	for _, pf := range append([]*ssa.Function{fn}, staticCalleesDeep(fn, 2)...) {
		if fields != nil || pf.Blocks == nil || !isModFn(pf) {
			continue
		}
		eachInstr(pf, func(_ *ssa.BasicBlock, _ int, in ssa.Instruction) {
			if call, ok := in.(*ssa.Call); ok && isCallTo(call, "strings.Fields") {
				fields, host = call, pf
			}
		})
	}
	if fields == nil {
		c.Undecided(rule, "CLUSTER NODES fields", fn.Pos(), "the parser does not split lines into fields with strings.Fields")
		return
	}
	// columns are compared as whole tokens: no substring test on a column of the line - the flags column is a
	// comma-separated list in which "fail?" (suspected by one node, still serving) contains "fail", and "myself,master"
	// contains "master"
	nsub := 0
	for _, pf := range append([]*ssa.Function{fn}, staticCalleesDeep(fn, 2)...) {
		if pf.Blocks == nil || !isModFn(pf) {
			continue
		}
		eachInstr(pf, func(_ *ssa.BasicBlock, _ int, in ssa.Instruction) {
			call, ok := in.(*ssa.Call)
			if !ok || !(isCallTo(call, "strings.Contains") || isCallTo(call, "strings.HasPrefix") || isCallTo(call, "strings.HasSuffix") || isCallTo(call, "strings.Index") || isCallTo(call, "strings.ContainsAny")) {
				return
			}
			fromLine := derivesIP(call.Call.Args[0], func(v ssa.Value) bool {
				if ia, ok := v.(*ssa.IndexAddr); ok && ia.X == fields {
					return true
				}
				return v == fields
			}, 2)
			// a helper that is handed the column: its string parameter
			if !fromLine {
				// a helper that is handed one of the fixed columns (not a slot segment, where "[" and "-" are syntax)
				if prm, isPrm := call.Call.Args[0].(*ssa.Parameter); isPrm && pf != fn && pf != host && isStringVal(prm) {
					idx := paramIndex(pf, prm)
					for _, ed := range p.callersOf(pf) {
						args := ed.Site.Common().Args
						if idx < 0 || idx >= len(args) || p.isTestFn(ed.Caller.Func) {
							continue
						}
						if derivesIP(args[idx], func(v ssa.Value) bool {
							ia, ok := v.(*ssa.IndexAddr)
							if !ok || ia.X != fields {
								return false
							}
							k, isC := constInt(ia.Index)
							return isC && k < 8
						}, 2) {
							fromLine = true
						}
					}
				}
			}
			if fromLine {
				nsub++
				c.Fail(rule, fmt.Sprintf("%s column test#%d is a whole-token comparison", fnKey(pf), nsub), call.Pos(), "a column of a CLUSTER NODES line is tested with a substring function: the flags column is a comma-separated list, so a test for \"fail\" also matches \"fail?\" (a master that one node merely suspects, still the owner of its slots) - that owner is dropped from the view, its slots are never written and every request for them is redirected in every round")
			}
		})
	}
	// the field positions may be read by a helper that receives the split line: follow the fields value into it
	ffn := host
	eachInstr(host, func(_ *ssa.BasicBlock, _ int, in ssa.Instruction) {
		call, ok := in.(*ssa.Call)
		if !ok || ffn != host {
			return
		}
		g := calleeFn(call.Common())
		if g == nil || !isModFn(g) || g.Blocks == nil {
			return
		}
		for ai, a := range call.Call.Args {
			if a != fields || ai >= len(g.Params) {
				continue
			}
			indexes := false
			for _, r := range *g.Params[ai].Referrers() {
				if _, isIA := r.(*ssa.IndexAddr); isIA {
					indexes = true
				}
			}
			if indexes {
				ffn, fields = g, g.Params[ai]
			}
		}
	})
	used := map[int64]string{}
	roleIdx := map[string]map[int64]bool{}
	var slotArgLow int64 = -1
	eachInstr(ffn, func(_ *ssa.BasicBlock, _ int, in ssa.Instruction) {
		switch x := in.(type) {
		case *ssa.IndexAddr:
			if x.X != fields {
				return
			}
			k, isC := constInt(x.Index)
			if !isC {
				return
			}
			// classify by what the loaded value flows into
			for _, r := range *x.Referrers() {
				ld, ok := r.(*ssa.UnOp)
				if !ok {
					continue
				}
				for _, u := range *ld.Referrers() {
					switch y := u.(type) {
					case *ssa.Store:
						if f, _ := fieldAddr(y.Addr); f != nil {
							used[k] = f.Name()
						}
					case *ssa.BinOp:
						if s, isS := constString(y.Y); isS && s == "-" {
							used[k] = "master-flag"
						}
					case *ssa.Call:
						if isCallTo(y, "strings.Split") {
							used[k] = "addr"
						}
					case *ssa.MapUpdate:
						used[k] = "id-key"
					}
				}
			}
		case *ssa.Slice:
			if x.X == fields && x.Low != nil && x.High == nil {
				slotArgLow, _ = constInt(x.Low)
			}
		}
	})
	for k, r := range used {
		if roleIdx[r] == nil {
			roleIdx[r] = map[int64]bool{}
		}
		roleIdx[r][k] = true
	}
	// every store of a parsed column into an instance field comes from the column the format defines
	colOf := map[string]int64{"ID": 0, "MasterID": 3}
	eachInstr(ffn, func(_ *ssa.BasicBlock, _ int, in ssa.Instruction) {
		st, ok := in.(*ssa.Store)
		if !ok {
			return
		}
		f, base := fieldAddr(st.Addr)
		if f == nil || !modType(base.Type(), redisPkg, "instance") {
			return
		}
		wantCol, tracked := colOf[f.Name()]
		if !tracked {
			return
		}
		ld, ok := st.Val.(*ssa.UnOp)
		if !ok {
			return
		}
		ia, ok := ld.X.(*ssa.IndexAddr)
		if !ok || ia.X != fields {
			return
		}
		k, _ := constInt(ia.Index)
		c.Check(k == wantCol, rule, "instance."+f.Name()+" column", st.Pos(), fmt.Sprintf("taken from field %d", k), fmt.Sprintf("instance.%s is taken from field %d of the CLUSTER NODES line, the format has it in field %d", f.Name(), k, wantCol))
	})
	want := map[int64][]string{0: {"ID", "id-key"}, 1: {"addr"}, 3: {"master-flag", "MasterID"}}
	for k, roles := range want {
		got := used[k]
		ok := false
		for _, r := range roles {
			if got == r {
				ok = true
			}
		}
		c.Check(ok, rule, fmt.Sprintf("CLUSTER NODES field %d", k), fn.Pos(), fmt.Sprintf("field %d is used as %s", k, got), fmt.Sprintf("field %d of a CLUSTER NODES line is used as %q, the format has %v there: node id, address or master id are taken from the wrong column", k, got, roles))
	}
	c.Check(slotArgLow == 8, rule, "slots start at field 8", fn.Pos(), "fields[8:]", fmt.Sprintf("slots are parsed from field %d on; the CLUSTER NODES format lists them from field 8", slotArgLow))
	// which line lengths are rejected: a CLUSTER NODES line has 8 mandatory fields; the slot columns are optional - a
	// master that owns no slot (a node that has just joined, a drained or failed-over master) has exactly 8
	badLen, badAt := int64(-1), token.NoPos
	eachInstr(ffn, func(_ *ssa.BasicBlock, _ int, in ssa.Instruction) {
		bo, ok := in.(*ssa.BinOp)
		if !ok {
			return
		}
		lc, ok := bo.X.(*ssa.Call)
		if !ok || !isBuiltin(lc, "len") || lc.Call.Args[0] != fields {
			return
		}
		k, isC := constInt(bo.Y)
		if !isC {
			return
		}
		// the edge of this comparison that leads (only) to an error return
		for _, r := range *bo.Referrers() {
			iff, ok := r.(*ssa.If)
			if !ok {
				continue
			}
			for side, succ := range iff.Block().Succs {
				rejects := false
				if len(succ.Preds) == 1 {
					if ret, ok := succ.Instrs[len(succ.Instrs)-1].(*ssa.Return); ok && len(ret.Results) == 2 && !isNilConst(returnedValues(ret)[1]) {
						rejects = true
					}
				}
				if !rejects {
					continue
				}
				for L := int64(1); L <= 12; L++ {
					var v bool
					switch bo.Op {
					case token.LSS:
						v = L < k
					case token.LEQ:
						v = L <= k
					case token.GTR:
						v = L > k
					case token.GEQ:
						v = L >= k
					case token.EQL:
						v = L == k
					case token.NEQ:
						v = L != k
					default:
						continue
					}
					if (side == 0) == v && L >= 8 && badLen < 0 {
						badLen, badAt = L, bo.Pos()
					}
				}
			}
		}
	})
	c.Check(badLen < 0, rule, "only lines shorter than the 8 mandatory fields are rejected", badAt, "no length test rejects a line with 8 or more fields", fmt.Sprintf("a line with %d fields is rejected: a master that owns no slots (a node that has just joined, a drained or failed-over master) has exactly 8 fields, and the error fails the whole refresh - the routing table is never loaded or updated while such a node exists", badLen))
	// only master lines get slots: the call to the slot parser is dominated by field3 == "-"
	var slotCall *ssa.Call
	eachInstr(ffn, func(_ *ssa.BasicBlock, _ int, in ssa.Instruction) {
		if call, ok := in.(*ssa.Call); ok && isCallToFn(call, sl) {
			slotCall = call
		}
	})
	okMaster := false
	if slotCall != nil {
		eachInstr(ffn, func(_ *ssa.BasicBlock, _ int, in ssa.Instruction) {
			bo, ok := in.(*ssa.BinOp)
			if !ok || (bo.Op != token.EQL && bo.Op != token.NEQ) {
				return
			}
			if s, isS := constString(bo.Y); !isS || s != "-" {
				return
			}
			if condEdge(slotCall.Block(), bo, bo.Op == token.EQL) {
				okMaster = true
			}
			if bo.Op != token.EQL {
				return
			}
			// `isMaster := ...; if !isMaster {continue}` form: the If tests the comparison
			for _, r := range *bo.Referrers() {
				if iff, ok := r.(*ssa.If); ok {
					if s := iff.Block().Succs[0]; len(s.Preds) == 1 && (s == slotCall.Block() || s.Dominates(slotCall.Block())) {
						okMaster = true
					}
				}
			}
		})
	}
	c.Check(okMaster, rule, "only master lines receive slots", fn.Pos(), "slot parsing dominated by master-field == \"-\"", "slots are attached to lines that are not master lines")
	// replicas are deleted from the returned map: after a replica is attached to its master, every path to the next
	// iteration deletes it from the map
	replF := p.Field(redisPkg, "instance", "Replicas")
	nAtt := 0
	for _, rfn := range append([]*ssa.Function{fn}, staticCalleesDeep(fn, 1)...) {
		if rfn.Pkg == nil || rfn.Pkg.Pkg.Path() != modPath+"/"+redisPkg {
			continue
		}
		eachInstr(rfn, func(b *ssa.BasicBlock, _ int, in ssa.Instruction) {
			st, ok := in.(*ssa.Store)
			if !ok {
				return
			}
			if f, _ := fieldAddr(st.Addr); f != replF {
				return
			}
			nAtt++
			path := findPath(posOf(in), pathQuery{target: func(x ssa.Instruction) bool {
				_, isNext := x.(*ssa.Next)
				return isNext || isReturn(x)
			}, avoid: func(x ssa.Instruction) bool { return isBuiltin(x, "delete") }})
			c.Check(path == nil, rule, "replicas removed from the returned map", st.Pos(), "delete(insts, replica id) follows the attach on every path", "a replica stays in the map that fills the routing table: its (empty) slot list is harmless, but it is returned as if it were a master")
		})
	}
	if nAtt == 0 {
		c.Fail(rule, "replicas attached", fn.Pos(), "replicas are never attached to their master")
	}
	// inclusive range: for i := start; i <= end; i++
	okIncl := false
	for _, h := range loopHeaders(sl) {
		iff, ok := h.Instrs[len(h.Instrs)-1].(*ssa.If)
		if !ok {
			continue
		}
		cmp, ok := iff.Cond.(*ssa.BinOp)
		if !ok {
			continue
		}
		ph, isPhi := cmp.X.(*ssa.Phi)
		if !isPhi {
			continue
		}
		isAtoi := func(v ssa.Value) bool {
			return derivesIP(v, func(y ssa.Value) bool { cl, ok := y.(*ssa.Call); return ok && isCallTo(cl, "strconv.Atoi") }, 2)
		}
		if !isAtoi(cmp.Y) {
			continue
		}
		startsAtParsed := false
		for k, pred := range h.Preds {
			if !h.Dominates(pred) && isAtoi(ph.Edges[k]) {
				startsAtParsed = true
			}
		}
		if cmp.Op == token.LEQ && startsAtParsed {
			okIncl = true
		} else {
			c.Fail(rule, "slot range expansion", cmp.Pos(), "a range a-b is not expanded inclusively on both ends (loop `i "+cmp.Op.String()+" end`): the last slot of every range is routed to a random seed host")
			return
		}
	}
	c.Check(okIncl, rule, "slot range expansion", sl.Pos(), "for i := start; i <= end; i++", "the slot range loop was not found")
	// every line that has the mandatory fields yields a node: the only line that is skipped is the empty one. A skip
	// that depends on a column - the link-state, say, which describes the bus link of the node that answered, not
	// whether clients can reach the node - drops the new owner from the view after a failover: the refresh succeeds,
	// nothing retries, and the slots keep pointing at the dead master.
	if host == ffn || ffn == fn {
		var fieldsCall ssa.Instruction
		if fc, ok := fields.(ssa.Instruction); ok && fc.Parent() == host {
			fieldsCall = fc
		}
		var nodeStore ssa.Instruction
		eachInstr(host, func(_ *ssa.BasicBlock, _ int, in ssa.Instruction) {
			if mu, ok := in.(*ssa.MapUpdate); ok {
				if m, isMap := mu.Map.Type().Underlying().(*types.Map); isMap {
					if pt, isPtr := m.Elem().(*types.Pointer); isPtr && modType(pt.Elem(), redisPkg, "instance") && nodeStore == nil {
						nodeStore = in
					}
				}
			}
		})
		if fieldsCall != nil && nodeStore != nil && instrDominates(fieldsCall, nodeStore) {
			isEmptyEdge := func(b *ssa.BasicBlock, k int) bool {
				iff, ok := b.Instrs[len(b.Instrs)-1].(*ssa.If)
				if !ok {
					return false
				}
				bo, ok := iff.Cond.(*ssa.BinOp)
				if !ok {
					return false
				}
				lc, ok := bo.X.(*ssa.Call)
				if !ok || !isBuiltin(lc, "len") || lc.Call.Args[0] != fields {
					return false
				}
				z, isC := constInt(bo.Y)
				if !isC || z != 0 {
					return false
				}
				return (bo.Op == token.EQL && k == 0) || (bo.Op == token.NEQ && k == 1)
			}
			skip := findPath(posOf(fieldsCall), pathQuery{target: func(x ssa.Instruction) bool {
				_, isNext := x.(*ssa.Next)
				if isNext {
					return true
				}
				// the loop header of an index loop: reaching the split call again
				return false
			}, avoid: func(x ssa.Instruction) bool { return x == nodeStore || isReturn(x) }, edge: func(b *ssa.BasicBlock, k int) bool {
				return !isEmptyEdge(b, k)
			}})
			// a range over a slice has no Next instruction: look for a path back to the split itself
			if skip == nil {
				skip = findPath(posOf(fieldsCall), pathQuery{target: func(x ssa.Instruction) bool { return x == fieldsCall }, avoid: func(x ssa.Instruction) bool { return x == nodeStore || isReturn(x) }, edge: func(b *ssa.BasicBlock, k int) bool {
					return !isEmptyEdge(b, k)
				}})
			}
			c.Check(skip == nil, rule, "every non-empty line yields a node", fieldsCall.Pos(), "the only line skipped is the empty one", "a line with all mandatory fields can be skipped without an error ("+p.pathString(skip)+"): a node left out because of a column - its link-state as seen by the node that answered, a flag - is missing from the view; after a failover that is the new owner, the refresh succeeds, nothing retries, and its slots keep pointing at the dead master although it is reachable")
		}
	}
	// which lines make the parser give up on the whole view: a line with fewer than the mandatory fields, an address that
	// does not split into host and port, and whatever the slot parser rejects. Every other rejection is a line Redis
	// can print in a healthy cluster - a node whose address was lost is listed as ":0@0 ... noaddr" until somebody runs
	// CLUSTER FORGET - and one such line fails every refresh round, so the table freezes and a later failover is never
	// learned.
	lineFns := []*ssa.Function{fn}
	if host != fn {
		lineFns = append(lineFns, host)
	}
	if ffn != fn && ffn != host {
		lineFns = append(lineFns, ffn)
	}
	whitelisted := func(a condAtom) string {
		if a.cmp == nil {
			return ""
		}
		// the number of fields / the number of parts of a split
		if lc, ok := a.cmp.X.(*ssa.Call); ok && isBuiltin(lc, "len") {
			if _, isC := constInt(a.cmp.Y); isC {
				arg := lc.Call.Args[0]
				if cl, isCall := arg.(*ssa.Call); isCall && isCallTo(cl, "strings.Split", "strings.SplitN", "strings.Fields") {
					return "number of parts"
				}
				if _, isPrm := arg.(*ssa.Parameter); isPrm {
					return "number of fields"
				}
			}
		}
		// the error of a helper or of a conversion
		if isNilConst(a.cmp.Y) && (a.cmp.Op == token.NEQ) == a.truth {
			if ex, ok := a.cmp.X.(*ssa.Extract); ok {
				if _, isCall := ex.Tuple.(*ssa.Call); isCall {
					return "error of a callee"
				}
			}
			if _, isCall := a.cmp.X.(*ssa.Call); isCall {
				return "error of a callee"
			}
		}
		return ""
	}
	nrej := 0
	for _, lf := range lineFns {
		eachInstr(lf, func(b *ssa.BasicBlock, _ int, in ssa.Instruction) {
			ret, ok := in.(*ssa.Return)
			if !ok || len(ret.Results) == 0 {
				return
			}
			vals := returnedValues(ret)
			errV := vals[len(vals)-1]
			if _, isErr := errV.Type().Underlying().(*types.Interface); !isErr || isNilConst(errV) {
				return
			}
			nrej++
			site := fmt.Sprintf("%s rejection#%d has a reason the format allows", fnKey(lf), nrej)
			// every way into the rejecting block is decided by a whitelisted comparison
			edgeOK := func(atoms []condAtom) bool {
				for _, a := range atoms {
					if whitelisted(a) != "" {
						return true
					}
				}
				return false
			}
			// the comparison that decides each way into the rejecting block
			okAll := len(b.Preds) > 0
			for _, pred := range b.Preds {
				var atoms []condAtom
				if iff, isIf := pred.Instrs[len(pred.Instrs)-1].(*ssa.If); isIf && pred.Succs[0] != pred.Succs[1] {
					for k := 0; k < 2; k++ {
						if pred.Succs[k] == b {
							atoms = append(atoms, impliedAtoms2(iff.Cond, k == 0, 0, false)...)
						}
					}
				}
				if !edgeOK(atoms) {
					okAll = false
				}
			}
			c.Check(okAll, rule, site, ret.Pos(), "too few fields, an address without host:port shape, or the error of the slot parser", "the parser gives up on the whole cluster view for a line that Redis prints in a healthy cluster (the test that leads here is neither the field count, nor the host:port split, nor an error of a callee) - e.g. a node whose address was lost is listed as \":0@0 ... noaddr\" until CLUSTER FORGET: every refresh round then fails, the routing table freezes and a later failover is never learned")
		})
	}
}

// checkNoRequestGoroutine (C03.R7): between being read from a connection and being enqueued on a backend queue a
// request stays on the goroutine that read it. A `go` statement that carries a request value (argument or captured
// variable) into code that can enqueue on a request queue makes the order in which a pipeline reaches the backend
// depend on the scheduler: SET k v; GET k can execute as GET; SET.
func checkNoRequestGoroutine(c *Ctx, rule string) {
	p := c.P
	// functions that contain a send on a channel whose element is a request
	var senders []*ssa.Function
	nsend := 0
	for _, fn := range p.SrcFns {
		if p.isTestFn(fn) || fn.Pkg == nil || fn.Pkg.Pkg.Path() != modPath+"/"+redisPkg {
			continue
		}
		has := false
		eachInstr(fn, func(_ *ssa.BasicBlock, _ int, in ssa.Instruction) {
			switch x := in.(type) {
			case *ssa.Send:
				if ch, ok := x.Chan.Type().Underlying().(*types.Chan); ok && isReqType(ch.Elem()) {
					has = true
				}
			case *ssa.Select:
				for _, st := range x.States {
					if ch, ok := st.Chan.Type().Underlying().(*types.Chan); ok && st.Dir == types.SendOnly && isReqType(ch.Elem()) {
						has = true
					}
				}
			}
		})
		if has {
			nsend++
			senders = append(senders, fn)
		}
	}
	isSender := map[*ssa.Function]bool{}
	for _, f := range senders {
		isSender[f] = true
	}
	carriesReq := func(v ssa.Value) bool {
		t := v.Type()
		if isReqType(t) {
			return true
		}
		if pt, ok := t.Underlying().(*types.Pointer); ok {
			if wrapperHeldField(pt.Elem()) != nil {
				return true
			}
			// a captured variable cell holding a request
			if isReqType(pt.Elem()) {
				return true
			}
		}
		return false
	}
	ngo := 0
	perFn := map[*ssa.Function]int{}
	for _, fn := range p.SrcFns {
		if p.isTestFn(fn) || fn.Pkg == nil || fn.Pkg.Pkg.Path() != modPath+"/"+redisPkg {
			continue
		}
		eachInstr(fn, func(_ *ssa.BasicBlock, _ int, in ssa.Instruction) {
			g, ok := in.(*ssa.Go)
			if !ok {
				return
			}
			ngo++
			perFn[fn]++
			site := fmt.Sprintf("go statement #%d in %s", perFn[fn], fnKey(fn))
			var vals []ssa.Value
			vals = append(vals, g.Call.Args...)
			if mc, ok := g.Call.Value.(*ssa.MakeClosure); ok {
				vals = append(vals, mc.Bindings...)
			}
			carried := ""
			for _, v := range vals {
				if carriesReq(v) {
					carried = v.Name()
					if v.Type() != nil {
						carried = types.TypeString(v.Type(), func(*types.Package) string { return "" })
					}
				}
			}
			if carried == "" {
				c.OK(rule, site, in.Pos(), "carries no request value")
				return
			}
			var roots []*ssa.Function
			for _, h := range p.callees(g) {
				roots = append(roots, h)
			}
			reach := p.reachable(roots, nil)
			bad := ""
			for f := range reach {
				if isSender[f] {
					bad = fnKey(f)
				}
			}
			if bad == "" {
				c.OK(rule, site, in.Pos(), "the spawned code cannot enqueue on a request queue")
			} else {
				c.Fail(rule, site, in.Pos(), "a request ("+carried+") is handed to a new goroutine which can enqueue it on a request queue ("+bad+"): the order in which the requests of one connection reach a backend then depends on the scheduler, so a pipeline no longer executes in the order it was sent")
			}
		})
	}
	if nsend == 0 {
		c.Unresolved(rule, "no send on a request queue found")
	}
	c.Expect(rule, 5)
}
