package main

import (
	"fmt"
	"go/token"
	"go/types"
	"sort"
	"strings"

	"golang.org/x/tools/go/ssa"
)

func init() {
	register(&propDef{
		id: "C05",
		li: levelInfo{
			Level:       "other",
			Explanation: "Static wiring rules for the TCP relay; each is a necessary condition of byte-exact relaying. R1: the handler calls the pipe function exactly twice with the same two connection values in opposite roles, one of them in its own goroutine, and nothing else in proc/tcp reads from or writes to either connection. R2: inside the pipe function the value that is the writer argument of the copy is the one given to closeWrite and the reader argument the one given to closeRead; a full Close happens only on the error branch of the corresponding half-close. R3: pooled buffer typestate - every buffer handed to the copy is either the caller's or the direct result of getBuffer(); only a buffer obtained from getBuffer() in the same function is put back, after the copy, exactly once, and it does not escape. R4: every return of the handler after the upstream dial succeeded crosses the receive on the channel the second direction closes. R5: the connection wrapper's Read/Write return exactly the n and err of the underlying call made with the caller's own slice, Read touches only the read deadline and Write only the write deadline. Byte equality under all chunkings is the contract of io.CopyBuffer and the kernel and is not decided. R6: every call on a network connection in the data-path packages is classified; no socket option that discards queued data on close (SO_LINGER >= 0). R5 also: with a positive timeout every path to the underlying Read/Write renews its deadline. R7: no goroutine started in a loop captures a variable declared outside the loop and assigned inside it. R8 (shared with C06.R1/R5): the host whose removal closes the session is the host every dial of the session goes to. R9: no value of a type implementing net.Conn is put into a sync.Pool. The second relay direction may be a closure or a method started with go. R10: every module type that embeds net.Conn declares CloseWrite and CloseRead. R6 also forbids TCP_USER_TIMEOUT on relayed connections. R6 also: deadline setters on connections are called only inside the timed wrapper. R8 also requires every store into the healthy-hosts cache to happen under the set's write lock. Relay calls are recognised through method values.",
			Assumptions: []string{"io.CopyBuffer relays bytes unmodified and in order"},
			TrustedBase: []string{"go/ssa"},
		},
		run: checkC05,
	})
	techniques["C05"] = "static analysis: value-identity (role agreement), typestate of the pooled buffer, must-pass-through on the SSA CFG"
}

func checkC05(c *Ctx) {
	p := c.P
	c.Rule("R1", "both directions wired: two pipe calls with swapped roles, one in a goroutine; no other reader/writer of the connections")
	c.Rule("R2", "role agreement: copy's writer gets closeWrite, copy's reader gets closeRead; full Close only on the error branch of the half-close")
	c.Rule("R3", "pooled buffer typestate: get -> copy -> put once; only own buffers are put back; no escape")
	c.Rule("R4", "join before close: every return after a successful dial crosses the join on the second direction")
	c.Rule("R5", "wrapper transparency: Read/Write return the underlying n, err for the caller's slice and touch only their own deadline")
	c.Rule("R6", "no socket option that discards queued data on close (SO_LINGER >= 0) anywhere on the data path")

	hc := p.Func("proc/tcp", "(*tcpProc).HandleConn")
	pipe := p.Func("proc/tcp", "(*tcpProc).pipeConn")
	cpy := p.Func("proc/tcp", "copyBuffer")
	getB := p.Func("proc/tcp", "getBuffer")
	putB := p.Func("proc/tcp", "putBuffer")
	if hc == nil || pipe == nil || cpy == nil || getB == nil || putB == nil {
		c.Unresolved("R1", "tcpProc.HandleConn / pipeConn / copyBuffer / getBuffer / putBuffer")
		return
	}
	// ---------------- R1
	type pcall struct {
		in       ssa.Instruction
		src, dst ssa.Value
		inGo     bool
	}
	var calls []pcall
	for _, fn := range withAnon(hc) {
		eachInstr(fn, func(_ *ssa.BasicBlock, _ int, in ssa.Instruction) {
			if g, args := methodCall(callOf(in)); g == pipe && len(args) == 3 {
				inGo := fn != hc
				if _, isGo := in.(*ssa.Go); isGo {
					inGo = true
				}
				calls = append(calls, pcall{in, cellKey(args[1]), cellKey(args[2]), inGo})
			}
		})
	}
	// a direction started as "go p.method(x, y, ...)" whose body runs the pipe on its parameters
	eachInstr(hc, func(_ *ssa.BasicBlock, _ int, in ssa.Instruction) {
		g, ok := in.(*ssa.Go)
		if !ok {
			return
		}
		f := calleeFn(&g.Call)
		if f == nil || f.Blocks == nil || f == pipe || !isModFn(f) || f.Parent() != nil {
			return
		}
		eachInstr(f, func(_ *ssa.BasicBlock, _ int, x ssa.Instruction) {
			pf, pargs := methodCall(callOf(x))
			if pf != pipe || len(pargs) != 3 {
				return
			}
			cc := &ssa.CallCommon{Args: pargs}
			arg := func(v ssa.Value) ssa.Value {
				if prm, ok := stripConv(v).(*ssa.Parameter); ok {
					if idx := paramIndex(f, prm); idx >= 0 && idx < len(g.Call.Args) {
						return cellKey(g.Call.Args[idx])
					}
				}
				return nil
			}
			calls = append(calls, pcall{in, arg(cc.Args[1]), arg(cc.Args[2]), true})
		})
	})
	if len(calls) != 2 {
		c.Fail("R1", "two relay directions", hc.Pos(), fmt.Sprintf("the handler starts %d relay directions, a TCP session needs exactly two", len(calls)))
	} else {
		a, b := calls[0], calls[1]
		c.Check(a.src != nil && a.src == b.dst && a.dst == b.src && a.src != a.dst, "R1", "opposite roles", a.in.Pos(), "pipe(x,y) and pipe(y,x) on the same two connections", "the two relay calls do not use the same two connections in opposite roles (one direction is missing or duplicated)")
		c.Check(a.inGo != b.inGo, "R1", "one direction in its own goroutine", a.in.Pos(), "one concurrent, one in the handler", "both directions run in the same goroutine (sequentially) or both detached")
	}
	// no other reader/writer on connections in proc/tcp: calls of Read/Write on net.Conn values outside copy
	nrw := 0
	for _, fn := range p.FuncsIn("proc/tcp") {
		if p.isTestFn(fn) {
			continue
		}
		eachInstr(fn, func(_ *ssa.BasicBlock, _ int, in ssa.Instruction) {
			cc := callOf(in)
			if cc == nil || !cc.IsInvoke() {
				return
			}
			if (cc.Method.Name() == "Read" || cc.Method.Name() == "Write") && types.TypeString(cc.Value.Type(), nil) == "net.Conn" {
				nrw++
				c.Fail("R1", fmt.Sprintf("%s direct %s on a connection", fnKey(fn), cc.Method.Name()), in.Pos(), "proc/tcp reads or writes a relayed connection outside the copy: bytes are consumed or injected")
			}
		})
	}
	if nrw == 0 {
		c.OK("R1", "no direct Read/Write on relayed connections in proc/tcp", hc.Pos(), "only io.CopyBuffer touches the streams")
	}
	c.Expect("R1", 3)

	// ---------------- R2 (pipeConn)
	func() {
		var cp *ssa.Call
		eachInstr(pipe, func(_ *ssa.BasicBlock, _ int, in ssa.Instruction) {
			if call, ok := in.(*ssa.Call); ok && (isCallToFn(call, cpy) || isCallTo(call, "io.CopyBuffer", "io.Copy")) {
				cp = call
			}
		})
		if cp == nil {
			c.Fail("R2", "pipe copies", pipe.Pos(), "the pipe function does not copy")
			return
		}
		w, r := stripConv(cp.Call.Args[0]), stripConv(cp.Call.Args[1])
		var cw, cr *ssa.Call
		eachInstr(pipe, func(_ *ssa.BasicBlock, _ int, in ssa.Instruction) {
			if call, ok := in.(*ssa.Call); ok {
				if g := calleeFn(call.Common()); g != nil {
					switch g.Name() {
					case "closeWrite":
						cw = call
					case "closeRead":
						cr = call
					}
				}
			}
		})
		if cw == nil || cr == nil {
			c.Fail("R2", "half-close calls", pipe.Pos(), "the pipe function does not half-close both ends (closeWrite on the writer, closeRead on the reader): the peer never sees end-of-stream, or the opposite direction is cut")
			return
		}
		c.Check(stripConv(cw.Call.Args[0]) == w, "R2", "closeWrite on the copy's writer", cw.Pos(), "same value", "closeWrite is applied to the connection that was read from: the end-of-stream goes to the wrong side and the opposite direction is cut")
		c.Check(stripConv(cr.Call.Args[0]) == r, "R2", "closeRead on the copy's reader", cr.Pos(), "same value", "closeRead is applied to the connection that was written to")
		c.Check(instrDominates(cp, cw) && instrDominates(cp, cr), "R2", "half-close after the copy", cw.Pos(), "both after the copy returned", "a half-close can happen before the copy finished")
		// full Close only on error branch of the corresponding half-close
		eachInstr(pipe, func(b *ssa.BasicBlock, _ int, in ssa.Instruction) {
			cc := callOf(in)
			if cc == nil || !cc.IsInvoke() || cc.Method.Name() != "Close" {
				return
			}
			var hcall *ssa.Call
			if stripConv(cc.Value) == w {
				hcall = cw
			} else if stripConv(cc.Value) == r {
				hcall = cr
			}
			site := fmt.Sprintf("full Close in %s", fnKey(pipe))
			ok := false
			if hcall != nil {
				for _, rr := range *hcall.Referrers() {
					if bo, isBo := rr.(*ssa.BinOp); isBo && bo.Op == token.NEQ && isNilConst(bo.Y) && condEdge(b, bo, true) {
						ok = true
					}
				}
			}
			c.Check(ok, "R2", site, in.Pos(), "only when the half-close of the same connection failed", "a connection is fully closed when one direction ends: data still flowing in the opposite direction is cut")
		})
	}()
	c.Expect("R2", 3)

	// ---------------- R3
	for _, fn := range p.FuncsIn("proc/tcp") {
		if p.isTestFn(fn) {
			continue
		}
		nput := 0
		eachInstr(fn, func(_ *ssa.BasicBlock, _ int, in ssa.Instruction) {
			call, ok := in.(*ssa.Call)
			if !ok || !isCallToFn(call, putB) {
				if d, isD := in.(*ssa.Defer); isD && isCallToFn(d, putB) {
					nput++
					arg := d.Call.Args[0]
					_, own := arg.(*ssa.Call)
					c.Check(own && isCallToFn(arg.(ssa.Instruction), getB), "R3", fmt.Sprintf("%s deferred put#%d returns its own buffer", fnKey(fn), nput), d.Pos(), "the buffer is the direct result of getBuffer() in this function", "a buffer that was not obtained from the pool by this function is put back (a caller-owned or sliced buffer ends up in the pool twice / overlapping)")
				}
				return
			}
			nput++
			site := fmt.Sprintf("%s put#%d", fnKey(fn), nput)
			arg := call.Call.Args[0]
			// `if usePool { buf = getBuffer() } ... if usePool { putBuffer(buf) }`: of the merged values only those that
			// can arrive under the condition of the put count
			if ph, isPhi := arg.(*ssa.Phi); isPhi {
				if es := feasiblePhiEdges(ph, call.Block()); len(es) == 1 {
					arg = es[0]
				}
			}
			gc, own := arg.(*ssa.Call)
			if !own || !isCallToFn(gc, getB) {
				// allow a phi-free local that is exactly the getBuffer result
				c.Fail("R3", site+" returns its own buffer", call.Pos(), "a buffer that is not the direct result of getBuffer() in this function is put back into the pool: caller-owned or sliced buffers make pooled buffers alias each other, and one stream's bytes overwrite another's")
				return
			}
			c.OK("R3", site+" returns its own buffer", call.Pos(), "argument is the getBuffer() result of this function")
			// put after every use as copy buffer; no use after put; no escape
			var uses []ssa.Instruction
			esc := ""
			for _, r := range *gc.Referrers() {
				switch y := r.(type) {
				case *ssa.Call:
					if y == call {
						continue
					}
					if isCallTo(y, "io.CopyBuffer") || isBuiltin(y, "len") {
						uses = append(uses, y)
						continue
					}
					esc = "passed to " + calleeName(y.Common())
				case *ssa.Phi:
					// buf = getBuffer() merged with the caller's buf: uses of the phi
					for _, rr := range *y.Referrers() {
						if cl, ok := rr.(*ssa.Call); ok && cl == call {
							continue
						}
						if cl, ok := rr.(*ssa.Call); ok && (isCallTo(cl, "io.CopyBuffer") || isBuiltin(cl, "len")) {
							uses = append(uses, cl)
						} else if _, isDbg := rr.(*ssa.DebugRef); !isDbg {
							esc = fmt.Sprintf("flows into %T", rr)
						}
					}
				case *ssa.DebugRef:
				default:
					esc = fmt.Sprintf("flows into %T", r)
				}
			}
			c.Check(esc == "", "R3", site+" buffer does not escape", gc.Pos(), "used only by the copy", "the pooled buffer escapes ("+esc+")")
			after := ""
			for _, u := range uses {
				if !instrDominates(u, call) && findPath(posOf(call), pathQuery{target: func(x ssa.Instruction) bool { return x == u }}) != nil {
					after = p.Pos(u.Pos())
				}
			}
			c.Check(after == "", "R3", site+" no use after put", call.Pos(), "every use precedes the put", "the buffer is used by the copy after it was returned to the pool ("+after+")")
			// exactly once: no second put reachable
			twice := findPath(posOf(call), pathQuery{target: func(x ssa.Instruction) bool { return x != ssa.Instruction(call) && isCallToFn(x, putB) }}) != nil
			c.Check(!twice, "R3", site+" put once", call.Pos(), "no second put reachable", "the buffer can be put back twice")
		})
		// buffers handed to io.CopyBuffer: own getBuffer() result or the function's parameter
		eachInstr(fn, func(_ *ssa.BasicBlock, _ int, in ssa.Instruction) {
			call, ok := in.(*ssa.Call)
			if !ok || !isCallTo(call, "io.CopyBuffer") {
				return
			}
			buf := call.Call.Args[2]
			okSrc := derivesOnly(buf, func(v ssa.Value) bool {
				if _, isP := v.(*ssa.Parameter); isP {
					return true
				}
				if cl, isC := v.(*ssa.Call); isC && isCallToFn(cl, getB) {
					return true
				}
				return false
			})
			c.Check(okSrc, "R3", fmt.Sprintf("%s copy buffer source", fnKey(fn)), call.Pos(), "the caller's buffer or this function's getBuffer() result", "the copy uses a buffer that is neither the caller's nor freshly taken from the pool")
		})
	}
	// callers of copyBuffer pass nil or a buffer they own exclusively
	for _, ed := range p.callersOf(cpy) {
		arg := ed.Site.Common().Args[2]
		site := "caller of copyBuffer: " + fnKey(ed.Caller.Func)
		if isNilConst(arg) {
			c.OK("R3", site, ed.Pos(), "passes nil (copyBuffer takes a pooled buffer itself)")
		} else if _, isMk := arg.(*ssa.MakeSlice); isMk {
			c.OK("R3", site, ed.Pos(), "passes a freshly made buffer")
		} else {
			c.Fail("R3", site, ed.Pos(), "a relay direction is given a shared or sliced buffer: two concurrently active relays must never share buffer memory")
		}
	}
	c.Expect("R3", 5)

	// ---------------- R4
	func() {
		var dial *ssa.Call
		eachInstr(hc, func(_ *ssa.BasicBlock, _ int, in ssa.Instruction) {
			if call, ok := in.(*ssa.Call); ok {
				if g := calleeFn(call.Common()); g != nil && g.Name() == "dial" {
					dial = call
				}
			}
		})
		if dial == nil {
			c.Undecided("R4", "dial site", hc.Pos(), "no dial call")
			return
		}
		// from the point where the concurrent direction is started (the go statement whose function runs the relay)
		var startGo ssa.Instruction
		eachInstr(hc, func(_ *ssa.BasicBlock, _ int, in ssa.Instruction) {
			g, ok := in.(*ssa.Go)
			if !ok {
				return
			}
			for _, f := range p.callees(g) {
				for _, h := range append([]*ssa.Function{f}, staticCalleesDeep(f, 1)...) {
					if h == pipe {
						startGo = in
					}
				}
				eachInstr(f, func(_ *ssa.BasicBlock, _ int, x ssa.Instruction) {
					if isCallToFn(x, pipe) {
						startGo = in
					}
				})
			}
		})
		if startGo == nil {
			c.Undecided("R4", "concurrent direction", dial.Pos(), "no go statement starts the second relay direction")
			return
		}
		// the join: receive on a channel closed by the goroutine that runs the other direction
		isJoin := func(in ssa.Instruction) bool {
			u, ok := in.(*ssa.UnOp)
			if !ok || u.Op != token.ARROW {
				return false
			}
			return localLatchClosedByRelay(hc, u.X, pipe)
		}
		path := findPath(posOf(startGo), pathQuery{target: isReturn, avoid: isJoin})
		if path != nil {
			c.Fail("R4", "join on the second direction before returning", dial.Pos(), "a return path after a successful dial skips the join: the deferred upstream Close cuts the direction that is still relaying ("+p.pathString(path)+")")
		} else {
			c.OK("R4", "join on the second direction before returning", dial.Pos(), "every return after the dial crosses the receive on the channel the concurrent direction closes after its pipe returned")
		}
	}()

	// ---------------- R5
	for _, m := range []struct{ name, deadline, under string }{{"Read", "SetReadDeadline", "Read"}, {"Write", "SetWriteDeadline", "Write"}} {
		fn := p.Func("proc/internal/net", "(*Conn)."+m.name)
		if fn == nil {
			c.Unresolved("R5", "(*Conn)."+m.name)
			continue
		}
		var under *ssa.Call
		badDeadline := ""
		eachInstr(fn, func(_ *ssa.BasicBlock, _ int, in ssa.Instruction) {
			cc := callOf(in)
			if cc == nil || !cc.IsInvoke() {
				return
			}
			if f, _ := loadedField(cc.Value); f == nil || f.Name() != "Conn" {
				return
			}
			switch cc.Method.Name() {
			case m.under:
				under, _ = in.(*ssa.Call)
			case m.deadline:
			default:
				badDeadline = cc.Method.Name()
			}
		})
		site := "netutil.Conn." + m.name
		c.Check(badDeadline == "", "R5", site+" touches only its own deadline", fn.Pos(), "only "+m.deadline+" / "+m.under+" on the underlying connection", m.name+" calls "+badDeadline+" on the underlying connection: it changes the timeout of the opposite direction, which then fails while the stream is still being relayed")
		if under == nil {
			c.Fail("R5", site+" delegates", fn.Pos(), "does not call the underlying "+m.under)
			continue
		}
		c.Check(under.Call.Args[0] == ssa.Value(fn.Params[1]), "R5", site+" uses the caller's slice", under.Pos(), "underlying call gets the caller's slice unchanged", "the underlying call is made with a different slice than the caller's")
		// every return reachable after the underlying call returns exactly its (n, err)
		okRet := true
		eachInstr(fn, func(_ *ssa.BasicBlock, _ int, in ssa.Instruction) {
			ret, ok := in.(*ssa.Return)
			if !ok || !instrDominates(under, in) {
				return
			}
			for i, r := range returnedValues(ret) {
				ex, ok := r.(*ssa.Extract)
				if !ok || ex.Tuple != ssa.Value(under) || ex.Index != i {
					okRet = false
				}
			}
		})
		c.Check(okRet, "R5", site+" returns the underlying n, err", under.Pos(), "results are the underlying call's results", "the wrapper alters the byte count or swallows the error of the underlying call: the copy loop mis-slices its buffer or ignores a failure")
		// the idle timeout is re-armed by every call: with a positive timeout no path reaches the underlying call
		// without passing through the deadline call (an armed deadline that is not renewed fires in the middle of an
		// active stream)
		zeroEdge := map[*ssa.BasicBlock]int{} // If block -> successor index taken when the timeout is <= 0
		eachInstr(fn, func(_ *ssa.BasicBlock, _ int, in ssa.Instruction) {
			bo, ok := in.(*ssa.BinOp)
			if !ok {
				return
			}
			k, isC := constInt(bo.Y)
			f, _ := loadedField(bo.X)
			if !isC || k != 0 || f == nil || !strings.HasSuffix(strings.ToLower(f.Name()), "timeout") {
				return
			}
			for _, r := range *bo.Referrers() {
				iff, ok := r.(*ssa.If)
				if !ok {
					continue
				}
				switch bo.Op {
				case token.GTR, token.NEQ:
					zeroEdge[iff.Block()] = 1
				case token.LEQ, token.EQL:
					zeroEdge[iff.Block()] = 0
				}
			}
		})
		isArm := func(x ssa.Instruction) bool {
			cc := callOf(x)
			if cc == nil {
				return false
			}
			if cc.IsInvoke() && cc.Method.Name() == m.deadline {
				return true
			}
			// an arming helper: it is handed the deadline setter as a method expression and calls it on every path on
			// which its timeout parameter is positive
			g := calleeFn(cc)
			if g == nil || !isModFn(g) || g.Blocks == nil {
				return false
			}
			setterIdx := -1
			for i, a := range cc.Args {
				if fv := funcValue(a); fv != nil && strings.Contains(fv.Name(), m.deadline) {
					setterIdx = i
				}
			}
			if setterIdx < 0 || setterIdx >= len(g.Params) {
				return false
			}
			setter := g.Params[setterIdx]
			gz := map[*ssa.BasicBlock]int{}
			eachInstr(g, func(_ *ssa.BasicBlock, _ int, in ssa.Instruction) {
				bo, ok := in.(*ssa.BinOp)
				if !ok {
					return
				}
				k, isC := constInt(bo.Y)
				if _, isPrm := bo.X.(*ssa.Parameter); !isC || k != 0 || !isPrm {
					return
				}
				for _, r := range *bo.Referrers() {
					if iff, ok := r.(*ssa.If); ok {
						switch bo.Op {
						case token.GTR, token.NEQ:
							gz[iff.Block()] = 1
						case token.LEQ, token.EQL:
							gz[iff.Block()] = 0
						}
					}
				}
			})
			return findPath(entryPos(g), pathQuery{target: isReturn, avoid: func(y ssa.Instruction) bool {
				c2 := callOf(y)
				return c2 != nil && c2.Value == ssa.Value(setter)
			}, edge: func(b *ssa.BasicBlock, k int) bool {
				if z, ok := gz[b]; ok && z == k {
					return false
				}
				return true
			}}) == nil
		}
		path := findPath(entryPos(fn), pathQuery{
			target: func(x ssa.Instruction) bool { return x == ssa.Instruction(under) },
			avoid:  isArm,
			edge: func(b *ssa.BasicBlock, k int) bool {
				if z, ok := zeroEdge[b]; ok && z == k {
					return false
				}
				return true
			},
		})
		c.Check(path == nil, "R5", site+" re-arms its deadline on every call", under.Pos(), "with a positive timeout every path to the underlying call sets the deadline", "with a positive timeout a path reaches the underlying "+m.under+" without renewing the deadline ("+p.pathString(path)+"): the deadline armed by an earlier call expires in the middle of an active stream, the relay sees a timeout and ends that direction early - the receiver gets a clean but premature end-of-stream")
	}
	c.Expect("R5", 8)
	checkNoDiscardingSockopt(c, "R6")
	c.Rule("R7", "every goroutine started in a loop (the accept loop) gets that iteration's values: no closure captures a variable declared outside the loop and assigned inside it")
	checkLoopGoroutineCapture(c, "R7")
	c.Rule("R10", "connection wrappers keep the half-close: every module type that embeds net.Conn declares CloseWrite and CloseRead")
	checkConnWrappersKeepHalfClose(c, "R10")
	c.Rule("R9", "connection objects are not recycled: no value of a type implementing net.Conn is put into a sync.Pool (its other holders - the opposite direction, the deferred Close calls - would act on an unrelated session)")
	checkNoPooledConn(c, "R9")
	c.Rule("R8", "a session is bound to the host it is connected to (shared with C06.R1/R5): the host whose removal closes the session, and whose counters it changes, is the host every dial of the session goes to - otherwise removing another host cuts a healthy stream in the middle")
	c.withAlias(map[string]string{"R1": "R8", "R5": "R8", "R2": "", "R3": "", "R4": "", "R6": "", "R7": "", "R8": "", "R9": "", "R10": "", "R11": "", "R12": "", "R13": "", "R14": ""}, func() { checkC06(c) })
}

// cellKey resolves a connection value through single-assignment local cells / captured variables by name.
func cellKey(v ssa.Value) ssa.Value {
	v = stripConv(v)
	if u, ok := v.(*ssa.UnOp); ok && u.Op == token.MUL {
		switch a := u.X.(type) {
		case *ssa.Alloc:
			return a
		case *ssa.FreeVar:
			// map to the cell bound in the parent
			fn := a.Parent()
			idx := -1
			for i, fv := range fn.FreeVars {
				if fv == a {
					idx = i
				}
			}
			par := fn.Parent()
			var out ssa.Value
			if par != nil && idx >= 0 {
				eachInstr(par, func(_ *ssa.BasicBlock, _ int, in ssa.Instruction) {
					if mc, ok := in.(*ssa.MakeClosure); ok && mc.Fn == ssa.Value(fn) {
						out = mc.Bindings[idx]
					}
				})
			}
			return out
		}
	}
	if fv, ok := v.(*ssa.FreeVar); ok {
		fn := fv.Parent()
		idx := -1
		for i, f := range fn.FreeVars {
			if f == fv {
				idx = i
			}
		}
		par := fn.Parent()
		var out ssa.Value
		if par != nil && idx >= 0 {
			eachInstr(par, func(_ *ssa.BasicBlock, _ int, in ssa.Instruction) {
				if mc, ok := in.(*ssa.MakeClosure); ok && mc.Fn == ssa.Value(fn) {
					out = mc.Bindings[idx]
				}
			})
		}
		return out
	}
	return v
}

// derivesOnly: every leaf of v (through phis) satisfies ok.
func derivesOnly(v ssa.Value, ok func(ssa.Value) bool) bool {
	seen := map[ssa.Value]bool{}
	var walk func(v ssa.Value) bool
	walk = func(v ssa.Value) bool {
		if seen[v] {
			return true
		}
		seen[v] = true
		if ph, isPhi := v.(*ssa.Phi); isPhi {
			for _, e := range ph.Edges {
				if !walk(e) {
					return false
				}
			}
			return true
		}
		return ok(v)
	}
	return walk(v)
}

// localLatchClosedByRelay: ch is a channel of fn that a goroutine closure closes after calling pipe.
func localLatchClosedByRelay(fn *ssa.Function, ch ssa.Value, pipe *ssa.Function) bool {
	key := cellKey(ch)
	if key == nil {
		key = ch
	}
	for _, a := range fn.AnonFuncs {
		var pcall, cl ssa.Instruction
		eachInstr(a, func(_ *ssa.BasicBlock, _ int, in ssa.Instruction) {
			if isCallToFn(in, pipe) {
				pcall = in
			}
			if isBuiltin(in, "close") {
				if k := cellKey(callOf(in).Args[0]); k == key || callOf(in).Args[0] == ch {
					cl = in
				}
			}
		})
		if pcall != nil && cl != nil && instrDominates(pcall, cl) {
			return true
		}
	}
	// the relay runs in a method started with go, which is handed the channel and closes it after the pipe returned
	res := false
	eachInstr(fn, func(_ *ssa.BasicBlock, _ int, in ssa.Instruction) {
		g, ok := in.(*ssa.Go)
		if !ok {
			return
		}
		f := calleeFn(&g.Call)
		if f == nil || f.Blocks == nil || f == pipe {
			return
		}
		for i, a := range g.Call.Args {
			a = stripConv(a)
			k := cellKey(a)
			if !(a == ch || (k != nil && k == key) || a == key) || i >= len(f.Params) {
				continue
			}
			prm := f.Params[i]
			var pcall, cl ssa.Instruction
			eachInstr(f, func(_ *ssa.BasicBlock, _ int, x ssa.Instruction) {
				if isCallToFn(x, pipe) {
					pcall = x
				}
				if isBuiltin(x, "close") && callOf(x).Args[0] == ssa.Value(prm) {
					cl = x
				}
			})
			if pcall != nil && cl != nil && instrDominates(pcall, cl) {
				res = true
			}
		}
	})
	return res
}

// checkNoDiscardingSockopt (C05.R6): the relay counts a direction as delivered once Write has returned, i.e. once the
// bytes are queued in the kernel; they still have to be sent after the proxy closes its socket. SO_LINGER with a
// non-negative timeout makes close() discard (0) or give up on (>0) that queue. Every call on a network connection
// in the data-path packages is classified; SetLinger with anything but a negative constant fails.
func checkNoDiscardingSockopt(c *Ctx, rule string) {
	p := c.P
	isConnType := func(t types.Type) bool {
		s := types.TypeString(t, nil)
		return s == "net.Conn" || s == "*net.TCPConn" || s == "*net.UnixConn" || s == "net.Listener" || s == "*net.TCPListener" ||
			strings.HasSuffix(s, "proc/internal/net.Conn")
	}
	n := 0
	for _, rel := range []string{"proc/tcp", "proc/internal/net", "proc", "proc/redis", "utils"} {
		for _, fn := range p.FuncsIn(rel) {
			if p.isTestFn(fn) {
				continue
			}
			calls := map[string]bool{}
			bad := ""
			var badAt token.Pos
			eachInstr(fn, func(_ *ssa.BasicBlock, _ int, in ssa.Instruction) {
				cc := callOf(in)
				if cc == nil {
					return
				}
				name := ""
				var recv types.Type
				if cc.IsInvoke() {
					name, recv = cc.Method.Name(), cc.Value.Type()
				} else if g := calleeFn(cc); g != nil && g.Signature.Recv() != nil {
					name, recv = g.Name(), g.Signature.Recv().Type()
				}
				if name == "" || recv == nil || !isConnType(recv) {
					return
				}
				calls[name] = true
				// deadlines on client and backend connections are the business of the timed wrapper alone, which renews
				// them on every call: a deadline planted from elsewhere (a drain that wants idle clients gone) fires in a
				// relay's blocked Read, and the relay takes the timeout for the end of that direction - the backend sees
				// an end of stream the client never sent and later client bytes are dropped
				if (name == "SetReadDeadline" || name == "SetWriteDeadline" || name == "SetDeadline") && rel != "proc/internal/net" {
					bad = name + " outside the timed connection wrapper"
					badAt = in.Pos()
				}
				if name == "SetLinger" {
					arg := cc.Args[len(cc.Args)-1]
					if k, isC := constInt(arg); !isC || k >= 0 {
						bad = "SetLinger with a non-negative or unknown timeout"
						badAt = in.Pos()
					}
				}
			})
			if len(calls) == 0 {
				continue
			}
			n++
			var names []string
			for k := range calls {
				names = append(names, k)
			}
			sort.Strings(names)
			if bad != "" {
				if strings.Contains(bad, "Deadline") {
					c.Fail(rule, "connection calls in "+fnKey(fn), badAt, bad+": the deadline fires in the blocked Read of a relay direction, which ends that direction as if the peer had closed - the stream is cut in the middle of a session")
					continue
				}
				c.Fail(rule, "connection calls in "+fnKey(fn), badAt, bad+": closing the socket then discards the bytes that Write has accepted but the kernel has not sent yet - the peer loses the tail of the stream and sees a reset instead of end-of-stream")
			} else {
				c.OK(rule, "connection calls in "+fnKey(fn), fn.Pos(), "calls: "+strings.Join(names, ",")+" - none discards queued data on close")
			}
		}
	}
	// the relay sets no option that lets the kernel give up an established connection on its own: TCP_USER_TIMEOUT
	// also bounds zero-window probing, so a backend that is alive but does not read for that long while data is queued
	// gets its connection reset and the client's stream is cut (the Redis upstream, a request/response protocol with
	// its own error replies, uses it on purpose; the byte relay must not)
	for _, fn := range p.FuncsIn("proc/tcp") {
		if p.isTestFn(fn) {
			continue
		}
		eachInstr(fn, func(_ *ssa.BasicBlock, _ int, in ssa.Instruction) {
			cc := callOf(in)
			if cc == nil {
				return
			}
			if g := calleeFn(cc); g != nil && (g.Name() == "SetTCPUserTimeout" || strings.Contains(g.Name(), "UserTimeout")) {
				c.Fail(rule, "no user timeout on relayed connections in "+fnKey(fn), in.Pos(), "TCP_USER_TIMEOUT is set on a relayed connection: the kernel aborts the connection when the peer makes no read progress for that long while data is queued (zero-window probes are answered, the peer is alive) - the tail of the stream is lost and the peer sees a reset instead of end-of-stream")
			}
		})
	}
	c.Expect(rule, 5)
	_ = n
}

// checkLoopGoroutineCapture (C05.R7): a goroutine started inside a loop must get the values of that iteration. A
// closure that captures a variable declared *outside* the loop and assigned *inside* it reads whatever the loop has
// stored by the time the goroutine runs: in the accept loop the first connection is then never handled and the next
// one is relayed by two handlers at once (its bytes are split over two backend connections).
func checkLoopGoroutineCapture(c *Ctx, rule string) {
	p := c.P
	n := 0
	for _, fn := range p.SrcFns {
		if p.isTestFn(fn) || !isModFn(fn) {
			continue
		}
		reach := func(from, to *ssa.BasicBlock) bool {
			seen := map[*ssa.BasicBlock]bool{}
			var dfs func(b *ssa.BasicBlock) bool
			dfs = func(b *ssa.BasicBlock) bool {
				for _, s := range b.Succs {
					if s == to {
						return true
					}
					if !seen[s] {
						seen[s] = true
						if dfs(s) {
							return true
						}
					}
				}
				return false
			}
			return dfs(from)
		}
		perFn := 0
		eachInstr(fn, func(gb *ssa.BasicBlock, _ int, in ssa.Instruction) {
			g, ok := in.(*ssa.Go)
			if !ok || !reach(gb, gb) {
				return // not in a loop
			}
			mc, ok := g.Call.Value.(*ssa.MakeClosure)
			if !ok {
				return
			}
			n++
			perFn++
			site := fmt.Sprintf("go statement #%d in a loop of %s", perFn, fnKey(fn))
			bad := ""
			for _, b := range mc.Bindings {
				al, ok := b.(*ssa.Alloc)
				if !ok {
					continue
				}
				ab := al.Block()
				if ab == nil || reach(gb, ab) && reach(ab, gb) {
					continue // allocated per iteration
				}
				for _, r := range *al.Referrers() {
					st, ok := r.(*ssa.Store)
					if !ok || st.Addr != ssa.Value(al) {
						continue
					}
					sb := st.Block()
					if sb == gb || (reach(sb, gb) && reach(gb, sb)) {
						bad = al.Comment
					}
				}
			}
			c.Check(bad == "", rule, site, in.Pos(), "captures only per-iteration variables (or passes them as arguments)", "the goroutine captures variable "+bad+", which is declared outside the loop and assigned in every iteration: it reads whatever the loop has stored by the time it runs - one accepted connection is never handled and another is handled twice")
		})
	}
	if n == 0 {
		c.Note("no goroutine is started from a closure inside a loop")
	}
}

// checkNoPooledConn (C05.R9): a connection wrapper is shared - both relay directions, the handler's deferred Close and
// the listener hold the same pointer, and Close is called more than once by design (it is idempotent through a flag).
// Recycling such an object through a sync.Pool hands it to a new session while an old holder can still call
// CloseWrite/Close on it: the late call lands on an unrelated connection. No value of a type that implements
// net.Conn may be put into a pool.
func checkNoPooledConn(c *Ctx, rule string) {
	p := c.P
	var connIface *types.Interface
	for _, pk := range p.SSA.AllPackages() {
		if pk.Pkg.Path() == "net" {
			if o := pk.Pkg.Scope().Lookup("Conn"); o != nil {
				connIface, _ = o.Type().Underlying().(*types.Interface)
			}
		}
	}
	if connIface == nil {
		c.Unresolved(rule, "net.Conn")
		return
	}
	nput, nbad := 0, 0
	for _, fn := range p.SrcFns {
		if !isModFn(fn) || p.isTestFn(fn) {
			continue
		}
		eachInstr(fn, func(_ *ssa.BasicBlock, _ int, in ssa.Instruction) {
			call, ok := in.(ssa.CallInstruction)
			if !ok {
				return
			}
			cc := call.Common()
			g := calleeFn(cc)
			if g == nil || g.String() != "(*sync.Pool).Put" || len(cc.Args) != 2 {
				return
			}
			nput++
			v := cc.Args[1]
			if mi, ok := v.(*ssa.MakeInterface); ok {
				v = mi.X
			}
			t := v.Type()
			if types.Implements(t, connIface) || types.Implements(types.NewPointer(t), connIface) {
				nbad++
				c.Fail(rule, fmt.Sprintf("%s pool put#%d is not a connection", fnKey(fn), nbad), in.Pos(), "a connection object ("+types.TypeString(t, nil)+") is recycled through a sync.Pool: other holders of the pointer (the opposite relay direction, the deferred Close of the handler and of the listener) can still call CloseWrite/Close on it after it was handed to a new session - an unrelated stream is cut short")
			}
		})
	}
	if nbad == 0 {
		c.OK(rule, "no connection object is recycled through a pool", token.NoPos, fmt.Sprintf("%d sync.Pool.Put calls in the module examined, none puts a net.Conn implementation", nput))
	}
}

// checkConnWrappersKeepHalfClose (C05.R10): the relay half-closes through type assertions (CloseWrite / CloseRead) that
// silently do nothing when the connection does not offer the method. A wrapper type that embeds the net.Conn
// interface inherits Read/Write/Close but not the half-close methods of the connection it wraps - wrapped this way, a
// TCP connection can no longer signal end-of-stream in one direction while the other stays open. Every module type
// that embeds net.Conn and is a net.Conn itself declares CloseWrite and CloseRead.
func checkConnWrappersKeepHalfClose(c *Ctx, rule string) {
	p := c.P
	n := 0
	for _, pk := range p.Pkgs {
		if pk.Types == nil || !strings.HasPrefix(pk.Types.Path(), modPath) || strings.Contains(pk.Types.Path(), "/mock") {
			continue
		}
		sc := pk.Types.Scope()
		for _, name := range sc.Names() {
			tn, ok := sc.Lookup(name).(*types.TypeName)
			if !ok {
				continue
			}
			if strings.HasSuffix(p.Fset.Position(tn.Pos()).Filename, "_test.go") {
				continue
			}
			st, ok := tn.Type().Underlying().(*types.Struct)
			if !ok {
				continue
			}
			embeds := false
			for i := 0; i < st.NumFields(); i++ {
				f := st.Field(i)
				if f.Embedded() && types.TypeString(f.Type(), nil) == "net.Conn" {
					embeds = true
				}
			}
			if !embeds {
				continue
			}
			n++
			ms := types.NewMethodSet(types.NewPointer(tn.Type()))
			has := func(m string) bool {
				for i := 0; i < ms.Len(); i++ {
					if ms.At(i).Obj().Name() == m {
						return true
					}
				}
				return false
			}
			site := fmt.Sprintf("%s.%s keeps the half-close of the connection it wraps", pk.Types.Name(), tn.Name())
			c.Check(has("CloseWrite") && has("CloseRead"), rule, site, tn.Pos(), "declares CloseWrite and CloseRead", "a type embeds the net.Conn interface without declaring CloseWrite/CloseRead: wrapped in it, a TCP connection loses its half-close - the relay's closeWrite becomes a silent no-op, the peer never sees end-of-stream while its own direction is open, and the session hangs until the idle timeout")
		}
	}
	if n == 0 {
		c.Unresolved(rule, "no net.Conn wrapper type in the module")
	}
}
