package main

import (
	"fmt"
	"golang.org/x/tools/go/ssa"
)

// reachChain returns one call chain from -> to in the VTA graph.
func (p *Prog) reachChain(from, to *ssa.Function) []string {
	prev := map[*ssa.Function]*ssa.Function{from: nil}
	work := []*ssa.Function{from}
	cg := p.CG()
	for len(work) > 0 {
		f := work[0]
		work = work[1:]
		if f == to {
			var out []string
			for g := to; g != nil; g = prev[g] {
				out = append([]string{fnKey(g)}, out...)
			}
			return out
		}
		n := cg.Nodes[f]
		if n == nil || !isModFn(f) {
			continue
		}
		var next []*ssa.Function
		for _, e := range n.Out {
			next = append(next, e.Callee.Func)
		}
		for _, g := range next {
			if _, ok := prev[g]; !ok {
				prev[g] = f
				work = append(work, g)
			}
		}
	}
	return nil
}

func debugDump(p *Prog, rel, name string) {
	fn := p.Func(rel, name)
	if fn == nil {
		fmt.Println("no such fn")
		return
	}
	fn.WriteTo(os_stdout{})
}

type os_stdout struct{}

func (os_stdout) Write(b []byte) (int, error) { fmt.Print(string(b)); return len(b), nil }
