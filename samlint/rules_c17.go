package main

import (
	"fmt"
	"go/constant"
	"go/token"
	"go/types"
	"sort"
	"strings"

	"golang.org/x/tools/go/ssa"
)

func init() {
	register(&propDef{
		id: "C17",
		li: levelInfo{
			Level:       "other",
			Explanation: "Static rules on the hot-restart control channel. R1 (table agreement): for every case of the request switch the handler performs exactly the Instance step that belongs to that request constant and then sends the reply whose message-type constant is the request's sibling; the default arm sends the unknown reply; the terminate handler acknowledges before signalling. R2: one loop iteration = one frame read, at most one handler call, executed synchronously (no goroutine), so steps are performed and acknowledged in request order. R3 (bit-level): the length written into header bytes 1-2 and the length the reader composes from them are inverse for all 2^16 values (GF(2)-affine interpretation); type at byte 0, payload from byte 3. R4 (zone domain): the payload slice [3 : 3+Len] has witnesses 3+Len <= bytes read (no garbage accepted) and <= buffer size (no crash). R5: child-side call order: shutdown parent admin, start admin, drain parent listeners, (delayed) terminate parent. R6: draining reaches only StopListen of each processor and acts on a listener that is not bound yet too. Kernel datagram semantics are not decided. R7: concrete-type tests on the frame reader's error can succeed (the reader passes the socket error through unchanged), so a departed child is recognised. R8: every step invoked on the Instance interface resolves to a declared method, not to a promotion wrapper that re-enters the same interface call. R1 also recovers a handler table indexed by the message type and proves its index with E-bounds. R9: no error return of the frame reader depends on the type byte. The frame layout may live in encode/decode helpers (the byte count is the length of the parameter that receives b[:n]); the dispatch may be a map keyed by the message type read with the comma-ok form. R10 (shared with C09.R11): the drain latch is read by binding/accepting code only. R1 recognises reply helpers and steps handed over as method values. R1 also requires the termination signal on every path of the terminate handler; R6 requires the drain loop to be left only when exhausted. R4 also: the short-read guard accepts a datagram of exactly the header size (a frame with declared length 0). R4 also: the payload slice is exactly the declared length. R11: the handler called by the dispatch is not carried across iterations of the read loop.",
			TrustedBase: []string{"go/ssa", "samlint ebits.go, ebounds.go, zone.go"},
		},
		run: checkC17,
	})
	techniques["C17"] = "static analysis: dispatch-table agreement from SSA constants, GF(2)-affine inverse check of the frame length codec, zone-domain bounds witnesses, dominance for call order"
}

const hrPkg = "cmd/samaritan/hotrestart"

func titleCase(s string) string {
	if s == "" {
		return s
	}
	return strings.ToUpper(s[:1]) + s[1:]
}

func checkC17(c *Ctx) {
	p := c.P
	c.Rule("R1", "dispatch table: request constant -> its Instance step -> sibling reply constant; default -> unknown reply; terminate acknowledges before signalling")
	c.Rule("R2", "one dispatch per frame, synchronous, in order")
	c.Rule("R3", "frame layout agreement: length written and length read are inverse for all 2^16 values; offsets 0 / 1-2 / 3")
	c.Rule("R4", "reader bounds: 3+Len <= bytes read and <= buffer size")
	c.Rule("R5", "child-side order: shutdown parent admin -> start admin -> drain parent listeners -> terminate parent")
	c.Rule("R6", "drain reaches only StopListen; Drain acts on an unbound listener too")
	c.Rule("R7", "a departed child is recognised: concrete-type tests on the frame reader's error can succeed (the socket error is passed through unchanged)")

	hc := p.Func(hrPkg, "(*Restarter).handleChild")
	send := p.Func(hrPkg, "sendMessage")
	read := p.Func(hrPkg, "readMessage")
	newMsg := p.Func(hrPkg, "newMessage")
	pk := p.TPkg(hrPkg)
	if hc == nil || send == nil || read == nil || newMsg == nil || pk == nil {
		c.Unresolved("R1", "hotrestart.handleChild / sendMessage / readMessage / newMessage")
		return
	}
	// message type constants
	consts := map[string]int64{}
	byVal := map[int64]string{}
	sc := pk.Types.Scope()
	for _, n := range sc.Names() {
		if k, ok := sc.Lookup(n).(*types.Const); ok && types.TypeString(k.Type(), nil) == modPath+"/"+hrPkg+".messageType" {
			v, _ := constant.Int64Val(k.Val())
			consts[n] = v
			byVal[v] = n
		}
	}
	// Instance interface methods
	instMethods := map[string]bool{}
	if it := p.Named(hrPkg, "Instance"); it != nil {
		iface := it.Underlying().(*types.Interface)
		for i := 0; i < iface.NumMethods(); i++ {
			instMethods[iface.Method(i).Name()] = true
		}
	}
	// ---------------- R1: switch in handleChild
	// handle = phi of bound-method closures
	type arm struct {
		val int64
		fn  *ssa.Function
	}
	var arms []arm
	var defaultFn *ssa.Function
	var handleCall ssa.Instruction
	boundTarget := func(v ssa.Value) *ssa.Function {
		g := funcValue(v)
		if g == nil {
			return nil
		}
		if g.Synthetic != "" {
			var t *ssa.Function
			eachInstr(g, func(_ *ssa.BasicBlock, _ int, x ssa.Instruction) {
				if c2 := callOf(x); c2 != nil && calleeFn(c2) != nil {
					t = calleeFn(c2)
				}
			})
			return t
		}
		return g
	}
	// the dispatch: the dynamic call in the function that reads frames
	eachInstr(hc, func(_ *ssa.BasicBlock, _ int, in ssa.Instruction) {
		cc := callOf(in)
		if cc == nil || cc.IsInvoke() || calleeFn(cc) != nil {
			return
		}
		if _, isB := cc.Value.(*ssa.Builtin); isB {
			return
		}
		if sig, ok := cc.Value.Type().Underlying().(*types.Signature); ok && (sig.Params().Len() == 2 || sig.Params().Len() == 3) {
			handleCall = in
		}
	})
	// the request switch: wherever in the package a message-type value is compared with constants to choose a handler
	for _, sf := range p.FuncsIn(hrPkg) {
		if p.isTestFn(sf) {
			continue
		}
		type cmpInfo struct {
			val int64
			T   *ssa.BasicBlock
		}
		var cmps []cmpInfo
		eachInstr(sf, func(_ *ssa.BasicBlock, _ int, in ssa.Instruction) {
			iff, ok := in.(*ssa.If)
			if !ok {
				return
			}
			bo, ok := iff.Cond.(*ssa.BinOp)
			if !ok || bo.Op != token.EQL {
				return
			}
			cv, isC := constInt(bo.Y)
			if !isC || types.TypeString(bo.X.Type(), nil) != modPath+"/"+hrPkg+".messageType" {
				return
			}
			cmps = append(cmps, cmpInfo{cv, iff.Block().Succs[0]})
		})
		if len(cmps) < 2 {
			continue
		}
		assign := func(v ssa.Value, at *ssa.BasicBlock) {
			fn := boundTarget(v)
			if fn == nil {
				return
			}
			matched := false
			for _, ci := range cmps {
				if at == ci.T || (ci.T.Dominates(at) && len(ci.T.Preds) == 1) {
					arms = append(arms, arm{ci.val, fn})
					matched = true
				}
			}
			if !matched {
				defaultFn = fn
			}
		}
		eachInstr(sf, func(b *ssa.BasicBlock, _ int, in ssa.Instruction) {
			switch x := in.(type) {
			case *ssa.Phi:
				if _, isSig := x.Type().Underlying().(*types.Signature); !isSig {
					return
				}
				for k, pred := range b.Preds {
					assign(x.Edges[k], pred)
				}
			case *ssa.Return:
				for _, r := range returnedValues(x) {
					if _, isSig := r.Type().Underlying().(*types.Signature); isSig {
						if _, isPhi := r.(*ssa.Phi); !isPhi {
							assign(r, b)
						}
					}
				}
			}
		})
	}
	// table form: handlers in a package-level array indexed by the message type
	if len(arms) == 0 {
		var tableIA *ssa.IndexAddr
		var tableG *ssa.Global
		for _, sf := range p.FuncsIn(hrPkg) {
			if p.isTestFn(sf) {
				continue
			}
			eachInstr(sf, func(_ *ssa.BasicBlock, _ int, in ssa.Instruction) {
				ia, ok := in.(*ssa.IndexAddr)
				if !ok || sf.Name() == "init" {
					return
				}
				g, ok := ia.X.(*ssa.Global)
				if !ok {
					return
				}
				at, ok := deref(g.Type()).Underlying().(*types.Array)
				if !ok {
					return
				}
				if _, isSig := at.Elem().Underlying().(*types.Signature); !isSig {
					return
				}
				if types.TypeString(stripNoopConv(ia.Index).Type(), nil) == modPath+"/"+hrPkg+".messageType" || types.TypeString(stripConv(ia.Index).Type(), nil) == modPath+"/"+hrPkg+".messageType" {
					tableIA, tableG = ia, g
				}
			})
		}
		if tableIA != nil {
			// entries from the package initialiser
			for _, sf := range p.FuncsIn(hrPkg) {
				if sf.Name() != "init" {
					continue
				}
				eachInstr(sf, func(_ *ssa.BasicBlock, _ int, in ssa.Instruction) {
					st, ok := in.(*ssa.Store)
					if !ok {
						return
					}
					ia, ok := st.Addr.(*ssa.IndexAddr)
					if !ok || ia.X != ssa.Value(tableG) {
						return
					}
					k, isC := constInt(ia.Index)
					if !isC {
						return
					}
					if fn := boundTarget(st.Val); fn != nil {
						arms = append(arms, arm{k, fn})
					}
				})
			}
			// the index must be inside the table: a frame type is one byte chosen by the peer
			fnOf := tableIA.Parent()
			bc := newBoundsCtx(p, fnOf)
			okIdx, w := bc.proveIndex(tableIA, tableIA.X, tableIA.Index)
			c.Check(okIdx, "R1", "handler table index within the table", tableIA.Pos(), w, "the handler table is indexed with the frame's type byte without a witness that it is inside the table ("+w+"): a frame whose type is past the last request crashes the old process instead of being answered with the unknown reply")
			// the default: a function value in the dispatching function that is not a table entry
			eachInstr(fnOf, func(_ *ssa.BasicBlock, _ int, in ssa.Instruction) {
				ph, ok := in.(*ssa.Phi)
				if !ok {
					return
				}
				if _, isSig := ph.Type().Underlying().(*types.Signature); !isSig {
					return
				}
				for _, e := range ph.Edges {
					if fn := boundTarget(e); fn != nil {
						defaultFn = fn
					}
				}
			})
		}
	}
	// map form: handlers in a package-level map keyed by the message type, looked up with the comma-ok form (a missing
	// key then selects the default instead of a nil function)
	if len(arms) == 0 {
		var lk *ssa.Lookup
		var mapG *ssa.Global
		for _, sf := range p.FuncsIn(hrPkg) {
			if p.isTestFn(sf) || sf.Name() == "init" {
				continue
			}
			eachInstr(sf, func(_ *ssa.BasicBlock, _ int, in ssa.Instruction) {
				l, ok := in.(*ssa.Lookup)
				if !ok {
					return
				}
				mt, ok := l.X.Type().Underlying().(*types.Map)
				if !ok || types.TypeString(mt.Key(), nil) != modPath+"/"+hrPkg+".messageType" {
					return
				}
				if _, isSig := mt.Elem().Underlying().(*types.Signature); !isSig {
					return
				}
				if ld, ok := l.X.(*ssa.UnOp); ok && ld.Op == token.MUL {
					if g, ok := ld.X.(*ssa.Global); ok {
						lk, mapG = l, g
					}
				}
			})
		}
		if lk != nil {
			for _, sf := range p.FuncsIn(hrPkg) {
				if sf.Name() != "init" {
					continue
				}
				// the map value stored into the global, and its updates
				var mk ssa.Value
				eachInstr(sf, func(_ *ssa.BasicBlock, _ int, in ssa.Instruction) {
					if st, ok := in.(*ssa.Store); ok && st.Addr == ssa.Value(mapG) {
						mk = st.Val
					}
				})
				eachInstr(sf, func(_ *ssa.BasicBlock, _ int, in ssa.Instruction) {
					mu, ok := in.(*ssa.MapUpdate)
					if !ok || mk == nil || mu.Map != mk {
						return
					}
					if k, isC := constInt(mu.Key); isC {
						if fn := boundTarget(mu.Value); fn != nil {
							arms = append(arms, arm{k, fn})
						}
					}
				})
			}
			// no other writer of the table
			for _, sf := range p.FuncsIn(hrPkg) {
				if sf.Name() == "init" || p.isTestFn(sf) {
					continue
				}
				eachInstr(sf, func(_ *ssa.BasicBlock, _ int, in ssa.Instruction) {
					if mu, ok := in.(*ssa.MapUpdate); ok {
						if ld, ok := mu.Map.(*ssa.UnOp); ok && ld.X == ssa.Value(mapG) {
							c.Fail("R1", "handler table written only at initialisation", mu.Pos(), "the handler table is modified at run time")
						}
					}
				})
			}
			c.Check(lk.CommaOk, "R1", "handler table lookup tests presence", lk.Pos(), "comma-ok lookup", "the handler table is read without testing presence: an unknown request type yields a nil handler and crashes the old process")
			fnOf := lk.Parent()
			pick := func(v ssa.Value) {
				if _, isSig := v.Type().Underlying().(*types.Signature); !isSig {
					return
				}
				if _, isEx := v.(*ssa.Extract); isEx {
					return
				}
				if fn := boundTarget(v); fn != nil {
					defaultFn = fn
				}
			}
			eachInstr(fnOf, func(_ *ssa.BasicBlock, _ int, in ssa.Instruction) {
				switch x := in.(type) {
				case *ssa.Phi:
					for _, e := range x.Edges {
						pick(e)
					}
				case *ssa.Return:
					for _, r := range returnedValues(x) {
						pick(r)
					}
				}
			})
		}
	}
	if handleCall == nil || len(arms) == 0 {
		c.Undecided("R1", "request switch", hc.Pos(), "cannot recover the request dispatch (a switch on the message type, or a handler table indexed by it, called through a variable)")
	}
	// reply helpers: functions of the package that send one of their own parameters as the message (a wrapper around
	// the frame writer, or a "reply and run the step" helper); stepParam: the function parameter such a helper calls,
	// and whether that call comes before the send
	sendLike := map[*ssa.Function]int{}
	type stepInfo struct {
		idx        int
		beforeSend bool
		afterSend  bool
	}
	stepParam := map[*ssa.Function]stepInfo{}
	for _, hf := range p.FuncsIn(hrPkg) {
		if p.isTestFn(hf) || hf == send {
			continue
		}
		var sendIn ssa.Instruction
		eachInstr(hf, func(_ *ssa.BasicBlock, _ int, in ssa.Instruction) {
			call, ok := in.(*ssa.Call)
			if !ok || !isCallToFn(call, send) || len(call.Call.Args) < 2 {
				return
			}
			if prm, ok := call.Call.Args[1].(*ssa.Parameter); ok {
				sendLike[hf] = paramIndex(hf, prm)
				sendIn = in
			}
		})
		if sendIn == nil {
			continue
		}
		eachInstr(hf, func(_ *ssa.BasicBlock, _ int, in ssa.Instruction) {
			cc := callOf(in)
			if cc == nil || cc.IsInvoke() || calleeFn(cc) != nil {
				return
			}
			if prm, ok := cc.Value.(*ssa.Parameter); ok {
				if _, isSig := prm.Type().Underlying().(*types.Signature); isSig {
					stepParam[hf] = stepInfo{paramIndex(hf, prm), findPath(entryPos(hf), pathQuery{target: func(x ssa.Instruction) bool { return x == sendIn }, avoid: func(x ssa.Instruction) bool { return x == in }}) == nil, instrDominates(sendIn, in)}
				}
			}
		})
	}
	replyConstOf := func(fn *ssa.Function) (int64, ssa.Instruction, bool) {
		var val int64
		var at ssa.Instruction
		found := false
		eachInstr(fn, func(_ *ssa.BasicBlock, _ int, in ssa.Instruction) {
			call, ok := in.(*ssa.Call)
			if !ok {
				return
			}
			msgIdx := -1
			if isCallToFn(call, send) {
				msgIdx = 1
			} else if g := calleeFn(call.Common()); g != nil {
				if i, ok := sendLike[g]; ok {
					msgIdx = i
				}
			}
			if msgIdx < 0 || msgIdx >= len(call.Call.Args) {
				return
			}
			// message argument: result of a constructor that calls newMessage(const, ...)
			mc, ok := call.Call.Args[msgIdx].(*ssa.Call)
			if !ok {
				return
			}
			g := calleeFn(mc.Common())
			if g == nil {
				return
			}
			for _, gg := range append([]*ssa.Function{g}, staticCalleesDeep(g, 2)...) {
				eachInstr(gg, func(_ *ssa.BasicBlock, _ int, x ssa.Instruction) {
					c2, ok := x.(*ssa.Call)
					if !ok {
						return
					}
					for _, a := range c2.Call.Args {
						if cst, isC := a.(*ssa.Const); isC && types.TypeString(cst.Type(), nil) == modPath+"/"+hrPkg+".messageType" {
							cv, _ := constInt(cst)
							val, at, found = cv, in, true
						}
					}
				})
			}
		})
		return val, at, found
	}
	sort.Slice(arms, func(i, j int) bool { return arms[i].val < arms[j].val })
	for _, a := range arms {
		reqName := byVal[a.val]
		site := "request " + reqName
		if a.fn == nil {
			c.Undecided("R1", site, hc.Pos(), "handler is not a method value")
			continue
		}
		if !strings.HasSuffix(reqName, "Req") {
			c.Fail("R1", site, hc.Pos(), "the switch dispatches on a constant that is not a request type")
			continue
		}
		stem := strings.TrimSuffix(reqName, "Req")
		wantReply, hasReply := consts[stem+"Reply"]
		rv, sendAt, ok := replyConstOf(a.fn)
		if !ok {
			c.Fail("R1", site+" reply", a.fn.Pos(), "the handler does not acknowledge the request")
			continue
		}
		c.Check(hasReply && rv == wantReply, "R1", site+" reply", sendAt.Pos(), fmt.Sprintf("replies with %s", byVal[rv]), fmt.Sprintf("the handler of %s replies with %s instead of %sReply: the child reads the acknowledgement of a different step", reqName, byVal[rv], stem))
		// the Instance step
		step := titleCase(stem)
		var stepCalls []ssa.Instruction
		var otherSteps []string
		eachInstr(a.fn, func(_ *ssa.BasicBlock, _ int, in ssa.Instruction) {
			cc := callOf(in)
			if cc == nil || !cc.IsInvoke() {
				return
			}
			if instMethods[cc.Method.Name()] {
				if cc.Method.Name() == step {
					stepCalls = append(stepCalls, in)
				} else {
					otherSteps = append(otherSteps, cc.Method.Name())
				}
			}
		})
		// the step handed to a reply helper as a method value: the helper decides the order
		viaHelper, helperStepFirst := false, false
		var killInClosure, helperSendFirst bool
		if sc, ok := sendAt.(*ssa.Call); ok {
			if hf := calleeFn(sc.Common()); hf != nil {
				if si, ok := stepParam[hf]; ok && si.idx < len(sc.Call.Args) {
					{
						if w := funcValue(sc.Call.Args[si.idx]); w != nil {
							name := ""
							if w.Synthetic != "" {
								if mo, _ := w.Object().(*types.Func); mo != nil {
									name = mo.Name()
								}
							} else {
								eachInstr(w, func(_ *ssa.BasicBlock, _ int, x ssa.Instruction) {
									if cc := callOf(x); cc != nil && cc.IsInvoke() && instMethods[cc.Method.Name()] {
										name = cc.Method.Name()
									}
									if cc := callOf(x); cc != nil && !cc.IsInvoke() && calleeFn(cc) == nil {
										if u, ok := cc.Value.(*ssa.UnOp); ok {
											if g, ok := u.X.(*ssa.Global); ok && g.Name() == "kill" {
												killInClosure = true
											}
										}
									}
								})
							}
							if instMethods[name] {
								viaHelper, helperStepFirst = true, si.beforeSend
								if name == step {
									stepCalls = append(stepCalls, sendAt)
								} else {
									otherSteps = append(otherSteps, name)
								}
							}
							helperSendFirst = si.afterSend
						}
					}
				}
			}
		}
		if instMethods[step] {
			okStep := len(stepCalls) == 1 && len(otherSteps) == 0
			c.Check(okStep, "R1", site+" step", a.fn.Pos(), "performs exactly Instance."+step+"() once", fmt.Sprintf("the handler of %s performs %d x %s and also %v: the requested step is not performed exactly once", reqName, len(stepCalls), step, otherSteps))
			if okStep && viaHelper {
				c.Check(helperStepFirst, "R1", site+" acknowledges after performing", sendAt.Pos(), "the reply helper runs the step before it sends the reply", "the step is acknowledged before it is performed: the reply helper sends the reply first and runs the step afterwards, so the child acts (binds the admin port, takes over the configuration store, starts serving) while the parent is still in the middle of the step")
			} else if okStep {
				c.Check(instrDominates(stepCalls[0], sendAt), "R1", site+" acknowledges after performing", sendAt.Pos(), "the step dominates the reply", "the step is acknowledged before it is performed")
			}
		} else if killInClosure {
			c.Check(helperSendFirst && len(otherSteps) == 0, "R1", site+" acknowledges before signalling", sendAt.Pos(), "the reply helper sends the reply before it runs the signalling step", "the terminate handler signals the process before (or without) acknowledging, or performs another step")
		} else {
			// terminate: acknowledge first, then signal
			var kill ssa.Instruction
			eachInstr(a.fn, func(_ *ssa.BasicBlock, _ int, in ssa.Instruction) {
				cc := callOf(in)
				if cc == nil || cc.IsInvoke() || calleeFn(cc) != nil {
					return
				}
				if u, ok := cc.Value.(*ssa.UnOp); ok {
					if g, ok := u.X.(*ssa.Global); ok && g.Name() == "kill" {
						kill = in
					}
				}
			})
			c.Check(kill != nil && instrDominates(sendAt, kill) && len(otherSteps) == 0, "R1", site+" acknowledges before signalling", sendAt.Pos(), "reply dominates the termination signal", "the terminate handler signals the process before (or without) acknowledging, or performs another step")
			if kill != nil {
				path := findPath(entryPos(a.fn), pathQuery{target: isReturn, avoid: func(x ssa.Instruction) bool { return x == kill }})
				c.Check(path == nil, "R1", site+" is carried out on every path", kill.Pos(), "every path of the handler reaches the termination signal", "a terminate request that was received can end without the process signalling itself ("+p.pathString(path)+"): the requested step depends on whether the reply could be written - a child that dies right after asking leaves the old process alive, drained and without its admin API")
			}
		}
	}
	if defaultFn != nil {
		rv, at, ok := replyConstOf(defaultFn)
		c.Check(ok && rv == consts["unknownReply"], "R1", "default arm", defaultFn.Pos(), "unknown requests get the unknown reply", "an unknown request is not answered with the unknown reply")
		_ = at
	} else if handleCall != nil {
		c.Fail("R1", "default arm", hc.Pos(), "the request switch has no default arm: an unknown request calls a nil handler (crash) or is never answered")
	}
	// every request constant has an arm
	for n, v := range consts {
		if !strings.HasSuffix(n, "Req") {
			continue
		}
		found := false
		for _, a := range arms {
			if a.val == v {
				found = true
			}
		}
		c.Check(found, "R1", "request "+n+" has an arm", hc.Pos(), "dispatched", "request "+n+" is not dispatched (answered as unknown)")
	}
	// sibling adjacency of the constants
	for n, v := range consts {
		if strings.HasSuffix(n, "Req") {
			r, ok := consts[strings.TrimSuffix(n, "Req")+"Reply"]
			c.Check(ok && r == v+1, "R1", "constants "+n+"/Reply adjacent", token.NoPos, "reply = request + 1", "the reply constant of "+n+" is not its successor: both processes must agree on the numbering")
		}
	}
	c.Expect("R1", 14)

	// ---------------- R2
	if handleCall != nil {
		_, isCall := handleCall.(*ssa.Call)
		c.Check(isCall, "R2", "handler called synchronously", handleCall.Pos(), "plain call in the read loop", "the handler runs in its own goroutine: a later step can finish before an earlier one and replies go out in completion order, so the child reads the wrong acknowledgement")
		nread := 0
		eachInstr(hc, func(_ *ssa.BasicBlock, _ int, in ssa.Instruction) {
			if isCallToFn(in, read) {
				nread++
			}
		})
		c.Check(nread == 1, "R2", "one frame read per iteration", hc.Pos(), "single readMessage site in the loop", fmt.Sprintf("%d readMessage sites in the loop", nread))
		// the read dominates the handler call; handler call is in the loop
		var rd ssa.Instruction
		eachInstr(hc, func(_ *ssa.BasicBlock, _ int, in ssa.Instruction) {
			if isCallToFn(in, read) {
				rd = in
			}
		})
		c.Check(rd != nil && instrDominates(rd, handleCall), "R2", "dispatch follows its read", handleCall.Pos(), "readMessage dominates the handler call", "a handler can be called without a freshly read frame")
	}
	c.Expect("R2", 3)

	// ---------------- R3: length codec inverse
	func() {
		lenF := p.Field(hrPkg, "message", "Len")
		if lenF == nil {
			c.Unresolved("R3", "message.Len")
			return
		}
		// writer: stores to b[k] for constant k - in the sending function or in the encoder helper it calls
		wr := map[int64]ssa.Value{}
		var wbuf ssa.Value
		var payloadLow int64 = -1
		wfn := send
		hasHdrStores := func(f *ssa.Function) bool {
			found := false
			eachInstr(f, func(_ *ssa.BasicBlock, _ int, in ssa.Instruction) {
				if st, ok := in.(*ssa.Store); ok {
					if ia, ok := st.Addr.(*ssa.IndexAddr); ok && isByteSliceVal(ia.X) {
						if _, isC := constInt(ia.Index); isC {
							found = true
						}
					}
				}
			})
			return found
		}
		if !hasHdrStores(send) {
			for _, g := range staticCalleesDeep(send, 1) {
				if g.Pkg != nil && g.Pkg.Pkg.Path() == modPath+"/"+hrPkg && hasHdrStores(g) {
					wfn = g
				}
			}
		}
		eachInstr(wfn, func(_ *ssa.BasicBlock, _ int, in ssa.Instruction) {
			if st, ok := in.(*ssa.Store); ok {
				if ia, ok := st.Addr.(*ssa.IndexAddr); ok && isByteSliceVal(ia.X) {
					if k, isC := constInt(ia.Index); isC {
						wr[k] = st.Val
						wbuf = ia.X
					}
				}
			}
			if call, ok := in.(*ssa.Call); ok && isBuiltin(call, "copy") {
				if sl, ok := call.Call.Args[0].(*ssa.Slice); ok && sl.Low != nil {
					payloadLow, _ = constInt(sl.Low)
				}
			}
		})
		if len(wr) != 3 || wr[0] == nil || wr[1] == nil || wr[2] == nil {
			c.Fail("R3", "writer header bytes", send.Pos(), fmt.Sprintf("the writer stores %d header bytes at constant offsets, expected bytes 0,1,2", len(wr)))
			return
		}
		c.Check(payloadLow == 3, "R3", "writer payload offset", send.Pos(), "payload copied to b[3:]", fmt.Sprintf("the writer puts the payload at offset %d, the reader takes it from 3", payloadLow))
		// buffer size 3+Len
		if mk, ok := wbuf.(*ssa.MakeSlice); ok {
			okSize := false
			if bo, ok := stripNoopConv(mk.Len).(*ssa.BinOp); ok && bo.Op == token.ADD {
				if k, isC := constInt(bo.X); isC && k == 3 {
					okSize = true
				}
				if k, isC := constInt(bo.Y); isC && k == 3 {
					okSize = true
				}
			}
			c.Check(okSize, "R3", "datagram length", mk.Pos(), "3+Len bytes", "the datagram is not header(3)+Len bytes long")
		}
		// affine: Len (16 bits) -> b1,b2 -> reader expr
		env := &bitsEnv{p: p, known: map[ssa.Value]bvec{}, table: func(*ssa.Global) ([]uint64, bool) { return nil, false }}
		eachInstr(wfn, func(_ *ssa.BasicBlock, _ int, in ssa.Instruction) {
			if u, ok := in.(*ssa.UnOp); ok && u.Op == token.MUL {
				if f, _ := fieldAddr(u.X); f == lenF {
					env.known[u] = bvInput(0, 16)
				}
			}
		})
		b1, ok1 := env.eval(wr[1])
		b2, ok2 := env.eval(wr[2])
		if !ok1 || !ok2 {
			c.Undecided("R3", "writer length bytes affine", send.Pos(), "length bytes are outside the GF(2)-affine fragment: "+env.why)
			return
		}
		// type byte = byte(msg.Type)
		if f, _ := loadedField(stripConv(wr[0])); f == nil || f.Name() != "Type" {
			c.Fail("R3", "writer type byte", send.Pos(), "byte 0 is not the message type")
		} else {
			c.OK("R3", "writer type byte", send.Pos(), "b[0] = byte(Type)")
		}
		// reader
		env2 := &bitsEnv{p: p, known: map[ssa.Value]bvec{}, table: env.table}
		var lenStore *ssa.Store
		var typeIdx int64 = -1
		// the decoder is the reading function or the helper it hands the bytes to
		storesLen := func(f *ssa.Function) bool {
			found := false
			eachInstr(f, func(_ *ssa.BasicBlock, _ int, in ssa.Instruction) {
				if st, ok := in.(*ssa.Store); ok {
					if f, _ := fieldAddr(st.Addr); f == lenF {
						found = true
					}
				}
			})
			return found
		}
		read := read
		if !storesLen(read) {
			for _, g := range staticCalleesDeep(read, 1) {
				if g.Pkg == read.Pkg && g.Blocks != nil && storesLen(g) {
					read = g
					break
				}
			}
		}
		eachInstr(read, func(_ *ssa.BasicBlock, _ int, in ssa.Instruction) {
			switch x := in.(type) {
			case *ssa.UnOp:
				if x.Op == token.MUL {
					if ia, ok := x.X.(*ssa.IndexAddr); ok {
						if k, isC := constInt(ia.Index); isC {
							switch k {
							case 1:
								env2.known[x] = b1.trunc(8)
							case 2:
								env2.known[x] = b2.trunc(8)
							}
						}
					}
				}
			case *ssa.Store:
				if f, _ := fieldAddr(x.Addr); f == lenF {
					lenStore = x
				}
				if f, _ := fieldAddr(x.Addr); f != nil && f.Name() == "Type" {
					if u, ok := stripConv(x.Val).(*ssa.UnOp); ok {
						if ia, ok := u.X.(*ssa.IndexAddr); ok {
							typeIdx, _ = constInt(ia.Index)
						}
					}
				}
			}
		})
		c.Check(typeIdx == 0, "R3", "reader type byte", read.Pos(), "Type = b[0]", fmt.Sprintf("the reader takes the type from byte %d", typeIdx))
		if lenStore == nil {
			c.Fail("R3", "reader composes Len", read.Pos(), "the reader never sets the length")
			return
		}
		got, ok := env2.eval(lenStore.Val)
		if !ok {
			c.Undecided("R3", "reader length affine", lenStore.Pos(), "length composition is outside the GF(2)-affine fragment: "+env2.why)
			return
		}
		want := bvInput(0, 16)
		bad := -1
		for k := 0; k < 64; k++ {
			if got.b[k] != want.b[k] {
				bad = k
				break
			}
		}
		if bad >= 0 {
			c.Fail("R3", "length codec inverse", lenStore.Pos(), fmt.Sprintf("bit %d of the length read back is %s instead of input bit %d: a frame is read as a frame of another length", bad, got.b[bad], bad))
		} else {
			c.OK("R3", "length codec inverse", lenStore.Pos(), "read(write(Len)) is the identity on all 16 bits (all 65536 lengths)")
		}
	}()
	c.Expect("R3", 5)

	// ---------------- R4
	func() {
		bc := newBoundsCtx(p, read)
		var n ssa.Value
		eachInstr(read, func(_ *ssa.BasicBlock, _ int, in ssa.Instruction) {
			if ex, ok := in.(*ssa.Extract); ok && ex.Index == 0 {
				if call, ok := ex.Tuple.(*ssa.Call); ok && calleeFn(call.Common()) != nil && calleeFn(call.Common()).Name() == "ReadMsgUnix" {
					n = ex
				}
			}
		})
		if n == nil {
			c.Undecided("R4", "bytes read", read.Pos(), "no ReadMsgUnix result")
			return
		}
		// the frame may be decoded in a helper that is handed exactly the bytes read (b[:n]): the byte count is then the
		// length of that parameter
		nTerm := func() lterm { return bc.term(n) }
		dfn := read
		eachInstr(read, func(_ *ssa.BasicBlock, _ int, in ssa.Instruction) {
			call, ok := in.(*ssa.Call)
			if !ok || dfn != read {
				return
			}
			g := calleeFn(call.Common())
			if g == nil || g.Blocks == nil || g.Pkg == nil || g.Pkg != read.Pkg {
				return
			}
			for i, a := range call.Call.Args {
				if sl, ok := a.(*ssa.Slice); ok && sl.Low == nil && sl.High == n && isByteSliceVal(sl) && i < len(g.Params) {
					prm := g.Params[i]
					dfn = g
					bc = newBoundsCtx(p, g)
					nTerm = func() lterm { return bc.lenOf(prm) }
				}
			}
		})
		read := dfn
		// a frame that is all header (declared length 0: the "unknown" reply, a bare request) is a complete frame: the
		// short-read guard rejects fewer than 3 bytes, not 3
		nrej := 0
		eachInstr(read, func(_ *ssa.BasicBlock, _ int, in ssa.Instruction) {
			bo, ok := in.(*ssa.BinOp)
			if !ok {
				return
			}
			k, isC := constInt(bo.Y)
			if !isC {
				return
			}
			isN := bo.X == n
			if lc, isCall := bo.X.(*ssa.Call); isCall && isBuiltin(lc, "len") {
				if _, isPrm := lc.Call.Args[0].(*ssa.Parameter); isPrm && dfn != p.Func("cmd/samaritan/hotrestart", "readMessage") {
					isN = true
				}
			}
			if !isN {
				return
			}
			for _, r := range *bo.Referrers() {
				iff, ok := r.(*ssa.If)
				if !ok {
					continue
				}
				for side, succ := range iff.Block().Succs {
					if len(succ.Preds) != 1 {
						continue
					}
					ret, isRet := succ.Instrs[len(succ.Instrs)-1].(*ssa.Return)
					if !isRet || len(ret.Results) == 0 || isNilConst(returnedValues(ret)[len(ret.Results)-1]) {
						continue
					}
					var v bool
					switch bo.Op {
					case token.LSS:
						v = 3 < k
					case token.LEQ:
						v = 3 <= k
					case token.GTR:
						v = 3 > k
					case token.GEQ:
						v = 3 >= k
					case token.EQL:
						v = 3 == k
					case token.NEQ:
						v = 3 != k
					default:
						continue
					}
					nrej++
					c.Check((side == 0) != v, "R4", fmt.Sprintf("short-read guard#%d accepts a header-only frame", nrej), bo.Pos(), "a datagram of exactly 3 bytes passes the guard", "a datagram of exactly 3 bytes - a complete frame with declared length 0, e.g. the protocol's own \"unknown\" reply or a bare-header request - is rejected as an invalid header: the request is dropped without a step and without a reply, and the peer waits for ever")
				}
			}
		})
		ns := 0
		eachInstr(read, func(_ *ssa.BasicBlock, _ int, in ssa.Instruction) {
			sl, ok := in.(*ssa.Slice)
			if !ok {
				return
			}
			// payload slice: stored into msg.Data
			isPayload := false
			for _, r := range *sl.Referrers() {
				if st, ok := r.(*ssa.Store); ok {
					if f, _ := fieldAddr(st.Addr); f != nil && f.Name() == "Data" {
						isPayload = true
					}
				}
			}
			if !isPayload {
				return
			}
			ns++
			// the payload is exactly the declared number of bytes: end - start == Len (bytes read beyond the declared
			// length - trailing bytes, a second frame in the same read - are not part of this message)
			{
				lo := lconst(0)
				if sl.Low != nil {
					lo = bc.term(sl.Low)
				}
				hiT := bc.lenOf(sl.X)
				if sl.High != nil {
					hiT = bc.term(sl.High)
				}
				exact := false
				var lenV ssa.Value
				eachInstr(read, func(_ *ssa.BasicBlock, _ int, y ssa.Instruction) {
					if ld, ok := y.(*ssa.UnOp); ok && ld.Op == token.MUL {
						if f, _ := fieldAddr(ld.X); f != nil && f.Name() == "Len" {
							lenV = ld
						}
					}
					if st, ok := y.(*ssa.Store); ok && lenV == nil {
						if f, _ := fieldAddr(st.Addr); f != nil && f.Name() == "Len" {
							lenV = st.Val
						}
					}
				})
				_ = lo
				_ = hiT
				// structurally: High is Len + k (k a constant, possibly 0) in any integer width, Low is the constant k
				isLen := func(v ssa.Value) bool {
					v = stripConv(v)
					if v == lenV {
						return true
					}
					if ld, ok := v.(*ssa.UnOp); ok && ld.Op == token.MUL {
						f, _ := fieldAddr(ld.X)
						return f != nil && f.Name() == "Len"
					}
					return false
				}
				lenPlus := func(v ssa.Value) (int64, bool) {
					v = stripConv(v)
					if isLen(v) {
						return 0, true
					}
					if bo, ok := v.(*ssa.BinOp); ok && bo.Op == token.ADD {
						if k, isC := constInt(bo.X); isC && isLen(bo.Y) {
							return k, true
						}
						if k, isC := constInt(bo.Y); isC && isLen(bo.X) {
							return k, true
						}
					}
					return 0, false
				}
				if sl.High != nil {
					if k, ok := lenPlus(sl.High); ok {
						low := int64(0)
						lowC := true
						if sl.Low != nil {
							low, lowC = constInt(sl.Low)
						}
						exact = lowC && low == k
					}
				}
				c.Check(exact, "R4", "payload is exactly the declared length", sl.Pos(), "end - start == Len", "the payload handed on is not cut at the declared length (it runs to the end of what was read): a read that returns more than header+Len - trailing bytes, two frames coalesced - yields a message whose payload has foreign bytes appended, and a malformed frame is accepted")
			}
			okp, w := bc.proveSlice(sl)
			if okp {
				c.OK("R4", "payload slice within the buffer", sl.Pos(), w)
			} else {
				c.Fail("R4", "payload slice within the buffer", sl.Pos(), "no witness that the payload slice stays inside the 4096-byte buffer (a frame of 4096 bytes with the maximal declared length crashes the process): "+w)
			}
			// hi <= n
			hi := bc.lenOf(sl.X)
			if sl.High != nil {
				hi = bc.term(sl.High)
			}
			// the payload may be cut from a sub-slice of the buffer (body := b[3:]): its end in the buffer is the
			// sub-slice's constant start plus the high bound
			for base := sl.X; ; {
				bs, ok := base.(*ssa.Slice)
				if !ok {
					break
				}
				if bs.Low != nil {
					k, isC := constInt(bs.Low)
					if !isC {
						hi = lterm{"?", 0}
						break
					}
					hi.c += k
				}
				base = bs.X
			}
			nt := nTerm()
			z := bc.zoneAt(sl.Block())
			if z.entLE(hi, nt) {
				c.OK("R4", "payload slice within the bytes read", sl.Pos(), "3+Len <= n entailed by the length guard")
			} else {
				c.Fail("R4", "payload slice within the bytes read", sl.Pos(), fmt.Sprintf("the length guard does not entail 3+Len <= n (high %s%+d vs n %s%+d): a truncated frame is accepted with one byte of garbage", hi.v, hi.c, nt.v, nt.c))
			}
		})
		if ns == 0 {
			c.Fail("R4", "payload slice", read.Pos(), "the reader does not slice the payload out of the buffer")
		}
		// header guard n >= 3 before reading bytes 0..2
		eachInstr(read, func(_ *ssa.BasicBlock, _ int, in ssa.Instruction) {
			ia, ok := in.(*ssa.IndexAddr)
			if !ok || !isByteSliceVal(ia.X) {
				return
			}
			k, isC := constInt(ia.Index)
			if !isC {
				return
			}
			z := bc.zoneAt(ia.Block())
			c.Check(z.entLT(lconst(k), nTerm()), "R4", fmt.Sprintf("header byte %d read only when present", k), ia.Pos(), "n > index entailed", "a header byte is read although fewer bytes arrived (stale buffer content is parsed as a header)")
		})
	}()
	c.Expect("R4", 5)

	// ---------------- R5
	if run := p.Func("cmd/samaritan", "(*instance).Run"); run == nil {
		c.Unresolved("R5", "cmd/samaritan.(*instance).Run")
	} else {
		find := func(fn *ssa.Function, name string) ssa.Instruction {
			var out ssa.Instruction
			eachInstr(fn, func(_ *ssa.BasicBlock, _ int, in ssa.Instruction) {
				if cc := callOf(in); cc != nil {
					if g := calleeFn(cc); g != nil && g.Name() == name {
						out = in
					}
					if cc.IsInvoke() && cc.Method.Name() == name {
						out = in
					}
				}
			})
			return out
		}
		a, b, d := find(run, "ShutdownParentAdmin"), find(run, "Start"), find(run, "DrainParentListeners")
		// admin Start: the call whose receiver is the admin server: take the Start after ShutdownParentAdmin
		var adminStart ssa.Instruction
		eachInstr(run, func(_ *ssa.BasicBlock, _ int, in ssa.Instruction) {
			if cc := callOf(in); cc != nil {
				if g := calleeFn(cc); g != nil && g.Name() == "Start" && len(cc.Args) > 0 {
					if f, _ := loadedField(cc.Args[0]); f != nil && f.Name() == "admin" {
						adminStart = in
					}
				}
			}
		})
		_ = b
		var term ssa.Instruction
		for _, an := range run.AnonFuncs {
			if t := find(an, "TerminateParent"); t != nil {
				term = t
			}
		}
		ok := a != nil && adminStart != nil && d != nil && instrDominates(a, adminStart) && instrDominates(adminStart, d)
		c.Check(ok, "R5", "child order admin hand-over then drain", run.Pos(), "ShutdownParentAdmin < admin.Start < DrainParentListeners", "the child does not ask the parent to stop its admin API before starting its own, or drains before the admin hand-over")
		// terminate in a goroutine started after the drain
		okT := false
		if term != nil && d != nil {
			eachInstr(run, func(_ *ssa.BasicBlock, _ int, in ssa.Instruction) {
				if g, isGo := in.(*ssa.Go); isGo && funcValue(g.Call.Value) == term.Parent() && instrDominates(d, in) {
					okT = true
				}
			})
		}
		c.Check(okT, "R5", "terminate parent last", run.Pos(), "TerminateParent is started after the drain request", "the parent is terminated before it was asked to drain")
	}

	// ---------------- R6
	if dl := p.Func("controller", "(*Controller).DrainListeners"); dl == nil {
		c.Unresolved("R6", "Controller.DrainListeners")
	} else {
		bad := ""
		n := 0
		eachInstr(dl, func(_ *ssa.BasicBlock, _ int, in ssa.Instruction) {
			cc := callOf(in)
			if cc == nil || !cc.IsInvoke() {
				return
			}
			if types.TypeString(cc.Value.Type(), nil) == modPath+"/proc.Proc" {
				n++
				if cc.Method.Name() != "StopListen" {
					bad = cc.Method.Name()
				}
			}
		})
		// every processor is asked: from a StopListen call no return is reachable without coming back to the loop header
		// (an error of one processor - its listener is already closed because the service is being removed - must not
		// end the drain for the others)
		eachInstr(dl, func(b *ssa.BasicBlock, _ int, in ssa.Instruction) {
			cc := callOf(in)
			if cc == nil || !cc.IsInvoke() || cc.Method.Name() != "StopListen" {
				return
			}
			var hdr *ssa.BasicBlock
			for _, h := range loopHeaders(dl) {
				if h.Dominates(b) {
					hdr = h
				}
			}
			if hdr == nil {
				return
			}
			path := findPath(posOf(in), pathQuery{target: isReturn, avoid: func(x ssa.Instruction) bool { return x.Block() == hdr }})
			c.Check(path == nil, "R6", "drain asks every processor", in.Pos(), "the loop over the processors is left only when it is exhausted", "the drain loop can end before every processor was asked to stop listening ("+p.pathString(path)+"): one processor whose StopListen fails (its socket is already closed because the service is being removed) ends the step for all that follow - they keep accepting although the drain is acknowledged, and the step is never retried")
		})
		c.Check(bad == "" && n >= 1, "R6", "drain calls only StopListen", dl.Pos(), "StopListen on every processor of the snapshot", "draining calls "+bad+" on processors: established connections are not kept")
	}
	checkDrainLatch(c, "R6")
	c.Expect("R6", 2)
	checkChildDeparture(c, "R7")
	c.Rule("R8", "every requested step resolves to a declared method of the instance (not to a promotion wrapper that re-enters the same interface call)")
	checkStepsHaveActions(c, "R8")
	c.Rule("R11", "the handler called for a frame is chosen from that frame's type alone (no handler variable carried across iterations of the read loop)")
	checkHandlerChosenPerRequest(c, "R11")
	c.Rule("R9", "the frame reader accepts every type byte (unknown requests reach the dispatcher and get the unknown reply)")
	checkReaderTypeAgnostic(c, "R9")
	c.Rule("R10", "draining the parent's listeners keeps the established connections (shared with C09.R11): the drain latch is not read by code that runs per accepted connection")
	checkDrainKeepsAccepted(c, "R10")
}

// checkDrainLatch (C17.R6, C09.R4): the close of the drain latch in listener.Drain is not control-dependent on the
// listener being bound - a Drain issued before/while binding must still be seen by Serve's bind loop.
func checkDrainLatch(c *Ctx, rule string) {
	p := c.P
	if dr := p.Func("proc", "(*listener).Drain"); dr != nil {
		drain := p.Field(procPkg, "listener", "drain")
		// the close of the drain latch must not be control-dependent on the listener being bound
		okAlways := false
		var onceDo ssa.Instruction
		if sites := p.closeSitesIn(dr, drain); len(sites) > 0 {
			onceDo = sites[0]
		}
		if onceDo != nil {
			okAlways = escapesWithout(entryPos(dr), func(x ssa.Instruction) bool { return x == onceDo }) == nil
		}
		c.Check(okAlways, rule, "Drain marks the listener drained on every path", dr.Pos(), "the drain latch is closed whether or not the port is bound", "Drain returns without closing the drain latch when the listener is not bound yet: the bind-retry loop keeps going, binds later, and the 'drained' old process accepts new connections")
	}
}

// errorSources classifies what a function can return in error result #idx: concrete types it constructs, and whether it
// passes an error of an external (non-module) call through unchanged ("foreign": may be any type, e.g. *net.OpError).
func (p *Prog) errorSources(fn *ssa.Function, idx, depth int) (concrete map[string]bool, foreign bool) {
	concrete = map[string]bool{}
	seen := map[ssa.Value]bool{}
	var walk func(v ssa.Value, d int)
	walk = func(v ssa.Value, d int) {
		if seen[v] {
			return
		}
		seen[v] = true
		switch x := v.(type) {
		case *ssa.Const:
		case *ssa.MakeInterface:
			concrete[types.TypeString(x.X.Type(), nil)] = true
		case *ssa.ChangeInterface:
			walk(x.X, d)
		case *ssa.Phi:
			for _, e := range x.Edges {
				walk(e, d)
			}
		case *ssa.Extract:
			if call, ok := x.Tuple.(*ssa.Call); ok {
				g := calleeFn(call.Common())
				if g != nil && isModFn(g) && g.Blocks != nil && d > 0 {
					c2, f2 := p.errorSources(g, x.Index, d-1)
					for k := range c2 {
						concrete[k] = true
					}
					foreign = foreign || f2
					return
				}
			}
			foreign = true
		case *ssa.Call:
			g := calleeFn(x.Common())
			switch {
			case g != nil && isModFn(g) && g.Blocks != nil && d > 0:
				c2, f2 := p.errorSources(g, 0, d-1)
				for k := range c2 {
					concrete[k] = true
				}
				foreign = foreign || f2
			case g != nil && g.Pkg != nil && g.Pkg.Pkg.Path() == "fmt" && g.Name() == "Errorf":
				concrete["*fmt.wrapError"] = true
			case g != nil && g.Pkg != nil && g.Pkg.Pkg.Path() == "errors" && g.Name() == "New":
				concrete["*errors.errorString"] = true
			default:
				foreign = true
			}
		default:
			foreign = true
		}
	}
	eachInstr(fn, func(_ *ssa.BasicBlock, _ int, in ssa.Instruction) {
		if r, ok := in.(*ssa.Return); ok && idx < len(r.Results) {
			walk(returnedValues(r)[idx], depth)
		}
	})
	return
}

// checkChildDeparture (C17.R7): the old process recognises a departed child by the concrete type of the error that the
// frame reader returns (`err.(*net.OpError)` with Err == io.EOF) and only then leaves the child's loop. That is a
// contract between two functions: the reader must hand the socket error through unchanged. If it constructs its own
// error values only (wrapping), the assertion can never succeed, the loop spins on the dead connection and - because
// the loop runs inline in the accept loop - no later child is ever served.
func checkChildDeparture(c *Ctx, rule string) {
	p := c.P
	read := p.Func("cmd/samaritan/hotrestart", "readMessage")
	if read == nil {
		c.Unresolved(rule, "hotrestart.readMessage")
		return
	}
	n := 0
	for _, ed := range p.callersOf(read) {
		fn := ed.Caller.Func
		if p.isTestFn(fn) {
			continue
		}
		call, ok := ed.Site.(*ssa.Call)
		if !ok {
			continue
		}
		var errV ssa.Value
		for _, r := range *call.Referrers() {
			if ex, ok := r.(*ssa.Extract); ok && ex.Index == 1 {
				errV = ex
			}
		}
		if errV == nil {
			continue
		}
		eachInstr(fn, func(_ *ssa.BasicBlock, _ int, in ssa.Instruction) {
			ta, ok := in.(*ssa.TypeAssert)
			if !ok || ta.X != errV {
				return
			}
			n++
			want := types.TypeString(ta.AssertedType, nil)
			site := fmt.Sprintf("%s asserts the reader's error to %s", fnKey(fn), want)
			conc, foreign := p.errorSources(read, 1, 2)
			if _, isIface := ta.AssertedType.Underlying().(*types.Interface); isIface || foreign || conc[want] {
				c.OK(rule, site, ta.Pos(), "the reader passes the socket error through unchanged, so the assertion can succeed")
				return
			}
			var ks []string
			for k := range conc {
				ks = append(ks, k)
			}
			sort.Strings(ks)
			c.Fail(rule, site, ta.Pos(), "the frame reader only returns errors it constructs itself ("+strings.Join(ks, ", ")+"): this assertion can never succeed, so a departed child (EOF) is treated as a bad frame, the loop spins on the dead connection and no later child is ever accepted")
		})
	}
	if n == 0 {
		c.Note("no concrete-type test on the frame reader's error")
	}
}

// isByteSliceVal: v is a []byte (not a varargs array or another slice).
func isByteSliceVal(v ssa.Value) bool {
	sl, ok := v.Type().Underlying().(*types.Slice)
	if !ok {
		return false
	}
	b, ok := sl.Elem().Underlying().(*types.Basic)
	return ok && b.Kind() == types.Uint8
}

// checkStepsHaveActions (C17.R8): every step the old process performs on request is an interface call on the embedded
// Instance. The concrete instance embeds the Restarter, which embeds that interface - so a method the instance does
// not declare itself is *promoted from the very interface value that holds the instance*: calling it re-enters the
// same promotion wrapper for ever (fatal stack overflow, the old process dies on that request). Every callee of an
// Instance call made by the restarter must therefore be a declared function, not a promotion wrapper that invokes
// the same interface method again.
func checkStepsHaveActions(c *Ctx, rule string) {
	p := c.P
	n := 0
	seen := map[string]bool{}
	for _, fn := range p.FuncsIn(hrPkg) {
		if p.isTestFn(fn) {
			continue
		}
		eachInstr(fn, func(_ *ssa.BasicBlock, _ int, in ssa.Instruction) {
			ci, ok := in.(ssa.CallInstruction)
			if !ok || !ci.Common().IsInvoke() {
				return
			}
			it := ci.Common().Value.Type()
			if !modType(it, hrPkg, "Instance") {
				return
			}
			m := ci.Common().Method.Name()
			if seen[m] {
				return
			}
			seen[m] = true
			n++
			site := "step Instance." + m + " has a declared implementation"
			bad := ""
			for _, g := range p.callees(ci) {
				// follow promotion wrappers
				cur := g
				for depth := 0; depth < 6 && cur != nil && cur.Synthetic != ""; depth++ {
					var next *ssa.Function
					loops := false
					eachInstr(cur, func(_ *ssa.BasicBlock, _ int, x ssa.Instruction) {
						c2, ok := x.(ssa.CallInstruction)
						if !ok {
							return
						}
						if c2.Common().IsInvoke() && c2.Common().Method.Name() == m && modType(c2.Common().Value.Type(), hrPkg, "Instance") {
							loops = true
							return
						}
						if h := calleeFn(c2.Common()); h != nil {
							next = h
						}
					})
					if loops {
						bad = fnKey(g)
						break
					}
					cur = next
				}
			}
			c.Check(bad == "", rule, site, in.Pos(), "resolves to a declared method", "the only implementation is "+bad+", a wrapper that promotes the method from the embedded Restarter's Instance field - which holds this very instance: the call re-enters itself without end (fatal stack overflow), so the old process dies when it is asked for this step")
		})
	}
	if n == 0 {
		c.Unresolved(rule, "no call on hotrestart.Instance")
	}
}

// checkReaderTypeAgnostic (C17.R9): "unknown requests are answered with the unknown reply" and "every frame
// round-trips (type, length, payload)" both need the frame reader to accept every type byte: rejecting a frame because
// of its type turns an unknown request into a read error, which the child loop skips without any reply - the child
// waits for ever. No error return of the reader may be control-dependent on the type byte.
func checkReaderTypeAgnostic(c *Ctx, rule string) {
	p := c.P
	read := p.Func(hrPkg, "readMessage")
	if read == nil {
		c.Unresolved(rule, "hotrestart.readMessage")
		return
	}
	// values derived from byte 0 of the buffer / the Type field
	var isTypeByte func(v ssa.Value) bool
	seenTB := map[ssa.Value]bool{}
	isTypeByte = func(v ssa.Value) bool {
		if v == nil || seenTB[v] {
			return false
		}
		seenTB[v] = true
		switch x := v.(type) {
		case *ssa.Convert:
			return isTypeByte(x.X)
		case *ssa.ChangeType:
			return isTypeByte(x.X)
		case *ssa.BinOp:
			return isTypeByte(x.X) || isTypeByte(x.Y)
		case *ssa.Phi:
			for _, e := range x.Edges {
				if isTypeByte(e) {
					return true
				}
			}
		case *ssa.UnOp:
			if x.Op == token.NOT {
				return isTypeByte(x.X)
			}
			if x.Op == token.MUL {
				if ia, ok := x.X.(*ssa.IndexAddr); ok && isByteSliceVal(ia.X) {
					if k, isC := constInt(ia.Index); isC && k == 0 {
						return true
					}
				}
				if f, _ := fieldAddr(x.X); f != nil && f.Name() == "Type" {
					return true
				}
			}
		case *ssa.Call:
			if g := calleeFn(x.Common()); g != nil && isModFn(g) {
				for _, a := range x.Call.Args {
					if isTypeByte(a) {
						return true
					}
				}
			}
		}
		return false
	}
	bad := token.NoPos
	n := 0
	eachInstr(read, func(b *ssa.BasicBlock, _ int, in ssa.Instruction) {
		iff, ok := in.(*ssa.If)
		if !ok {
			return
		}
		n++
		// does one side lead only to an error return?
		rejects := false
		for _, s := range b.Succs {
			if len(s.Preds) != 1 {
				continue
			}
			if ret, ok := s.Instrs[len(s.Instrs)-1].(*ssa.Return); ok && len(ret.Results) == 2 && !isNilConst(returnedValues(ret)[1]) {
				rejects = true
			}
		}
		if !rejects {
			return
		}
		seenTB = map[ssa.Value]bool{}
		if isTypeByte(iff.Cond) {
			bad = iff.Cond.Pos()
		}
	})
	c.Check(bad == token.NoPos, rule, "the frame reader rejects no frame because of its type", bad, fmt.Sprintf("%d branches examined, no error return depends on the type byte", n), "the frame reader returns an error depending on the type byte: a well-formed frame of an undefined type (a newer child's request) never reaches the dispatcher, the child loop skips it without the unknown reply and the child waits for ever")
}

// checkHandlerChosenPerRequest (C17.R11): the handler called for a frame is chosen from that frame's type alone. A
// handler variable that lives across iterations of the read loop ("state the default once") keeps the choice of the
// previous request for a type the dispatch does not name: the previous step runs again and its reply is sent in place
// of the unknown reply.
func checkHandlerChosenPerRequest(c *Ctx, rule string) {
	p := c.P
	n := 0
	for _, fn := range p.FuncsIn("cmd/samaritan/hotrestart") {
		if p.isTestFn(fn) {
			continue
		}
		heads := map[*ssa.BasicBlock]bool{}
		for _, h := range loopHeaders(fn) {
			heads[h] = true
		}
		if len(heads) == 0 {
			continue
		}
		eachInstr(fn, func(_ *ssa.BasicBlock, _ int, in ssa.Instruction) {
			call, ok := in.(*ssa.Call)
			if !ok || call.Call.IsInvoke() || call.Call.StaticCallee() != nil {
				return
			}
			if _, isB := call.Call.Value.(*ssa.Builtin); isB {
				return
			}
			// a dispatch: the callee is chosen among several method values
			ph, isPhi := call.Call.Value.(*ssa.Phi)
			if !isPhi {
				return
			}
			n++
			carried := false
			seen := map[*ssa.Phi]bool{}
			var walk func(q *ssa.Phi)
			walk = func(q *ssa.Phi) {
				if seen[q] {
					return
				}
				seen[q] = true
				if heads[q.Block()] {
					carried = true
				}
				for _, e := range q.Edges {
					if q2, ok := e.(*ssa.Phi); ok {
						walk(q2)
					}
				}
			}
			walk(ph)
			c.Check(!carried, rule, fmt.Sprintf("%s dispatch#%d chooses the handler from this request alone", fnKey(fn), n), call.Pos(), "no value of the handler variable flows in from a previous iteration", "the handler variable is carried from one iteration of the read loop to the next: a request of a type the dispatch does not name is handed to the handler of the previous request - that step is performed again, and its reply is sent instead of the unknown reply")
		})
	}
	if n == 0 {
		c.OK(rule, "no dispatch through a handler variable", token.NoPos, "the handler is called directly (switch arms or a table)")
	}
}
