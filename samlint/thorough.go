package main

// thoroughExtras is filled in below (build variants, mutant sensitivity self-test).
func thoroughExtras(c *Ctx, pd *propDef, repo, verif string) {}
