package main

import (
	"bufio"
	"bytes"
	"encoding/json"
	"fmt"
	"os"
	"os/exec"
	"path/filepath"
	"sort"
	"strings"
	"sync"
)

type childResult struct {
	Exit   int
	Fails  []Obligation
	Output string
}

func runChild(prop, repo, verif string, extra ...string) childResult {
	self, _ := os.Executable()
	args := append([]string{"check", "-child", "-prop", prop, "-repo", repo, "-verif", verif}, extra...)
	cmd := exec.Command(self, args...)
	var out bytes.Buffer
	cmd.Stdout = &out
	cmd.Stderr = &out
	err := cmd.Run()
	res := childResult{Output: out.String()}
	if err != nil {
		if ee, ok := err.(*exec.ExitError); ok {
			res.Exit = ee.ExitCode()
		} else {
			res.Exit = 2
		}
	}
	sc := bufio.NewScanner(strings.NewReader(res.Output))
	sc.Buffer(make([]byte, 1<<20), 1<<22)
	for sc.Scan() {
		if l := sc.Text(); strings.HasPrefix(l, "CHILD-FAIL ") {
			var o Obligation
			if json.Unmarshal([]byte(l[len("CHILD-FAIL "):]), &o) == nil {
				res.Fails = append(res.Fails, o)
			}
		}
	}
	return res
}

type mutantSpec struct {
	Name   string
	Patch  string
	Benign bool
	Seeded bool
}

func listMutants(prop, verif string) []mutantSpec {
	var out []mutantSpec
	ps, _ := filepath.Glob(filepath.Join(verif, "mutants", prop, "*.patch"))
	for _, f := range ps {
		n := strings.TrimSuffix(filepath.Base(f), ".patch")
		out = append(out, mutantSpec{Name: n, Patch: f, Benign: strings.HasPrefix(n, "benign-")})
	}
	ms, _ := filepath.Glob(filepath.Join(verif, "seeded", "*", "meta.json"))
	for _, m := range ms {
		b, err := os.ReadFile(m)
		if err != nil {
			continue
		}
		var meta struct {
			Property   string   `json:"property"`
			Properties []string `json:"also_breaks"`
		}
		if json.Unmarshal(b, &meta) != nil {
			continue
		}
		match := meta.Property == prop
		for _, q := range meta.Properties {
			if q == prop {
				match = true
			}
		}
		if !match {
			continue
		}
		pf := filepath.Join(filepath.Dir(m), "patch.diff")
		if _, err := os.Stat(pf); err == nil {
			out = append(out, mutantSpec{Name: "seeded/" + filepath.Base(filepath.Dir(m)), Patch: pf, Seeded: true})
		}
	}
	// behaviour-preserving refactors written by independent agents: every check must stay silent on each
	bs, _ := filepath.Glob(filepath.Join(verif, "benign", "*", "patch.diff"))
	for _, f := range bs {
		out = append(out, mutantSpec{Name: "benign/" + filepath.Base(filepath.Dir(f)), Patch: f, Benign: true})
	}
	sort.Slice(out, func(i, j int) bool { return out[i].Name < out[j].Name })
	return out
}

// scratchCopy copies the working tree of repo (without .git) to a fresh temp dir.
func scratchCopy(repo string) (string, error) {
	dir, err := os.MkdirTemp("", "samlint-scratch-")
	if err != nil {
		return "", err
	}
	cmd := exec.Command("rsync", "-a", "--exclude", ".git", repo+"/", dir+"/")
	if out, err := cmd.CombinedOutput(); err != nil {
		os.RemoveAll(dir)
		return "", fmt.Errorf("rsync: %v: %s", err, out)
	}
	return dir, nil
}

// thoroughExtras: build-variant matrix and the sensitivity self-test on scratch copies.
func thoroughExtras(c *Ctx, pd *propDef, repo, verif string) {
	// --- build variants (each in its own process)
	type variantRes struct {
		Variant string   `json:"variant"`
		Status  string   `json:"status"`
		Failing []string `json:"failing_keys,omitempty"`
	}
	var vres []variantRes
	for _, v := range [][2]string{{"darwin", "amd64"}, {"linux", "arm64"}} {
		r := runChild(pd.id, repo, verif, "-goos", v[0], "-goarch", v[1])
		vr := variantRes{Variant: v[0] + "/" + v[1]}
		switch {
		case r.Exit == 0:
			vr.Status = "all obligations discharged"
		case r.Exit == 1:
			vr.Status = "failing obligations"
			for _, f := range r.Fails {
				vr.Failing = append(vr.Failing, f.Key)
				c.add(strings.TrimPrefix(f.Rule, c.Prop+"."), "["+vr.Variant+"] "+strings.TrimPrefix(f.Key, f.Rule+" / "), 0, f.Status, "build variant "+vr.Variant+": "+f.Detail+" ["+f.Pos+"]")
			}
		default:
			vr.Status = "variant could not be loaded in this sandbox (not judged): " + firstLine(r.Output)
		}
		vres = append(vres, vr)
		c.Note("build variant %s: %s", vr.Variant, vr.Status)
	}
	c.Extra["build_variants"] = vres

	// --- sensitivity self-test
	muts := listMutants(pd.id, verif)
	type mutRes struct {
		Mutant   string   `json:"mutant"`
		Expected string   `json:"expected"`
		Outcome  string   `json:"outcome"`
		Keys     []string `json:"reported_keys,omitempty"`
	}
	results := make([]mutRes, len(muts))
	var wg sync.WaitGroup
	sem := make(chan struct{}, 6)
	for i, m := range muts {
		wg.Add(1)
		go func(i int, m mutantSpec) {
			defer wg.Done()
			sem <- struct{}{}
			defer func() { <-sem }()
			res := mutRes{Mutant: m.Name, Expected: "detected"}
			if m.Benign {
				res.Expected = "silent (behaviour-preserving edit)"
			}
			dir, err := scratchCopy(repo)
			if err != nil {
				res.Outcome = "error: " + err.Error()
				results[i] = res
				return
			}
			defer os.RemoveAll(dir)
			ap := exec.Command("git", "apply", "--whitespace=nowarn", m.Patch)
			ap.Dir = dir
			if out, err := ap.CombinedOutput(); err != nil {
				res.Outcome = "inapplicable: " + firstLine(string(out))
				results[i] = res
				return
			}
			r := runChild(pd.id, dir, verif)
			for _, f := range r.Fails {
				res.Keys = append(res.Keys, f.Key)
			}
			switch {
			case r.Exit == 2:
				res.Outcome = "mutant does not load: " + firstLine(r.Output)
			case r.Exit == 1 && !m.Benign:
				res.Outcome = "detected"
			case r.Exit == 0 && m.Benign:
				res.Outcome = "silent"
			case r.Exit == 0:
				res.Outcome = "sensitivity_miss"
			default:
				res.Outcome = "false_alarm_on_benign_edit"
			}
			results[i] = res
		}(i, m)
	}
	wg.Wait()
	nd, nm := 0, 0
	for _, r := range results {
		if r.Outcome == "detected" || r.Outcome == "silent" {
			nd++
		} else {
			nm++
		}
		fmt.Printf("sensitivity: %-40s expected=%-10s outcome=%s\n", r.Mutant, strings.Fields(r.Expected)[0], r.Outcome)
	}
	c.Extra["sensitivity"] = results
	c.Note("sensitivity self-test: %d scratch-copy variants, %d as expected, %d not (informational; exit code reflects /repo only)", len(results), nd, nm)
}

func firstLine(s string) string {
	s = strings.TrimSpace(s)
	if i := strings.Index(s, "\n"); i >= 0 {
		s = s[:i]
	}
	if len(s) > 200 {
		s = s[:200]
	}
	return s
}
