package main

import (
	"fmt"
	"go/token"
	"go/types"
	"strings"

	"golang.org/x/tools/go/ssa"
)

func init() {
	register(&propDef{
		id: "C07",
		li: levelInfo{
			Level:       "other",
			Explanation: "Static rules on the self-healing paths of the Redis upstream. R1: a key inserted into the in-flight-connect map by the goroutine that wins LoadOrStore is deleted on every path after the attempt completed (a finished entry must not be observable later - otherwise every later request for that address gets the cached dead connection or the cached error). R2: the goroutine that runs a backend connection removes it from the table after the run function returns; the reader's return is followed by a Close of the connection before the writer is joined (a writer blocked in a socket write is woken). R3: every path on which a slots refresh failed reaches the refresh trigger. R4: redirect / cluster-down handlers and each host-change callback with a non-empty argument reach the trigger; OnHostRemove stops the connection of every removed address; OnHostReplace resets all. R5: every blocking operation reachable from the refresh loop is guarded by upstream.quit, a join, or bounded by a timer. R6: the nil test of the slot entry dominates every dereference of it. R7: a slots refresh rewrites every slot a master line lists (no stale owner/replica list survives). Convergence within a bounded number of rounds is not decided. R3 also requires every send on the refresh channel to be non-blocking (its only receiver is the refresh loop itself). R7 also runs the CLUSTER NODES parser obligations (a master without slots is accepted). R8: a successfully parsed view is always applied. R9 (shared with C09.R7): no lock is held at a join that the joined goroutines need. R2 also requires the goroutine to remove the key the connection was added under (same value of the creating function). R1 also requires the values the winner returns to be stored into the in-flight entry first. R5 treats a timer channel drained after Stop() returned false as unbounded. R4 also runs the redirect-callback obligations of C04.R3. R7 forbids substring tests on columns. R3 also: every receive on the refresh channel is followed by a refresh round before the goroutine waits again or returns. R8 also: every path from a successful parse goes through the table update. R7 also: the parser rejects a whole view only for a short line, an address without host:port shape, or an error of a callee. R10: the node asked for the cluster layout is drawn at random from the host set in every round.",
			TrustedBase: []string{"go/ssa", "VTA call graph", "samlint echan.go"},
		},
		run: checkC07,
	})
	techniques["C07"] = "static analysis: must-pass-through pairing (insert/delete of the singleflight entry), blocking-operation classification, dominance on the SSA CFG"
}

func checkC07(c *Ctx) {
	p := c.P
	c.Rule("R1", "singleflight entry lifetime: the winner of LoadOrStore deletes the key on every path after completion")
	c.Rule("R2", "self-removal of a finished backend connection; connection closed before the writer is joined")
	c.Rule("R3", "retry on refresh failure: every failing path reaches a non-blocking send on the refresh channel; no send on that channel can block")
	c.Rule("R4", "triggers: host-change callbacks reach the trigger; removed hosts' connections are stopped; replace resets all")
	c.Rule("R5", "refresh loop interruptible: blocking ops guarded by upstream.quit, joins, or timers")
	c.Rule("R6", "nil slot entry: the nil test dominates every dereference (fallback to a seed host)")
	c.Rule("R7", "refresh rewrites every listed slot (shared with C14.R6); the CLUSTER NODES parser accepts every well-formed view, including masters without slots (shared with C03.R4)")

	trigger := p.Func(redisPkg, "(*upstream).triggerSlotsRefresh")
	calls := p.Field(redisPkg, "upstream", "createClientCalls")
	if trigger == nil || calls == nil {
		c.Unresolved("R1", "upstream.triggerSlotsRefresh / createClientCalls")
		return
	}
	// the trigger by role: a non-blocking send on the refresh channel, inline or through a helper
	refreshCh := p.Field(redisPkg, "upstream", "slotsRefreshCh")
	trigFns := map[*ssa.Function]bool{trigger: true}
	trigSel := map[ssa.Instruction]bool{}
	if refreshCh != nil {
		nSend := 0
		for _, op := range p.chanOpsOnField(refreshCh) {
			if op.Kind != opSend {
				continue
			}
			nSend++
			site := fmt.Sprintf("send#%d on the refresh channel in %s", nSend, fnKey(op.Fn))
			if op.InSelect != nil && !op.Blocking {
				trigFns[op.Fn] = true
				trigSel[op.InSelect] = true
				c.OK("R3", site, op.In.Pos(), "non-blocking (select with default)")
			} else {
				c.Fail("R3", site, op.In.Pos(), "a blocking send on the refresh channel: its only receiver is the refresh loop, which also runs the code that retriggers after a failure - with the one-slot buffer full the sender (the loop itself, or a request path) waits for ever and routing never converges again")
			}
		}
	}
	isTrigger := func(in ssa.Instruction) bool {
		if trigSel[in] {
			return true
		}
		if cc := callOf(in); cc != nil {
			if g := calleeFn(cc); g != nil && trigFns[g] {
				return true
			}
		}
		return false
	}

	// ---------------- R1
	checkSingleflightEntry(c, "R1", calls)

	// ---------------- R2
	start := p.Func(redisPkg, "(*client).Start")
	remove := p.Func(redisPkg, "(*upstream).removeClient")
	create := p.Func(redisPkg, "(*upstream).createClient")
	if start == nil || remove == nil || create == nil {
		c.Unresolved("R2", "client.Start / upstream.removeClient / createClient")
	} else {
		ok := false
		// the connection's goroutine: a closure or a method started with go from the creating function
		var goFns []*ssa.Function
		eachInstr(create, func(_ *ssa.BasicBlock, _ int, in ssa.Instruction) {
			if g, okg := in.(*ssa.Go); okg {
				if f := funcValue(g.Call.Value); f != nil {
					goFns = append(goFns, f)
				} else if f := calleeFn(&g.Call); f != nil && f.Blocks != nil {
					goFns = append(goFns, f)
				}
			}
		})
		// the key under which the creating function enters the connection into the table: a map update in the creating
		// function, or the key argument of a helper that stores its (key, connection) parameters into a map
		var addKey ssa.Value
		eachInstr(create, func(_ *ssa.BasicBlock, _ int, in ssa.Instruction) {
			if mu, okm := in.(*ssa.MapUpdate); okm && isStringVal(mu.Key) {
				addKey = mu.Key
			}
			cc := callOf(in)
			if cc == nil {
				return
			}
			g := calleeFn(cc)
			if g == nil || !isModFn(g) || g.Blocks == nil {
				return
			}
			eachInstr(g, func(_ *ssa.BasicBlock, _ int, gi ssa.Instruction) {
				mu, okm := gi.(*ssa.MapUpdate)
				if !okm {
					return
				}
				kp, okk := mu.Key.(*ssa.Parameter)
				_, okv := mu.Value.(*ssa.Parameter)
				if okk && okv && isStringVal(kp) {
					if idx := paramIndex(g, kp); idx >= 0 && idx < len(cc.Args) {
						addKey = cc.Args[idx]
					}
				}
			})
		})
		keyOK, keyWhy := false, "no removal"
		for _, a := range goFns {
			var s, r ssa.Instruction
			eachInstr(a, func(_ *ssa.BasicBlock, _ int, in ssa.Instruction) {
				if isCallToFn(in, start) {
					s = in
				}
				if isCallToFn(in, remove) {
					r = in
				}
			})
			if s != nil && r != nil && instrDominates(s, r) {
				ok = escapesWithout(posOf(s), func(x ssa.Instruction) bool { return x == r }) == nil
				// the key the goroutine removes, resolved to a value of the creating function
				var rmKey ssa.Value
				for _, arg := range callOf(r).Args {
					if !isStringVal(arg) {
						continue
					}
					if u, oku := arg.(*ssa.UnOp); oku && u.Op == token.MUL {
						if _, isFV := u.X.(*ssa.FreeVar); isFV {
							arg = u.X
						}
					}
					switch k := arg.(type) {
					case *ssa.FreeVar:
						eachInstr(create, func(_ *ssa.BasicBlock, _ int, in ssa.Instruction) {
							if mc, okc := in.(*ssa.MakeClosure); okc && mc.Fn == a {
								for i, fv := range a.FreeVars {
									if fv == k && i < len(mc.Bindings) {
										rmKey = mc.Bindings[i]
									}
								}
							}
						})
					case *ssa.Parameter:
						eachInstr(create, func(_ *ssa.BasicBlock, _ int, in ssa.Instruction) {
							if g, okg := in.(*ssa.Go); okg && calleeFn(&g.Call) == a {
								args := g.Call.Args
								if idx := paramIndex(a, k); idx >= 0 && idx < len(args) {
									rmKey = args[idx]
								}
							}
						})
					default:
						keyWhy = "the goroutine removes the entry under a key it computes itself (" + exprDesc(arg) + "), not the key the entry was added under"
					}
				}
				// a captured variable is a cell: the load of the same cell / the same parameter
				same := func(x, y ssa.Value) bool {
					if x == nil || y == nil {
						return false
					}
					strip := func(v ssa.Value) ssa.Value {
						if u, okv := v.(*ssa.UnOp); okv && u.Op == token.MUL {
							return u.X
						}
						return v
					}
					return x == y || strip(x) == strip(y) || strip(x) == y || x == strip(y)
				}
				if addKey == nil {
					keyWhy = "no table insertion with a key found in the creating function"
				} else if same(addKey, rmKey) {
					keyOK = true
				} else if rmKey != nil {
					keyWhy = "the goroutine removes the entry under " + exprDesc(rmKey) + " while it was added under " + exprDesc(addKey)
				}
			}
		}
		c.Check(ok, "R2", "connection goroutine removes its table entry after the run returns", create.Pos(), "go { c.Start(); u.removeClient(addr) }", "a finished backend connection is not removed from the table: later requests for that address keep getting the dead connection")
		c.Check(keyOK, "R2", "connection goroutine removes the key it was added under", create.Pos(), "removal key and insertion key are the same value of the creating function", keyWhy+": when the two strings differ (a host name, another spelling of the address) the dead connection stays in the table and every later request for that address fails")
		checkCloseBeforeJoin(c, "R2")
	}
	c.Expect("R2", 3)

	// ---------------- R3
	refresh := p.Func(redisPkg, "(*upstream).refreshSlots")
	doRefresh := p.Func(redisPkg, "(*upstream).doSlotsRefresh")
	if refresh == nil || doRefresh == nil {
		c.Unresolved("R3", "refreshSlots / doSlotsRefresh")
	} else {
		var call *ssa.Call
		eachInstr(refresh, func(_ *ssa.BasicBlock, _ int, in ssa.Instruction) {
			if cl, ok := in.(*ssa.Call); ok && isCallToFn(cl, doRefresh) {
				call = cl
			}
		})
		if call == nil {
			c.Fail("R3", "refresh calls doSlotsRefresh", refresh.Pos(), "the refresh function does not perform a refresh")
		} else {
			// failing branch: err != nil
			var failB *ssa.BasicBlock
			for _, r := range *call.Referrers() {
				if bo, ok := r.(*ssa.BinOp); ok && isNilConst(bo.Y) {
					for _, rr := range *bo.Referrers() {
						if iff, ok := rr.(*ssa.If); ok {
							if bo.Op == token.EQL {
								failB = iff.Block().Succs[1]
							} else {
								failB = iff.Block().Succs[0]
							}
						}
					}
				}
			}
			if failB == nil {
				c.Undecided("R3", "failure branch", call.Pos(), "no err test")
			} else {
				path := findPath(ipos{failB, -1}, pathQuery{target: isReturn, avoid: isTrigger})
				c.Check(path == nil, "R3", "failed refresh retriggers", call.Pos(), "every failing path reaches triggerSlotsRefresh", "a failed slots refresh is not retried until the next periodic refresh: routing stays stale for minutes ("+p.pathString(path)+")")
			}
		}
	}

	// a trigger that was taken off the channel is honoured: from every receive on the refresh channel the next thing
	// that happens - before the goroutine returns or waits again - is a refresh round. A receive that only empties
	// the channel ("the table is fresh anyway") swallows the request of a redirection that arrived during the round.
	if refreshCh != nil && refresh != nil && doRefresh != nil {
		runsRound := func(x ssa.Instruction) bool { return isCallToFn(x, refresh, doRefresh) }
		waitsAgain := func(x ssa.Instruction) bool {
			switch y := x.(type) {
			case *ssa.Select:
				return y.Blocking
			case *ssa.UnOp:
				return y.Op == token.ARROW
			case *ssa.Return:
				return true
			}
			return isCallTo(x, "time.Sleep")
		}
		nRecv := 0
		for _, op := range p.chanOpsOnField(refreshCh) {
			if op.Kind != opRecv {
				continue
			}
			nRecv++
			site := fmt.Sprintf("receive#%d on the refresh channel in %s is followed by a round", nRecv, fnKey(op.Fn))
			var from ipos
			if op.InSelect != nil {
				var blk *ssa.BasicBlock
				for k, st := range op.InSelect.States {
					if f, _ := chanFieldOf(st.Chan); f == refreshCh && st.Dir == types.RecvOnly {
						blk = selectCaseBlock(op.InSelect, k)
					}
				}
				switch {
				case blk != nil:
					from = ipos{blk, -1}
				case !op.InSelect.Blocking:
					// arms without a body: execution continues behind the select whichever arm fired
					from = posOf(op.InSelect)
				default:
					c.Undecided("R3", site, op.In.Pos(), "the select arm of the receive was not found")
					continue
				}
			} else {
				from = posOf(op.In)
			}
			// a wait helper that reports "go on" to its caller (`for u.waitDue() { u.refresh() ... }`): a return of the
			// constant true is followed into the callers, on the true side of the test of the call
			isGoOn := func(x ssa.Instruction) bool {
				r, ok := x.(*ssa.Return)
				if !ok || len(r.Results) != 1 {
					return false
				}
				cv, isC := returnedValues(r)[0].(*ssa.Const)
				return isC && cv.Value != nil && cv.Value.String() == "true"
			}
			callWaits := func(x ssa.Instruction) bool {
				cc := callOf(x)
				if cc == nil {
					return false
				}
				g := calleeFn(cc)
				if g == nil || !isModFn(g) || g.Blocks == nil || runsRound(x) {
					return false
				}
				blocks := false
				eachInstr(g, func(_ *ssa.BasicBlock, _ int, y ssa.Instruction) {
					if sel, ok := y.(*ssa.Select); ok && sel.Blocking {
						blocks = true
					}
				})
				return blocks
			}
			var follow func(from ipos, depth int) []*ssa.BasicBlock
			follow = func(from ipos, depth int) []*ssa.BasicBlock {
				f := from.b.Parent()
				if bad := findPath(from, pathQuery{target: func(x ssa.Instruction) bool {
					return (waitsAgain(x) && !isGoOn(x)) || callWaits(x)
				}, avoid: runsRound}); bad != nil {
					return bad
				}
				if depth >= 2 || findPath(from, pathQuery{target: isGoOn, avoid: runsRound}) == nil {
					return nil
				}
				for _, ed := range p.callersOf(f) {
					if p.isTestFn(ed.Caller.Func) {
						continue
					}
					cv, ok := ed.Site.(ssa.Value)
					if !ok {
						return []*ssa.BasicBlock{ed.Site.Block()}
					}
					found := false
					for _, r := range *cv.Referrers() {
						iff, isIf := r.(*ssa.If)
						if !isIf {
							continue
						}
						found = true
						if bad := follow(ipos{iff.Block().Succs[0], -1}, depth+1); bad != nil {
							return bad
						}
					}
					if !found {
						return []*ssa.BasicBlock{ed.Site.Block()}
					}
				}
				return nil
			}
			path := follow(from, 0)
			c.Check(path == nil, "R3", site, op.In.Pos(), "every path from the receive runs a refresh round before the goroutine waits again or returns", "a refresh request is taken off the channel and dropped ("+p.pathString(path)+"): a redirection that arrived while a round was in flight loses its refresh when that round's answer predates the change - the table stays stale until another redirection happens to land outside a round, or until the periodic refresh")
		}
		// (a channel wrapped in a type whose operations are not resolved yields no operations at all: nothing to judge)
		if nRecv == 0 && len(p.chanOpsOnField(refreshCh)) > 0 {
			c.Fail("R3", "the refresh channel has a receiver", refresh.Pos(), "nothing receives from the refresh channel: triggers are never served")
		}
	}

	// ---------------- R4
	for _, name := range []string{"OnHostAdd", "OnHostRemove", "OnHostReplace"} {
		fn := p.Func(redisPkg, "(*upstream)."+name)
		if fn == nil {
			c.Unresolved("R4", name)
			continue
		}
		// non-empty branch: len(hosts) == 0 false edge
		var ne *ssa.BasicBlock
		for _, b := range fn.Blocks {
			if iff, ok := b.Instrs[len(b.Instrs)-1].(*ssa.If); ok {
				if bo, ok := iff.Cond.(*ssa.BinOp); ok && bo.Op == token.EQL {
					if cl, ok := bo.X.(*ssa.Call); ok && isBuiltin(cl, "len") {
						if z, isZ := constInt(bo.Y); isZ && z == 0 {
							ne = b.Succs[1]
						}
					}
				}
			}
		}
		from := entryPos(fn)
		if ne != nil {
			from = ipos{ne, -1}
		}
		path := findPath(from, pathQuery{target: isReturn, avoid: isTrigger})
		c.Check(path == nil, "R4", name+" reaches the trigger", fn.Pos(), "every non-empty path reaches triggerSlotsRefresh", "a host change does not trigger a slots refresh ("+p.pathString(path)+")")
	}
	if fn := p.Func(redisPkg, "(*upstream).OnHostRemove"); fn != nil {
		// loop over the removed hosts stopping clients[h.Addr]
		okStop := false
		eachInstr(fn, func(b *ssa.BasicBlock, _ int, in ssa.Instruction) {
			cc := callOf(in)
			if cc == nil {
				return
			}
			if g := calleeFn(cc); g != nil && g.Name() == "Stop" && modType(cc.Args[0].Type(), redisPkg, "client") {
				if derives(cc.Args[0], func(v ssa.Value) bool { _, isLk := v.(*ssa.Lookup); return isLk }) {
					for _, h := range loopHeaders(fn) {
						if h.Dominates(b) {
							okStop = true
						}
					}
				}
			}
		})
		c.Check(okStop, "R4", "OnHostRemove stops the removed hosts' connections", fn.Pos(), "loop: clients[h.Addr].Stop()", "connections to removed hosts are not stopped")
	}
	if fn := p.Func(redisPkg, "(*upstream).OnHostReplace"); fn != nil {
		reset := p.Func(redisPkg, "(*upstream).resetAllClients")
		ok, _ := p.mustOnAllPaths(fn, func(in ssa.Instruction) bool { return isCallToFn(in, reset) }, 1)
		// allow the empty-argument early return
		if !ok {
			ok = true
			eachInstr(fn, func(_ *ssa.BasicBlock, _ int, in ssa.Instruction) {})
			found := false
			eachInstr(fn, func(_ *ssa.BasicBlock, _ int, in ssa.Instruction) {
				if isCallToFn(in, reset) {
					found = true
				}
			})
			ok = found
		}
		c.Check(ok, "R4", "OnHostReplace resets all connections", fn.Pos(), "resetAllClients called", "replacing all hosts does not reset the backend connections")
	}
	c.Expect("R4", 5)
	// the redirect and cluster-down callbacks (shared with C04.R3): every recognised redirection and every cluster-down
	// path reaches the trigger, whatever happens to the resend
	c.withAlias(map[string]string{"R3": "R4", "R1": "", "R2": "", "R4": "", "R5": "", "R6": "", "R7": "", "R8": "", "R9": "", "R10": "", "R11": ""}, func() { checkC04(c) })

	// ---------------- R5
	loop := p.Func(redisPkg, "(*upstream).loopRefreshSlots")
	if loop == nil {
		c.Unresolved("R5", "loopRefreshSlots")
	} else {
		ce := newChanEngine(p)
		joins := map[*types.Var]bool{}
		if f := p.Field(redisPkg, "createClientCall", "done"); f != nil {
			joins[f] = true
		}
		reach := p.reachable([]*ssa.Function{loop}, func(f *ssa.Function) bool {
			// do not descend into the connection goroutines' own loops: they are C02/C09
			return strings.HasPrefix(f.Name(), "loopRead") || strings.HasPrefix(f.Name(), "loopWrite") || f.Name() == "Start"
		})
		n := 0
		for fn := range reach {
			if !isModFn(fn) || p.isTestFn(fn) || fn.Blocks == nil {
				continue
			}
			if pk := fnPkg(fn); pk == nil || pk.Pkg.Path() != modPath+"/"+redisPkg {
				continue
			}
			if fn.Name() == "Wait" || fn.Name() == "Stop" {
				continue
			}
			for _, op := range ce.classify(fn, joins) {
				n++
				site := fmt.Sprintf("%s %s", fnKey(fn), op.What)
				c.Check(op.Class != bcUnguarded, "R5", site, op.In.Pos(), op.Class.String(), "the refresh loop can block here for ever ("+op.Why+"): a silent backend wedges the refresh loop and upstream.Stop")
			}
			eachInstr(fn, func(_ *ssa.BasicBlock, _ int, in ssa.Instruction) {
				cc := callOf(in)
				if cc == nil {
					return
				}
				if g := calleeFn(cc); g != nil && g.Name() == "Wait" && g.Signature.Recv() != nil && isReqType(g.Signature.Recv().Type()) {
					n++
					c.Fail("R5", fnKey(fn)+" bare wait on a request", in.Pos(), "the refresh waits for its reply with a bare receive: a silent backend wedges the refresh loop and upstream.Stop")
				}
			})
		}
		c.Note("refresh loop reach: %d functions, %d blocking operations", len(reach), n)
	}
	c.Expect("R5", 4)

	// ---------------- R6
	slotsF := p.Field(redisPkg, "upstream", "slots")
	if slotsF == nil {
		c.Unresolved("R6", "upstream.slots")
	} else {
		n := 0
		for _, a := range p.fieldAccesses(slotsF) {
			ia, ok := a.In.(*ssa.IndexAddr)
			if !ok || a.Write {
				continue
			}
			for _, r := range *ia.Referrers() {
				ld, ok := r.(*ssa.UnOp)
				if !ok || ld.Op != token.MUL {
					continue
				}
				// every dereference of ld (FieldAddr on it) must be dominated by ld != nil
				for _, u := range *ld.Referrers() {
					fa, ok := u.(*ssa.FieldAddr)
					if !ok {
						continue
					}
					n++
					site := fmt.Sprintf("%s slot entry deref#%d", fnKey(a.Fn), n)
					okNil := false
					for _, rr := range *ld.Referrers() {
						if bo, ok := rr.(*ssa.BinOp); ok && isNilConst(bo.Y) && (bo.Op == token.EQL || bo.Op == token.NEQ) {
							if condEdge(fa.Block(), bo, bo.Op == token.NEQ) {
								okNil = true
							}
						}
					}
					c.Check(okNil, "R6", site, fa.Pos(), "dominated by entry != nil", "a slot entry is dereferenced without a nil test: before the first refresh (or for an unassigned slot) the proxy crashes instead of falling back to a seed host")
				}
			}
		}
		// the nil branch falls back to a random seed host
		if ch := p.Func(redisPkg, "(*upstream).chooseHost"); ch != nil {
			rh := p.Func(redisPkg, "(*upstream).randomHost")
			found := false
			eachInstr(ch, func(_ *ssa.BasicBlock, _ int, in ssa.Instruction) {
				if isCallToFn(in, rh) {
					found = true
				}
			})
			c.Check(found, "R6", "empty routing entry falls back to a seed host", ch.Pos(), "randomHost() on the nil branch", "an empty routing entry no longer falls back to a seed host")
		}
	}
	c.Expect("R6", 2)
	checkSlotFill(c, "R7")
	checkClusterNodesParser(c, "R7")
	c.Rule("R8", "a successfully parsed cluster view is always applied (no acceptance test between the parser and the table update)")
	checkParsedViewApplied(c, "R8")
	c.Rule("R10", "every refresh round asks a node chosen at random among the configured hosts: a seed that cannot report the layout is not asked for ever")
	checkRefreshAsksRandomSeed(c, "R10")
	c.Rule("R9", "no lock is held at a join that the joined goroutines need (shared with C09.R7): replacing or removing hosts cannot wedge the upstream")
	c.withAlias(map[string]string{"R7": "R9"}, func() { checkWaitForCycles(c) })
}

// checkParsedViewApplied (C07.R8): once the cluster view has been parsed successfully it is applied: no path from the
// success edge of the parse returns an error. An all-or-nothing acceptance test on top of the parser (e.g. "every slot
// must be covered") keeps the whole table stale for as long as any part of the cluster is degraded, so layout changes
// of the healthy slots are never learned and their requests are redirected for ever.
func checkParsedViewApplied(c *Ctx, rule string) {
	p := c.P
	parse := p.Func(redisPkg, "parseClusterNodes")
	if parse == nil {
		c.Unresolved(rule, "parseClusterNodes")
		return
	}
	n := 0
	// call sites of the parser; a function that hands the parser's results straight on (return parse(...)) is looked
	// through to its own callers
	type site struct {
		fn   *ssa.Function
		call *ssa.Call
	}
	var sites []site
	var collect func(g *ssa.Function, depth int)
	collect = func(g *ssa.Function, depth int) {
		for _, ed := range p.callersOf(g) {
			fn := ed.Caller.Func
			if p.isTestFn(fn) {
				continue
			}
			call, ok := ed.Site.(*ssa.Call)
			if !ok {
				continue
			}
			passThrough := false
			if depth > 0 {
				for _, r := range *call.Referrers() {
					if ret, isRet := r.(*ssa.Return); isRet && len(ret.Results) == 2 {
						passThrough = true
					}
					if ex, isEx := r.(*ssa.Extract); isEx && ex.Index == 1 {
						onlyReturned := len(*ex.Referrers()) > 0
						for _, r2 := range *ex.Referrers() {
							if _, isRet := r2.(*ssa.Return); !isRet {
								onlyReturned = false
							}
						}
						if onlyReturned {
							passThrough = true
						}
					}
				}
			}
			if passThrough {
				collect(fn, depth-1)
				continue
			}
			sites = append(sites, site{fn, call})
		}
	}
	collect(parse, 2)
	for _, st := range sites {
		fn, call := st.fn, st.call
		n++
		site := "parsed view applied in " + fnKey(fn)
		// success edge: err == nil
		var okBlock *ssa.BasicBlock
		for _, r := range *call.Referrers() {
			ex, isEx := r.(*ssa.Extract)
			if !isEx || ex.Index != 1 {
				continue
			}
			for _, r2 := range *ex.Referrers() {
				bo, isBo := r2.(*ssa.BinOp)
				if !isBo || !isNilConst(bo.Y) {
					continue
				}
				for _, r3 := range *bo.Referrers() {
					if iff, isIf := r3.(*ssa.If); isIf {
						if bo.Op == token.NEQ {
							okBlock = iff.Block().Succs[1]
						} else if bo.Op == token.EQL {
							okBlock = iff.Block().Succs[0]
						}
					}
				}
			}
		}
		if okBlock == nil {
			c.Undecided(rule, site, call.Pos(), "the error of the parser is not tested")
			continue
		}
		path := findPath(ipos{okBlock, -1}, pathQuery{target: func(x ssa.Instruction) bool {
			r, ok := x.(*ssa.Return)
			if !ok || len(r.Results) == 0 {
				return false
			}
			last := returnedValues(r)[len(r.Results)-1]
			if _, isErr := last.Type().Underlying().(*types.Interface); !isErr {
				return false
			}
			return !isNilConst(last)
		}})
		// ... and no path returns without having gone through the table update: an acceptance test that silently keeps
		// the old table (a "not newer than what I have" filter, say) leaves moved slots redirected for ever just the same
		slotsF := p.Field(redisPkg, "upstream", "slots")
		writesTable := func(g *ssa.Function) *ssa.BasicBlock {
			var blk *ssa.BasicBlock
			eachInstr(g, func(b *ssa.BasicBlock, _ int, x ssa.Instruction) {
				if st, isSt := x.(*ssa.Store); isSt {
					if ia, isIA := st.Addr.(*ssa.IndexAddr); isIA {
						if f, _ := fieldAddr(ia.X); f != nil && f == slotsF {
							blk = b
						} else if f, _ := loadedField(ia.X); f != nil && f == slotsF {
							blk = b
						}
					}
				}
			})
			return blk
		}
		if slotsF == nil {
			c.Unresolved(rule, "upstream.slots")
		} else {
			reaches := func(from, to *ssa.BasicBlock) bool {
				seen := map[*ssa.BasicBlock]bool{}
				work := []*ssa.BasicBlock{from}
				for len(work) > 0 {
					b := work[0]
					work = work[1:]
					for _, s := range b.Succs {
						if s == to {
							return true
						}
						if !seen[s] {
							seen[s] = true
							work = append(work, s)
						}
					}
				}
				return false
			}
			var apply func(x ssa.Instruction) bool
			if wb := writesTable(fn); wb != nil {
				// the outermost loop around the store that starts after the parse
				var head *ssa.BasicBlock
				for _, h := range loopHeaders(fn) {
					if h.Dominates(wb) && reaches(wb, h) && (okBlock == h || okBlock.Dominates(h)) {
						if head == nil || h.Dominates(head) {
							head = h
						}
					}
				}
				if head == nil {
					head = wb
				}
				apply = func(x ssa.Instruction) bool { return x.Block() == head }
			} else {
				apply = func(x ssa.Instruction) bool {
					cc := callOf(x)
					if cc == nil {
						return false
					}
					g := calleeFn(cc)
					if g == nil || !isModFn(g) || g.Blocks == nil {
						return false
					}
					for _, h := range append([]*ssa.Function{g}, staticCalleesDeep(g, 1)...) {
						if h.Blocks != nil && isModFn(h) && writesTable(h) != nil {
							return true
						}
					}
					return false
				}
			}
			skip := findPath(ipos{okBlock, -1}, pathQuery{target: isReturn, avoid: apply})
			c.Check(skip == nil, rule, site+": every parsed view reaches the table", call.Pos(), "every path from a successful parse goes through the table update", "a successfully parsed cluster view can be dropped without touching the routing table ("+p.pathString(skip)+"): a view that fails the extra test is pulled and discarded every round, so slots that moved stay redirected although their new owner is known")
		}
		c.Check(path == nil, rule, site, call.Pos(), "after a successful parse no path returns an error", "a successfully parsed cluster view can still be rejected ("+p.pathString(path)+"): while the condition holds every refresh round fails, so the routing table stays as it was - slots that moved are redirected for ever although their new owner is known")
	}
	if n == 0 {
		c.Unresolved(rule, "no caller of parseClusterNodes")
	}
}

// checkCloseBeforeJoin (C07.R2, C02.R9): in every component with a reader/writer pair the connection is closed after
// the reader returns and before the writer is joined - a writer blocked in a socket write is only woken by the close.
func checkCloseBeforeJoin(c *Ctx, rule string) {
	p := c.P
	// Close between reader return and writer join, in every component with reader/writer pair
	for _, comp := range []struct{ fn, reader string }{{"(*client).Start", "loopRead"}, {"(*session).Serve", "loopRead"}} {
		fn := p.Func(redisPkg, comp.fn)
		if fn == nil {
			c.Unresolved(rule, comp.fn)
			continue
		}
		var rd, join, cl ssa.Instruction
		eachInstr(fn, func(_ *ssa.BasicBlock, _ int, in ssa.Instruction) {
			if cc := callOf(in); cc != nil {
				if g := calleeFn(cc); g != nil && g.Name() == comp.reader {
					rd = in
				}
				if cc.IsInvoke() && cc.Method.Name() == "Close" && rd != nil && cl == nil {
					if f, _ := loadedField(cc.Value); f != nil && f.Name() == "conn" {
						cl = in
					}
				}
			}
			if u, ok := in.(*ssa.UnOp); ok && u.Op == token.ARROW && localLatchClosedByGoroutine(fn, u.X) {
				join = in
			}
		})
		okc := rd != nil && join != nil && cl != nil && instrDominates(rd, cl) && instrDominates(cl, join)
		c.Check(okc, rule, fnKey(fn)+" closes the connection before joining the writer", fn.Pos(), "reader returns -> conn.Close() -> join", "after the reader returns the connection is not closed before the writer is joined: a writer blocked in a socket write (backend stopped reading) is never woken, the connection's goroutine never ends, its queued requests are never answered and the dead connection is never replaced")
	}
}

// checkSingleflightEntry (C07.R1, C04.R7): the in-flight entry of a connect attempt is deleted by the goroutine that won
// it on every path, before the waiters are released - a finished entry that stays in the map pins every later request
// for that address to the old result (a dead connection, or the error of one failed dial).
func checkSingleflightEntry(c *Ctx, rule string, calls *types.Var) {
	p := c.P
	// ---------------- R1
	nLS := 0
	for _, fn := range p.FuncsIn(redisPkg) {
		if p.isTestFn(fn) {
			continue
		}
		eachInstr(fn, func(_ *ssa.BasicBlock, _ int, in ssa.Instruction) {
			call, ok := in.(*ssa.Call)
			if !ok || !isCallTo(call, "(*sync.Map).LoadOrStore") {
				return
			}
			if f, _ := fieldAddr(call.Call.Args[0]); f != calls {
				return
			}
			nLS++
			site := fmt.Sprintf("%s in-flight entry#%d", fnKey(fn), nLS)
			key := call.Call.Args[1]
			// winner branch: loaded == false
			var winB *ssa.BasicBlock
			for _, r := range *call.Referrers() {
				if ex, ok := r.(*ssa.Extract); ok && ex.Index == 1 {
					for _, rr := range *ex.Referrers() {
						if iff, ok := rr.(*ssa.If); ok {
							winB = iff.Block().Succs[1]
						}
					}
				}
			}
			if winB == nil {
				c.Undecided(rule, site, call.Pos(), "cannot find the branch on `loaded`")
				return
			}
			isDelete := func(x ssa.Instruction) bool {
				cc := callOf(x)
				if cc == nil {
					return false
				}
				g := calleeFn(cc)
				if g == nil || g.String() != "(*sync.Map).Delete" {
					return false
				}
				f, _ := fieldAddr(cc.Args[0])
				return f == calls && stripConv(cc.Args[1]) == stripConv(key)
			}
			// the deletion may sit in a deferred closure: once the defer statement is passed, every exit runs it
			isDeferredDelete := func(x ssa.Instruction) bool {
				df, ok := x.(*ssa.Defer)
				if !ok {
					return false
				}
				mc, ok := df.Call.Value.(*ssa.MakeClosure)
				if !ok {
					return false
				}
				cl, _ := mc.Fn.(*ssa.Function)
				if cl == nil {
					return false
				}
				found := false
				eachInstr(cl, func(_ *ssa.BasicBlock, _ int, y ssa.Instruction) {
					cc := callOf(y)
					if cc == nil {
						return
					}
					g := calleeFn(cc)
					if g == nil || g.String() != "(*sync.Map).Delete" {
						return
					}
					if f, _ := fieldAddr(cc.Args[0]); f != calls {
						return
					}
					// the key: a captured variable bound to the key of the LoadOrStore
					k := stripConv(cc.Args[1])
					if u, ok := k.(*ssa.UnOp); ok && u.Op == token.MUL {
						k = u.X
					}
					if fv, ok := k.(*ssa.FreeVar); ok {
						for i, v := range cl.FreeVars {
							if v == fv && i < len(mc.Bindings) {
								b := mc.Bindings[i]
								kk := stripConv(key)
								if u, ok := kk.(*ssa.UnOp); ok && u.Op == token.MUL {
									kk = u.X
								}
								if b == kk || b == stripConv(key) {
									found = true
								}
							}
						}
					}
				})
				return found
			}
			path := findPath(ipos{winB, -1}, pathQuery{target: isReturn, avoid: func(x ssa.Instruction) bool { return isDelete(x) || isDeferredDelete(x) }})
			if path != nil {
				c.Fail(rule, site, call.Pos(), "the goroutine that wins LoadOrStore returns without deleting the key ("+p.pathString(path)+"): the finished entry stays in the map, so after one reset or one refused connect every later request for that address gets the cached dead connection or the cached error for ever")
			} else {
				c.OK(rule, site, call.Pos(), "every path of the winner crosses createClientCalls.Delete(key)")
			}
			// the waiters read the entry's result fields after the latch: whatever the winner returns it must have
			// stored into the entry first (a failed attempt whose error is not stored hands the waiters a nil
			// connection and a nil error)
			var entry ssa.Value
			for _, r := range *call.Referrers() {
				if ex, ok := r.(*ssa.Extract); ok && ex.Index == 0 {
					for _, rr := range *ex.Referrers() {
						if ta, ok := rr.(*ssa.TypeAssert); ok {
							entry = ta
						}
					}
				}
			}
			if entry != nil {
				nres := 0
				type retVal struct {
					v  ssa.Value
					at ssa.Instruction
				}
				var vals []retVal
				seenAt := map[ssa.Instruction]bool{}
				inWin := func(b *ssa.BasicBlock) bool { return b == winB || winB.Dominates(b) }
				eachInstr(fn, func(b *ssa.BasicBlock, _ int, in ssa.Instruction) {
					ret, ok := in.(*ssa.Return)
					if !ok || !inWin(b) {
						return
					}
					// with a defer in the function the results are spilled into cells: the values returned are the
					// values stored into those cells at each return statement
					for _, r := range returnedValues(ret) {
						if ld, ok := r.(*ssa.UnOp); ok && ld.Op == token.MUL {
							if al, ok := ld.X.(*ssa.Alloc); ok {
								for _, rr := range *al.Referrers() {
									if st, ok := rr.(*ssa.Store); ok && st.Addr == ssa.Value(al) && inWin(st.Block()) && !seenAt[st] {
										seenAt[st] = true
										vals = append(vals, retVal{st.Val, st})
									}
								}
								continue
							}
						}
						vals = append(vals, retVal{r, in})
					}
				})
				for _, rv := range vals {
					r, at := rv.v, rv.at
					if isNilConst(r) {
						continue
					}
					nres++
					stored := false
					eachInstr(fn, func(_ *ssa.BasicBlock, _ int, x ssa.Instruction) {
						st, ok := x.(*ssa.Store)
						if !ok || st.Val != r {
							return
						}
						if fa, ok := st.Addr.(*ssa.FieldAddr); ok && (fa.X == entry || resolveCell(fa.X) == entry) && types.Identical(deref(fa.Type()), r.Type()) && instrDominates(x, at) {
							stored = true
						}
					})
					what := "the connection"
					if types.Identical(r.Type(), types.Universe.Lookup("error").Type()) {
						what = "the error"
					}
					c.Check(stored, rule, fmt.Sprintf("%s return#%d: %s is shared with the waiters", site, nres, what), at.Pos(), "the value returned is stored into the in-flight entry before the return", what+" the winner returns is not stored into the in-flight entry: the callers waiting for this attempt read a nil connection and a nil error and dereference it (the process crashes, none of its requests is answered)")
				}
			}
		})
	}
	if nLS == 0 {
		c.Unresolved(rule, "no LoadOrStore on upstream.createClientCalls")
	}

}

// checkRefreshAsksRandomSeed (C07.R10): the retry after a failed refresh converges because each round asks a host
// drawn at random from the host set. A "prefer a host we are already connected to" source pins the refresh to one
// seed: while that seed answers with an error or a stale view, every round asks it again and the table never
// converges although another seed reports the right layout.
func checkRefreshAsksRandomSeed(c *Ctx, rule string) {
	p := c.P
	doRefresh := p.Func(redisPkg, "(*upstream).doSlotsRefresh")
	mrth := p.Func(redisPkg, "(*upstream).MakeRequestToHost")
	if doRefresh == nil || mrth == nil {
		c.Unresolved(rule, "doSlotsRefresh / MakeRequestToHost")
		return
	}
	isRandom := func(v ssa.Value) bool {
		call, ok := v.(*ssa.Call)
		return ok && isCallTo(call, "(*"+modPath+"/host.Set).Random")
	}
	var fromRandom func(v ssa.Value, depth int) bool
	fromRandom = func(v ssa.Value, depth int) bool {
		v = stripConv(resolveCell(v))
		if derives(v, isRandom) {
			return true
		}
		if depth > 2 {
			return false
		}
		// the result of a helper all of whose successful returns come from the random draw
		var call *ssa.Call
		switch x := v.(type) {
		case *ssa.Extract:
			call, _ = x.Tuple.(*ssa.Call)
		case *ssa.Call:
			call = x
		}
		if call == nil {
			return false
		}
		g := calleeFn(call.Common())
		if g == nil || !isModFn(g) || g.Blocks == nil {
			return false
		}
		ok, n := true, 0
		eachInstr(g, func(_ *ssa.BasicBlock, _ int, in ssa.Instruction) {
			r, isRet := in.(*ssa.Return)
			if !isRet {
				return
			}
			vals := returnedValues(r)
			if len(vals) == 0 {
				return
			}
			if len(vals) == 2 && !isNilConst(vals[1]) {
				if _, isC := vals[0].(*ssa.Const); isC {
					return // the error return
				}
			}
			n++
			if !fromRandom(vals[0], depth+1) {
				ok = false
			}
		})
		return ok && n > 0
	}
	shuffles := func(fn *ssa.Function) bool {
		has := false
		for _, g := range withAnon(fn) {
			eachInstr(g, func(_ *ssa.BasicBlock, _ int, in ssa.Instruction) {
				if isCallTo(in, "math/rand.Shuffle", "math/rand.Perm", "(*math/rand.Rand).Shuffle", "(*math/rand.Rand).Perm") {
					has = true
				}
			})
		}
		return has
	}
	var judge func(v ssa.Value, fn *ssa.Function, depth int) bool
	judge = func(v ssa.Value, fn *ssa.Function, depth int) bool {
		if fromRandom(v, 0) {
			return true
		}
		// the hosts tried one after the other in a freshly shuffled order
		if shuffles(fn) {
			if _, isC := stripConv(resolveCell(v)).(*ssa.Const); !isC {
				return true
			}
		}
		if prm, isPrm := stripConv(resolveCell(v)).(*ssa.Parameter); isPrm && depth < 2 {
			idx := paramIndex(fn, prm)
			edges := p.callersOf(fn)
			nn := 0
			for _, ed := range edges {
				if p.isTestFn(ed.Caller.Func) {
					continue
				}
				args := ed.Site.Common().Args
				if idx < 0 || idx >= len(args) || ed.Site.Common().IsInvoke() {
					return false
				}
				nn++
				if !judge(args[idx], ed.Caller.Func, depth+1) {
					return false
				}
			}
			return nn > 0
		}
		return false
	}
	n := 0
	for _, fn := range append([]*ssa.Function{doRefresh}, staticCalleesDeep(doRefresh, 1)...) {
		if fn.Blocks == nil || !isModFn(fn) || fn == mrth || fn.Pkg != doRefresh.Pkg {
			continue
		}
		eachInstr(fn, func(_ *ssa.BasicBlock, _ int, in ssa.Instruction) {
			call, ok := in.(*ssa.Call)
			if !ok || !isCallToFn(call, mrth) || len(call.Call.Args) < 2 {
				return
			}
			// (the redirect callbacks also send; they are not part of a refresh round)
			if fn != doRefresh && fn.Signature.Params().Len() > 1 && fn.Signature.Results().Len() == 0 {
				return
			}
			n++
			c.Check(judge(call.Call.Args[1], fn, 0), rule, fmt.Sprintf("%s asks a randomly drawn host#%d", fnKey(fn), n), call.Pos(), "the address of the CLUSTER NODES request comes from host.Set.Random", "the node that is asked for the cluster layout is not (only) drawn at random from the host set: a source that prefers one host - e.g. one the proxy is already connected to - asks the same seed in every round, and while that seed answers with an error or a stale view the routing table never converges although another seed would report the right layout")
		})
	}
	if n == 0 {
		c.Unresolved(rule, "doSlotsRefresh does not send a request")
	}
}
