package main

// Properties without a registered check. Every property of /verif/properties.jsonl has a registered check
// (each claims the structural clauses listed in its level text and states what it does not decide),
// so nothing is listed as not applicable as a whole; the undecided remainder of each property is in DESIGN.md.
func init() {}
