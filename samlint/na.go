package main

// Properties without a registered check yet. Each entry is removed when its rules land;
// entries that remain at the end are genuinely not decidable by the static rules built.
func init() {
	for _, id := range []string{"C03", "C11"} {
		notApplicable[id] = "static rules for this property are planned in DESIGN.md but not implemented yet; nothing is claimed until they are"
	}
}
