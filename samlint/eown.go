package main

import (
	"fmt"
	"go/token"
	"go/types"
	"os"
	"sort"
	"strings"

	"golang.org/x/tools/go/ssa"
)

// E-own: linear ownership ("typestate") of request objects. A request that somebody waits
// on must be completed (SetResponse) exactly once on every path: 0 = dropped request
// (client hangs), 2 = double completion (close of a closed channel, process crash).
// Completion can be direct, by hand-off into an obligation-carrying queue, by a callee whose
// summary consumes the argument, or by delegation (a hook registered on another request
// completes this one when that other request completes).

type ownKind int

const (
	ownUnknown ownKind = iota
	ownConsumes
	ownBorrows
	ownStopIff       // consumes iff the call returns the FilterStatus "Stop"
	ownWrapIffNilErr // moves the request into the returned wrapper iff the returned error is nil
	ownDelegResult   // wrapper method: delegates the held request to the returned request
	ownDelegColl     // wrapper method: delegates the held request to the returned collection of children
	ownCountdown     // completes the request exactly on the path where an atomic counter's Dec() returns 0
	ownBad
)

func (k ownKind) String() string {
	return [...]string{"unknown", "consumes", "borrows", "consumes-iff-returns-Stop", "wraps-iff-err-nil", "delegates-to-result", "delegates-to-children", "completes-when-counter-reaches-0", "inconsistent"}[k]
}

type ownSummary struct {
	kind ownKind
	why  string
}

type ownFinding struct {
	fn     *ssa.Function
	obj    string // object descriptor
	kind   string // dropped | double | inconsistent | undecided | loop
	trace  string // decisive events of the path
	pos    token.Pos
	detail string
}

type ownEngine struct {
	p        *Prog
	queues   map[*types.Var]bool // obligation-carrying queue fields
	sums     map[string]*ownSummary
	inprog   map[string]bool
	done     map[*ssa.Function]*fnOwn
	findings []ownFinding
	npaths   int
	nfuncs   int
}

type pathOutcome struct {
	total  int
	ret    string // constant FilterStatus returned, "" if none
	retNil []bool // per result: is nil constant
	stored bool   // object was stored into a returned wrapper on this path
	zero   bool   // path took the true edge of `counter.Dec() == 0`
	trace  string
	pos    token.Pos
}

type fnOwn struct {
	outcomes map[string][]pathOutcome // non-local object key -> outcomes on Return paths
	delegRes map[string]int           // object key -> result index it was delegated to (-1 none)
}

func newOwnEngine(p *Prog) *ownEngine {
	e := &ownEngine{p: p, queues: map[*types.Var]bool{}, sums: map[string]*ownSummary{}, inprog: map[string]bool{}, done: map[*ssa.Function]*fnOwn{}}
	return e
}

func isReqType(t types.Type) bool {
	pt, ok := t.Underlying().(*types.Pointer)
	if !ok {
		return false
	}
	return modType(pt, redisPkg, "simpleRequest") || modType(pt, redisPkg, "rawRequest")
}

// wrapperType: struct of proc/redis with a field of request pointer type (other than the requests themselves).
func wrapperHeldField(t types.Type) *types.Var {
	n := namedOf(t)
	if n == nil || n.Obj().Pkg() == nil || n.Obj().Pkg().Path() != modPath+"/"+redisPkg {
		return nil
	}
	if n.Obj().Name() == "simpleRequest" || n.Obj().Name() == "rawRequest" {
		return nil
	}
	st, ok := n.Underlying().(*types.Struct)
	if !ok {
		return nil
	}
	for i := 0; i < st.NumFields(); i++ {
		if isReqType(st.Field(i).Type()) {
			return st.Field(i)
		}
	}
	return nil
}

// objKey canonicalises a request-typed value to an object key.
func (e *ownEngine) objKey(v ssa.Value) string {
	for depth := 0; depth < 10; depth++ {
		switch x := v.(type) {
		case *ssa.UnOp:
			if x.Op != token.MUL {
				return valDesc(x)
			}
			switch a := x.X.(type) {
			case *ssa.Alloc:
				var st *ssa.Store
				n := 0
				for _, r := range *a.Referrers() {
					if s, ok := r.(*ssa.Store); ok && s.Addr == ssa.Value(a) {
						st = s
						n++
					}
				}
				if n == 1 {
					v = st.Val
					continue
				}
				return "cell:" + valDesc(a)
			case *ssa.FreeVar:
				return a.Name()
			case *ssa.FieldAddr:
				f, base := fieldAddr(a)
				return e.baseKey(base) + "." + f.Name()
			case *ssa.IndexAddr:
				return "elem:" + e.baseKey(a.X)
			}
			return valDesc(x)
		case *ssa.Parameter:
			return x.Name()
		case *ssa.FreeVar:
			return x.Name()
		case *ssa.Phi:
			k := ""
			same := true
			for _, ed := range x.Edges {
				if isNilConst(ed) {
					continue
				}
				kk := e.objKey(ed)
				if k == "" {
					k = kk
				} else if k != kk {
					same = false
				}
			}
			if same && k != "" {
				return k
			}
			return valDesc(x)
		case *ssa.ChangeType:
			v = x.X
			continue
		default:
			return valDesc(v)
		}
	}
	return valDesc(v)
}

// baseKey names a non-request base value (wrapper, collection).
func (e *ownEngine) baseKey(v ssa.Value) string {
	for depth := 0; depth < 10; depth++ {
		switch x := v.(type) {
		case *ssa.UnOp:
			if x.Op == token.MUL {
				switch a := x.X.(type) {
				case *ssa.Alloc:
					var st *ssa.Store
					n := 0
					for _, r := range *a.Referrers() {
						if s, ok := r.(*ssa.Store); ok && s.Addr == ssa.Value(a) {
							st = s
							n++
						}
					}
					if n == 1 {
						v = st.Val
						continue
					}
					return "cell:" + valDesc(a)
				case *ssa.FreeVar:
					return a.Name()
				case *ssa.FieldAddr:
					f, base := fieldAddr(a)
					return e.baseKey(base) + "." + f.Name()
				}
			}
			return valDesc(x)
		case *ssa.Parameter:
			return x.Name()
		case *ssa.FreeVar:
			return x.Name()
		case *ssa.Extract:
			return valDesc(x)
		default:
			return valDesc(v)
		}
	}
	return valDesc(v)
}

// valDesc gives a stable, human-readable descriptor for an SSA value (no register numbers).
func valDesc(v ssa.Value) string {
	ordinal := func(in ssa.Instruction, same func(ssa.Instruction) bool) int {
		n := 0
		fn := in.Parent()
		for _, b := range fn.Blocks {
			for _, x := range b.Instrs {
				if same(x) {
					n++
				}
				if x == in {
					return n
				}
			}
		}
		return n
	}
	switch x := v.(type) {
	case *ssa.Call:
		name := calleeName(x.Common())
		if f := calleeFn(x.Common()); f != nil {
			name = f.Name()
		} else if x.Call.IsInvoke() {
			name = x.Call.Method.Name()
		}
		k := ordinal(x, func(y ssa.Instruction) bool {
			c, ok := y.(*ssa.Call)
			if !ok {
				return false
			}
			if f, g := calleeFn(c.Common()), calleeFn(x.Common()); f != nil && g != nil {
				return f == g
			}
			return calleeName(c.Common()) == calleeName(x.Common())
		})
		if k > 1 {
			return fmt.Sprintf("%s()#%d", name, k)
		}
		return name + "()"
	case *ssa.Extract:
		if sel, ok := x.Tuple.(*ssa.Select); ok {
			ri := 2
			for _, st := range sel.States {
				if st.Dir == types.RecvOnly {
					if ri == x.Index {
						if f, _ := chanFieldOf(st.Chan); f != nil {
							return "recv(" + f.Name() + ")"
						}
					}
					ri++
				}
			}
			return "recv(select)"
		}
		return fmt.Sprintf("%s.%d", valDesc(x.Tuple), x.Index)
	case *ssa.UnOp:
		if x.Op == token.ARROW {
			if f, _ := chanFieldOf(x.X); f != nil {
				return "recv(" + f.Name() + ")"
			}
			return "recv"
		}
		if x.Op == token.MUL {
			return "*" + valDesc(x.X)
		}
	case *ssa.Alloc:
		if x.Comment != "" {
			return x.Comment
		}
	case *ssa.Phi:
		if x.Comment != "" {
			return "var " + x.Comment
		}
	case *ssa.IndexAddr:
		return valDesc(x.X) + "[i]"
	case *ssa.Parameter, *ssa.FreeVar, *ssa.Global:
		return v.Name()
	case *ssa.Const:
		return "const"
	}
	if in, ok := v.(ssa.Instruction); ok {
		k := ordinal(in, func(y ssa.Instruction) bool { return fmt.Sprintf("%T", y) == fmt.Sprintf("%T", in) })
		return fmt.Sprintf("%s#%d", strings.TrimPrefix(fmt.Sprintf("%T", v), "*ssa."), k)
	}
	return v.Name()
}

type pstate struct {
	count    map[string]int
	deleg    map[string][]string
	assume   map[ssa.Value]string
	holds    map[string]string // wrapper key -> request key
	stored   map[string]bool   // request key stored into a fresh wrapper alloc
	known    map[string]bool   // objects seen on this path
	oblig    map[string]bool
	acqBlock map[string]*ssa.BasicBlock
	visited  map[*ssa.BasicBlock]bool
	snap     map[*ssa.BasicBlock]map[string]int
	trace    []string
	zero     bool
	lastPos  token.Pos
	delegRes map[string]int
	resObj   map[string]string // local object key -> key (for result index detection)
}

func newPstate() *pstate {
	return &pstate{count: map[string]int{}, deleg: map[string][]string{}, assume: map[ssa.Value]string{}, holds: map[string]string{},
		stored: map[string]bool{}, known: map[string]bool{}, oblig: map[string]bool{}, acqBlock: map[string]*ssa.BasicBlock{},
		visited: map[*ssa.BasicBlock]bool{}, snap: map[*ssa.BasicBlock]map[string]int{}, delegRes: map[string]int{}, resObj: map[string]string{}}
}

func (s *pstate) clone() *pstate {
	n := newPstate()
	for k, v := range s.count {
		n.count[k] = v
	}
	for k, v := range s.deleg {
		n.deleg[k] = append([]string(nil), v...)
	}
	for k, v := range s.assume {
		n.assume[k] = v
	}
	for k, v := range s.holds {
		n.holds[k] = v
	}
	for k, v := range s.stored {
		n.stored[k] = v
	}
	for k, v := range s.known {
		n.known[k] = v
	}
	for k, v := range s.oblig {
		n.oblig[k] = v
	}
	for k, v := range s.acqBlock {
		n.acqBlock[k] = v
	}
	for k, v := range s.visited {
		n.visited[k] = v
	}
	for k, v := range s.snap {
		n.snap[k] = v
	}
	for k, v := range s.delegRes {
		n.delegRes[k] = v
	}
	n.trace = append([]string(nil), s.trace...)
	n.lastPos = s.lastPos
	n.zero = s.zero
	return n
}

func (s *pstate) ev(format string, a ...interface{}) {
	s.trace = append(s.trace, fmt.Sprintf(format, a...))
}

func (s *pstate) total(k string, coll map[string]int, depth int) int {
	if depth > 8 {
		return 0
	}
	t := s.count[k]
	for _, h := range s.deleg[k] {
		if strings.HasPrefix(h, "coll:") {
			t += coll[h]
		} else {
			t += s.total(h, coll, depth+1)
		}
	}
	return t
}

// ownAnalysable: module functions with bodies, and synthetic wrappers (bound methods, thunks)
// around module functions.
func ownAnalysable(g *ssa.Function) bool {
	if g == nil || g.Blocks == nil {
		return false
	}
	if isModFn(g) {
		return true
	}
	if g.Synthetic == "" {
		return false
	}
	ok := false
	eachInstr(g, func(_ *ssa.BasicBlock, _ int, in ssa.Instruction) {
		if cc := callOf(in); cc != nil {
			if f := calleeFn(cc); f != nil && isModFn(f) {
				ok = true
			}
		}
	})
	return ok
}

func sumKey(fn *ssa.Function, obj string) string { return fnKey(fn) + "|" + obj }

// summary returns how fn treats the non-local object named obj (a parameter name, a free
// variable name, or an access path like "r.raw").
func (e *ownEngine) summary(fn *ssa.Function, obj string) *ownSummary {
	k := sumKey(fn, obj)
	if s, ok := e.sums[k]; ok {
		return s
	}
	if !ownAnalysable(fn) {
		return &ownSummary{kind: ownBorrows}
	}
	if e.inprog[fnKey(fn)] {
		return &ownSummary{kind: ownConsumes, why: "recursive call assumed to consume (coinductive)"}
	}
	fo := e.analyse(fn)
	outs := fo.outcomes[obj]
	s := &ownSummary{}
	if len(outs) == 0 {
		s.kind = ownBorrows
		e.sums[k] = s
		return s
	}
	all1, all0, max := true, true, 0
	for _, o := range outs {
		if o.total != 1 {
			all1 = false
		}
		if o.total != 0 {
			all0 = false
		}
		if o.total > max {
			max = o.total
		}
	}
	switch {
	case max > 1:
		s.kind = ownBad
		s.why = "completed more than once on a path"
	case all1:
		s.kind = ownConsumes
	case all0:
		s.kind = ownBorrows
		// wrap: stored into returned wrapper exactly on the nil-error paths
		anyStored := false
		okWrap := true
		for _, o := range outs {
			if o.stored {
				anyStored = true
			}
			if len(o.retNil) == 2 {
				// (wrapper, err): stored <=> err nil <=> wrapper non-nil
				if o.stored != o.retNil[1] || o.stored == o.retNil[0] {
					okWrap = false
				}
			} else if o.stored {
				okWrap = false
			}
		}
		if anyStored {
			if okWrap {
				s.kind = ownWrapIffNilErr
			} else {
				s.kind = ownBad
				s.why = "request is stored into a wrapper on paths that do not return (wrapper, nil error)"
			}
		}
	default:
		stopIff := true
		for _, o := range outs {
			if o.ret == "" || (o.total == 1) != (o.ret == "Stop") {
				stopIff = false
			}
		}
		zeroIff := true
		for _, o := range outs {
			if (o.total == 1) != o.zero {
				zeroIff = false
			}
		}
		if stopIff {
			s.kind = ownStopIff
		} else if zeroIff {
			s.kind = ownCountdown
		} else {
			s.kind = ownBad
			var p0, p1 pathOutcome
			for _, o := range outs {
				if o.total == 0 {
					p0 = o
				} else {
					p1 = o
				}
			}
			s.why = "completed on some paths and not on others"
			e.findings = append(e.findings, ownFinding{fn: fn, obj: obj, kind: "dropped", trace: p0.trace, pos: p0.pos,
				detail: fmt.Sprintf("request %q is completed on the path [%s] but NOT on the path [%s]: on the latter the request is dropped and its client waits for ever", obj, p1.trace, p0.trace)})
		}
	}
	if idx, ok := fo.delegRes[obj]; ok && s.kind == ownBorrows {
		s.kind = ownDelegResult
		s.why = fmt.Sprint(idx)
	}
	e.sums[k] = s
	return s
}

// loopColl recognises `for i := 0; i < len(S); i++ { e := S[i] ... }` loops over a collection
// value and returns collection key -> 1 when the loop covers the full range (the per-element
// obligation is checked on the loop-body paths).
// consumesAll: g ranges over its slice-of-requests parameter k with a full counted loop (each element is an
// obligated child inside g, so a skipped or doubly completed element is reported there).
func (e *ownEngine) consumesAll(g *ssa.Function, k int) bool {
	if g == nil || g.Blocks == nil || k >= len(g.Params) {
		return false
	}
	prm := g.Params[k]
	for _, h := range loopHeaders(g) {
		ls, _ := findCountedLoop(h)
		if ls == nil || !ls.initOK {
			continue
		}
		if isLenOf(ls.bound, prm) {
			return true
		}
	}
	return false
}

func (e *ownEngine) loopColls(fn *ssa.Function) map[string]int {
	out := map[string]int{}
	eachInstr(fn, func(_ *ssa.BasicBlock, _ int, in ssa.Instruction) {
		call, ok := in.(*ssa.Call)
		if !ok {
			return
		}
		g := calleeFn(call.Common())
		if g == nil || !isModFn(g) {
			return
		}
		for i, a := range call.Call.Args {
			if sl, ok := a.Type().Underlying().(*types.Slice); ok && isReqType(sl.Elem()) && e.consumesAll(g, i) {
				e.analyse(g)
				out["coll:"+e.baseKey(a)] = 1
			}
		}
	})
	for _, h := range loopHeaders(fn) {
		ls, _ := findCountedLoop(h)
		if ls == nil || !ls.initOK {
			continue
		}
		call, ok := ls.bound.(*ssa.Call)
		if !ok {
			continue
		}
		if b, isB := call.Call.Value.(*ssa.Builtin); !isB || b.Name() != "len" {
			continue
		}
		out["coll:"+e.baseKey(call.Call.Args[0])] = 1
	}
	return out
}

func (e *ownEngine) analyse(fn *ssa.Function) *fnOwn {
	if fo, ok := e.done[fn]; ok {
		return fo
	}
	e.inprog[fnKey(fn)] = true
	defer delete(e.inprog, fnKey(fn))
	e.nfuncs++
	fo := &fnOwn{outcomes: map[string][]pathOutcome{}, delegRes: map[string]int{}}
	coll := e.loopColls(fn)
	s0 := newPstate()
	// non-local objects: request-typed params and free vars; wrapper receivers' held fields are
	// discovered lazily through access paths
	for _, prm := range fn.Params {
		if isReqType(prm.Type()) {
			s0.known[prm.Name()] = true
		}
	}
	for _, fv := range fn.FreeVars {
		if pt, ok := fv.Type().Underlying().(*types.Pointer); ok && isReqType(pt.Elem()) {
			s0.known[fv.Name()] = true
		} else if isReqType(fv.Type()) {
			s0.known[fv.Name()] = true
		}
	}
	nonLocal := func(k string) bool {
		root := k
		if i := strings.Index(root, "."); i >= 0 {
			root = root[:i]
		}
		for _, prm := range fn.Params {
			if prm.Name() == root {
				return true
			}
		}
		for _, fv := range fn.FreeVars {
			if fv.Name() == root {
				return true
			}
		}
		return false
	}
	// every return path, with the non-local objects it knew: an object reached through an access path (r.raw) is only
	// discovered on the paths that touch it - on the others it was not completed, which is an outcome too
	type retPath struct {
		known map[string]bool
		po    pathOutcome
	}
	var retPaths []retPath
	var endPath func(s *pstate, kind string, ret *ssa.Return, header *ssa.BasicBlock)
	endPath = func(s *pstate, kind string, ret *ssa.Return, header *ssa.BasicBlock) {
		e.npaths++
		trace := strings.Join(s.trace, " → ")
		if trace == "" {
			trace = "(no request event)"
		}
		if kind == "return" {
			rp := retPath{known: map[string]bool{}, po: pathOutcome{total: 0, trace: trace, pos: s.lastPos, zero: s.zero}}
			for k := range s.known {
				rp.known[k] = true
			}
			if ret != nil {
				for _, r := range returnedValues(ret) {
					rp.po.retNil = append(rp.po.retNil, isNilConst(r))
				}
				if len(ret.Results) == 1 {
					if cs, ok := constString(returnedValues(ret)[0]); ok {
						rp.po.ret = cs
					} else if a, ok := s.assume[returnedValues(ret)[0]]; ok {
						rp.po.ret = a
					}
				}
			}
			retPaths = append(retPaths, rp)
		}
		var keys []string
		for k := range s.known {
			keys = append(keys, k)
		}
		sort.Strings(keys)
		for _, k := range keys {
			t := s.total(k, coll, 0)
			if t > 1 {
				e.findings = append(e.findings, ownFinding{fn: fn, obj: k, kind: "double", trace: trace + " → " + kind, pos: s.lastPos,
					detail: fmt.Sprintf("request %q is completed %d times on the path [%s → %s]: the second completion closes an already closed channel and crashes the process", k, t, trace, kind)})
				continue
			}
			if kind == "return" {
				if nonLocal(k) {
					po := pathOutcome{total: t, trace: trace, pos: s.lastPos, stored: s.stored[k], zero: s.zero}
					if ret != nil {
						for _, r := range returnedValues(ret) {
							po.retNil = append(po.retNil, isNilConst(r))
						}
						if len(ret.Results) == 1 {
							if cs, ok := constString(returnedValues(ret)[0]); ok {
								po.ret = cs
							} else if a, ok := s.assume[returnedValues(ret)[0]]; ok {
								po.ret = a
							}
						}
					}
					fo.outcomes[k] = append(fo.outcomes[k], po)
					if idx, ok := s.delegRes[k]; ok {
						fo.delegRes[k] = idx
					}
				} else if s.oblig[k] && t == 0 {
					e.findings = append(e.findings, ownFinding{fn: fn, obj: k, kind: "dropped", trace: trace + " → return", pos: s.lastPos,
						detail: fmt.Sprintf("request %q is never completed on the path [%s → return]: it is dropped and whoever waits for its reply waits for ever", k, trace)})
				}
			} else { // backedge
				ab := s.acqBlock[k]
				inLoop := ab != nil && header != nil && (ab == header || header.Dominates(ab))
				if inLoop {
					if s.oblig[k] && t == 0 {
						e.findings = append(e.findings, ownFinding{fn: fn, obj: k, kind: "dropped", trace: trace + " → next iteration", pos: s.lastPos,
							detail: fmt.Sprintf("request %q acquired in this loop iteration is not completed before the next iteration on the path [%s]", k, trace)})
					}
				} else if snap := s.snap[header]; snap != nil && s.count[k] != snap[k] {
					e.findings = append(e.findings, ownFinding{fn: fn, obj: k, kind: "double", trace: trace + " → next iteration", pos: s.lastPos,
						detail: fmt.Sprintf("request %q acquired outside the loop is completed inside a loop iteration (path [%s]): it can be completed once per iteration", k, trace)})
				}
			}
		}
	}

	var walk func(b *ssa.BasicBlock, s *pstate, steps int)
	walk = func(b *ssa.BasicBlock, s *pstate, steps int) {
		if steps > 4000 {
			return
		}
		s.visited[b] = true
		// loop header snapshot
		for _, pred := range b.Preds {
			if b.Dominates(pred) {
				cp := map[string]int{}
				for k, v := range s.count {
					cp[k] = v
				}
				s.snap[b] = cp
				break
			}
		}
		states := []*pstate{s}
		for _, in := range b.Instrs {
			var next []*pstate
			for _, st := range states {
				next = append(next, e.step(fn, in, st)...)
			}
			states = next
			if len(states) > 64 {
				states = states[:64]
			}
		}
		last := b.Instrs[len(b.Instrs)-1]
		for _, st := range states {
			switch t := last.(type) {
			case *ssa.Return:
				st.lastPos = t.Pos()
				endPath(st, "return", t, nil)
			case *ssa.Panic:
			case *ssa.Jump, *ssa.If:
				for k, succ := range b.Succs {
					st2 := st
					if len(b.Succs) > 1 {
						st2 = st.clone()
					}
					if iff, ok := last.(*ssa.If); ok {
						feasible := e.edge(fn, iff, k == 0, st2)
						if !feasible {
							continue
						}
					}
					if st2.visited[succ] {
						if succ.Dominates(b) {
							endPath(st2, "next iteration", nil, succ)
						}
						continue
					}
					walk(succ, st2, steps+1)
				}
			}
		}
	}
	walk(fn.Blocks[0], s0, 0)
	for k := range fo.outcomes {
		if !strings.Contains(k, ".") {
			continue // parameters and captured variables are known on every path
		}
		for _, rp := range retPaths {
			if !rp.known[k] {
				fo.outcomes[k] = append(fo.outcomes[k], rp.po)
			}
		}
	}
	e.done[fn] = fo
	return fo
}

// edge applies the knowledge of taking the true/false edge of an If; returns false when infeasible.
func (e *ownEngine) edge(fn *ssa.Function, iff *ssa.If, truth bool, s *pstate) bool {
	cmp, ok := iff.Cond.(*ssa.BinOp)
	if !ok || (cmp.Op != token.EQL && cmp.Op != token.NEQ) {
		return true
	}
	eq := (cmp.Op == token.EQL) == truth
	// atomic countdown: x.Dec() == 0
	if call, ok := cmp.X.(*ssa.Call); ok {
		if g := calleeFn(call.Common()); g != nil && g.Name() == "Dec" {
			if z, isC := constInt(cmp.Y); isC && z == 0 && eq {
				s.zero = true
				s.ev("last child (Dec()==0)")
			}
			return true
		}
	}
	// select case
	if ex, ok := cmp.X.(*ssa.Extract); ok && ex.Index == 0 {
		if sel, ok := ex.Tuple.(*ssa.Select); ok {
			k, isC := constInt(cmp.Y)
			if isC && eq {
				e.selectCase(fn, sel, int(k), s)
			}
			return true
		}
	}
	// FilterStatus assumption
	if cs, ok := constString(cmp.Y); ok {
		if a, has := s.assume[cmp.X]; has {
			return (a == cs) == eq
		}
		return true
	}
	// nil test of an error / wrapper extracted from a forked call
	if isNilConst(cmp.Y) {
		if ex, ok := cmp.X.(*ssa.Extract); ok {
			if a, has := s.assume[ex.Tuple]; has {
				isErr := types.Identical(ex.Type(), types.Universe.Lookup("error").Type())
				var isNil bool
				if isErr {
					isNil = a == "nil"
				} else {
					isNil = a != "nil" // wrapper is nil iff err non-nil
				}
				return isNil == eq
			}
		}
	}
	return true
}

func (e *ownEngine) chanDesc(v ssa.Value) string {
	if f, _ := chanFieldOf(v); f != nil {
		return f.Name()
	}
	return "chan"
}

func (e *ownEngine) isQueue(v ssa.Value) bool {
	f, _ := chanFieldOf(v)
	return f != nil && e.queues[f]
}

func (e *ownEngine) selectCase(fn *ssa.Function, sel *ssa.Select, k int, s *pstate) {
	if k < 0 || k >= len(sel.States) {
		return
	}
	st := sel.States[k]
	s.lastPos = sel.Pos()
	if st.Dir == types.SendOnly {
		if isReqType(st.Send.Type()) && e.isQueue(st.Chan) {
			o := e.objKey(st.Send)
			s.known[o] = true
			s.count[o]++
			s.ev("select{send %s}", e.chanDesc(st.Chan))
		} else {
			s.ev("select{send %s}", e.chanDesc(st.Chan))
		}
		return
	}
	if e.isQueue(st.Chan) {
		if rv := selectRecvValue(sel, k); rv != nil {
			o := e.objKey(rv)
			s.known[o] = true
			s.oblig[o] = true
			s.acqBlock[o] = sel.Block()
			s.ev("recv(%s)", e.chanDesc(st.Chan))
			return
		}
	}
	s.ev("select{%s}", e.chanDesc(st.Chan))
}

func (e *ownEngine) consume(s *pstate, o string, how string, pos token.Pos) {
	s.known[o] = true
	s.count[o]++
	s.lastPos = pos
	s.ev("%s", how)
}

// step interprets one instruction; may fork.
func (e *ownEngine) step(fn *ssa.Function, in ssa.Instruction, s *pstate) []*pstate {
	switch x := in.(type) {
	case *ssa.Send:
		if isReqType(x.X.Type()) && e.isQueue(x.Chan) {
			e.consume(s, e.objKey(x.X), "send "+e.chanDesc(x.Chan), x.Pos())
		}
		return []*pstate{s}
	case *ssa.UnOp:
		if x.Op == token.MUL && isReqType(x.Type()) {
			// element of a local collection of children (result of a Split-style call)
			if ia, ok := x.X.(*ssa.IndexAddr); ok {
				switch ia.X.(type) {
				case *ssa.Call, *ssa.Extract, *ssa.Parameter:
					o := e.objKey(x)
					if !s.known[o] {
						s.known[o] = true
						s.oblig[o] = true
						s.acqBlock[o] = x.Block()
						s.ev("child %s", o)
					}
				}
			}
		}
		if x.Op == token.ARROW && isReqType(x.Type()) && e.isQueue(x.X) {
			o := e.objKey(x)
			s.known[o] = true
			s.oblig[o] = true
			s.acqBlock[o] = x.Block()
			s.ev("recv(%s)", e.chanDesc(x.X))
		}
		return []*pstate{s}
	case *ssa.Store:
		if isReqType(x.Val.Type()) {
			if fa, ok := x.Addr.(*ssa.FieldAddr); ok {
				if isFreshAlloc(fa.X) {
					o := e.objKey(x.Val)
					if s.known[o] {
						s.stored[o] = true
						s.holds[e.baseKey(fa.X)] = o
					}
				}
			}
		}
		return []*pstate{s}
	case *ssa.Call, *ssa.Go, *ssa.Defer:
		return e.call(fn, in, s)
	}
	return []*pstate{s}
}

func (e *ownEngine) call(fn *ssa.Function, in ssa.Instruction, s *pstate) []*pstate {
	cc := callOf(in)
	if _, isB := cc.Value.(*ssa.Builtin); isB {
		return []*pstate{s}
	}
	callVal, _ := in.(ssa.Value)
	args := cc.Args
	// methods of the request types themselves
	if f := calleeFn(cc); f != nil && f.Signature.Recv() != nil && isReqType(f.Signature.Recv().Type()) && len(args) > 0 {
		host := e.objKey(args[0])
		switch f.Name() {
		case "SetResponse":
			e.consume(s, host, "SetResponse("+host+")", in.Pos())
		case "Wait":
			// waiting on a request built in this function makes its completion an obligation here
			if _, local := s.acqBlock[host]; local {
				s.oblig[host] = true
				s.ev("Wait(%s)", host)
			}
		case "RegisterHook":
			s.known[host] = true
			e.registerHook(fn, in, host, args[1], s)
		}
		return []*pstate{s}
	}
	// callee set
	var callees []*ssa.Function
	if ci, ok := in.(ssa.CallInstruction); ok {
		callees = e.p.callees(ci)
	}
	var mod []*ssa.Function
	for _, g := range callees {
		if ownAnalysable(g) && !e.p.isTestFn(g) {
			mod = append(mod, g)
		}
	}
	states := []*pstate{s}
	argOff := 0
	if cc.IsInvoke() {
		argOff = 1 // callee params include the receiver, cc.Args does not
	}
	// request-typed arguments
	for i, a := range args {
		if !isReqType(a.Type()) {
			continue
		}
		o := e.objKey(a)
		if len(mod) == 0 {
			continue // library call (logging etc.): borrow
		}
		kinds := map[ownKind]bool{}
		for _, g := range mod {
			pi := i + argOff
			if pi >= len(g.Params) {
				continue
			}
			sm := e.summary(g, g.Params[pi].Name())
			k := sm.kind
			if k == ownBad {
				k = ownConsumes // the callee carries its own finding
			}
			kinds[k] = true
		}
		name := calleeName(cc)
		if len(mod) == 1 {
			name = mod[0].Name()
		} else if f, _ := loadedField(cc.Value); f != nil {
			name = "callback " + f.Name()
		} else if cc.IsInvoke() {
			name = cc.Method.Name()
		}
		switch {
		case len(kinds) == 1 && kinds[ownConsumes]:
			for _, st := range states {
				e.consume(st, o, name+"("+o+")", in.Pos())
			}
		case len(kinds) == 1 && kinds[ownBorrows], len(kinds) == 0:
			for _, st := range states {
				st.known[o] = st.known[o] || false
			}
		case kinds[ownStopIff] && !kinds[ownConsumes] && !kinds[ownWrapIffNilErr]:
			var next []*pstate
			for _, st := range states {
				a := st.clone()
				a.assume[callVal] = "Stop"
				e.consume(a, o, name+"="+"Stop", in.Pos())
				b := st
				b.assume[callVal] = "Continue"
				b.known[o] = true
				b.ev("%s=Continue", name)
				next = append(next, a, b)
			}
			states = next
		case len(kinds) == 1 && kinds[ownWrapIffNilErr]:
			var next []*pstate
			for _, st := range states {
				a := st.clone()
				a.assume[callVal] = "nil"
				// the wrapper value is Extract #0 of the call
				for _, r := range *callVal.Referrers() {
					if ex, ok := r.(*ssa.Extract); ok && ex.Index == 0 {
						a.holds[e.baseKey(ex)] = o
					}
				}
				a.ev("%s ok", name)
				b := st
				b.assume[callVal] = "nonnil"
				b.ev("%s error", name)
				next = append(next, a, b)
			}
			states = next
		default:
			var ks []string
			for k := range kinds {
				ks = append(ks, k.String())
			}
			sort.Strings(ks)
			e.findings = append(e.findings, ownFinding{fn: fn, obj: o, kind: "undecided", trace: "call " + name, pos: in.Pos(),
				detail: fmt.Sprintf("the callees of this call disagree on whether they complete request %q (%s)", o, strings.Join(ks, ", "))})
			for _, st := range states {
				e.consume(st, o, name+"("+o+")?", in.Pos())
			}
		}
	}
	// wrapper receivers holding a request: Split / Convert style methods
	if len(args) > 0 && len(mod) == 1 && wrapperHeldField(args[0].Type()) != nil {
		g := mod[0]
		wk := e.baseKey(args[0])
		for _, st := range states {
			held, ok := st.holds[wk]
			if !ok {
				continue
			}
			hf := wrapperHeldField(args[0].Type())
			heldName := g.Params[0].Name() + "." + hf.Name()
			sm := e.summary(g, heldName)
			switch sm.kind {
			case ownConsumes:
				e.consume(st, held, g.Name()+"("+held+")", in.Pos())
			case ownDelegResult:
				idx := 0
				fmt.Sscan(sm.why, &idx)
				// result object
				var res ssa.Value = callVal
				if g.Signature.Results().Len() > 1 {
					res = nil
					for _, r := range *callVal.Referrers() {
						if ex, ok := r.(*ssa.Extract); ok && ex.Index == idx {
							res = ex
						}
					}
				}
				if res != nil {
					h := e.objKey(res)
					st.known[h] = true
					st.deleg[held] = append(st.deleg[held], h)
					st.ev("%s: %s completes when %s completes", g.Name(), held, h)
				}
			default:
				// collection-returning method (Split)
				if sl, ok := g.Signature.Results().At(0).Type().Underlying().(*types.Slice); ok && g.Signature.Results().Len() == 1 && isReqType(sl.Elem()) {
					ck := "coll:" + e.baseKey(callVal)
					st.deleg[held] = append(st.deleg[held], ck)
					st.ev("%s: %s completes when all children complete", g.Name(), held)
				}
			}
		}
	}
	// a call that returns a fresh request: new local object (not obligated unless waited on)
	if callVal != nil && isReqType(callVal.Type()) {
		for _, st := range states {
			k := e.objKey(callVal)
			st.known[k] = true
			st.acqBlock[k] = in.Block()
		}
	}
	return states
}

// registerHook handles host.RegisterHook(f): every request that f completes is delegated to host.
func (e *ownEngine) registerHook(fn *ssa.Function, in ssa.Instruction, host string, fv ssa.Value, s *pstate) {
	// a hook built by a factory (`forwardResponseTo(raw)` returning a closure over its parameter): the closure the
	// factory returns, with each captured parameter replaced by the argument of this call
	var subst func(b ssa.Value) ssa.Value
	if call, isCall := fv.(*ssa.Call); isCall {
		g := call.Call.StaticCallee()
		if g == nil || !isModFn(g) || g.Blocks == nil {
			return
		}
		var rmc *ssa.MakeClosure
		n := 0
		eachInstr(g, func(_ *ssa.BasicBlock, _ int, x ssa.Instruction) {
			ret, isRet := x.(*ssa.Return)
			if !isRet {
				return
			}
			n++
			if vals := returnedValues(ret); len(vals) == 1 {
				if m, isMC := vals[0].(*ssa.MakeClosure); isMC {
					rmc = m
				}
			}
		})
		if n != 1 || rmc == nil {
			return
		}
		args := call.Call.Args
		subst = func(b ssa.Value) ssa.Value {
			if al, isAl := b.(*ssa.Alloc); isAl {
				var st *ssa.Store
				k := 0
				for _, r := range *al.Referrers() {
					if sst, isSt := r.(*ssa.Store); isSt && sst.Addr == ssa.Value(al) {
						st = sst
						k++
					}
				}
				if k != 1 {
					return nil
				}
				b = st.Val
			}
			if prm, isPrm := b.(*ssa.Parameter); isPrm {
				for i, q := range g.Params {
					if q == prm && i < len(args) {
						return args[i]
					}
				}
			}
			return nil
		}
		fv = rmc
	}
	mc, ok := fv.(*ssa.MakeClosure)
	if !ok {
		return
	}
	if subst != nil {
		if _, isFn := mc.Fn.(*ssa.Function); !isFn || mc.Fn.(*ssa.Function).Synthetic != "" {
			return
		}
	}
	cl := mc.Fn.(*ssa.Function)
	type captured struct {
		name string
		typ  types.Type // type of the variable as seen by the hook body: a cell (pointer) for closures, the value for a receiver
		bind ssa.Value
		cell bool
	}
	var caps []captured
	var hostParam *ssa.Parameter
	if cl.Synthetic != "" {
		// a method value r.m: the body is the method, its receiver is the one captured value. (The collection idiom
		// "children report to onChildDone" completes the parent only on some paths; its summary is not "consumes" and it
		// is checked by the child-counter rule.)
		mo, _ := cl.Object().(*types.Func)
		if mo == nil || len(mc.Bindings) != 1 {
			return
		}
		m := cl.Prog.FuncValue(mo)
		if m == nil || m.Blocks == nil || len(m.Params) == 0 {
			return
		}
		cl = m
		caps = append(caps, captured{m.Params[0].Name(), m.Params[0].Type(), mc.Bindings[0], false})
		if len(m.Params) == 2 {
			hostParam = m.Params[1]
		}
	} else {
		for i, f := range cl.FreeVars {
			b := mc.Bindings[i]
			if subst != nil {
				if b = subst(b); b == nil {
					return
				}
			}
			caps = append(caps, captured{f.Name(), f.Type(), b, true})
		}
		if len(cl.Params) == 1 {
			hostParam = cl.Params[0]
		}
	}
	// the hook must not complete its own host (its parameter)
	if hostParam != nil {
		if sm := e.summary(cl, hostParam.Name()); sm.kind == ownConsumes || sm.kind == ownBad {
			e.findings = append(e.findings, ownFinding{fn: cl, obj: hostParam.Name(), kind: "double", trace: "hook completes its own host", pos: cl.Pos(),
				detail: "a completion hook calls SetResponse on the request it is registered on: completing twice"})
		}
	}
	fo := e.analyse(cl)
	for _, cp := range caps {
		root := cp.name
		// outer object bound to this captured variable
		b := cp.bind
		var outerRoot string
		isReq := false
		if !cp.cell {
			if isReqType(cp.typ) {
				outerRoot = e.objKey(b)
			} else {
				outerRoot = e.baseKey(b)
			}
		} else if pt, ok := cp.typ.Underlying().(*types.Pointer); ok && isReqType(pt.Elem()) {
			isReq = true
			// binding is the cell of a variable: resolve its single store
			if al, ok := b.(*ssa.Alloc); ok {
				var st *ssa.Store
				n := 0
				for _, r := range *al.Referrers() {
					if sst, ok := r.(*ssa.Store); ok && sst.Addr == ssa.Value(al) {
						st = sst
						n++
					}
				}
				if n == 1 {
					outerRoot = e.objKey(st.Val)
				} else {
					outerRoot = "cell:" + al.Name()
				}
			} else {
				outerRoot = e.objKey(b)
			}
		} else {
			if al, ok := b.(*ssa.Alloc); ok {
				outerRoot = "cell:" + al.Name()
				n := 0
				var st *ssa.Store
				for _, r := range *al.Referrers() {
					if sst, ok := r.(*ssa.Store); ok && sst.Addr == ssa.Value(al) {
						st = sst
						n++
					}
				}
				if n == 1 {
					outerRoot = e.baseKey(st.Val)
				}
			} else {
				outerRoot = e.baseKey(b)
			}
		}
		for k := range fo.outcomes {
			if k != root && !strings.HasPrefix(k, root+".") {
				continue
			}
			sm := e.summary(cl, k)
			if os.Getenv("SAMLINT_DEBUG_OWN") != "" {
				fmt.Fprintf(os.Stderr, "DEBUG hook %s on %s: %s -> %s %s\n", fnKey(cl), host, k, sm.kind, sm.why)
			}
			outer := outerRoot + strings.TrimPrefix(k, root)
			maySometimes := sm.kind == ownBad && strings.Contains(sm.why, "some paths")
			if sm.kind == ownConsumes || maySometimes {
				for _, h := range s.deleg[outer] {
					if h == host {
						e.findings = append(e.findings, ownFinding{fn: cl, obj: k, kind: "double", trace: "second hook on " + host + " completes " + outer, pos: cl.Pos(),
							detail: fmt.Sprintf("two hooks registered on %s complete %q: when both run the second completion closes an already closed channel and crashes the process", host, outer)})
					}
				}
			}
			if sm.kind != ownConsumes {
				continue
			}
			_ = isReq
			s.known[outer] = true
			s.deleg[outer] = append(s.deleg[outer], host)
			s.ev("hook on %s completes %s", host, outer)
			// does the host get returned? recorded for delegates-to-result summaries
			eachInstr(fn, func(_ *ssa.BasicBlock, _ int, x ssa.Instruction) {
				if ret, ok := x.(*ssa.Return); ok {
					for ri, r := range returnedValues(ret) {
						if isReqType(r.Type()) && e.objKey(r) == host {
							s.delegRes[outer] = ri
						}
					}
				}
			})
		}
	}
}
