// samlint: repository-specific static checker for samaritan-proxy/samaritan.
// Every verdict is computed from the type-checked source of the tree under
// -repo (go/packages -> go/ssa -> CFG / call graph); nothing is executed.
package main

import (
	"encoding/json"
	"flag"
	"fmt"
	"os"
	"sort"
	"strconv"
	"strings"
)

type propDef struct {
	id   string
	li   levelInfo
	run  func(c *Ctx)
	deep func(c *Ctx) // extra work for the thorough tier (same tree)
}

var props = map[string]*propDef{}

func register(p *propDef) { props[p.id] = p }

var commonAssumptions = []string{
	"go/packages + go/types + go/ssa (x/tools v0.29.0) build a faithful IR of the program the compiler builds for the analysed build variant",
	"dynamic calls are resolved by VTA over CHA; interface calls into third-party code are leaves",
	"_test.go files are not part of the judged program",
}

func main() {
	if len(os.Args) < 2 {
		usage()
	}
	switch os.Args[1] {
	case "check":
		os.Exit(cmdCheck(os.Args[2:]))
	case "replay":
		os.Exit(cmdReplay(os.Args[2:]))
	case "manifest":
		os.Exit(cmdManifest())
	case "list":
		var ids []string
		for id := range props {
			ids = append(ids, id)
		}
		sort.Strings(ids)
		for _, id := range ids {
			fmt.Println(id, props[id].li.Level)
		}
	default:
		usage()
	}
}

func usage() {
	fmt.Fprintln(os.Stderr, "usage: samlint check -prop Cnn [-tier quick|thorough] [-repo /repo] [-verif /verif]\n       samlint replay <replay.json>\n       samlint list")
	os.Exit(2)
}

func cmdCheck(args []string) int {
	fs := flag.NewFlagSet("check", flag.ExitOnError)
	prop := fs.String("prop", "", "property id (Cnn)")
	tier := fs.String("tier", "", "quick|thorough")
	repo := fs.String("repo", "/repo", "repository root")
	verif := fs.String("verif", "/verif", "verif dir (evidence, known findings)")
	goos := fs.String("goos", "", "build variant GOOS")
	goarch := fs.String("goarch", "", "build variant GOARCH")
	child := fs.Bool("child", false, "internal: variant/mutant child run (no evidence)")
	fs.Parse(args)
	if *tier == "" {
		*tier = os.Getenv("VERIF_TIER")
		if *tier == "" {
			*tier = "quick"
		}
	}
	seed, _ := strconv.ParseInt(os.Getenv("VERIF_SEED"), 10, 64)
	pd := props[*prop]
	if pd == nil {
		fmt.Fprintf(os.Stderr, "samlint: unknown property %q\n", *prop)
		return 2
	}
	p, err := Load(LoadOpts{Dir: *repo, GOOS: *goos, GOARCH: *goarch})
	if err != nil {
		fmt.Fprintf(os.Stderr, "samlint: %v\n", err)
		return 2
	}
	c := newCtx(pd.id, *tier, p)
	c.Note("build variant %s: %d module packages (%d incl. dependencies), %d functions with bodies", p.Variant, len(p.Pkgs), p.NAll, len(p.SrcFns))
	if len(p.Pkgs) < 30 {
		c.Unresolved("load", fmt.Sprintf("only %d module packages loaded (expected >= 30)", len(p.Pkgs)))
	}
	runGuarded(c, pd.run)
	if *tier == "thorough" && !*child {
		if pd.deep != nil {
			runGuarded(c, pd.deep)
		}
		thoroughExtras(c, pd, *repo, *verif)
	}
	if *child {
		return childFinish(c, *verif)
	}
	li := pd.li
	li.Assumptions = append(append([]string{}, commonAssumptions...), li.Assumptions...)
	return c.Finish(*verif, li, seed)
}

// runGuarded turns an analyser panic into a failing obligation (never a silent pass).
func runGuarded(c *Ctx, f func(*Ctx)) {
	defer func() {
		if r := recover(); r != nil {
			c.Unresolved("internal", fmt.Sprintf("analyser panic: %v", r))
		}
	}()
	f(c)
}

// childFinish prints failing keys as JSON lines (used by variant and mutant runs).
func childFinish(c *Ctx, verif string) int {
	known, _ := loadKnown(verif + "/known_findings.jsonl")
	kk := map[string]bool{}
	for _, k := range known {
		if k.Status == "known" && k.Property == c.Prop {
			kk[k.Key] = true
		}
	}
	n := 0
	for _, o := range c.Obls {
		if o.Status != StOK && !(kk[o.Key] && o.Status == StViolation) {
			b, _ := json.Marshal(o)
			fmt.Printf("CHILD-FAIL %s\n", b)
			n++
		}
	}
	fmt.Printf("CHILD-SUMMARY obligations=%d failing=%d\n", len(c.Obls), n)
	if n > 0 {
		return 1
	}
	return 0
}

func cmdReplay(args []string) int {
	if len(args) < 1 {
		usage()
	}
	b, err := os.ReadFile(args[0])
	if err != nil {
		fmt.Fprintln(os.Stderr, err)
		return 2
	}
	var r struct {
		Property, Key, Pos, Reason, Rule string
	}
	if err := json.Unmarshal(b, &r); err != nil {
		fmt.Fprintln(os.Stderr, err)
		return 2
	}
	pd := props[r.Property]
	if pd == nil {
		fmt.Fprintf(os.Stderr, "unknown property %s\n", r.Property)
		return 2
	}
	repo := "/repo"
	if len(args) > 1 {
		repo = args[1]
	}
	p, err := Load(LoadOpts{Dir: repo})
	if err != nil {
		fmt.Fprintln(os.Stderr, err)
		return 2
	}
	c := newCtx(pd.id, "quick", p)
	runGuarded(c, pd.run)
	for _, o := range c.Obls {
		if o.Key == r.Key {
			fmt.Printf("replay %s\n  rule:   %s\n  key:    %s\n  pos:    %s\n  status: %s\n  detail: %s\n", args[0], o.Rule, o.Key, o.Pos, o.Status, o.Detail)
			if o.Status != StOK {
				fmt.Printf("VIOLATION property=%s replay=%s\n", r.Property, args[0])
				return 1
			}
			return 0
		}
	}
	fmt.Printf("replay %s: obligation key no longer exists on the current tree (%s)\n", args[0], strings.TrimSpace(r.Key))
	return 0
}
