package main

import (
	"fmt"
	"go/token"
	"go/types"
	"sort"

	"golang.org/x/tools/go/ssa"
)

// E-table: constant tables as the program builds them.

// constElems resolves a slice/array value to its constant string elements when it is
// a literal (Slice of a fresh Alloc whose cells are stored once with constants) or a
// load of a package-level variable initialised once with such a literal and never
// written elsewhere. ok=false when the value cannot be resolved.
func (p *Prog) constElems(v ssa.Value, depth int) (elems []ssa.Value, ok bool, why string) {
	if depth > 6 {
		return nil, false, "depth"
	}
	switch x := v.(type) {
	case *ssa.Slice:
		return p.constElems(x.X, depth+1)
	case *ssa.Alloc:
		// array literal: cells written via IndexAddr(alloc, const) stores
		arr, isArr := deref(x.Type()).Underlying().(*types.Array)
		if !isArr {
			return nil, false, "alloc is not an array"
		}
		cells := make([]ssa.Value, arr.Len())
		for _, r := range *x.Referrers() {
			switch y := r.(type) {
			case *ssa.IndexAddr:
				idx, isC := constInt(y.Index)
				if !isC {
					// variable index: must be read-only use
					for _, u := range *y.Referrers() {
						if s, isS := u.(*ssa.Store); isS && s.Addr == y {
							return nil, false, "array literal written through a variable index"
						}
					}
					continue
				}
				for _, u := range *y.Referrers() {
					if s, isS := u.(*ssa.Store); isS && s.Addr == y {
						if cells[idx] != nil {
							return nil, false, "cell stored twice"
						}
						cells[idx] = s.Val
					}
				}
			case *ssa.Slice, *ssa.DebugRef:
			case *ssa.UnOp: // whole-array load
			case *ssa.Store:
				if y.Addr == x {
					// whole array stored from a value (e.g. composite of consts) – unsupported
					return nil, false, "array initialised by whole-value store"
				}
			default:
				return nil, false, fmt.Sprintf("array literal escapes via %T", r)
			}
		}
		for i, c := range cells {
			if c == nil {
				return nil, false, fmt.Sprintf("cell %d has no store", i)
			}
		}
		return cells, true, ""
	case *ssa.UnOp:
		if x.Op != token.MUL {
			return nil, false, "unop"
		}
		if g, isG := x.X.(*ssa.Global); isG {
			return p.globalElems(g, depth+1)
		}
		return nil, false, "load of non-global"
	case *ssa.Global:
		return p.globalElems(x, depth+1)
	}
	return nil, false, fmt.Sprintf("unsupported value %T", v)
}

// globalUses lists every instruction that references global g (non-test module functions
// and package initialisers).
func (p *Prog) globalUses(g *ssa.Global) []ssa.Instruction {
	var out []ssa.Instruction
	for _, fn := range p.SrcFns {
		if p.isTestFn(fn) {
			continue
		}
		eachInstr(fn, func(b *ssa.BasicBlock, i int, in ssa.Instruction) {
			for _, op := range in.Operands(nil) {
				if *op == ssa.Value(g) {
					out = append(out, in)
					return
				}
			}
		})
	}
	return out
}

func (p *Prog) globalElems(g *ssa.Global, depth int) ([]ssa.Value, bool, string) {
	var stored ssa.Value
	isArray := false
	if _, ok := deref(g.Type()).Underlying().(*types.Array); ok {
		isArray = true
	}
	var cells map[int64]ssa.Value
	for _, in := range p.globalUses(g) {
		switch x := in.(type) {
		case *ssa.Store:
			if x.Addr != ssa.Value(g) {
				return nil, false, "address of global stored"
			}
			if stored != nil {
				return nil, false, "global assigned more than once"
			}
			stored = x.Val
		case *ssa.UnOp:
			// load: its uses must be read-only
			if why := readOnlySliceUses(x); why != "" {
				return nil, false, "global " + g.Name() + ": " + why
			}
		case *ssa.IndexAddr:
			// array global: &g[i]
			if !isArray {
				return nil, false, "indexaddr on non-array global"
			}
			idx, isC := constInt(x.Index)
			for _, u := range *x.Referrers() {
				if s, isS := u.(*ssa.Store); isS && s.Addr == x {
					if !isC || topFn(in.Parent()).Name() != "init" {
						return nil, false, "array global written outside its initialiser"
					}
					if cells == nil {
						cells = map[int64]ssa.Value{}
					}
					if _, dup := cells[idx]; dup {
						return nil, false, "cell stored twice"
					}
					cells[idx] = s.Val
				}
			}
		case *ssa.DebugRef:
		default:
			return nil, false, fmt.Sprintf("global %s used by %T", g.Name(), in)
		}
	}
	if isArray {
		arr := deref(g.Type()).Underlying().(*types.Array)
		if stored != nil {
			return nil, false, "array global assigned as a whole"
		}
		out := make([]ssa.Value, arr.Len())
		for i := range out {
			c, ok := cells[int64(i)]
			if !ok {
				return nil, false, fmt.Sprintf("array global cell %d not initialised by a constant store", i)
			}
			out[i] = c
		}
		return out, true, ""
	}
	if stored == nil {
		return nil, false, "global never assigned"
	}
	return p.constElems(stored, depth+1)
}

// readOnlySliceUses checks that a loaded slice/array value is only indexed for reading,
// ranged, sliced for reading or measured.
func readOnlySliceUses(v ssa.Value) string {
	refs := v.Referrers()
	if refs == nil {
		return ""
	}
	for _, r := range *refs {
		switch y := r.(type) {
		case *ssa.IndexAddr:
			for _, u := range *y.Referrers() {
				if s, ok := u.(*ssa.Store); ok && s.Addr == y {
					return "element written"
				}
				if _, ok := u.(*ssa.UnOp); ok {
					continue
				}
				if _, ok := u.(*ssa.DebugRef); ok {
					continue
				}
				return fmt.Sprintf("element address used by %T", u)
			}
		case *ssa.Index, *ssa.DebugRef, *ssa.Range, *ssa.Lookup:
		case *ssa.Call:
			if b, ok := y.Call.Value.(*ssa.Builtin); ok && (b.Name() == "len" || b.Name() == "cap") {
				continue
			}
			switch calleeName(y.Common()) {
			case "(*bufio.Writer).Write", "(*bytes.Buffer).Write", "bytes.Equal", "bytes.HasPrefix", "bytes.HasSuffix", "bytes.Index", "bytes.Contains":
				continue // library functions that only read their argument
			}
			return "passed to " + calleeName(y.Common())
		case *ssa.Phi:
			if why := readOnlySliceUses(y); why != "" {
				return why
			}
		default:
			return fmt.Sprintf("used by %T", r)
		}
	}
	return ""
}

// strSet resolves a string-typed value to the set of constant strings it can hold.
// Parameters are resolved through all call sites (VTA), to a bounded depth.
func (p *Prog) strSet(v ssa.Value, depth int) (set []string, ok bool, why string) {
	if depth > 5 {
		return nil, false, "depth"
	}
	v = stripConv(v)
	switch x := v.(type) {
	case *ssa.Const:
		if s, isS := constString(x); isS {
			return []string{s}, true, ""
		}
		return nil, false, "non-string const"
	case *ssa.UnOp:
		if x.Op == token.MUL {
			if ia, isIA := x.X.(*ssa.IndexAddr); isIA {
				elems, ok, why := p.constElems(ia.X, 0)
				if !ok {
					return nil, false, why
				}
				var out []string
				for _, e := range elems {
					s, isS := constString(e)
					if !isS {
						return nil, false, "non-constant element"
					}
					out = append(out, s)
				}
				return out, true, ""
			}
		}
	case *ssa.Phi:
		var out []string
		for _, e := range x.Edges {
			s, ok, why := p.strSet(e, depth+1)
			if !ok {
				return nil, false, why
			}
			out = append(out, s...)
		}
		return out, true, ""
	case *ssa.Parameter:
		fn := x.Parent()
		idx := -1
		for i, pp := range fn.Params {
			if pp == x {
				idx = i
			}
		}
		edges := p.callersOf(fn)
		if len(edges) == 0 {
			return nil, false, "parameter of a function without callers"
		}
		var out []string
		for _, e := range edges {
			args := e.Site.Common().Args
			if e.Site.Common().IsInvoke() {
				return nil, false, "parameter reached through an interface call"
			}
			if idx >= len(args) {
				return nil, false, "arity mismatch"
			}
			s, ok, why := p.strSet(args[idx], depth+1)
			if !ok {
				return nil, false, why
			}
			out = append(out, s...)
		}
		return out, true, ""
	}
	return nil, false, fmt.Sprintf("unsupported value %T (%s)", v, v.String())
}

// mapUpdatesOn finds MapUpdate instructions whose map operand is a load of global g
// (g != nil) or of struct field f (f != nil), and all other uses that could modify it.
type mapTable struct {
	Updates []*ssa.MapUpdate
	Deletes []ssa.Instruction
	Escapes []ssa.Instruction // uses that hand the map elsewhere
	Lookups []*ssa.Lookup
	Assigns []*ssa.Store // stores of a map value into the variable itself
	// keys added by a helper the map is handed to (call-site sensitive): helper(m, k1, k2, ...) { m[k] = v }
	HelperKeys []string
	// membership tests made by a helper the map is handed to: set.has(k)
	LookupCalls []*ssa.Call
}

func (p *Prog) mapTableOf(g *ssa.Global, f *types.Var) mapTable {
	var t mapTable
	isRef := func(v ssa.Value) bool {
		u, ok := v.(*ssa.UnOp)
		if !ok || u.Op != token.MUL {
			return false
		}
		if g != nil {
			return u.X == ssa.Value(g)
		}
		ff, _ := fieldAddr(u.X)
		return ff == f
	}
	for _, fn := range p.SrcFns {
		if p.isTestFn(fn) {
			continue
		}
		eachInstr(fn, func(b *ssa.BasicBlock, i int, in ssa.Instruction) {
			switch x := in.(type) {
			case *ssa.MapUpdate:
				if isRef(x.Map) {
					t.Updates = append(t.Updates, x)
				}
			case *ssa.Lookup:
				if isRef(x.X) {
					t.Lookups = append(t.Lookups, x)
				}
			case *ssa.Store:
				if g != nil && x.Addr == ssa.Value(g) {
					t.Assigns = append(t.Assigns, x)
				} else if f != nil {
					if ff, _ := fieldAddr(x.Addr); ff == f {
						t.Assigns = append(t.Assigns, x)
					}
				}
				if isRef(x.Val) {
					t.Escapes = append(t.Escapes, in)
				}
			case *ssa.Call:
				if bi, ok := x.Call.Value.(*ssa.Builtin); ok {
					if bi.Name() == "delete" && isRef(x.Call.Args[0]) {
						t.Deletes = append(t.Deletes, in)
					}
					return
				}
				for ai, a := range x.Call.Args {
					if !isRef(a) {
						continue
					}
					if keys, ok := p.helperMapKeys(x, ai); ok {
						t.HelperKeys = append(t.HelperKeys, keys...)
						continue
					}
					if p.helperIsLookup(x, ai) {
						t.LookupCalls = append(t.LookupCalls, x)
						continue
					}
					t.Escapes = append(t.Escapes, in)
				}
			case *ssa.Return:
				for _, r := range returnedValues(x) {
					if isRef(r) {
						t.Escapes = append(t.Escapes, in)
					}
				}
			case *ssa.Range:
				// reading
			}
		})
	}
	// a table written as a composite literal: the entries are stored into the fresh map before it is assigned
	for _, st := range t.Assigns {
		mk, ok := st.Val.(*ssa.MakeMap)
		if !ok {
			continue
		}
		for _, r := range *mk.Referrers() {
			switch x := r.(type) {
			case *ssa.MapUpdate:
				if x.Map == ssa.Value(mk) {
					t.Updates = append(t.Updates, x)
				}
			case *ssa.Store, *ssa.DebugRef:
			default:
				if in, ok := r.(ssa.Instruction); ok && in != ssa.Instruction(st) {
					t.Escapes = append(t.Escapes, in)
				}
			}
		}
	}
	return t
}

// mapKeys computes the set of constant keys that can be stored into the table.
func (p *Prog) mapKeys(t mapTable) (keys []string, ok bool, why string) {
	seen := map[string]bool{}
	for _, u := range t.Updates {
		s, ok, why := p.strSet(u.Key, 0)
		if !ok {
			return nil, false, fmt.Sprintf("%s: key not resolvable: %s", p.Pos(u.Pos()), why)
		}
		for _, k := range s {
			if !seen[k] {
				seen[k] = true
				keys = append(keys, k)
			}
		}
	}
	for _, k := range t.HelperKeys {
		if !seen[k] {
			seen[k] = true
			keys = append(keys, k)
		}
	}
	sort.Strings(keys)
	return keys, true, ""
}

// helperMapKeys: call hands a map (argument mi) to a module helper that only stores into it with keys taken from
// another (slice / variadic) parameter; returns the constant keys of that argument at this call site.
func (p *Prog) helperMapKeys(call *ssa.Call, mi int) ([]string, bool) {
	g := calleeFn(call.Common())
	if g == nil || !isModFn(g) || g.Blocks == nil || mi >= len(g.Params) {
		return nil, false
	}
	mp := g.Params[mi]
	var keys []string
	ok := true
	n := 0
	for _, r := range *mp.Referrers() {
		switch x := r.(type) {
		case *ssa.MapUpdate:
			if x.Map != ssa.Value(mp) {
				ok = false
				continue
			}
			n++
			// key: element of a slice parameter
			var kp *ssa.Parameter
			derives(x.Key, func(v ssa.Value) bool {
				if q, isP := v.(*ssa.Parameter); isP && q.Parent() == g {
					kp = q
					return true
				}
				return false
			})
			if kp == nil {
				ok = false
				continue
			}
			ki := paramIndex(g, kp)
			if ki < 0 || ki >= len(call.Call.Args) {
				ok = false
				continue
			}
			var ks []string
			elems, kok, _ := p.constElems(call.Call.Args[ki], 0)
			for _, e := range elems {
				es, eok, _ := p.strSet(e, 0)
				if !eok {
					kok = false
				}
				ks = append(ks, es...)
			}
			if !kok {
				// the key itself is the argument: set.add(k)
				if _, isStr := call.Call.Args[ki].Type().Underlying().(*types.Basic); isStr {
					ks, kok, _ = p.strSet(call.Call.Args[ki], 0)
				}
			}
			if !kok {
				ok = false
				continue
			}
			keys = append(keys, ks...)
		case *ssa.Lookup, *ssa.DebugRef:
		case *ssa.Call:
			if !isBuiltin(x, "len") {
				ok = false
			}
		default:
			ok = false
		}
	}
	return keys, ok && n > 0
}

// helperIsLookup: the callee of call only looks its map parameter mi up (comma-ok or plain) and does nothing else with
// it: set.has(k).
func (p *Prog) helperIsLookup(call *ssa.Call, mi int) bool {
	g := calleeFn(call.Common())
	if g == nil || !isModFn(g) || g.Blocks == nil || mi >= len(g.Params) {
		return false
	}
	n := 0
	for _, r := range *g.Params[mi].Referrers() {
		switch x := r.(type) {
		case *ssa.Lookup:
			if x.X != ssa.Value(g.Params[mi]) {
				return false
			}
			if _, isPrm := stripConv(x.Index).(*ssa.Parameter); !isPrm {
				return false
			}
			n++
		case *ssa.DebugRef:
		default:
			return false
		}
	}
	return n > 0
}

// globalIntTable: the entries of a package-level map[string]<int> that is filled only by its initialiser (a composite
// literal, or updates in init) with constant keys and constant values, never deleted from and never handed elsewhere.
func (p *Prog) globalIntTable(g *ssa.Global) (map[string]int64, bool) {
	mt, ok := deref(g.Type()).Underlying().(*types.Map)
	if !ok || intBits(mt.Elem()) == 0 {
		return nil, false
	}
	t := p.mapTableOf(g, nil)
	if len(t.Deletes) > 0 || len(t.Escapes) > 0 || len(t.HelperKeys) > 0 {
		return nil, false
	}
	out := map[string]int64{}
	add := func(u *ssa.MapUpdate) bool {
		if u.Parent().Name() != "init" {
			return false
		}
		k, okk := constString(stripConv(u.Key))
		v, okv := constInt(u.Value)
		if !okk || !okv {
			return false
		}
		out[k] = v
		return true
	}
	for _, u := range t.Updates {
		if !add(u) {
			return nil, false
		}
	}
	for _, st := range t.Assigns {
		mk, ok := st.Val.(*ssa.MakeMap)
		if !ok || st.Parent().Name() != "init" {
			return nil, false
		}
		for _, r := range *mk.Referrers() {
			if u, ok := r.(*ssa.MapUpdate); ok && u.Map == ssa.Value(mk) {
				if !add(u) {
					return nil, false
				}
			}
		}
	}
	return out, len(out) > 0
}
