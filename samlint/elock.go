package main

import (
	"fmt"
	"go/types"
	"sort"
	"strings"

	"golang.org/x/tools/go/ssa"
)

// E-lock: must-hold lockset per instruction (forward dataflow over Lock/RLock/Unlock,
// `defer Unlock` keeps the lock to the end of the function), entry locksets of helpers
// from the intersection over their call sites (constructors working on a fresh, unshared
// object are exempt), lock->lock order edges.

type lockMode int

const (
	lockNone lockMode = iota
	lockRead
	lockWrite
)

// lockset maps a lock (identified by the struct field that holds the mutex) to the mode held.
type lockset map[*types.Var]lockMode

func (a lockset) clone() lockset {
	b := lockset{}
	for k, v := range a {
		b[k] = v
	}
	return b
}

func meet(a, b lockset) lockset {
	out := lockset{}
	for k, v := range a {
		if w, ok := b[k]; ok {
			if w < v {
				v = w
			}
			out[k] = v
		}
	}
	return out
}

func (a lockset) equal(b lockset) bool {
	if len(a) != len(b) {
		return false
	}
	for k, v := range a {
		if b[k] != v {
			return false
		}
	}
	return true
}

func (a lockset) String() string {
	var s []string
	for k, v := range a {
		m := "W"
		if v == lockRead {
			m = "R"
		}
		s = append(s, k.Name()+":"+m)
	}
	sort.Strings(s)
	return "{" + strings.Join(s, ",") + "}"
}

type lockEngine struct {
	p      *Prog
	entry  map[*ssa.Function]lockset
	top    map[*ssa.Function]bool // entry not yet constrained (T)
	before map[ssa.Instruction]lockset
	fns    []*ssa.Function
	order  map[[2]*types.Var]ssa.Instruction // lock order edges a -> b with a witness site
}

// mutexOp classifies a call on a sync.Mutex / sync.RWMutex held in a struct field.
func mutexOp(in ssa.Instruction) (field *types.Var, op string) {
	cc := callOf(in)
	if cc == nil {
		return nil, ""
	}
	f := calleeFn(cc)
	if f == nil {
		return nil, ""
	}
	switch f.String() {
	case "(*sync.Mutex).Lock", "(*sync.RWMutex).Lock":
		op = "Lock"
	case "(*sync.RWMutex).RLock":
		op = "RLock"
	case "(*sync.Mutex).Unlock", "(*sync.RWMutex).Unlock":
		op = "Unlock"
	case "(*sync.RWMutex).RUnlock":
		op = "RUnlock"
	default:
		return nil, ""
	}
	if len(cc.Args) == 0 {
		return nil, ""
	}
	fld, _ := fieldAddr(cc.Args[0])
	if fld == nil {
		return nil, ""
	}
	return fld, op
}

func newLockEngine(p *Prog, pkgs ...string) *lockEngine {
	e := &lockEngine{p: p, entry: map[*ssa.Function]lockset{}, top: map[*ssa.Function]bool{}, before: map[ssa.Instruction]lockset{}, order: map[[2]*types.Var]ssa.Instruction{}}
	for _, rel := range pkgs {
		for _, fn := range p.FuncsIn(rel) {
			if !p.isTestFn(fn) {
				e.fns = append(e.fns, fn)
			}
		}
	}
	inScope := map[*ssa.Function]bool{}
	for _, fn := range e.fns {
		inScope[fn] = true
	}
	// initial entry: T for functions whose every caller is a plain in-scope call, {} otherwise
	for _, fn := range e.fns {
		edges := p.callersSeeThrough(fn)
		if len(edges) == 0 || fn.Parent() != nil {
			e.entry[fn] = lockset{}
			continue
		}
		ok := true
		for _, ed := range edges {
			if _, isCall := ed.Site.(*ssa.Call); !isCall || !inScope[ed.Caller.Func] {
				ok = false
			}
		}
		if ok {
			e.top[fn] = true
		} else {
			e.entry[fn] = lockset{}
		}
	}
	for iter := 0; iter < 30; iter++ {
		for _, fn := range e.fns {
			e.flow(fn)
		}
		// Jacobi step: all new entries are computed from the same snapshot of `before`
		next := map[*ssa.Function]lockset{}
		for _, fn := range e.fns {
			if _, fixed := e.entry[fn]; fixed && !e.top[fn] && (fn.Parent() != nil || len(p.callersSeeThrough(fn)) == 0) {
				continue
			}
			edges := p.callersSeeThrough(fn)
			var acc lockset
			first := true
			bottom := false
			for _, ed := range edges {
				call, isCall := ed.Site.(*ssa.Call)
				if !isCall || !inScope[ed.Caller.Func] {
					bottom = true
					break
				}
				// constructor exemption: receiver/first argument is a fresh object of the caller
				if len(call.Call.Args) > 0 && isFreshAlloc(call.Call.Args[0]) {
					continue
				}
				if e.top[ed.Caller.Func] {
					continue // caller not yet constrained
				}
				ls := e.before[call]
				if ls == nil {
					ls = lockset{}
				}
				if first {
					acc, first = ls.clone(), false
				} else {
					acc = meet(acc, ls)
				}
			}
			if bottom {
				next[fn] = lockset{}
				continue
			}
			if first {
				continue
			}
			next[fn] = acc
		}
		changed := false
		for fn, acc := range next {
			if e.top[fn] || !acc.equal(e.entry[fn]) {
				delete(e.top, fn)
				e.entry[fn] = acc
				changed = true
			}
		}
		if !changed {
			break
		}
	}
	for fn := range e.top {
		e.entry[fn] = lockset{}
	}
	e.top = map[*ssa.Function]bool{}
	for _, fn := range e.fns {
		e.flow(fn)
	}
	return e
}

// flow runs the forward must-lockset dataflow in fn.
func (e *lockEngine) flow(fn *ssa.Function) {
	if fn.Blocks == nil {
		return
	}
	in := map[*ssa.BasicBlock]lockset{}
	start := e.entry[fn]
	if start == nil {
		start = lockset{}
	}
	in[fn.Blocks[0]] = start.clone()
	work := []*ssa.BasicBlock{fn.Blocks[0]}
	visited := map[*ssa.BasicBlock]bool{}
	for len(work) > 0 {
		b := work[0]
		work = work[1:]
		cur := in[b].clone()
		for _, ins := range b.Instrs {
			e.before[ins] = cur.clone()
			if _, isDefer := ins.(*ssa.Defer); isDefer {
				continue // deferred unlock: lock stays held to the end of the function
			}
			if _, isGo := ins.(*ssa.Go); isGo {
				continue
			}
			fld, op := mutexOp(ins)
			switch op {
			case "Lock":
				for held := range cur {
					if held != fld {
						if _, ok := e.order[[2]*types.Var{held, fld}]; !ok {
							e.order[[2]*types.Var{held, fld}] = ins
						}
					}
				}
				cur[fld] = lockWrite
			case "RLock":
				for held := range cur {
					if held != fld {
						if _, ok := e.order[[2]*types.Var{held, fld}]; !ok {
							e.order[[2]*types.Var{held, fld}] = ins
						}
					}
				}
				cur[fld] = lockRead
			case "Unlock", "RUnlock":
				delete(cur, fld)
			}
		}
		visited[b] = true
		for _, s := range b.Succs {
			old, seen := in[s]
			var nw lockset
			if !seen {
				nw = cur.clone()
			} else {
				nw = meet(old, cur)
			}
			if !seen || !nw.equal(old) {
				in[s] = nw
				work = append(work, s)
			}
		}
	}
}

// heldAt returns the must-lockset just before an instruction.
func (e *lockEngine) heldAt(in ssa.Instruction) lockset {
	if ls := e.before[in]; ls != nil {
		return ls
	}
	return lockset{}
}

// locksAcquiredIn: locks a function (transitively, in scope) may acquire — for order edges through calls.
func (e *lockEngine) mayAcquire(fn *ssa.Function, seen map[*ssa.Function]bool) map[*types.Var]bool {
	out := map[*types.Var]bool{}
	if seen[fn] || fn.Blocks == nil {
		return out
	}
	seen[fn] = true
	eachInstr(fn, func(_ *ssa.BasicBlock, _ int, in ssa.Instruction) {
		if _, isGo := in.(*ssa.Go); isGo {
			return
		}
		if fld, op := mutexOp(in); op == "Lock" || op == "RLock" {
			out[fld] = true
			return
		}
		if cc := callOf(in); cc != nil {
			if ci, ok := in.(ssa.CallInstruction); ok {
				for _, g := range e.p.callees(ci) {
					if isModFn(g) {
						for k := range e.mayAcquire(g, seen) {
							out[k] = true
						}
					}
				}
			}
		}
	})
	return out
}

// checkGuarded verifies that field f is only accessed with lock mu held (write mode for writes),
// except on objects that are still unshared (freshly allocated in the accessing function).
func (e *lockEngine) checkGuarded(c *Ctx, rule string, owner string, f, mu *types.Var, allowRead map[string]string) {
	n := 0
	for _, a := range e.p.fieldAccesses(f) {
		if a.Addr && !a.Write {
			// address taken for a method call on the field (e.g. atomic): treat as read
		}
		if _, isFA := a.In.(*ssa.FieldAddr); isFA {
			continue
		}
		n++
		site := fmt.Sprintf("%s.%s %s in %s", owner, f.Name(), map[bool]string{true: "write", false: "read"}[a.Write], fnKey(a.Fn))
		if isFreshAlloc(a.Base) {
			c.OK(rule, site, a.In.Pos(), "object not yet shared (constructor)")
			continue
		}
		held := e.heldAt(a.In)
		mode := held[mu]
		need := lockRead
		if a.Write {
			need = lockWrite
		}
		if mode >= need {
			c.OK(rule, site, a.In.Pos(), "lockset "+held.String())
			continue
		}
		if why, ok := allowRead[fnKey(a.Fn)]; ok && !a.Write {
			c.OK(rule, site, a.In.Pos(), "exempt: "+why)
			continue
		}
		c.Fail(rule, site, a.In.Pos(), fmt.Sprintf("%s.%s is accessed without holding %s (lockset here: %s); elsewhere it is protected by that lock, so this access races with it", owner, f.Name(), mu.Name(), held.String()))
	}
	if n == 0 {
		c.Unresolved(rule, "no access of "+owner+"."+f.Name())
	}
}
