package main

import (
	"fmt"
	"go/token"
	"go/types"
	"strings"

	"golang.org/x/tools/go/ssa"
)

func init() {
	register(&propDef{
		id: "C01",
		li: levelInfo{
			Level:       "other",
			Explanation: "Static necessary conditions of in-order, exactly-one replies. R1 (who-may-touch): each of the three FIFO queues (session.processingReqs, client.pendingReqs, client.processingReqs) has the expected producer and consumer functions only; each encoder/decoder is used by one loop function; each loop function is started once, outside any loop. R2 (per-iteration pairing on the CFG): downstream reader - every decoded value is wrapped, dispatched and enqueued exactly once before the next decode; downstream writer - every dequeued request is waited for and its own response encoded exactly once before the next dequeue; backend writer - unless the filter stopped it, a dequeued request is encoded once and then handed to the sent-queue (or the function exits) before the next dequeue - a request already on the wire always gets its FIFO entry; backend reader - one decode and one dequeue per iteration, both given to the reply dispatcher. R3: split/assemble agreement - child k is built from argument f(k) (f from the reference: k+1 for MGET and the sum commands, 2k+1/2k+2 for MSET), every iteration adds exactly one child, reply element i is children[i]'s response, the sum accumulates every child's integer. R4 (taint): no client- or backend-supplied text reaches the text of an error/simple-string reply line unless it is a key of a constant table, quoted, or stripped of CR LF. R5: no alias of the read buffer escapes into a queued request (shared with C10.R2). R6 (flush gate, shared with C02.R8): every iteration of a writer loop passes the `queue empty => Flush` test before it blocks on the queue again, so a reply that was encoded is also on the wire. Ordering under real schedules and cross-connection isolation as a whole are not decided. R7 (shared with C02.R3-R5): at the end of a backend connection the terminal drain covers every queue, runs after the reader returned and the writer was joined, and an enqueue that can race with it re-tests the quit latch. R8 (shared with C02.R1): every request is completed exactly once on every path (a request answered by a filter and still queued for a backend reply shifts all later replies of that connection). R9 (shared with C10.R11): the slab cursor only advances or takes a fresh chunk. R10 (shared with C10.R12): the line reader's returned line ends at start-of-window + index + 1. R11 (shared with C13.R11/C19.R11): a locally built reply is copied out of a pooled buffer before the buffer goes back to the pool.",
			TrustedBase: []string{"go/ssa", "VTA call graph"},
		},
		run: checkC01,
	})
	techniques["C01"] = "static analysis: who-may-send/receive over resolved channel fields, per-iteration must-pass-through on the SSA CFG, linear-form comparison of split indices, taint analysis of reply lines"
}

func checkC01(c *Ctx) {
	p := c.P
	c.Rule("R1", "queue endpoints, codec ownership, single start of each loop")
	c.Rule("R2", "per-iteration pairing in the four loops")
	c.Rule("R3", "split/assemble index agreement; one child per iteration; reply element i from child i")
	c.Rule("R4", "no peer-supplied text in an error / simple-string reply line unless sanitised")

	sPQ := p.Field(redisPkg, "session", "processingReqs")
	cPend := p.Field(redisPkg, "client", "pendingReqs")
	cProc := p.Field(redisPkg, "client", "processingReqs")
	if sPQ == nil || cPend == nil || cProc == nil {
		c.Unresolved("R1", "session.processingReqs / client.pendingReqs / client.processingReqs")
		return
	}
	usesCodec := func(owner, fld, method string) []*ssa.Function {
		f := p.Field(redisPkg, owner, fld)
		var out []*ssa.Function
		seen := map[*ssa.Function]bool{}
		for _, fn := range p.FuncsIn(redisPkg) {
			if p.isTestFn(fn) {
				continue
			}
			eachInstr(fn, func(_ *ssa.BasicBlock, _ int, in ssa.Instruction) {
				cc := callOf(in)
				if cc == nil {
					return
				}
				g := calleeFn(cc)
				if g == nil || g.Name() != method || len(cc.Args) == 0 {
					return
				}
				if ff, _ := loadedField(cc.Args[0]); ff == f && !seen[fn] {
					seen[fn] = true
					out = append(out, fn)
				}
			})
		}
		return out
	}
	sDec := usesCodec("session", "dec", "Decode")
	sEnc := usesCodec("session", "enc", "Encode")
	cEnc := usesCodec("client", "enc", "Encode")
	cDec := usesCodec("client", "dec", "Decode")
	one := func(fs []*ssa.Function, what string) *ssa.Function {
		if len(fs) != 1 {
			var ns []string
			for _, f := range fs {
				ns = append(ns, fnKey(f))
			}
			c.Fail("R1", what+" used by one loop function", token.NoPos, fmt.Sprintf("%s is used by %d functions %v: two users interleave their reads/writes on one stream", what, len(fs), ns))
			return nil
		}
		c.OK("R1", what+" used by one loop function", fs[0].Pos(), fnKey(fs[0]))
		return fs[0]
	}
	sReader, sWriter, cWriter, cReader := one(sDec, "session.dec"), one(sEnc, "session.enc"), one(cEnc, "client.enc"), one(cDec, "client.dec")
	if sReader == nil || sWriter == nil || cWriter == nil || cReader == nil {
		return
	}
	// the loop function: the codec may be used by a helper without a loop of its own (writeRequest, readReply) - the
	// loop function is then its single caller that loops
	lift := func(f *ssa.Function) *ssa.Function {
		for i := 0; i < 3 && len(loopHeaders(f)) == 0; i++ {
			var callers []*ssa.Function
			for _, ed := range p.callersOf(f) {
				if !p.isTestFn(ed.Caller.Func) {
					callers = append(callers, ed.Caller.Func)
				}
			}
			if len(callers) != 1 {
				break
			}
			f = callers[0]
		}
		return f
	}
	sReader, sWriter, cWriter, cReader = lift(sReader), lift(sWriter), lift(cWriter), lift(cReader)
	// drains: non-blocking receivers
	isDrain := func(op chanOp) bool { return op.InSelect != nil && !op.Blocking }
	type want struct {
		q        *types.Var
		senders  []*ssa.Function
		recvers  []*ssa.Function
		drainsOK bool
	}
	sendFn := p.Func(redisPkg, "(*client).Send")
	for _, w := range []want{
		{sPQ, []*ssa.Function{sReader}, []*ssa.Function{sWriter}, false},
		{cProc, []*ssa.Function{cWriter}, []*ssa.Function{cReader}, true},
		{cPend, []*ssa.Function{sendFn}, []*ssa.Function{cWriter}, true},
	} {
		for _, op := range p.chanOpsOnField(w.q) {
			if op.Kind != opSend && op.Kind != opRecv {
				continue
			}
			site := fmt.Sprintf("%s %s in %s", w.q.Name(), op.Kind, fnKey(op.Fn))
			okFn := false
			list := w.senders
			if op.Kind == opRecv {
				list = w.recvers
			}
			for _, f := range list {
				if f == op.Fn {
					okFn = true
				}
			}
			if op.Kind == opRecv && w.drainsOK && isDrain(op) {
				okFn = true
			}
			role := "producer"
			if op.Kind == opRecv {
				role = "consumer"
			}
			c.Check(okFn, "R1", site, op.In.Pos(), "expected "+role, "an unexpected "+role+" touches FIFO queue "+w.q.Name()+": a second sender or receiver breaks the pairing of requests and replies")
		}
	}
	// each loop function is started exactly once, outside loops
	for _, lf := range []*ssa.Function{sReader, sWriter, cWriter, cReader} {
		edges := p.callersOf(lf)
		site := "start of " + fnKey(lf)
		if len(edges) != 1 {
			c.Fail("R1", site, lf.Pos(), fmt.Sprintf("the loop function has %d call sites: two instances would share the queue and the stream", len(edges)))
			continue
		}
		ed := edges[0]
		inLoop := false
		for _, h := range loopHeaders(ed.Caller.Func) {
			if h.Dominates(ed.Site.Block()) {
				// in a loop only if the header is reachable again from the site
				if findPath(posOf(ed.Site), pathQuery{target: func(x ssa.Instruction) bool { return x.Block() == h }}) != nil {
					inLoop = true
				}
			}
		}
		c.Check(!inLoop, "R1", site, ed.Pos(), "one call site, not in a loop", "the loop function is started inside a loop")
	}
	c.Expect("R1", 14)

	// ---------------- R2
	handleReq := p.Func(redisPkg, "(*redisProc).handleRequest")
	handleResp := p.Func(redisPkg, "(*client).handleResp")
	newRaw := p.Func(redisPkg, "newRawRequest")
	isCallNamed := func(in ssa.Instruction, name string) bool {
		cc := callOf(in)
		if cc == nil {
			return false
		}
		g := calleeFn(cc)
		return g != nil && g.Name() == name
	}
	// generic helper: from `from`, every path to the next occurrence of `again` (or back to loop header) crosses `must`; exits (returns) are fine
	iterMust := func(fn *ssa.Function, from ssa.Instruction, must func(ssa.Instruction) bool, again func(ssa.Instruction) bool) []*ssa.BasicBlock {
		return findPath(posOf(from), pathQuery{target: again, avoid: must})
	}
	// downstream reader
	func() {
		var dec ssa.Instruction
		eachInstr(sReader, func(_ *ssa.BasicBlock, _ int, in ssa.Instruction) {
			if isCallNamed(in, "Decode") {
				dec = in
			}
		})
		if dec == nil {
			return
		}
		isDec := func(x ssa.Instruction) bool { return x == dec }
		for _, st := range []struct {
			name string
			m    func(ssa.Instruction) bool
		}{
			{"wraps the value in a request", func(x ssa.Instruction) bool { return isCallToFn(x, newRaw) }},
			{"dispatches the request", func(x ssa.Instruction) bool { return isCallToFn(x, handleReq) }},
			{"enqueues the request for the writer", func(x ssa.Instruction) bool {
				if sel, ok := x.(*ssa.Select); ok {
					for _, s := range sel.States {
						if f, _ := chanFieldOf(s.Chan); f == sPQ && s.Dir == types.SendOnly {
							return true
						}
					}
				}
				if sd, ok := x.(*ssa.Send); ok {
					f, _ := chanFieldOf(sd.Chan)
					return f == sPQ
				}
				return false
			}},
		} {
			path := iterMust(sReader, dec, st.m, isDec)
			c.Check(path == nil, "R2", "downstream reader "+st.name+" before the next decode", dec.Pos(), "every path from one Decode to the next crosses it", "a decoded request can reach the next Decode without this step ("+p.pathString(path)+"): it gets no reply, and every later reply on the connection shifts")
		}
		// exactly once: no path from the enqueue to another enqueue without a decode in between
		// the request that is dispatched and enqueued is the one built from this decode's value
		var nr *ssa.Call
		eachInstr(sReader, func(_ *ssa.BasicBlock, _ int, in ssa.Instruction) {
			if call, ok := in.(*ssa.Call); ok && isCallToFn(call, newRaw) {
				nr = call
			}
		})
		okVal := false
		if nr != nil {
			if ex, ok := nr.Call.Args[0].(*ssa.Extract); ok && ex.Tuple == dec.(ssa.Value) {
				okVal = true
			}
		}
		okSame := false
		if nr != nil {
			eachInstr(sReader, func(_ *ssa.BasicBlock, _ int, in ssa.Instruction) {
				if sel, ok := in.(*ssa.Select); ok {
					for _, s := range sel.States {
						if f, _ := chanFieldOf(s.Chan); f == sPQ && s.Send == ssa.Value(nr) {
							okSame = true
						}
					}
				}
				if sd, ok := in.(*ssa.Send); ok && sd.X == ssa.Value(nr) {
					okSame = true
				}
			})
		}
		c.Check(okVal && okSame, "R2", "downstream reader enqueues the request of this decode", dec.Pos(), "newRawRequest(decoded value) is the value dispatched and enqueued", "the request that is enqueued is not the one built from the value just decoded")
	}()
	// downstream writer
	func() {
		var recv *ssa.Select
		eachInstr(sWriter, func(_ *ssa.BasicBlock, _ int, in ssa.Instruction) {
			if sel, ok := in.(*ssa.Select); ok {
				for _, s := range sel.States {
					if f, _ := chanFieldOf(s.Chan); f == sPQ && s.Dir == types.RecvOnly {
						recv = sel
					}
				}
			}
		})
		if recv == nil {
			c.Fail("R2", "downstream writer dequeues", sWriter.Pos(), "no receive from the session queue")
			return
		}
		k := -1
		for i, s := range recv.States {
			if f, _ := chanFieldOf(s.Chan); f == sPQ {
				k = i
			}
		}
		req := selectRecvValue(recv, k)
		cb := selectCaseBlock(recv, k)
		if req == nil || cb == nil {
			c.Undecided("R2", "downstream writer request value", recv.Pos(), "cannot identify the dequeued request")
			return
		}
		isWait := func(x ssa.Instruction) bool {
			if cc := callOf(x); cc != nil {
				if g := calleeFn(cc); g != nil && g.Name() == "Wait" && len(cc.Args) > 0 && cc.Args[0] == req {
					return true
				}
			}
			if sel, ok := x.(*ssa.Select); ok {
				for _, s := range sel.States {
					if f, base := chanFieldOf(s.Chan); f != nil && f.Name() == "done" && base == req {
						return true
					}
				}
			}
			if u, ok := x.(*ssa.UnOp); ok && u.Op == token.ARROW {
				if f, base := chanFieldOf(u.X); f != nil && f.Name() == "done" && base == req {
					return true
				}
			}
			return false
		}
		var enc *ssa.Call
		eachInstr(sWriter, func(_ *ssa.BasicBlock, _ int, in ssa.Instruction) {
			if call, ok := in.(*ssa.Call); ok && isCallNamed(call, "Encode") {
				enc = call
			}
		})
		again := func(x ssa.Instruction) bool { return x == ssa.Instruction(recv) }
		path := findPath(ipos{cb, -1}, pathQuery{target: again, avoid: isWait})
		c.Check(path == nil, "R2", "downstream writer waits for the dequeued request", recv.Pos(), "every path to the next dequeue waits on this request's completion", "the writer can move on without waiting for the head request ("+p.pathString(path)+"): a reply is skipped or an unfinished response is written")
		if enc == nil {
			c.Fail("R2", "downstream writer encodes", sWriter.Pos(), "no Encode in the writer loop")
			return
		}
		path = findPath(ipos{cb, -1}, pathQuery{target: again, avoid: func(x ssa.Instruction) bool { return x == ssa.Instruction(enc) }})
		c.Check(path == nil, "R2", "downstream writer encodes one reply per dequeued request", enc.Pos(), "every path to the next dequeue crosses Encode", "a dequeued request can be skipped without writing its reply ("+p.pathString(path)+")")
		twice := findPath(posOf(enc), pathQuery{target: func(x ssa.Instruction) bool { return x == ssa.Instruction(enc) }, avoid: again})
		c.Check(twice == nil, "R2", "downstream writer encodes at most once per request", enc.Pos(), "no second Encode before the next dequeue", "a reply can be written twice")
		// the encoded value is this request's Response(), obtained after the wait
		okResp := false
		if rc, ok := enc.Call.Args[1].(*ssa.Call); ok && isCallNamed(rc, "Response") && rc.Call.Args[0] == req {
			waits := false
			eachInstr(sWriter, func(_ *ssa.BasicBlock, _ int, in ssa.Instruction) {
				if isWait(in) && instrDominates(in, rc) {
					waits = true
				}
			})
			okResp = waits
		}
		c.Check(okResp, "R2", "downstream writer encodes the dequeued request's own response, read after the wait", enc.Pos(), "Encode(req.Response()) dominated by the wait", "the value written is not the response of the request just dequeued, or it is read before the request completed")
	}()
	// backend writer
	func() {
		var recv *ssa.Select
		eachInstr(cWriter, func(_ *ssa.BasicBlock, _ int, in ssa.Instruction) {
			if sel, ok := in.(*ssa.Select); ok {
				for _, s := range sel.States {
					if f, _ := chanFieldOf(s.Chan); f == cPend && s.Dir == types.RecvOnly {
						recv = sel
					}
				}
			}
		})
		var enc *ssa.Call
		eachInstr(cWriter, func(_ *ssa.BasicBlock, _ int, in ssa.Instruction) {
			if call, ok := in.(*ssa.Call); ok && isCallNamed(call, "Encode") {
				enc = call
			}
		})
		// the encode may live in a helper of the loop (writeRequest): the call to a helper that encodes exactly once,
		// outside any loop of its own, stands for the Encode
		if enc == nil {
			eachInstr(cWriter, func(_ *ssa.BasicBlock, _ int, in ssa.Instruction) {
				call, ok := in.(*ssa.Call)
				if !ok {
					return
				}
				g := calleeFn(call.Common())
				if g == nil || !isModFn(g) || g.Blocks == nil {
					return
				}
				n := 0
				for _, h := range append([]*ssa.Function{g}, staticCalleesDeep(g, 1)...) {
					eachInstr(h, func(_ *ssa.BasicBlock, _ int, x ssa.Instruction) {
						if hc, ok := x.(*ssa.Call); ok && isCallNamed(hc, "Encode") {
							n++
						}
					})
				}
				if n == 1 && len(loopHeaders(g)) == 0 {
					enc = call
				}
			})
		}
		if recv == nil || enc == nil {
			c.Fail("R2", "backend writer shape", cWriter.Pos(), "the backend writer does not dequeue and encode")
			return
		}
		k := -1
		for i, s := range recv.States {
			if f, _ := chanFieldOf(s.Chan); f == cPend {
				k = i
			}
		}
		req := selectRecvValue(recv, k)
		isHandOver := func(x ssa.Instruction) bool {
			if sel, ok := x.(*ssa.Select); ok {
				for _, s := range sel.States {
					if f, _ := chanFieldOf(s.Chan); f == cProc && s.Dir == types.SendOnly && s.Send == req {
						return true
					}
				}
			}
			if sd, ok := x.(*ssa.Send); ok {
				f, _ := chanFieldOf(sd.Chan)
				return f == cProc && sd.X == req
			}
			return false
		}
		again := func(x ssa.Instruction) bool { return x == ssa.Instruction(recv) }
		// after a successful Encode every path to the next dequeue hands the request over; the hand-over select must
		// have no arm (other than leaving the function) that skips it
		path := findPath(posOf(enc), pathQuery{target: again, avoid: func(x ssa.Instruction) bool {
			if !isHandOver(x) {
				return false
			}
			return true
		}})
		okSel := true
		var hsel *ssa.Select
		eachInstr(cWriter, func(_ *ssa.BasicBlock, _ int, in ssa.Instruction) {
			if isHandOver(in) {
				if sel, ok := in.(*ssa.Select); ok {
					hsel = sel
				}
			}
		})
		if hsel != nil {
			// every arm other than the hand-over leaves the loop (no path back to the dequeue)
			hk := -1
			for i, s := range hsel.States {
				if f, _ := chanFieldOf(s.Chan); f == cProc {
					hk = i
				}
			}
			for i := range hsel.States {
				if i == hk {
					continue
				}
				if cb := selectCaseBlock(hsel, i); cb != nil {
					if findPath(ipos{cb, -1}, pathQuery{target: again}) != nil {
						okSel = false
					}
				}
			}
			if !hsel.Blocking {
				if db := selectDefaultBlock(hsel); db != nil && findPath(ipos{db, -1}, pathQuery{target: again}) != nil {
					okSel = false
				}
			}
		}
		c.Check(path == nil && okSel, "R2", "backend writer: an encoded request always gets its FIFO entry", enc.Pos(), "after Encode the request is handed to the sent-queue on every path that continues the loop", "a request that is already on the wire can continue the loop without being put on the sent-queue: the backend still answers it, no FIFO entry exists, and every later reply on that shared backend connection is paired with the wrong request (across all downstream connections)")
		c.Check(enc.Call.Args[1] != nil && func() bool {
			if isCallNamed(enc, "Encode") {
				bc, ok := enc.Call.Args[1].(*ssa.Call)
				return ok && isCallNamed(bc, "Body") && bc.Call.Args[0] == req
			}
			// through a helper: the dequeued request is the helper's argument and the helper encodes that
			// parameter's Body()
			g := calleeFn(enc.Common())
			for i, a := range enc.Call.Args {
				if a != req || g == nil || i >= len(g.Params) {
					continue
				}
				okBody := false
				for _, h := range append([]*ssa.Function{g}, staticCalleesDeep(g, 1)...) {
					eachInstr(h, func(_ *ssa.BasicBlock, _ int, x ssa.Instruction) {
						if hc, ok := x.(*ssa.Call); ok && isCallNamed(hc, "Encode") {
							if bc, ok := hc.Call.Args[1].(*ssa.Call); ok && isCallNamed(bc, "Body") && bc.Call.Args[0] == ssa.Value(g.Params[i]) {
								okBody = true
							}
						}
					})
				}
				return okBody
			}
			return false
		}(), "R2", "backend writer encodes the dequeued request's body", enc.Pos(), "Encode(req.Body())", "the bytes written to the backend are not the body of the request that is handed over")
		twice := findPath(posOf(enc), pathQuery{target: func(x ssa.Instruction) bool { return x == ssa.Instruction(enc) }, avoid: again})
		c.Check(twice == nil, "R2", "backend writer encodes at most once per request", enc.Pos(), "no second Encode before the next dequeue", "a request can be written to the backend twice")
	}()
	// backend reader
	func() {
		var dec, hr ssa.Instruction
		var recvVal ssa.Value
		var recvIn ssa.Instruction
		eachInstr(cReader, func(_ *ssa.BasicBlock, _ int, in ssa.Instruction) {
			if isCallNamed(in, "Decode") {
				dec = in
			}
			if isCallToFn(in, handleResp) {
				hr = in
			}
			if sel, ok := in.(*ssa.Select); ok {
				for i, s := range sel.States {
					if f, _ := chanFieldOf(s.Chan); f == cProc && s.Dir == types.RecvOnly {
						recvVal = selectRecvValue(sel, i)
						recvIn = in
					}
				}
			}
			if u, ok := in.(*ssa.UnOp); ok && u.Op == token.ARROW {
				if f, _ := chanFieldOf(u.X); f == cProc {
					recvVal, recvIn = u, in
				}
			}
		})
		if dec == nil || hr == nil || recvIn == nil {
			c.Fail("R2", "backend reader shape", cReader.Pos(), "the backend reader does not decode, dequeue and dispatch")
			return
		}
		isDec := func(x ssa.Instruction) bool { return x == dec }
		p1 := findPath(posOf(dec), pathQuery{target: isDec, avoid: func(x ssa.Instruction) bool { return x == recvIn }})
		p2 := findPath(posOf(dec), pathQuery{target: isDec, avoid: func(x ssa.Instruction) bool { return x == hr }})
		c.Check(p1 == nil && p2 == nil, "R2", "backend reader pairs one reply with one dequeued request", dec.Pos(), "every path from one Decode to the next dequeues once and dispatches", "a decoded reply can be dropped without consuming its request (or the other way round): every later reply is paired with the wrong request")
		cc := callOf(hr)
		okArgs := false
		if ex, ok := cc.Args[2].(*ssa.Extract); ok && ex.Tuple == dec.(ssa.Value) {
			a1 := cc.Args[1]
			if ph, ok := a1.(*ssa.Phi); ok {
				for _, e := range ph.Edges {
					if e == recvVal {
						a1 = recvVal
					}
				}
			}
			okArgs = a1 == recvVal || resolveCell(a1) == recvVal
		}
		c.Check(okArgs, "R2", "backend reader dispatches (dequeued request, decoded reply)", hr.Pos(), "handleResp(req from the sent-queue, value from Decode)", "the reply dispatcher is not given the request just dequeued and the reply just decoded")
	}()
	c.Expect("R2", 10)

	// ---------------- R3
	checkSplitAssemble(c, "R3")

	// ---------------- R4
	checkReplyLineTaint(c, "R4")

	// ---------------- R5: a queued request must not change under the proxy's feet
	c.Rule("R6", "flush gate (shared with C02.R8): a reply/request encoded by a writer loop is flushed before the loop blocks on an empty queue - otherwise a read request has no reply on the wire")
	checkFlushGate(c, "R6")
	c.Rule("R7", "no reply is lost at the end of a backend connection (shared with C02.R3-R5): the terminal drain covers every queue, runs after the reader returned and the writer was joined, and an enqueue that can race with it re-tests the quit latch")
	c.withAlias(map[string]string{"R3": "R7", "R4": "R7", "R5": "R7"}, func() { checkQueues(c, runOwn(c)) })
	c.Rule("R5", "no alias of the read buffer escapes into a decoded request (shared with C10.R2): a queued request is not rewritten by the next read")
	checkReadBufferAlias(c, "R5")
	c.Rule("R10", "however the request bytes are fragmented (shared with C10.R12): the line reader's returned line ends at (start of the searched window + index + 1)")
	checkLineEndMatchesSearch(c, "R10")
	c.Rule("R11", "a locally built reply stays intact until it is written (shared with C13.R11/C19.R11): the bytes of a pooled buffer are copied out of the function that gives the buffer back, never handed on as the reply")
	checkPooledBytesEscape(c, "R11")
	c.Rule("R9", "a reply stays intact until it is written (shared with C10.R11): the slab the decoded replies are cut from hands out every byte once - its cursor only advances or takes a fresh chunk")
	checkSlabNeverRewinds(c, "R9")
	c.Rule("R8", "one reply per request (shared with C02.R1): every request is completed exactly once on every path - a request completed twice (answered by a filter and still queued for a backend reply) shifts every later reply of that backend connection by one")
	reportOwn(c, runOwn(c), "R8", nil)
	c.Expect("R8", 25)
}

// checkSplitAssemble: child k built from argument f(k); one child per iteration; reply assembly by index.
func checkSplitAssemble(c *Ctx, rule string) {
	p := c.P
	type spec struct {
		typ   string
		start int64      // loop start
		args  [][2]int64 // expected linear forms a*i+b of the body arguments used, in order
		head  string     // constant command word of the child ("" = Array[0] of the parent)
	}
	// the argument forms are in the iteration count k = 0, 1, ...: child k of MGET uses parent argument k+1, child k
	// of MSET the arguments 2k+1 and 2k+2 - however the loop spells its induction variable
	specs := []spec{
		{"mgetRequest", 1, [][2]int64{{1, 1}}, "get"},
		{"msetRequest", 0, [][2]int64{{2, 1}, {2, 2}}, "set"},
		{"sumResultRequest", 1, [][2]int64{{1, 1}}, ""},
	}
	for _, sp := range specs {
		fn := p.Func(redisPkg, "(*"+sp.typ+").Split")
		if fn == nil {
			c.Unresolved(rule, sp.typ+".Split")
			continue
		}
		hs := loopHeaders(fn)
		if len(hs) != 1 {
			c.Undecided(rule, sp.typ+".Split loop", fn.Pos(), fmt.Sprintf("%d loops", len(hs)))
			continue
		}
		ls, why := findCountedLoopStep(hs[0])
		if ls == nil {
			c.Undecided(rule, sp.typ+".Split loop", fn.Pos(), why)
			continue
		}
		init, isC := constInt(ls.initTerm)
		first := init + ls.initAdd // first value of the index variable
		// the loop may range over a sub-slice of the arguments (range v[1:]): indices are then relative to its start
		sliceOff := int64(0)
		var rangedSlice *ssa.Slice
		if lc, ok := ls.bound.(*ssa.Call); ok && isBuiltin(lc, "len") {
			if sl, ok := lc.Call.Args[0].(*ssa.Slice); ok && sl.High == nil {
				if k, isK := constInt(sl.Low); isK || sl.Low == nil {
					sliceOff, rangedSlice = k, sl
				}
			}
		}
		// the smallest parent argument a child uses is the first argument form at k = 0
		firstArg := sp.args[0][1]
		minUsed := int64(1 << 40)
		_ = minUsed
		c.Check(isC, rule, sp.typ+" loop start", ls.phi.Pos(), "constant start", "the split loop does not start at a constant")
		_ = firstArg
		// bound: len(v) (any stride), or len(v)/2 for the pair loop that counts pairs
		okBound := false
		switch b := ls.bound.(type) {
		case *ssa.Call:
			okBound = isBuiltin(b, "len") && (sp.typ != "msetRequest" || ls.step == 2)
		case *ssa.BinOp:
			if b.Op == token.QUO {
				if k, isK := constInt(b.Y); isK && k == 2 && sp.typ == "msetRequest" && ls.step == 1 {
					if lc, ok := b.X.(*ssa.Call); ok && isBuiltin(lc, "len") {
						okBound = true
					}
				}
			}
		}
		c.Check(okBound, rule, sp.typ+" loop bound", ls.phi.Pos(), "covers every argument", "the split loop does not range over every argument of the command (trailing keys are dropped)")
		// one append per iteration, on every path of the body
		var app ssa.Instruction
		napp := 0
		eachInstr(fn, func(b *ssa.BasicBlock, _ int, in ssa.Instruction) {
			if isBuiltin(in, "append") && ls.header.Dominates(b) && b != ls.header {
				if call, ok := in.(*ssa.Call); ok {
					if sl, ok := call.Type().Underlying().(*types.Slice); ok && isReqType(sl.Elem()) {
						app = in
						napp++
					}
				}
			}
		})
		okOne := napp == 1 && app != nil
		if okOne {
			okOne = findPath(ipos{ls.body, -1}, pathQuery{target: func(x ssa.Instruction) bool { return x.Block() == ls.header }, avoid: func(x ssa.Instruction) bool { return x == app }}) == nil
		}
		c.Check(okOne, rule, sp.typ+" one child per argument", fn.Pos(), "every iteration appends exactly one child", "an iteration of the split loop can finish without adding a child (e.g. skipping repeated keys): the combined reply no longer counts/lists every argument, unlike a single server")
		// indices used from the parent array inside the loop
		var forms [][2]int64
		var parentArr ssa.Value
		eachInstr(fn, func(b *ssa.BasicBlock, _ int, in ssa.Instruction) {
			ia, ok := in.(*ssa.IndexAddr)
			if !ok || !ls.header.Dominates(b) || b == ls.header {
				return
			}
			if sl, ok := ia.X.Type().Underlying().(*types.Slice); !ok || !modType(sl.Elem(), redisPkg, "RespValue") {
				return
			}
			off := int64(0)
			base := ia.X
			if sl, isSl := base.(*ssa.Slice); isSl {
				if sl != rangedSlice {
					return
				}
				off, base = sliceOff, sl.X
			}
			if f, _ := loadedField(base); f == nil || f.Name() != "Array" {
				return
			}
			a, iv, bb, ok := linearForm(ia.Index)
			if !ok {
				return
			}
			if iv == ssa.Value(ls.useIdx) || iv == ssa.Value(ls.phi) {
				// index = a*i + bb with i = first + step*k (first is the first value of the variable the index is
				// written in): in k it is (a*step)*k + (a*first + bb)
				f0 := first
				if iv == ssa.Value(ls.phi) && ls.useIdx != ssa.Value(ls.phi) {
					f0 = init
				}
				forms = append(forms, [2]int64{a * ls.step, a*f0 + bb + off})
				parentArr = ia.X
			} else if cv, isC := constInt(ia.Index); isC {
				forms = append(forms, [2]int64{0, cv + off})
			}
		})
		want := sp.args
		if sp.head == "" {
			want = append([][2]int64{{0, 0}}, want...)
		}
		okForms := len(forms) == len(want)
		if okForms {
			for i := range want {
				if forms[i] != want[i] {
					okForms = false
				}
			}
		}
		c.Check(okForms, rule, sp.typ+" child arguments", fn.Pos(), fmt.Sprintf("child k uses parent arguments %v (a*k+b)", want), fmt.Sprintf("child k is built from parent arguments %v, the reference is %v: keys and values are mixed up or shifted", forms, want))
		_ = parentArr
		// constant command word
		if sp.head != "" {
			found := false
			eachInstr(fn, func(_ *ssa.BasicBlock, _ int, in ssa.Instruction) {
				if cv, ok := in.(*ssa.Convert); ok {
					if s, isS := constString(cv.X); isS && s == sp.head {
						found = true
					}
				}
			})
			c.Check(found, rule, sp.typ+" child command", fn.Pos(), "child command is \""+sp.head+"\"", "the per-key command is not "+strings.ToUpper(sp.head))
		}
	}
	// assembly
	if fn := p.Func(redisPkg, "(*mgetRequest).setResponse"); fn != nil {
		// v[i] = *children[i].Response() with the same i over the full range; len(v) == len(children)
		ok := false
		eachInstr(fn, func(_ *ssa.BasicBlock, _ int, in ssa.Instruction) {
			st, isSt := in.(*ssa.Store)
			if !isSt {
				return
			}
			ia, isIA := st.Addr.(*ssa.IndexAddr)
			if !isIA {
				return
			}
			mk, isMk := ia.X.(*ssa.MakeSlice)
			if !isMk {
				return
			}
			// length = len(children)
			lc, isLen := mk.Len.(*ssa.Call)
			if !isLen || !isBuiltin(lc, "len") {
				return
			}
			cf, _ := loadedField(lc.Call.Args[0])
			if cf == nil || cf.Name() != "children" {
				return
			}
			// value derives from children[sameIdx].Response()
			same := derives(st.Val, func(v ssa.Value) bool {
				cl, isCall := v.(*ssa.Call)
				if !isCall {
					return false
				}
				g := calleeFn(cl.Common())
				if g == nil || g.Name() != "Response" {
					return false
				}
				return derives(cl.Call.Args[0], func(w ssa.Value) bool {
					ia2, isIA2 := w.(*ssa.IndexAddr)
					if !isIA2 {
						return false
					}
					f2, _ := loadedField(ia2.X)
					return f2 != nil && f2.Name() == "children" && ia2.Index == ia.Index
				})
			})
			if same {
				ok = true
			}
		})
		c.Check(ok, rule, "mget assembly by index", fn.Pos(), "reply[i] = children[i].Response(), len(reply) = len(children)", "the MGET reply is not assembled element i from child i: values are returned under the wrong keys")
	}
	if fn := p.Func(redisPkg, "(*sumResultRequest).setResponse"); fn != nil {
		// total accumulates resp.Int of every child; error count otherwise
		acc := false
		eachInstr(fn, func(_ *ssa.BasicBlock, _ int, in ssa.Instruction) {
			bo, ok := in.(*ssa.BinOp)
			if !ok || bo.Op != token.ADD {
				return
			}
			if _, isPhi := bo.X.(*ssa.Phi); !isPhi {
				return
			}
			if f, _ := loadedField(bo.Y); f != nil && f.Name() == "Int" {
				acc = true
			}
		})
		rng := false
		eachInstr(fn, func(_ *ssa.BasicBlock, _ int, in ssa.Instruction) {
			if call, ok := in.(*ssa.Call); ok && isBuiltin(call, "len") {
				if f, _ := loadedField(call.Call.Args[0]); f != nil && f.Name() == "children" {
					rng = true
				}
			}
		})
		c.Check(acc && rng, rule, "sum assembly", fn.Pos(), "total += child.Int over all children", "the combined count is not the sum of every child's integer reply")
	}
	// every wrapper's completion looks at every child's reply: a child that failed (backend gone, -OOM, -READONLY ...)
	// must not be reported as success
	respFn := p.Func(redisPkg, "(*simpleRequest).Response")
	for _, tn := range []string{"msetRequest", "mgetRequest", "sumResultRequest"} {
		nt := p.Named(redisPkg, tn)
		if nt == nil || respFn == nil {
			continue
		}
		// the done hook by role: the method bound in Split's RegisterHook
		split := p.Func(redisPkg, "(*"+tn+").Split")
		var done *ssa.Function
		if split != nil {
			eachInstr(split, func(_ *ssa.BasicBlock, _ int, in ssa.Instruction) {
				if !isMethodCall(in, modPath+"/"+redisPkg, "simpleRequest", "RegisterHook") {
					return
				}
				if g := funcValue(callOf(in).Args[1]); g != nil {
					done = g
					if g.Synthetic != "" {
						eachInstr(g, func(_ *ssa.BasicBlock, _ int, x ssa.Instruction) {
							if c2 := callOf(x); c2 != nil && calleeFn(c2) != nil {
								done = calleeFn(c2)
							}
						})
					}
				}
			})
		}
		if done == nil {
			c.Undecided(rule, tn+" completion inspects every child", token.NoPos, "done hook not found")
			continue
		}
		reads := false
		for _, f := range append([]*ssa.Function{done}, staticCalleesDeep(done, 2)...) {
			eachInstr(f, func(_ *ssa.BasicBlock, _ int, in ssa.Instruction) {
				call, ok := in.(*ssa.Call)
				if !ok || !isCallToFn(call, respFn) {
					return
				}
				if derives(call.Call.Args[0], func(v ssa.Value) bool {
					if ia, ok := v.(*ssa.IndexAddr); ok {
						if fld, _ := loadedField(ia.X); fld != nil {
							if sl, ok := fld.Type().Underlying().(*types.Slice); ok && isReqType(sl.Elem()) {
								return true
							}
						}
					}
					return false
				}) {
					reads = true
				}
			})
		}
		c.Check(reads, rule, tn+" completion inspects every child", done.Pos(), "the completion reads the reply of the children", "the parent is completed without looking at any child's reply: a child that failed (its backend is gone, -OOM, -READONLY) is reported to the client as success - for MSET a lost write is acknowledged with OK")
	}
	c.Expect(rule, 13)
}

// checkReplyLineTaint: text that a peer controls must not be placed in an Error/SimpleString line.
func checkReplyLineTaint(c *Ctx, rule string) {
	p := c.P
	ctors := map[string]bool{"newError": true, "newSimpleString": true, "newSimpleBytes": true}
	peerText := func(v ssa.Value) bool {
		return derives(v, func(y ssa.Value) bool {
			f, b := loadedField(y)
			if f != nil && f.Name() == "Text" && modType(b.Type(), redisPkg, "RespValue") {
				return true
			}
			f, b = fieldAddr(y)
			return f != nil && f.Name() == "Text" && modType(b.Type(), redisPkg, "RespValue")
		})
	}
	for _, fn := range p.FuncsIn(redisPkg) {
		if p.isTestFn(fn) {
			continue
		}
		n := 0
		eachInstr(fn, func(b *ssa.BasicBlock, _ int, in ssa.Instruction) {
			call, ok := in.(*ssa.Call)
			if !ok {
				return
			}
			g := calleeFn(call.Common())
			if g == nil || !ctors[g.Name()] || !isModFn(g) {
				return
			}
			arg := call.Call.Args[0]
			if _, isC := arg.(*ssa.Const); isC {
				return
			}
			n++
			site := fmt.Sprintf("%s reply line#%d", fnKey(fn), n)
			// Sprintf(format, args...)
			tainted := ""
			if sp, ok := arg.(*ssa.Call); ok && isCallTo(sp, "fmt.Sprintf") {
				format, _ := constString(sp.Call.Args[0])
				verbs := sprintfVerbs(format)
				elems, okE, _ := p.constElems(sp.Call.Args[1], 0)
				if !okE {
					c.Undecided(rule, site, call.Pos(), "cannot enumerate the Sprintf arguments")
					return
				}
				for i, e := range elems {
					v := stripConv(e)
					if !peerText(v) {
						continue
					}
					verb := ""
					if i < len(verbs) {
						verb = verbs[i]
					}
					if verb == "q" {
						continue
					}
					// proven key of a constant table on this path
					if tableKeyOnPath(p, fn, b, v) {
						continue
					}
					tainted = fmt.Sprintf("argument %d (%%%s)", i+1, verb)
				}
			} else if peerText(arg) {
				if !tableKeyOnPath(p, fn, b, stripConv(arg)) {
					tainted = "the text itself"
				}
			}
			if tainted != "" {
				c.Fail(rule, site, call.Pos(), "peer-supplied bytes reach the text of an error/simple-string line unsanitised ("+tainted+"): a command name containing CR LF makes the proxy emit more than one reply for one request, and every later reply on the connection is shifted")
			} else {
				c.OK(rule, site, call.Pos(), "no peer-controlled text, or quoted / proven member of a constant table")
			}
		})
	}
	c.Expect(rule, 5)
}

func sprintfVerbs(format string) []string {
	var out []string
	for i := 0; i < len(format); i++ {
		if format[i] != '%' {
			continue
		}
		j := i + 1
		for j < len(format) && strings.ContainsRune("+-# 0123456789.", rune(format[j])) {
			j++
		}
		if j < len(format) {
			if format[j] != '%' {
				out = append(out, string(format[j]))
			}
			i = j
		}
	}
	return out
}

// tableKeyOnPath: block b is dominated by the ok==true edge of a comma-ok lookup of v in a package-level map.
func tableKeyOnPath(p *Prog, fn *ssa.Function, b *ssa.BasicBlock, v ssa.Value) bool {
	ok := false
	eachInstr(fn, func(_ *ssa.BasicBlock, _ int, in ssa.Instruction) {
		lk, isLk := in.(*ssa.Lookup)
		if !isLk || !lk.CommaOk {
			return
		}
		if u, isU := lk.X.(*ssa.UnOp); !isU {
			return
		} else if _, isG := u.X.(*ssa.Global); !isG {
			return
		}
		if stripConv(lk.Index) != v && lk.Index != v {
			return
		}
		for _, r := range *lk.Referrers() {
			if ex, isEx := r.(*ssa.Extract); isEx && ex.Index == 1 && condEdge(b, ex, true) {
				ok = true
			}
		}
	})
	return ok
}
