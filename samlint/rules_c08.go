package main

import (
	"fmt"
	"go/token"
	"go/types"
	"sort"
	"strings"

	"golang.org/x/tools/go/ssa"
)

func init() {
	register(&propDef{
		id: "C08",
		li: levelInfo{
			Level:       "other",
			Explanation: "Static rules on the configuration store and the controller. R1: every concrete type sent on the event channel has a case in the controller's type switch and vice versa. R2: a deletion from the service table emits a remove event for the same entry; add-versus-delta is decided by the previous value never having been set (nil test of the value loaded before the mutation), and the stored state is updated before the emit. R3 (sibling cross-check): the store applies the removed list before the added list to its own endpoint slice, and the controller applies the two lists of one endpoint event in the same relative order. R4: only the designated functions write the processor table; the exists-already arm returns without creating, and a processor is registered only after it started. R5: a processor's configuration pointer is replaced only after every fallible step of the update succeeded. Convergence for every history is not decided; in particular an invalid configuration that is corrected later arrives as a config event for a missing processor and is ignored - that documented defect is not visible to these rules. R6: every event is sent by a plain blocking send, on the goroutine of the update handler, under the store's write lock (event order = state-change order). R7: the controller's handlers contain no go statement (events applied one at a time). R8: processor creation is gated on the configuration, so every event kind that carries a configuration attempts the creation when no processor exists. R2 also: once the add event is out the stored endpoint list is non-nil (the next update is a delta). R3 also: endpoints are compared by address only. R9: the shared configuration holder is written only at construction and nothing caches a configuration message. R10 (shared with C06.R12): every processor applies every endpoint event to its host set. The event channel is found by role (the struct field of type chan Event). R11: an event that may have to create the processor (it has an Endpoints field) has that field set on every path from its construction to its emission. R12: no nil is stored into a slot of the stored endpoint list while an event shares the slice. R13: the store looks a service up and applies the update under one write-lock acquisition. R3 reports lists passed through a function before being applied. R14: proc.New hands the service name on unchanged (the controller files a processor under the name it reports and looks it up by the service name of later events). R15: in the dependency hook the store is told about a change before the subscriptions for it are made. R16: an entry of the service table is created only on the miss side of a lookup of the same name. R17 (shared with C15.R10): a deleted member reaches a tier purge on every path.",
			TrustedBase: []string{"go/ssa", "VTA call graph"},
		},
		run: checkC08,
	})
	techniques["C08"] = "static analysis: type-switch exhaustiveness, sibling order cross-check by dominance, who-may-write over the call graph"
}

func checkC08(c *Ctx) {
	p := c.P
	c.Rule("R1", "event kinds: types sent on the event channel == cases of the controller's type switch")
	c.Rule("R2", "state change => event; add-vs-delta decided by the previous value being nil; state updated before the emit")
	c.Rule("R3", "delta order agreement between the store (its own slice) and the controller (one endpoint event)")
	c.Rule("R4", "processor table writers; exists-arm does not create; registered only after a successful start")
	c.Rule("R5", "a processor's configuration is replaced only after every fallible step succeeded")

	// the event channel by role: the one struct field of the store's package whose type is a channel of Event
	var evtCh *types.Var
	if pk := p.TPkg(configPkg); pk != nil {
		sc := pk.Types.Scope()
		for _, n := range sc.Names() {
			tn, ok := sc.Lookup(n).(*types.TypeName)
			if !ok {
				continue
			}
			st, ok := tn.Type().Underlying().(*types.Struct)
			if !ok {
				continue
			}
			for i := 0; i < st.NumFields(); i++ {
				if ch, ok := st.Field(i).Type().Underlying().(*types.Chan); ok {
					if nt := namedOf(ch.Elem()); nt != nil && nt.Obj().Name() == "Event" && nt.Obj().Pkg() == pk.Types {
						evtCh = st.Field(i)
					}
				}
			}
		}
	}
	sws := p.Field(configPkg, "Config", "sws")
	handle := p.Func("controller", "(*Controller).handleEvent")
	procs := p.Field("controller", "Controller", "procs")
	if evtCh == nil || sws == nil || handle == nil || procs == nil {
		c.Unresolved("R1", "Config.evtCh / Config.sws / Controller.handleEvent / Controller.procs")
		return
	}
	// ---------------- R1
	sent := map[string]bool{}
	for _, op := range p.chanOpsOnField(evtCh) {
		if op.Kind != opSend {
			continue
		}
		ts, ok := p.concreteIfaceTypes(op.Val, 3)
		if !ok || len(ts) == 0 {
			c.Undecided("R1", "send on evtCh in "+fnKey(op.Fn), op.In.Pos(), "value sent is not a concrete event")
		}
		for _, t := range ts {
			sent[types.TypeString(t, func(*types.Package) string { return "" })] = true
		}
	}
	cases := map[string]bool{}
	eachInstr(handle, func(_ *ssa.BasicBlock, _ int, in ssa.Instruction) {
		if ta, ok := in.(*ssa.TypeAssert); ok && ta.CommaOk {
			cases[types.TypeString(ta.AssertedType, func(*types.Package) string { return "" })] = true
		}
	})
	var all []string
	for k := range sent {
		all = append(all, k)
	}
	for k := range cases {
		if !sent[k] {
			all = append(all, k)
		}
	}
	sort.Strings(all)
	for _, k := range all {
		site := "event kind " + k
		switch {
		case sent[k] && cases[k]:
			c.OK("R1", site, handle.Pos(), "sent by the store and handled by the controller")
		case sent[k]:
			c.Fail("R1", site, handle.Pos(), "the store emits this event but the controller's type switch has no case for it: the change is silently dropped")
		default:
			c.Fail("R1", site, handle.Pos(), "the controller handles an event kind the store never emits")
		}
	}
	c.Expect("R1", 4)

	// ---------------- R2
	emitRemove := p.Func(configPkg, "(*Config).emitSvcRemoveEvent")
	for _, fn := range p.FuncsIn(configPkg) {
		if p.isTestFn(fn) {
			continue
		}
		eachInstr(fn, func(_ *ssa.BasicBlock, _ int, in ssa.Instruction) {
			call, ok := in.(*ssa.Call)
			if !ok || !isBuiltin(call, "delete") {
				return
			}
			if f, _ := loadedField(call.Call.Args[0]); f != sws {
				return
			}
			site := "delete from the service table in " + fnKey(fn)
			path := findPath(posOf(in), pathQuery{target: func(x ssa.Instruction) bool {
				if isReturn(x) {
					return true
				}
				// next iteration's delete without an emit in between
				return x != in && isBuiltin(x, "delete")
			}, avoid: func(x ssa.Instruction) bool { return isCallToFn(x, emitRemove) }})
			c.Check(path == nil, "R2", site, in.Pos(), "every path after the delete emits the remove event", "a service is deleted from the table without a remove event: its processor keeps running")
		})
	}
	for _, hn := range []struct{ fn, field, addEmit, deltaEmit string }{
		{"(*Config).handleSvcConfigUpdate", "Config", "emitSvcAddEvent", "emitSvcConfigEvent"},
		{"(*Config).handleSvcEndpointUpdate", "Endpoints", "emitSvcAddEvent", "emitSvcEndpointEvent"},
	} {
		fn := p.Func(configPkg, hn.fn)
		if fn == nil {
			c.Unresolved("R2", hn.fn)
			continue
		}
		var addCall, deltaCall *ssa.Call
		var stores []ssa.Instruction
		eachInstr(fn, func(_ *ssa.BasicBlock, _ int, in ssa.Instruction) {
			if call, ok := in.(*ssa.Call); ok {
				if g := calleeFn(call.Common()); g != nil {
					if g.Name() == hn.addEmit {
						addCall = call
					}
					if g.Name() == hn.deltaEmit {
						deltaCall = call
					}
				}
			}
			if st, ok := in.(*ssa.Store); ok {
				if f, _ := fieldAddr(st.Addr); f != nil && f.Name() == hn.field && strings.HasSuffix(ownerOf(p, f), "serviceWrapper") {
					stores = append(stores, st)
				}
			}
			// the mutation may live in a helper (a method of the wrapper): the call stands for its stores
			if call, ok := in.(*ssa.Call); ok {
				if g := calleeFn(call.Common()); g != nil && isModFn(g) && g.Blocks != nil && g.Name() != hn.addEmit && g.Name() != hn.deltaEmit {
					for _, hf := range append([]*ssa.Function{g}, staticCalleesDeep(g, 1)...) {
						eachInstr(hf, func(_ *ssa.BasicBlock, _ int, y ssa.Instruction) {
							if st2, ok := y.(*ssa.Store); ok {
								if f, _ := fieldAddr(st2.Addr); f != nil && f.Name() == hn.field && strings.HasSuffix(ownerOf(p, f), "serviceWrapper") {
									stores = append(stores, call)
								}
							}
						})
					}
				}
			}
		})
		site := fnKey(fn)
		if addCall == nil || deltaCall == nil || len(stores) == 0 {
			c.Fail("R2", site+" shape", fn.Pos(), "the update handler does not store the new state and choose between an add and a delta event")
			continue
		}
		// decision: nil test of the value loaded before the first store
		okDecision := false
		for _, d := range fn.Blocks {
			iff, ok := d.Instrs[len(d.Instrs)-1].(*ssa.If)
			if !ok {
				continue
			}
			bo, ok := iff.Cond.(*ssa.BinOp)
			if !ok || !(bo.Op == token.EQL || bo.Op == token.NEQ) || !isNilConst(bo.Y) {
				continue
			}
			ld, isLd := bo.X.(*ssa.UnOp)
			if !isLd {
				continue
			}
			f, _ := fieldAddr(ld.X)
			if f == nil || f.Name() != hn.field {
				continue
			}
			before := true
			for _, st := range stores {
				if !instrDominates(ld, st) {
					before = false
				}
			}
			nilEdge := 0
			if bo.Op == token.NEQ {
				nilEdge = 1
			}
			a, dl := d.Succs[nilEdge], d.Succs[1-nilEdge]
			if before && (a == addCall.Block() || a.Dominates(addCall.Block())) && (dl == deltaCall.Block() || dl.Dominates(deltaCall.Block())) {
				okDecision = true
			}
		}
		c.Check(okDecision, "R2", site+" add-vs-delta decision", addCall.Pos(), "add event iff the previous value (loaded before the mutation) is nil", "add-versus-delta is not decided by the previous value never having been set (e.g. an emptiness test): once a running service's list drains to empty, the next addition is emitted as an add event, which the controller ignores because the processor exists - store and processor never reconverge")
		okOrder := true
		for _, st := range stores {
			if !instrDominates(st, addCall) && findPath(posOf(addCall), pathQuery{target: func(x ssa.Instruction) bool { return x == ssa.Instruction(st) }}) != nil {
				okOrder = false
			}
		}
		c.Check(okOrder, "R2", site+" state updated before the emit", addCall.Pos(), "stores precede the emits", "an event is emitted before the stored state is updated")
		// the add event flips "never seen" to "seen": when the controller's creation does not depend on this value
		// (endpoints: a processor is created with any host list), the stored value must be non-nil once the add event
		// is out - otherwise the next update is announced with a second add event, which the controller ignores
		if hn.field == "Endpoints" {
			makesNonNil := func(x ssa.Instruction) bool {
				st, ok := x.(*ssa.Store)
				if !ok {
					return false
				}
				f, _ := fieldAddr(st.Addr)
				if f == nil || f.Name() != hn.field || !strings.HasSuffix(ownerOf(p, f), "serviceWrapper") {
					return false
				}
				switch v := st.Val.(type) {
				case *ssa.MakeSlice:
					return true
				case *ssa.Call:
					return isBuiltin(v, "append")
				case *ssa.Slice:
					_, isAl := v.X.(*ssa.Alloc)
					return isAl
				}
				return false
			}
			// an edge on which the stored list was just tested non-nil discharges the path as well
			nonNilEdgesOf := func(f0 *ssa.Function) map[*ssa.BasicBlock]int {
				m := map[*ssa.BasicBlock]int{}
				eachInstr(f0, func(_ *ssa.BasicBlock, _ int, x ssa.Instruction) {
					bo, ok := x.(*ssa.BinOp)
					if !ok || (bo.Op != token.EQL && bo.Op != token.NEQ) || !isNilConst(bo.Y) {
						return
					}
					f, _ := loadedField(bo.X)
					if f == nil || f.Name() != hn.field {
						return
					}
					for _, r := range *bo.Referrers() {
						if iff, ok := r.(*ssa.If); ok {
							if bo.Op == token.EQL {
								m[iff.Block()] = 1
							} else {
								m[iff.Block()] = 0
							}
						}
					}
				})
				return m
			}
			// a helper that is handed the service and leaves its list non-nil on every path does the same
			var helperLeaves func(x ssa.Instruction, depth int) bool
			helperLeaves = func(x ssa.Instruction, depth int) bool {
				call, ok := x.(*ssa.Call)
				if !ok || depth > 2 {
					return false
				}
				g := calleeFn(call.Common())
				if g == nil || !isModFn(g) || g.Blocks == nil {
					return false
				}
				takesSvc := false
				for _, a := range call.Call.Args {
					if nt := namedOf(deref(a.Type())); nt != nil && strings.HasSuffix(nt.Obj().Name(), "serviceWrapper") {
						takesSvc = true
					}
				}
				if !takesSvc {
					return false
				}
				edges := nonNilEdgesOf(g)
				return findPath(entryPos(g), pathQuery{target: isReturn, avoid: func(y ssa.Instruction) bool { return makesNonNil(y) || helperLeaves(y, depth+1) },
					edge: func(b *ssa.BasicBlock, k int) bool {
						if e, ok := edges[b]; ok && e == k {
							return false
						}
						return true
					}}) == nil
			}
			nonNilEdge := nonNilEdgesOf(fn)
			path := findPath(entryPos(fn), pathQuery{target: func(x ssa.Instruction) bool { return x == ssa.Instruction(addCall) }, avoid: func(y ssa.Instruction) bool { return makesNonNil(y) || helperLeaves(y, 0) },
				edge: func(b *ssa.BasicBlock, k int) bool {
					if e, ok := nonNilEdge[b]; ok && e == k {
						return false // known non-nil from here on (no store assigns nil)
					}
					return true
				}})
			c.Check(path == nil, "R2", site+" add event leaves the list known", addCall.Pos(), "every path to the add event stores a non-nil list", "an add event can be emitted while the stored endpoint list stays nil ("+p.pathString(path)+"): an update that only removes (or adds nothing new) announces the service - its processor is created without hosts - and the next update is announced with a second add event, which the controller ignores because the processor exists: the hosts are never added")
		}
	}
	c.Expect("R2", 5)

	// ---------------- R3
	func() {
		st := p.Func(configPkg, "(*Config).handleSvcEndpointUpdate")
		if st == nil {
			return
		}
		// store order: loop ranging over param `removed` vs `added`
		var addedP, removedP *ssa.Parameter
		for _, prm := range st.Params {
			switch prm.Name() {
			case "added":
				addedP = prm
			case "removed":
				removedP = prm
			}
		}
		// where a list is applied to the stored slice: the loop ranging over it, or the call that hands it to a helper
		// which ranges over it
		loopOver := func(prm *ssa.Parameter) ssa.Instruction {
			for _, h := range loopHeaders(st) {
				ls, _ := findCountedLoop(h)
				if ls != nil && isLenOf(ls.bound, prm) {
					return h.Instrs[0]
				}
			}
			var at ssa.Instruction
			eachInstr(st, func(_ *ssa.BasicBlock, _ int, in ssa.Instruction) {
				call, ok := in.(*ssa.Call)
				if !ok || at != nil {
					return
				}
				g := calleeFn(call.Common())
				if g == nil || !isModFn(g) || g.Blocks == nil {
					return
				}
				for i, a := range call.Call.Args {
					if a != ssa.Value(prm) || i >= len(g.Params) {
						continue
					}
					for _, h := range loopHeaders(g) {
						ls, _ := findCountedLoop(h)
						if ls != nil && isLenOf(ls.bound, g.Params[i]) {
							at = in
						}
					}
				}
			})
			return at
		}
		if addedP == nil || removedP == nil {
			c.Undecided("R3", "store parameters", st.Pos(), "the endpoint hook has no parameters named added/removed")
			return
		}
		ha, hr := loopOver(addedP), loopOver(removedP)
		if ha == nil || hr == nil {
			c.Undecided("R3", "store loops", st.Pos(), "cannot find the loops over the removed and the added list")
			return
		}
		storeOrder := ""
		if ha == hr {
			// both lists are handed to one helper: the order of its two loops
			if call, ok := ha.(*ssa.Call); ok {
				g := calleeFn(call.Common())
				var la, lr ssa.Instruction
				for i, a := range call.Call.Args {
					if i >= len(g.Params) {
						continue
					}
					for _, h := range loopHeaders(g) {
						ls, _ := findCountedLoop(h)
						if ls != nil && isLenOf(ls.bound, g.Params[i]) {
							if a == ssa.Value(addedP) {
								la = h.Instrs[0]
							}
							if a == ssa.Value(removedP) {
								lr = h.Instrs[0]
							}
						}
					}
				}
				if la != nil && lr != nil {
					ha, hr = la, lr
				}
			}
		}
		switch {
		case instrDominates(hr, ha):
			storeOrder = "remove-then-add"
		case instrDominates(ha, hr):
			storeOrder = "add-then-remove"
		default:
			c.Undecided("R3", "store order", st.Pos(), "the two loops are not sequential")
			return
		}
		// controller order: in handleEvent, the call whose argument is evt.Added vs evt.Removed
		var ca, cr ssa.Instruction
		// in the event switch itself, or in the per-event handler it calls
		for _, hf := range append([]*ssa.Function{handle}, staticCalleesDeep(handle, 2)...) {
			if hf.Blocks == nil || hf.Pkg == nil || hf.Pkg != handle.Pkg || (ca != nil && cr != nil) {
				continue
			}
			var fa, fr ssa.Instruction
			eachInstr(hf, func(_ *ssa.BasicBlock, _ int, in ssa.Instruction) {
				cc := callOf(in)
				if cc == nil {
					return
				}
				for _, a := range cc.Args {
					if f, _ := loadedField(a); f != nil && strings.HasSuffix(ownerOf(p, f), "SvcEndpointEvent") {
						if f.Name() == "Added" {
							fa = in
						}
						if f.Name() == "Removed" {
							fr = in
						}
					}
				}
			})
			if fa != nil && fr != nil {
				ca, cr = fa, fr
			}
		}
		if ca == nil || cr == nil {
			// the lists reach the processor through a filter?
			filtered := false
			for _, hf := range append([]*ssa.Function{handle}, staticCalleesDeep(handle, 2)...) {
				if hf.Blocks == nil || hf.Pkg != handle.Pkg {
					continue
				}
				eachInstr(hf, func(_ *ssa.BasicBlock, _ int, in ssa.Instruction) {
					call, ok := in.(*ssa.Call)
					if !ok {
						return
					}
					g := calleeFn(call.Common())
					if g == nil || !isModFn(g) || g.Signature.Results().Len() == 0 {
						return
					}
					for _, a := range call.Call.Args {
						if f, _ := loadedField(a); f != nil && strings.HasSuffix(ownerOf(p, f), "SvcEndpointEvent") && (f.Name() == "Added" || f.Name() == "Removed") {
							filtered = true
						}
					}
				})
			}
			if filtered {
				c.Fail("R3", "controller applies both lists", handle.Pos(), "the controller passes the Added/Removed lists of an endpoint event through a function before applying them: the store has already applied the update as it is (an address in both lists was removed and re-added, e.g. with another type), so whatever the controller drops or reorders leaves the processor different from the store for good")
			} else {
				c.Fail("R3", "controller applies both lists", handle.Pos(), "the controller does not apply both the Added and the Removed list of an endpoint event")
			}
			return
		}
		if ca == cr {
			c.Fail("R3", "controller applies both lists", ca.Pos(), "the controller passes the Added and Removed lists of an endpoint event through one function before applying them: the store has already applied the update as it is (an address in both lists was removed and re-added, e.g. with another type), so whatever the controller drops or reorders leaves the processor different from the store for good")
			return
		}
		ctlOrder := ""
		switch {
		case instrDominates(cr, ca):
			ctlOrder = "remove-then-add"
		case instrDominates(ca, cr):
			ctlOrder = "add-then-remove"
		}
		c.Note("delta order: store %s, controller %s", storeOrder, ctlOrder)
		if storeOrder == ctlOrder {
			c.OK("R3", "delta order agreement", ca.Pos(), "store and controller both apply "+storeOrder)
		} else {
			c.Fail("R3", "delta order agreement", ca.Pos(), "the store applies one update as "+storeOrder+" but the controller applies the resulting event as "+ctlOrder+": an address that is in both lists of one update ends present in the store and absent in the processor (or the reverse)")
		}
	}()

	// endpoint identity: the store finds an endpoint by its address - the key the controller's hosts and the host set
	// use; comparing whole endpoint messages (state, type ...) makes the store miss removals / duplicate re-adds
	if st := p.Func(configPkg, "(*Config).handleSvcEndpointUpdate"); st != nil {
		bad := ""
		var at token.Pos = st.Pos()
		nEq := 0
		for _, f := range append([]*ssa.Function{st}, staticCalleesDeep(st, 2)...) {
			if f.Pkg == nil || f.Pkg.Pkg.Path() != modPath+"/"+configPkg {
				continue
			}
			eachInstr(f, func(_ *ssa.BasicBlock, _ int, in ssa.Instruction) {
				cc := callOf(in)
				if cc == nil {
					return
				}
				g := calleeFn(cc)
				if g == nil || g.Name() != "Equal" || g.Signature.Recv() == nil {
					return
				}
				nEq++
				rt := types.TypeString(g.Signature.Recv().Type(), nil)
				if !strings.HasSuffix(rt, "common.Address") {
					bad = rt
					at = in.Pos()
				}
			})
		}
		c.Check(bad == "" && nEq > 0, "R3", "endpoint identity is the address", at, "endpoints are compared by Address.Equal", "the store compares endpoints with "+bad+".Equal instead of by address: a removal that carries another state or type than the stored entry is not found (the processor keeps the host for ever), and a re-add with another type creates a duplicate entry")
	}

	// ---------------- R4
	allowedW := map[string]bool{"controller.(*Controller).addProc": true, "controller.(*Controller).removeProcLocked": true}
	nW := 0
	for _, a := range p.fieldAccesses(procs) {
		if !a.Write || isFreshAlloc(a.Base) {
			continue
		}
		nW++
		site := "processor table write in " + fnKey(a.Fn)
		c.Check(allowedW[fnKey(a.Fn)], "R4", site, a.In.Pos(), "designated writer", "the processor table is written outside addProc/removeProcLocked")
	}
	if add := p.Func("controller", "(*Controller).addProc"); add != nil {
		for _, ed := range p.callersOf(add) {
			fn := ed.Caller.Func
			site := "caller of addProc: " + fnKey(fn)
			// registration only after Start() succeeded
			okStart := false
			eachInstr(fn, func(_ *ssa.BasicBlock, _ int, in ssa.Instruction) {
				cc := callOf(in)
				if cc == nil || !cc.IsInvoke() || cc.Method.Name() != "Start" {
					return
				}
				call, _ := in.(*ssa.Call)
				if call == nil {
					return
				}
				for _, r := range *call.Referrers() {
					if bo, ok := r.(*ssa.BinOp); ok && bo.Op == token.NEQ && isNilConst(bo.Y) && condEdge(ed.Site.Block(), bo, false) {
						okStart = true
					}
				}
			})
			c.Check(okStart, "R4", site, ed.Pos(), "registered only on the Start()==nil branch", "a processor is registered although it did not start")
		}
	}
	if hs := p.Func("controller", "(*Controller).handleSvcAdd"); hs != nil {
		ens := p.Func("controller", "(*Controller).tryEnsureProc")
		get := p.Func("controller", "(*Controller).getProc")
		var ec, gc *ssa.Call
		eachInstr(hs, func(_ *ssa.BasicBlock, _ int, in ssa.Instruction) {
			if call, ok := in.(*ssa.Call); ok {
				if isCallToFn(call, ens) {
					ec = call
				}
				if isCallToFn(call, get) {
					gc = call
				}
			}
		})
		ok := false
		if ec != nil && gc != nil {
			for _, r := range *gc.Referrers() {
				if ex, isEx := r.(*ssa.Extract); isEx && ex.Index == 1 && condEdge(ec.Block(), ex, false) {
					ok = true
				}
			}
		}
		c.Check(ok, "R4", "exists-already arm does not create", hs.Pos(), "tryEnsureProc dominated by !exists", "an add event for a running service creates a second processor (two processors for one service, the first one leaked)")
	}
	c.Expect("R4", 4)

	// ---------------- R5
	for _, pr := range []struct{ rel, typ string }{{"proc/tcp", "tcpProc"}, {"proc/redis", "redisProc"}} {
		fn := p.Func(pr.rel, "(*"+pr.typ+").OnSvcConfigUpdate")
		if fn == nil {
			c.Unresolved("R5", pr.typ+".OnSvcConfigUpdate")
			continue
		}
		n := 0
		eachInstr(fn, func(_ *ssa.BasicBlock, _ int, in ssa.Instruction) {
			var commit ssa.Instruction
			if st, ok := in.(*ssa.Store); ok {
				if f, _ := fieldAddr(st.Addr); f != nil && f.Name() == "cfg" {
					commit = in
				}
			}
			if cc := callOf(in); cc != nil {
				if g := calleeFn(cc); g != nil && g.Name() == "Update" && len(cc.Args) > 0 {
					if f, _ := loadedField(cc.Args[0]); f != nil && f.Name() == "cfg" {
						commit = in
					}
				}
			}
			if commit == nil {
				return
			}
			n++
			site := fmt.Sprintf("%s config commit#%d", fnKey(fn), n)
			path := findPath(posOf(commit), pathQuery{target: func(x ssa.Instruction) bool {
				r, ok := x.(*ssa.Return)
				return ok && len(r.Results) == 1 && !isNilConst(returnedValues(r)[0])
			}})
			c.Check(path == nil, "R5", site, commit.Pos(), "no error return is reachable after the configuration is replaced", "the configuration pointer is replaced before a fallible step: when that step fails the processor reports the rejected configuration as current, and the corrected update that follows is compared against it (sees no change) so part of it is never applied")
		})
		c.Check(n >= 1, "R5", pr.typ+" commits the configuration", fn.Pos(), "found", "OnSvcConfigUpdate never stores the new configuration")
	}
	c.Expect("R5", 4)

	// ---------------- R6: the store hands events over in the order of its state changes
	c.Rule("R6", "event order, store side: every event is sent by a plain blocking send, on the goroutine of the update handler, under the store's lock")
	le := newLockEngine(p, configPkg)
	var cfgMu *types.Var
	if nt := p.Named(configPkg, "Config"); nt != nil {
		if st, ok := nt.Underlying().(*types.Struct); ok {
			for i := 0; i < st.NumFields(); i++ {
				if ts := types.TypeString(st.Field(i).Type(), nil); ts == "sync.RWMutex" || ts == "sync.Mutex" {
					cfgMu = st.Field(i)
				}
			}
		}
	}
	if cfgMu == nil {
		c.Unresolved("R6", "mutex of config.Config")
	}
	ns := 0
	for _, op := range p.chanOpsOnField(evtCh) {
		if op.Kind != opSend {
			continue
		}
		ns++
		site := fmt.Sprintf("send#%d on evtCh in %s", ns, fnKey(op.Fn))
		why := ""
		if op.InSelect != nil {
			why = "the send is an arm of a select: when the queue is full the event is dropped or takes another route, so the controller no longer sees every state change in order"
		}
		for f := op.Fn; f != nil && why == ""; f = f.Parent() {
			for _, e := range p.callersOf(f) {
				if _, isGo := e.Site.(*ssa.Go); isGo {
					why = "the send runs on a goroutine started per event (" + p.Pos(e.Site.Pos()) + "): events reach the controller in scheduler order, not in the order of the state changes (add X, remove X can arrive as remove X, add X)"
				}
			}
		}
		if why == "" && cfgMu != nil && le.heldAt(op.In)[cfgMu] != lockWrite {
			why = "the send is not made under the store's write lock: two handlers can change the state in one order and emit in the other"
		}
		c.Check(why == "", "R6", site, op.In.Pos(), "plain send, handler goroutine, write lock held", why)
	}
	c.Expect("R6", 1)

	// ---------------- R7: the controller applies events one at a time, in order
	c.Rule("R7", "event order, controller side: everything an event handler does to the processor table happens on the event loop's goroutine (no go statement in the controller's handlers)")
	ctlFns := map[*ssa.Function]bool{}
	for f := range p.reachable([]*ssa.Function{handle}, func(g *ssa.Function) bool {
		return g.Pkg == nil || g.Pkg.Pkg.Path() != modPath+"/controller"
	}) {
		if f.Pkg != nil && f.Pkg.Pkg.Path() == modPath+"/controller" {
			ctlFns[f] = true
		}
	}
	var ctl []*ssa.Function
	for f := range ctlFns {
		ctl = append(ctl, f)
	}
	sort.Slice(ctl, func(i, j int) bool { return fnKey(ctl[i]) < fnKey(ctl[j]) })
	for _, f := range ctl {
		var goAt ssa.Instruction
		eachInstr(f, func(_ *ssa.BasicBlock, _ int, in ssa.Instruction) {
			if _, ok := in.(*ssa.Go); ok {
				goAt = in
			}
		})
		pos := f.Pos()
		if goAt != nil {
			pos = goAt.Pos()
		}
		c.Check(goAt == nil, "R7", "synchronous: "+fnKey(f), pos, "no go statement", "an event handler continues on a new goroutine: a later event of the same service (remove then re-add, add then config update) is applied while the earlier one is still in progress - e.g. the re-add finds the processor still registered and is ignored, then the old one is deleted: the service ends without a processor")
	}
	c.Expect("R7", 8)

	// ---------------- R8: no dead end after a failed creation
	c.Rule("R8", "no dead end: processor creation is gated on the configuration, so every event kind that carries a configuration attempts the creation when no processor exists")
	func() {
		add := p.Func("controller", "(*Controller).addProc")
		if add == nil {
			c.Unresolved("R8", "Controller.addProc")
			return
		}
		// creation is gated on the configuration: a creator tests cfg.Validate() before registering
		gated := false
		creators := map[*ssa.Function]bool{}
		for _, ed := range p.callersOf(add) {
			creators[ed.Caller.Func] = true
			eachInstr(ed.Caller.Func, func(_ *ssa.BasicBlock, _ int, in ssa.Instruction) {
				if cc := callOf(in); cc != nil {
					if g := calleeFn(cc); g != nil && g.Name() == "Validate" {
						gated = true
					}
				}
			})
		}
		if !gated {
			c.OK("R8", "creation gate", add.Pos(), "processor creation does not depend on the validity of the configuration")
			return
		}
		c.OK("R8", "creation gate", add.Pos(), "creation fails for an invalid configuration (Validate)")
		reachesCreate := func(fn *ssa.Function) bool {
			for f := range p.reachable([]*ssa.Function{fn}, func(g *ssa.Function) bool {
				return g.Pkg == nil || g.Pkg.Pkg.Path() != modPath+"/controller"
			}) {
				if creators[f] {
					return true
				}
			}
			return false
		}
		// arms of the type switch whose event carries a configuration
		eachInstr(handle, func(_ *ssa.BasicBlock, _ int, in ssa.Instruction) {
			ta, ok := in.(*ssa.TypeAssert)
			if !ok || !ta.CommaOk {
				return
			}
			pt, ok := ta.AssertedType.(*types.Pointer)
			if !ok {
				return
			}
			st, ok := pt.Elem().Underlying().(*types.Struct)
			if !ok {
				return
			}
			carries := false
			for i := 0; i < st.NumFields(); i++ {
				if strings.HasSuffix(types.TypeString(st.Field(i).Type(), nil), "service.Config") {
					carries = true
				}
			}
			if !carries {
				return
			}
			name := types.TypeString(ta.AssertedType, func(*types.Package) string { return "" })
			site := "event " + name + " without a processor attempts creation"
			// the arm: blocks dominated by the success edge of the assertion
			var okEx *ssa.Extract
			for _, r := range *ta.Referrers() {
				if ex, isEx := r.(*ssa.Extract); isEx && ex.Index == 1 {
					okEx = ex
				}
			}
			if okEx == nil {
				c.Undecided("R8", site, ta.Pos(), "type switch arm not recognised")
				return
			}
			found, good := false, false
			eachInstr(handle, func(b *ssa.BasicBlock, _ int, x ssa.Instruction) {
				call, isCall := x.(*ssa.Call)
				if !isCall || !condEdge(b, okEx, true) {
					return
				}
				h := calleeFn(call.Common())
				if h == nil || h.Pkg == nil || h.Pkg.Pkg.Path() != modPath+"/controller" {
					return
				}
				found = true
				// inside the handler: the lookup of the processor and its not-found side
				var lookupOK *ssa.Extract
				eachInstr(h, func(_ *ssa.BasicBlock, _ int, y ssa.Instruction) {
					if ex, isEx := y.(*ssa.Extract); isEx && ex.Index == 1 {
						if tc, isC := ex.Tuple.(*ssa.Call); isC {
							if sig := tc.Call.Signature(); sig != nil && sig.Results().Len() == 2 && strings.HasSuffix(types.TypeString(sig.Results().At(0).Type(), nil), "proc.Proc") {
								lookupOK = ex
							}
						}
					}
				})
				eachInstr(h, func(hb *ssa.BasicBlock, _ int, y ssa.Instruction) {
					cc, isC := y.(*ssa.Call)
					if !isC {
						return
					}
					g := calleeFn(cc.Common())
					if g == nil || !(creators[g] || reachesCreate(g)) {
						return
					}
					if lookupOK == nil || condEdge(hb, lookupOK, false) {
						good = true
					}
				})
			})
			if !found {
				c.Undecided("R8", site, ta.Pos(), "no handler call in the arm")
				return
			}
			c.Check(good, "R8", site, ta.Pos(), "the not-found side of the handler reaches the creation", "when the processor of a service could not be created (invalid configuration in the add event), this event - the only carrier of the corrected configuration - is ignored because no processor exists: the service has a valid configuration and endpoints but never gets a processor")
		})
	}()
	c.Expect("R8", 3)

	c.Rule("R9", "a configuration update reaches the data path: the shared holder is updated in place (its pointer is never replaced after construction) and nothing caches a configuration message")
	checkLiveConfig(c, "R9")
	c.Rule("R10", "the last hop: every processor applies every endpoint event to its host set (shared with C06.R12) - no add/remove/replace handler has a path that returns without handing the event's list to host.Set")
	checkEndpointEventsReachSet(c, "R10")
	c.Rule("R11", "an event that may have to create the processor (add, configuration update) carries the endpoint list on every path to its emission")
	checkEventsCarryEndpoints(c, "R11", evtCh)
	c.Rule("R12", "the stored endpoint list shares its array with queued add events: no nil is stored into one of its slots")
	checkSharedEndpointArray(c, "R12")
	c.Rule("R16", "an entry of the service table is created only when the name is unknown: a known service keeps its entry (configuration, endpoints) when it is announced again")
	checkServiceEntryCreatedOnlyWhenUnknown(c, "R16")
	c.Rule("R17", "a removed endpoint leaves the processor's usable hosts (shared with C15.R10): from every delete on the member map the stored object reaches a tier purge on every path, whatever its health flag says")
	checkMemberDeleteLeavesTiers(c, "R17")
	c.Rule("R14", "a processor is built under the service name itself, the key the controller looks it up with")
	checkProcessorKeepsServiceName(c, "R14")
	c.Rule("R15", "the store learns of a new dependency before the subscription for it is made")
	checkStoreLearnsBeforeSubscribe(c, "R15")
	c.Rule("R13", "the store looks a service up and applies an update to it under one acquisition of its write lock")
	checkLookupAndApplyAtomic(c, "R13")
}

// checkLiveConfig (C08.R9, C13.R9): a running Redis processor applies a configuration update by updating the one
// holder object (`config`) that the upstream, every backend connection and every filter share by pointer. Two
// structural conditions keep the data path on the latest configuration:
//
//	(a) a field of holder type is written only while its struct is being constructed - replacing the pointer later
//	    leaves every other component on the old holder;
//	(b) no struct of the package (other than the holder) keeps a pointer to a protobuf configuration message in a
//	    field - such a copy is resolved once and never sees an update.
func checkLiveConfig(c *Ctx, rule string) {
	p := c.P
	holder := p.Named(redisPkg, "config")
	pk := p.TPkg(redisPkg)
	if holder == nil || pk == nil {
		c.Unresolved(rule, "proc/redis.config")
		return
	}
	isHolderPtr := func(t types.Type) bool {
		pt, ok := t.(*types.Pointer)
		return ok && types.Identical(pt.Elem(), holder)
	}
	isPbConfigPtr := func(t types.Type) bool {
		pt, ok := t.(*types.Pointer)
		if !ok {
			return false
		}
		n, ok := pt.Elem().(*types.Named)
		return ok && n.Obj().Pkg() != nil && strings.Contains(n.Obj().Pkg().Path(), "/pb/config/")
	}
	sc := pk.Types.Scope()
	names := sc.Names()
	sort.Strings(names)
	n := 0
	for _, nm := range names {
		tn, ok := sc.Lookup(nm).(*types.TypeName)
		if !ok {
			continue
		}
		st, ok := tn.Type().Underlying().(*types.Struct)
		if !ok {
			continue
		}
		for i := 0; i < st.NumFields(); i++ {
			f := st.Field(i)
			switch {
			case isHolderPtr(f.Type()):
				n++
				site := fmt.Sprintf("%s.%s (config holder) written only at construction", nm, f.Name())
				bad := ""
				var at token.Pos
				for _, a := range p.fieldAccesses(f) {
					if !a.Write || p.isTestFn(a.Fn) {
						continue
					}
					if !isFreshAlloc(a.Base) {
						bad = fnKey(a.Fn)
						at = a.In.Pos()
					}
				}
				c.Check(bad == "", rule, site, at, "assigned only in constructors", "the holder pointer is replaced in "+bad+": the upstream, the backend connections and the filters keep the holder they were given, so the data path (read strategy, compression, timeouts) stays on the old configuration while the processor reports the new one")
			case isPbConfigPtr(f.Type()) && !types.Identical(tn.Type(), holder):
				n++
				c.Fail(rule, fmt.Sprintf("%s.%s caches a configuration message", nm, f.Name()), f.Pos(), "a struct other than the holder keeps a pointer to a configuration message ("+types.TypeString(f.Type(), nil)+"): it is resolved when the struct is created and never sees a later configuration update - e.g. a connection created before compression was enabled never decompresses")
			}
		}
	}
	c.Expect(rule, 3)
	_ = n
}

// checkEventsCarryEndpoints (C08.R11): an event from which the controller may have to create a processor (it has an
// Endpoints field) carries the endpoint list on every path to its emission - the controller has no processor exactly
// when an earlier attempt failed, and that has more causes than the store can see (a configuration that validates but
// cannot be built), so "attach the list only when the previous configuration was invalid" leaves a processor with an
// empty host set.
func checkEventsCarryEndpoints(c *Ctx, rule string, evtCh *types.Var) {
	p := c.P
	n := 0
	for _, fn := range p.FuncsIn(configPkg) {
		if p.isTestFn(fn) {
			continue
		}
		eachInstr(fn, func(_ *ssa.BasicBlock, _ int, in ssa.Instruction) {
			al, ok := in.(*ssa.Alloc)
			if !ok || !al.Heap {
				return
			}
			nt := namedOf(deref(al.Type()))
			if nt == nil || !strings.HasSuffix(nt.Obj().Name(), "Event") {
				return
			}
			st, ok := nt.Underlying().(*types.Struct)
			if !ok {
				return
			}
			var epF *types.Var
			for i := 0; i < st.NumFields(); i++ {
				if st.Field(i).Name() == "Endpoints" {
					epF = st.Field(i)
				}
			}
			if epF == nil {
				return
			}
			// the emission: the send of this value on the event channel, or the call that is handed it
			isEmit := func(x ssa.Instruction) bool {
				switch y := x.(type) {
				case *ssa.Send:
					return derives(y.X, func(v ssa.Value) bool { return v == ssa.Value(al) })
				case *ssa.Call:
					if g := calleeFn(y.Common()); g != nil && isModFn(g) {
						for _, a := range y.Call.Args {
							if derives(a, func(v ssa.Value) bool { return v == ssa.Value(al) }) {
								return true
							}
						}
					}
				case *ssa.Return: // a constructor hands the event to its caller
					for _, r := range returnedValues(y) {
						if derives(r, func(v ssa.Value) bool { return v == ssa.Value(al) }) {
							return true
						}
					}
				}
				return false
			}
			hasEmit := false
			eachInstr(fn, func(_ *ssa.BasicBlock, _ int, x ssa.Instruction) {
				if isEmit(x) {
					hasEmit = true
				}
			})
			if !hasEmit {
				return
			}
			n++
			site := fmt.Sprintf("%s: %s carries the endpoints on every path", fnKey(fn), nt.Obj().Name())
			isStore := func(x ssa.Instruction) bool {
				s, ok := x.(*ssa.Store)
				if !ok {
					return false
				}
				f, base := fieldAddr(s.Addr)
				return f == epF && base == ssa.Value(al) && !isNilConst(s.Val)
			}
			// a constructor that stores its parameter: no caller passes nil for it
			eachInstr(fn, func(_ *ssa.BasicBlock, _ int, x ssa.Instruction) {
				st, ok := x.(*ssa.Store)
				if !ok || !isStore(x) {
					return
				}
				prm, ok := st.Val.(*ssa.Parameter)
				if !ok {
					return
				}
				idx := paramIndex(fn, prm)
				for _, ed := range p.callersOf(fn) {
					if p.isTestFn(ed.Caller.Func) {
						continue
					}
					args := ed.Site.Common().Args
					if idx >= 0 && idx < len(args) && isNilConst(args[idx]) {
						c.Fail(rule, site+" (caller "+fnKey(ed.Caller.Func)+")", ed.Site.Pos(), "the event constructor is called with a nil endpoint list")
					}
				}
			})
			path := findPath(posOf(in), pathQuery{target: isEmit, avoid: isStore})
			c.Check(path == nil, rule, site, al.Pos(), "the Endpoints field is set on every path from the construction to the emission", "an event that may have to create the processor is emitted without the endpoint list on some path ("+p.pathString(path)+"): when the controller has no processor for the service (an earlier creation failed for a reason the store cannot see) it builds one with no hosts, while the store holds the endpoints and will not announce them again")
		})
	}
	if n < 2 {
		c.Unresolved(rule, fmt.Sprintf("expected the add and the configuration event constructions, found %d", n))
	}
	_ = evtCh
}

// checkSharedEndpointArray (C08.R12): the add event hands the store's endpoint slice itself to the subscriber, so the
// backing array is shared with events that are still queued. Removing an endpoint by shifting the tail keeps every
// element of a queued event a live endpoint (the subscriber's operations are idempotent); storing nil into a slot of
// that array does not - the subscriber dereferences it. No nil is stored into an element of the stored list.
func checkSharedEndpointArray(c *Ctx, rule string) {
	p := c.P
	sw := p.Named(configPkg, "serviceWrapper")
	var epF *types.Var
	if sw != nil {
		if st, ok := sw.Underlying().(*types.Struct); ok {
			for i := 0; i < st.NumFields(); i++ {
				if st.Field(i).Name() == "Endpoints" {
					epF = st.Field(i)
				}
			}
		}
	}
	if epF == nil {
		c.Unresolved(rule, "the stored endpoint list")
		return
	}
	// is the stored slice handed to an event without a copy?
	aliased := false
	nst, nbad := 0, 0
	for _, fn := range p.FuncsIn(configPkg) {
		if p.isTestFn(fn) {
			continue
		}
		eachInstr(fn, func(_ *ssa.BasicBlock, _ int, in ssa.Instruction) {
			s, ok := in.(*ssa.Store)
			if !ok {
				return
			}
			if f, base := fieldAddr(s.Addr); f != nil && f.Name() == "Endpoints" {
				if nt := namedOf(deref(base.Type())); nt != nil && strings.HasSuffix(nt.Obj().Name(), "Event") {
					if f2, _ := loadedField(s.Val); f2 == epF {
						aliased = true
					}
				}
			}
		})
	}
	for _, fn := range p.FuncsIn(configPkg) {
		if p.isTestFn(fn) {
			continue
		}
		eachInstr(fn, func(_ *ssa.BasicBlock, _ int, in ssa.Instruction) {
			s, ok := in.(*ssa.Store)
			if !ok {
				return
			}
			ia, ok := s.Addr.(*ssa.IndexAddr)
			if !ok {
				return
			}
			fromStore := derives(ia.X, func(v ssa.Value) bool {
				f, _ := loadedField(v)
				return f == epF
			})
			if !fromStore {
				return
			}
			nst++
			if isNilConst(s.Val) && aliased {
				nbad++
				c.Fail(rule, fmt.Sprintf("%s element store#%d into the stored endpoint list", fnKey(fn), nbad), s.Pos(), "nil is stored into a slot of the stored endpoint list, whose backing array the add event shares with the subscriber: an add event that is still queued then contains a nil endpoint and the controller dereferences it (the process dies, no processor runs)")
			}
		})
	}
	if nbad == 0 {
		what := "the add event shares the stored slice"
		if !aliased {
			what = "no event shares the stored slice"
		}
		c.OK(rule, "no nil stored into the shared endpoint array", token.NoPos, fmt.Sprintf("%s; %d element stores into the stored list examined, none stores nil", what, nst))
	}
}

// checkLookupAndApplyAtomic (C08.R13): the store's handlers decide "is this service still known" and apply the update in
// one critical section. A wrapper looked up under one lock acquisition and mutated (and announced) under a later one can
// have been removed in between - the update is then announced for a service whose removal was already announced, the
// controller builds a processor that nothing ever stops, and a later re-add of the service is ignored.
func checkLookupAndApplyAtomic(c *Ctx, rule string) {
	p := c.P
	sws := p.Field(configPkg, "Config", "sws")
	if sws == nil {
		c.Unresolved(rule, "Config.sws")
		return
	}
	var cfgMu *types.Var
	if nt := p.Named(configPkg, "Config"); nt != nil {
		if st, ok := nt.Underlying().(*types.Struct); ok {
			for i := 0; i < st.NumFields(); i++ {
				if ts := types.TypeString(st.Field(i).Type(), nil); ts == "sync.RWMutex" || ts == "sync.Mutex" {
					cfgMu = st.Field(i)
				}
			}
		}
	}
	if cfgMu == nil {
		c.Unresolved(rule, "mutex of config.Config")
		return
	}
	le := newLockEngine(p, configPkg)
	isSwsLookup := func(v ssa.Value) bool {
		lk, ok := v.(*ssa.Lookup)
		if !ok {
			return false
		}
		f, _ := chanOrMapField(lk.X)
		return f == sws
	}
	n := 0
	for _, fn := range p.FuncsIn(configPkg) {
		if p.isTestFn(fn) {
			continue
		}
		seenBase := map[ssa.Value]bool{}
		eachInstr(fn, func(_ *ssa.BasicBlock, _ int, in ssa.Instruction) {
			st, ok := in.(*ssa.Store)
			if !ok {
				return
			}
			f, base := fieldAddr(st.Addr)
			if f == nil || !strings.HasSuffix(ownerOf(p, f), "serviceWrapper") || isFreshAlloc(base) || seenBase[base] {
				return
			}
			// the wrapper comes out of the table
			var lookupAt ssa.Instruction
			viaHelper := false
			derives(base, func(v ssa.Value) bool {
				if isSwsLookup(v) {
					lookupAt = v.(ssa.Instruction)
					return true
				}
				if call, ok := v.(*ssa.Call); ok {
					if g := calleeFn(call.Common()); g != nil && isModFn(g) && g.Blocks != nil {
						found := false
						eachInstr(g, func(_ *ssa.BasicBlock, _ int, x ssa.Instruction) {
							if xv, ok := x.(ssa.Value); ok && isSwsLookup(xv) {
								found = true
							}
							// a method of the table's own (named map) type, called on the table: a lookup on its receiver
							if lk, ok := x.(*ssa.Lookup); ok && len(g.Params) > 0 && lk.X == ssa.Value(g.Params[0]) && len(call.Call.Args) > 0 {
								if f, _ := loadedField(call.Call.Args[0]); f == sws {
									found = true
								}
							}
						})
						if found {
							lookupAt, viaHelper = call, true
							return true
						}
					}
				}
				return false
			})
			if lookupAt == nil {
				return
			}
			seenBase[base] = true
			n++
			site := fmt.Sprintf("%s looks the service up and applies the update in one critical section (#%d)", fnKey(fn), n)
			okCS := le.heldAt(lookupAt)[cfgMu] == lockWrite && le.heldAt(in)[cfgMu] == lockWrite
			if okCS {
				// no unlock between the lookup and the store
				if findPath(posOf(lookupAt), pathQuery{target: func(x ssa.Instruction) bool { return x == in }, avoid: func(x ssa.Instruction) bool {
					_, op := mutexOp(x)
					_, isDefer := x.(*ssa.Defer)
					return !isDefer && (op == "Unlock" || op == "RUnlock")
				}}) == nil {
					okCS = false
				}
			}
			why := "the wrapper is looked up and mutated under separate acquisitions of the store's lock"
			if viaHelper && !okCS {
				why = "the wrapper is looked up by a helper under its own lock acquisition and mutated later under another one"
			}
			c.Check(okCS, rule, site, st.Pos(), "lookup and stores under one write-lock acquisition", why+": a removal of the service that lands in between announces the removal first and this update afterwards - the controller then builds a processor for a service that no longer exists, nothing ever stops it, and a later re-add of the service is ignored because a processor exists")
		})
	}
	if n == 0 {
		c.Unresolved(rule, "no handler that mutates a service wrapper taken from the table")
	}
}

// chanOrMapField: the field a map (or channel) value was loaded from.
func chanOrMapField(v ssa.Value) (*types.Var, ssa.Value) {
	return loadedField(v)
}

// checkProcessorKeepsServiceName (C08.R14): the controller files a processor under the name the processor reports and
// looks it up under the service name of every later event. proc.New therefore hands the service name on unchanged - a
// name "normalised" on the way (dots replaced for the stats scope) makes every later event of that service miss its
// processor: endpoint events are dropped, a configuration event starts a second processor next to the first, a
// remove event leaves both running.
func checkProcessorKeepsServiceName(c *Ctx, rule string) {
	p := c.P
	nw := p.Func(procPkg, "New")
	if nw == nil || len(nw.Params) == 0 {
		c.Unresolved(rule, "proc.New")
		return
	}
	name := nw.Params[0]
	n := 0
	eachInstr(nw, func(_ *ssa.BasicBlock, _ int, in ssa.Instruction) {
		st, ok := in.(*ssa.Store)
		if !ok {
			return
		}
		f, base := fieldAddr(st.Addr)
		if f == nil || f.Name() != "Name" || !modType(base.Type(), procPkg, "BuildParams") {
			return
		}
		n++
		c.Check(stripConv(st.Val) == ssa.Value(name), rule, "proc.New builds the processor under the service name it was given", st.Pos(), "BuildParams.Name is the name parameter itself", "the processor is built under a name derived from the service name, not the service name itself: the controller files it under the name it reports and looks it up under the service name of later events - for a service whose name is changed by the derivation (a dot in it) every later event misses its processor: endpoint updates are dropped, a configuration update starts a second processor beside the first, a removal leaves them running")
	})
	if n == 0 {
		c.Unresolved(rule, "proc.New does not fill BuildParams.Name")
	}
}

// checkStoreLearnsBeforeSubscribe (C08.R15): the store ignores configuration and endpoint updates of services it does
// not know. The dependency hook therefore tells the store about added services before it subscribes to them: with the
// order reversed the first reply of a subscription can arrive before the store has registered the service, is
// dropped, and is never sent again - that dependency never gets its add event.
func checkStoreLearnsBeforeSubscribe(c *Ctx, rule string) {
	p := c.P
	sd := p.Func(configPkg, "(*discoveryClient).StreamDependencies")
	if sd == nil {
		c.Unresolved(rule, "(*discoveryClient).StreamDependencies")
		return
	}
	n := 0
	cands := withAnon(sd)
	// (the wrapped hook may be built by a factory method)
	for _, g := range staticCalleesDeep(sd, 1) {
		if g.Blocks != nil && g.Pkg == sd.Pkg {
			cands = append(cands, withAnon(g)...)
		}
	}
	for _, fn := range cands {
		// the function that subscribes: calls Subscribe of the per-service clients
		var subs []ssa.Instruction
		var hookCalls []ssa.Instruction
		eachInstr(fn, func(_ *ssa.BasicBlock, _ int, in ssa.Instruction) {
			cc := callOf(in)
			if cc == nil {
				return
			}
			if g := calleeFn(cc); g != nil && g.Name() == "Subscribe" {
				subs = append(subs, in)
				return
			}
			// a helper that subscribes (subscribeSvcs(added))
			if g := calleeFn(cc); g != nil && isModFn(g) && g.Blocks != nil {
				does := false
				for _, h := range append([]*ssa.Function{g}, staticCalleesDeep(g, 1)...) {
					if h.Blocks == nil {
						continue
					}
					eachInstr(h, func(_ *ssa.BasicBlock, _ int, y ssa.Instruction) {
						if c2 := callOf(y); c2 != nil {
							if g2 := calleeFn(c2); g2 != nil && g2.Name() == "Subscribe" {
								does = true
							}
							if c2.IsInvoke() && c2.Method.Name() == "Subscribe" {
								does = true
							}
						}
					})
				}
				if does {
					subs = append(subs, in)
					return
				}
			}
			if cc.IsInvoke() && cc.Method.Name() == "Subscribe" {
				subs = append(subs, in)
				return
			}
			// a call of the caller's hook: a dynamic call of a value of the hook type that is not a builtin
			if calleeFn(cc) == nil && !cc.IsInvoke() {
				if _, isB := cc.Value.(*ssa.Builtin); !isB {
					if sig, ok := cc.Value.Type().Underlying().(*types.Signature); ok && sig.Params().Len() == 2 {
						hookCalls = append(hookCalls, in)
					}
				}
			}
		})
		if len(subs) == 0 {
			continue
		}
		for i, s := range subs {
			n++
			before := false
			for _, h := range hookCalls {
				// the hook call is on every path to the subscription, or skipped only when the hook is nil
				if findPath(entryPos(fn), pathQuery{target: func(x ssa.Instruction) bool { return x == s }, avoid: func(x ssa.Instruction) bool { return x == h }, edge: func(b *ssa.BasicBlock, k int) bool {
					iff, ok := b.Instrs[len(b.Instrs)-1].(*ssa.If)
					if !ok {
						return true
					}
					bo, ok := iff.Cond.(*ssa.BinOp)
					if !ok || !isNilConst(bo.Y) {
						return true
					}
					// the nil-hook edge is allowed to skip the call
					if (bo.Op == token.NEQ && k == 1) || (bo.Op == token.EQL && k == 0) {
						return h.Block() != b.Succs[1-k] && !b.Succs[1-k].Dominates(h.Block())
					}
					return true
				}}) == nil {
					before = true
				}
			}
			c.Check(before, rule, fmt.Sprintf("%s subscription#%d follows the store's hook", fnKey(fn), i+1), s.Pos(), "the store is told about the dependency change before the subscription is made", "a service is subscribed before the store has been told that it is a dependency: the store ignores updates of services it does not know, so a reply that arrives first is dropped and never resent - the dependency never gets its add event and no processor is started for it")
		}
	}
	if n == 0 {
		c.Unresolved(rule, "the dependency hook does not subscribe")
	}
}

// checkServiceEntryCreatedOnlyWhenUnknown (C08.R16): what the store knows about a service - its configuration and
// its endpoint list - lives in the entry of the service table. An entry is created only on the miss side of a lookup
// of the same name: a known service that is announced again keeps its entry. Replacing it (even "carrying over" some
// fields) forgets the endpoint list; the next endpoint delta is then applied to an empty list and announced as an add
// that the controller ignores for an existing processor - the processor never converges.
func checkServiceEntryCreatedOnlyWhenUnknown(c *Ctx, rule string) {
	p := c.P
	isTable := func(t types.Type) bool {
		m, ok := t.Underlying().(*types.Map)
		if !ok {
			return false
		}
		pt, ok := m.Elem().(*types.Pointer)
		return ok && modType(pt.Elem(), configPkg, "serviceWrapper")
	}
	var sameKey func(a, b ssa.Value, d int) bool
	sameKey = func(a, b ssa.Value, d int) bool {
		a, b = stripConv(resolveCell(a)), stripConv(resolveCell(b))
		if a == b {
			return true
		}
		if d > 3 {
			return false
		}
		// two loads of the same field of the same object (svc.Name read twice)
		la, oka := a.(*ssa.UnOp)
		lb, okb := b.(*ssa.UnOp)
		if oka && okb && la.Op == token.MUL && lb.Op == token.MUL {
			fa, oka := la.X.(*ssa.FieldAddr)
			fb, okb := lb.X.(*ssa.FieldAddr)
			if oka && okb && fa.Field == fb.Field {
				return sameKey(fa.X, fb.X, d+1)
			}
		}
		return false
	}
	le := newLockEngine(p, configPkg)
	n := 0
	for _, fn := range p.FuncsIn(configPkg) {
		if p.isTestFn(fn) {
			continue
		}
		eachInstr(fn, func(b *ssa.BasicBlock, _ int, in ssa.Instruction) {
			mu, ok := in.(*ssa.MapUpdate)
			if !ok || !isTable(mu.Map.Type()) {
				return
			}
			// the table being filled before the store is shared (no lock taken: the static services at start-up)
			_, isWrapperMethod := mu.Map.(*ssa.Parameter)
			if _, fresh := mu.Map.(*ssa.MakeMap); fresh || (len(le.before[in]) == 0 && !isWrapperMethod) {
				return
			}
			// the table wrapped in a small type with get/put methods: the put is judged where it is called, against the
			// comma-ok result of the type's getter
			if rcv := fn.Signature.Recv(); rcv != nil && isTable(rcv.Type()) {
				isGetter := func(g *ssa.Function) bool {
					if g == nil || g.Blocks == nil || g.Signature.Recv() == nil || !types.Identical(g.Signature.Recv().Type(), rcv.Type()) {
						return false
					}
					has := false
					eachInstr(g, func(_ *ssa.BasicBlock, _ int, y ssa.Instruction) {
						if lk, ok := y.(*ssa.Lookup); ok && lk.CommaOk && isTable(lk.X.Type()) {
							has = true
						}
					})
					return has
				}
				for _, ed := range p.callersOf(fn) {
					if p.isTestFn(ed.Caller.Func) || len(le.before[ed.Site]) == 0 {
						continue
					}
					n++
					missed := false
					for _, a := range atomsAt(ed.Site.Block(), 0) {
						if a.cmp != nil || a.truth {
							continue
						}
						if ex, isEx := a.val.(*ssa.Extract); isEx && ex.Index == 1 {
							if call, isCall := ex.Tuple.(*ssa.Call); isCall && isGetter(calleeFn(call.Common())) {
								missed = true
							}
						}
					}
					c.Check(missed, rule, fmt.Sprintf("%s creates a service entry only for an unknown name#%d", fnKey(ed.Caller.Func), n), ed.Site.Pos(), "the put is on the miss side of the table's getter", "the entry of a service that is already known is replaced: the endpoint list (and whatever else the store has learned) is forgotten while the processor keeps running with it")
				}
				return
			}
			n++
			missed := false
			for _, a := range atomsAt(b, 0) {
				if a.cmp != nil || a.truth {
					continue
				}
				ex, isEx := a.val.(*ssa.Extract)
				if !isEx || ex.Index != 1 {
					continue
				}
				lk, isLk := ex.Tuple.(*ssa.Lookup)
				if isLk && lk.CommaOk && isTable(lk.X.Type()) && sameKey(lk.Index, mu.Key, 0) {
					missed = true
				}
			}
			c.Check(missed, rule, fmt.Sprintf("%s creates a service entry only for an unknown name#%d", fnKey(fn), n), in.Pos(), "the store into the service table is on the miss side of a comma-ok lookup of the same name", "the entry of a service that is already known is replaced: the endpoint list (and whatever else the store has learned) is forgotten while the processor keeps running with it - the next endpoint delta is applied to an empty list and emitted as an add, which the controller ignores for an existing processor; hosts removed by that delta stay, hosts added by it never arrive")
		})
	}
	if n == 0 {
		c.Unresolved(rule, "no store into the service table")
	}
}
