package main

import (
	"fmt"
	"go/token"
	"go/types"

	"golang.org/x/tools/go/ssa"
)

func init() {
	register(&propDef{
		id: "C16",
		li: levelInfo{
			Level:       "other",
			Explanation: "Static rules on the discovery client. R1 (lockset + channel analysis): no blocking channel operation is performed while holding a mutex that a function on the opposite end of that channel needs - such a lock->channel wait-for cycle deadlocks as soon as the other drainers are unavailable (no stream up). R2: the snapshot of the subscribed set and both queue flushes lie in one critical section; in Subscribe/Unsubscribe the set update precedes the enqueue and the enqueue never drops an entry. R3: every return of the Run loops is the ctx.Done() arm. R4: every blocking operation of the sender loop is guarded by its stop channel. R5: the resubscribe request carries the whole snapshot; the dependency hook subscribes added services on both clients and unsubscribes removed ones on both. \"Within a bounded number of messages\" is not decided. R6: the stop signal watched by the sender's blocking selects is raised by the goroutine that runs the receiver, so a receive failure on an idle stream ends run() and the stream is re-established. R5 also: Subscribe/Unsubscribe of a dependency update run on the dependency stream's goroutine (updates applied in order). The retry loop may be a helper shared by both clients; the sender selects may sit in a helper of the sender loop. R7: no lock is acquired while the must-lockset already holds it (sync.RWMutex is not reentrant). The snapshot of the subscribed set may be taken by a helper. R5 also requires the dependency hook to be called with the response's own Added and Removed lists. R2 also: every path from the update of the subscribed set reaches the enqueue. R8: a slice stored as an element is not emptied with [:0] and appended to again.",
			TrustedBase: []string{"go/ssa", "samlint elock.go, echan.go"},
		},
		run: checkC16,
	})
	techniques["C16"] = "static analysis: must-hold lockset dataflow combined with blocking channel-operation sites (lock->channel wait-for cycles), critical-section and dominance rules"
}

const configPkg = "config"

func checkC16(c *Ctx) {
	p := c.P
	c.Rule("R1", "no lock->channel wait-for cycle: no blocking channel op under a mutex that the opposite end of the channel needs")
	c.Rule("R2", "snapshot and both flushes in one critical section; set update before enqueue; enqueue blocking (never drops)")
	c.Rule("R3", "retry for ever: every return of the Run loops is the ctx.Done() arm")
	c.Rule("R4", "sender loop: every blocking op watches the stop channel")
	c.Rule("R5", "resubscribe carries the whole snapshot; dependency hook symmetric over both clients")
	c.Rule("R6", "the sender's stop signal is raised by the goroutine that runs the receiver (a receive failure ends the sender, so the stream is re-established)")

	subF := p.Field(configPkg, "svcDiscoveryClient", "subscribed")
	subCh := p.Field(configPkg, "svcDiscoveryClient", "subCh")
	unsubCh := p.Field(configPkg, "svcDiscoveryClient", "unsubCh")
	mu := p.Field(configPkg, "svcDiscoveryClient", "RWMutex")
	if subF == nil || subCh == nil || unsubCh == nil || mu == nil {
		c.Unresolved("R1", "svcDiscoveryClient fields")
		return
	}
	le := newLockEngine(p, configPkg)
	ce := newChanEngine(p)

	// ---------------- R1
	// all channel fields of structs in the config package
	var chans []*types.Var
	if pk := p.TPkg(configPkg); pk != nil {
		sc := pk.Types.Scope()
		for _, n := range sc.Names() {
			if tn, ok := sc.Lookup(n).(*types.TypeName); ok {
				if st, ok := tn.Type().Underlying().(*types.Struct); ok {
					for i := 0; i < st.NumFields(); i++ {
						if _, isCh := st.Field(i).Type().Underlying().(*types.Chan); isCh {
							chans = append(chans, st.Field(i))
						}
					}
				}
			}
		}
	}
	nR1 := 0
	for _, ch := range chans {
		ops := p.chanOpsOnField(ch)
		for _, op := range ops {
			if (op.Kind != opSend && op.Kind != opRecv) || !op.Blocking {
				continue
			}
			held := le.heldAt(op.In)
			if len(held) == 0 {
				continue
			}
			// a blocking select that also watches a quit-like latch is interruptible
			if op.InSelect != nil {
				guard := false
				for _, st := range op.InSelect.States {
					if ok, _ := ce.isQuitLike(st.Chan); ok {
						guard = true
					}
				}
				if guard {
					continue
				}
			}
			nR1++
			site := fmt.Sprintf("%s blocking %s(%s) under %s", fnKey(op.Fn), op.Kind, ch.Name(), held.String())
			bad := ""
			for _, other := range ops {
				if other.Kind == op.Kind || (other.Kind != opSend && other.Kind != opRecv) {
					continue
				}
				oh := le.heldAt(other.In)
				for L, m := range held {
					if om, ok := oh[L]; ok && (m == lockWrite || om == lockWrite) {
						bad = fmt.Sprintf("%s %ss on %s with %s held (%s)", fnKey(other.Fn), other.Kind, ch.Name(), L.Name(), p.Pos(other.In.Pos()))
					}
				}
			}
			if bad != "" {
				c.Fail("R1", site, op.In.Pos(), "lock->channel wait-for cycle: this operation blocks on "+ch.Name()+" while holding the lock, and "+bad+" - when no other goroutine serves the channel (no stream up) both sides wait for ever; with a 16-slot queue the 17th pending change deadlocks the client for good")
			} else {
				c.OK("R1", site, op.In.Pos(), "no opposite end of the channel needs a conflicting lock")
			}
		}
	}
	if nR1 == 0 {
		c.OK("R1", "no blocking channel operation under a lock in package config", token.NoPos, fmt.Sprintf("%d channel fields examined", len(chans)))
	}

	// ---------------- R2
	resub := p.Func(configPkg, "(*svcDiscoveryClient).resubscribe")
	// snapshot and flush may both sit in a helper that resubscribe calls (it then holds the lock for both)
	resubOrig := resub
	if resub != nil {
		rangesSet := func(f *ssa.Function) bool {
			found := false
			eachInstr(f, func(_ *ssa.BasicBlock, _ int, in ssa.Instruction) {
				if r, ok := in.(*ssa.Range); ok {
					if fld, _ := loadedField(r.X); fld == subF {
						found = true
					}
				}
			})
			return found
		}
		drainsAny := func(f *ssa.Function) bool {
			found := false
			eachInstr(f, func(_ *ssa.BasicBlock, _ int, in ssa.Instruction) {
				if call, ok := in.(*ssa.Call); ok {
					if g := calleeFn(call.Common()); g != nil && isModFn(g) && (drainsQueue(p, g, subCh) || drainsQueue(p, g, unsubCh)) {
						found = true
					}
				}
			})
			return found
		}
		if !rangesSet(resub) && !drainsAny(resub) {
			for _, g := range staticCalleesDeep(resub, 1) {
				if g.Blocks != nil && isModFn(g) && rangesSet(g) && drainsAny(g) {
					resub = g
				}
			}
		}
	}
	if resub == nil {
		c.Unresolved("R2", "(*svcDiscoveryClient).resubscribe")
	} else {
		var rng ssa.Instruction
		flushes := map[*types.Var]ssa.Instruction{}
		eachInstr(resub, func(_ *ssa.BasicBlock, _ int, in ssa.Instruction) {
			if r, ok := in.(*ssa.Range); ok {
				if f, _ := loadedField(r.X); f == subF {
					rng = in
				}
			}
			if call, ok := in.(*ssa.Call); ok {
				if g := calleeFn(call.Common()); g != nil && isModFn(g) {
					// the snapshot may be taken by a helper that ranges over the set
					if g.Blocks != nil && rng == nil {
						eachInstr(g, func(_ *ssa.BasicBlock, _ int, x ssa.Instruction) {
							if r, ok := x.(*ssa.Range); ok {
								if f, _ := loadedField(r.X); f == subF {
									rng = in
								}
							}
						})
					}
					for _, q := range []*types.Var{subCh, unsubCh} {
						if drainsQueue(p, g, q) {
							flushes[q] = in
						}
						// a generic drain helper: non-blocking receive on its channel parameter, called with the queue
						for i, a := range call.Call.Args {
							if f, _ := chanFieldOf(stripConv(a)); f != q || i >= len(g.Params) {
								continue
							}
							prm := g.Params[i]
							eachInstr(g, func(_ *ssa.BasicBlock, _ int, x ssa.Instruction) {
								sel, isSel := x.(*ssa.Select)
								if !isSel || sel.Blocking {
									return
								}
								for _, st := range sel.States {
									if stripConv(st.Chan) == ssa.Value(prm) && st.Dir == types.RecvOnly {
										flushes[q] = in
									}
								}
							})
						}
					}
				}
			}
		})
		if rng == nil || flushes[subCh] == nil || flushes[unsubCh] == nil {
			c.Fail("R2", "resubscribe snapshot+flush", resub.Pos(), "resubscribe does not both snapshot the subscribed set and flush both queues: entries queued before the snapshot are replayed on the new stream, or entries queued after it are lost")
		} else {
			all := []ssa.Instruction{rng, flushes[subCh], flushes[unsubCh]}
			ok := true
			for _, in := range all {
				if le.heldAt(in)[mu] == lockNone {
					ok = false
				}
			}
			// no unlock between any two of them
			if ok {
				for _, a := range all {
					for _, b := range all {
						if a == b {
							continue
						}
						if findPath(posOf(a), pathQuery{target: func(x ssa.Instruction) bool { return x == b }}) != nil {
							if findPath(posOf(a), pathQuery{target: func(x ssa.Instruction) bool { return x == b }, avoid: func(x ssa.Instruction) bool {
								_, op := mutexOp(x)
								_, isDefer := x.(*ssa.Defer)
								return !isDefer && (op == "Unlock" || op == "RUnlock")
							}}) == nil {
								ok = false
							}
						}
					}
				}
			}
			c.Check(ok, "R2", "resubscribe snapshot+flush in one critical section", rng.Pos(), "snapshot and both flushes under the same lock with no unlock in between", "the snapshot of the subscribed set and the queue flushes are not in one critical section: a subscribe/unsubscribe that lands in between updates the set but its queued operation is discarded (or replayed), and the stream stays out of sync with the dependency set")
		}
	}
	for _, pr := range []struct {
		name string
		q    *types.Var
	}{{"Subscribe", subCh}, {"Unsubscribe", unsubCh}} {
		fn := p.Func(configPkg, "(*svcDiscoveryClient)."+pr.name)
		if fn == nil {
			c.Unresolved("R2", pr.name)
			continue
		}
		var upd ssa.Instruction
		updatesSet := func(f *ssa.Function) ssa.Instruction {
			var at ssa.Instruction
			eachInstr(f, func(_ *ssa.BasicBlock, _ int, in ssa.Instruction) {
				switch x := in.(type) {
				case *ssa.MapUpdate:
					if fld, _ := loadedField(x.Map); fld == subF {
						at = in
					}
				case *ssa.Call:
					if isBuiltin(x, "delete") {
						if fld, _ := loadedField(x.Call.Args[0]); fld == subF {
							at = in
						}
					}
				}
			})
			return at
		}
		upd = updatesSet(fn)
		if upd == nil {
			// the update in a helper of the same client: the call of the helper is the update site
			eachInstr(fn, func(_ *ssa.BasicBlock, _ int, in ssa.Instruction) {
				if call, ok := in.(*ssa.Call); ok {
					if g := calleeFn(call.Common()); g != nil && isModFn(g) && g.Blocks != nil && g != fn && updatesSet(g) != nil {
						upd = in
					}
				}
			})
		}
		var enq *chanOp
		for _, fn2 := range append([]*ssa.Function{fn}, calleesIn(p, fn)...) {
			for _, op := range p.chanOpsOnField(pr.q) {
				if op.Kind == opSend && op.Fn == fn2 {
					o := op
					enq = &o
				}
			}
		}
		site := pr.name
		if upd == nil || enq == nil {
			c.Fail("R2", site+" updates the set and enqueues", fn.Pos(), pr.name+" does not both update the subscribed set and enqueue the change")
			continue
		}
		// ... on every path: a change that updates the set but is queued only "while a stream is up" is in neither the
		// resubscribe snapshot taken before it nor the queue, when it lands while the stream is being established
		{
			isEnq := func(x ssa.Instruction) bool {
				if x == enq.In {
					return true
				}
				return enq.Fn != fn && isCallToFn(x, enq.Fn)
			}
			start := posOf(upd)
			// the update made by a helper that reports whether it changed the set (`if !c.markSubscribed(n) { return }`):
			// the paths that matter start on the side of the test on which the helper did update
			if ucall, isCall := upd.(*ssa.Call); isCall {
				if g := calleeFn(ucall.Common()); g != nil && g.Blocks != nil && g.Signature.Results().Len() == 1 {
					if at := updatesSet(g); at != nil {
						val, consistent, nret := "", true, 0
						eachInstr(g, func(_ *ssa.BasicBlock, _ int, x ssa.Instruction) {
							r, isRet := x.(*ssa.Return)
							if !isRet {
								return
							}
							if findPath(posOf(at), pathQuery{target: func(y ssa.Instruction) bool { return y == x }}) == nil {
								return
							}
							nret++
							cv, isC := returnedValues(r)[0].(*ssa.Const)
							if !isC || cv.Value == nil {
								consistent = false
								return
							}
							if val != "" && val != cv.Value.String() {
								consistent = false
							}
							val = cv.Value.String()
						})
						if consistent && nret > 0 && (val == "true" || val == "false") {
							for _, r := range *ucall.Referrers() {
								cond := ssa.Value(ucall)
								neg := false
								if u, isU := r.(*ssa.UnOp); isU && u.Op == token.NOT {
									cond, neg = u, true
								}
								for _, r2 := range *cond.Referrers() {
									if iff, isIf := r2.(*ssa.If); isIf {
										k := 0
										if (val == "true") == neg {
											k = 1
										}
										start = ipos{iff.Block().Succs[k], -1}
									}
								}
							}
						}
					}
				}
			}
			skip := findPath(start, pathQuery{target: isReturn, avoid: isEnq})
			c.Check(skip == nil, "R2", site+" enqueues every change of the set", upd.Pos(), "every path from the set update reaches the enqueue", "a path updates the subscribed set and returns without queueing the change ("+p.pathString(skip)+"): a change that lands after the resubscribe snapshot of a stream that is being established is in neither the snapshot nor the queue - the service stays (un)subscribed on the stream until the stream next fails")
		}
		c.Check(enq.Blocking, "R2", site+" enqueue never drops", enq.In.Pos(), "blocking send", "the enqueue is non-blocking: when the queue is full the change is dropped although the set was updated; it is never re-queued (Subscribe deduplicates on the set) and a healthy stream never resubscribes")
		if enq.Fn == fn {
			c.Check(instrDominates(upd, enq.In), "R2", site+" set update precedes enqueue", upd.Pos(), "update dominates the enqueue", "the change is enqueued before the set is updated: a resubscribe in between flushes the entry and its snapshot misses it")
		} else {
			// enqueue in a helper: the call to the helper must come after the update
			var hcall ssa.Instruction
			eachInstr(fn, func(_ *ssa.BasicBlock, _ int, in ssa.Instruction) {
				if isCallToFn(in, enq.Fn) {
					hcall = in
				}
			})
			c.Check(hcall != nil && instrDominates(upd, hcall), "R2", site+" set update precedes enqueue", upd.Pos(), "update dominates the enqueue helper call", "the change is enqueued before the set is updated")
		}
	}
	c.Expect("R2", 5)

	// ---------------- R3
	for _, name := range []string{"(*svcDiscoveryClient).Run", "(*dependencyDiscoveryClient).Run"} {
		fn := p.Func(configPkg, name)
		if fn == nil {
			c.Unresolved("R3", name)
			continue
		}
		nret := 0
		runFn := fn
		// the retry loop may live in a helper shared by the clients, which is handed the work as a function value: then
		// Run ends only when the helper does, and the helper's returns are the ones that must sit in the ctx.Done() arm
		if len(loopHeaders(fn)) == 0 {
			var hcall *ssa.Call
			eachInstr(fn, func(_ *ssa.BasicBlock, _ int, in ssa.Instruction) {
				call, ok := in.(*ssa.Call)
				if !ok {
					return
				}
				g := calleeFn(call.Common())
				if g == nil || !isModFn(g) || g.Blocks == nil || len(loopHeaders(g)) == 0 {
					return
				}
				for _, a := range call.Call.Args {
					if _, isSig := a.Type().Underlying().(*types.Signature); isSig {
						hcall = call
					}
				}
			})
			if hcall != nil {
				n := 0
				eachInstr(fn, func(b *ssa.BasicBlock, _ int, in ssa.Instruction) {
					if _, ok := in.(*ssa.Return); ok {
						n++
						c.Check(instrDominates(hcall, in), "R3", fmt.Sprintf("%s return#%d after the retry helper", fnKey(fn), n), in.Pos(), "Run returns only after the retry helper returned", "Run can return without entering the retry loop")
					}
				})
				fn = calleeFn(hcall.Common())
			}
		}
		eachInstr(fn, func(b *ssa.BasicBlock, _ int, in ssa.Instruction) {
			if _, ok := in.(*ssa.Return); !ok {
				return
			}
			nret++
			site := fmt.Sprintf("%s return#%d", fnKey(fn), nret)
			if fn != runFn {
				site = fmt.Sprintf("%s via %s return#%d", fnKey(runFn), fnKey(fn), nret)
			}
			ok := false
			for _, d := range fn.Blocks {
				for _, x := range d.Instrs {
					sel, isSel := x.(*ssa.Select)
					if !isSel {
						continue
					}
					for k, st := range sel.States {
						if q, what := ce.isQuitLike(st.Chan); q && what == "ctx.Done()" {
							if cb := selectCaseBlock(sel, k); cb != nil && (cb == b || cb.Dominates(b)) {
								ok = true
							}
						}
					}
				}
			}
			c.Check(ok, "R3", site, in.Pos(), "return only in the ctx.Done() arm", "the retry loop can end although its context is not cancelled: the client stops retrying for good")
		})
		// the loop calls run() in every iteration
		hasLoop := len(loopHeaders(fn)) >= 1
		c.Check(hasLoop, "R3", fnKey(runFn)+" loops", fn.Pos(), "retry loop present", "Run no longer loops")
	}
	c.Expect("R3", 6)

	// ---------------- R4
	if ls := p.Func(configPkg, "(*svcDiscoveryClient).loopSend"); ls == nil {
		c.Unresolved("R4", "loopSend")
	} else {
		for _, op := range ce.classify(ls, nil) {
			site := fmt.Sprintf("%s %s", fnKey(ls), op.What)
			c.Check(op.Class != bcUnguarded, "R4", site, op.In.Pos(), op.Class.String(), "the sender loop blocks without watching its stop channel: after the stream failed the loop never ends and no new stream is established")
		}
	}

	// ---------------- R5
	resub = resubOrig
	if resub != nil {
		okSnap := false
		eachInstr(resub, func(_ *ssa.BasicBlock, _ int, in ssa.Instruction) {
			cc := callOf(in)
			if cc == nil || !cc.IsInvoke() || cc.Method.Name() != "Send" {
				return
			}
			// first argument derives from the range over subscribed
			if derivesIP(cc.Args[0], func(v ssa.Value) bool {
				if nx, ok := v.(*ssa.Next); ok {
					if r, ok := nx.Iter.(*ssa.Range); ok {
						f, _ := loadedField(r.X)
						return f == subF
					}
				}
				return false
			}, 2) && isNilConst(cc.Args[1]) {
				okSnap = true
			}
		})
		c.Check(okSnap, "R5", "resubscribe sends the snapshot", resub.Pos(), "Send(all keys of subscribed, nil)", "the resubscribe request does not carry the whole subscribed set")
	}
	if sd := p.Func(configPkg, "(*discoveryClient).StreamDependencies"); sd == nil {
		c.Unresolved("R5", "StreamDependencies")
	} else {
		counts := map[string]map[string]int{"Subscribe": {}, "Unsubscribe": {}}
		// the hook body: the closures of StreamDependencies and the methods of the same client they call (and theirs)
		hookFns := []*ssa.Function{}
		seenHF := map[*ssa.Function]bool{}
		var addHF func(f *ssa.Function, depth int)
		addHF = func(f *ssa.Function, depth int) {
			if f == nil || seenHF[f] || f.Blocks == nil || depth > 4 {
				return
			}
			seenHF[f] = true
			hookFns = append(hookFns, f)
			for _, a := range f.AnonFuncs {
				addHF(a, depth+1)
			}
			eachInstr(f, func(_ *ssa.BasicBlock, _ int, in ssa.Instruction) {
				if cc := callOf(in); cc != nil {
					if g := calleeFn(cc); g != nil && g.Signature.Recv() != nil && sd.Signature.Recv() != nil && types.Identical(g.Signature.Recv().Type(), sd.Signature.Recv().Type()) {
						addHF(g, depth+1)
					}
				}
			})
		}
		addHF(sd, 0)
		for _, fn := range hookFns {
			eachInstr(fn, func(_ *ssa.BasicBlock, _ int, in ssa.Instruction) {
				cc := callOf(in)
				if cc == nil {
					return
				}
				g := calleeFn(cc)
				if g == nil || (g.Name() != "Subscribe" && g.Name() != "Unsubscribe") {
					return
				}
				// receiver: c.svcConfig.svcDiscoveryClient / c.svcEndpoint....
				which := ""
				derives(cc.Args[0], func(v ssa.Value) bool {
					if f, _ := fieldAddr(v); f != nil && (f.Name() == "svcConfig" || f.Name() == "svcEndpoint") {
						which = f.Name()
					}
					if f, _ := loadedField(v); f != nil && (f.Name() == "svcConfig" || f.Name() == "svcEndpoint") {
						which = f.Name()
					}
					return false
				})
				counts[g.Name()][which]++
			})
		}
		ok := counts["Subscribe"]["svcConfig"] == 1 && counts["Subscribe"]["svcEndpoint"] == 1 && counts["Unsubscribe"]["svcConfig"] == 1 && counts["Unsubscribe"]["svcEndpoint"] == 1
		// one sequential caller: the subscription clients assume that dependency updates are applied one after the
		// other - an update applied on its own goroutine can overtake an earlier one that is parked on the queue
		var goAt ssa.Instruction
		for _, fn := range withAnon(sd) {
			eachInstr(fn, func(_ *ssa.BasicBlock, _ int, in ssa.Instruction) {
				g, isGo := in.(*ssa.Go)
				if !isGo {
					return
				}
				for _, h := range p.callees(g) {
					for _, x := range append([]*ssa.Function{h}, staticCalleesDeep(h, 2)...) {
						if x.Name() == "Subscribe" || x.Name() == "Unsubscribe" {
							goAt = in
						}
					}
				}
			})
		}
		pos := sd.Pos()
		if goAt != nil {
			pos = goAt.Pos()
		}
		c.Check(goAt == nil, "R5", "dependency updates applied in order", pos, "Subscribe/Unsubscribe are called on the dependency stream's goroutine", "Subscribe/Unsubscribe run on a goroutine per dependency update: a later update overtakes an earlier one that is parked on the full queue, its Unsubscribe/Subscribe is a no-op against a set the parked update changes afterwards - the subscribed set ends up different from the dependency set for good")
		c.Check(ok, "R5", "dependency hook symmetric", sd.Pos(), "Subscribe and Unsubscribe on both the config and the endpoint client", fmt.Sprintf("the dependency hook is not symmetric over the two clients (%v): a dependency change is tracked on one stream only", counts))
	}
	// the dependency stream's updates reach the hook as they are: both lists of a response, unfiltered
	if drun := p.Func(configPkg, "(*dependencyDiscoveryClient).run"); drun == nil {
		c.Unresolved("R5", "(*dependencyDiscoveryClient).run")
	} else {
		nh := 0
		for _, hf := range append([]*ssa.Function{drun}, staticCalleesDeep(drun, 1)...) {
			if hf.Blocks == nil || !isModFn(hf) {
				continue
			}
			eachInstr(hf, func(_ *ssa.BasicBlock, _ int, in ssa.Instruction) {
				cc := callOf(in)
				if cc == nil || cc.IsInvoke() || calleeFn(cc) != nil || len(cc.Args) != 2 {
					return
				}
				if f, _ := loadedField(cc.Value); f == nil || f.Name() != "hook" {
					return
				}
				nh++
				fa, _ := loadedField(cc.Args[0])
				fr, _ := loadedField(cc.Args[1])
				c.Check(fa != nil && fa.Name() == "Added" && fr != nil && fr.Name() == "Removed", "R5", fmt.Sprintf("dependency updates reach the hook unfiltered (#%d)", nh), in.Pos(), "hook(resp.Added, resp.Removed)", "the dependency client passes something other than the response's own Added and Removed lists to the hook: a filter that remembers what it has reported (and never forgets what was removed) swallows the re-addition of a dependency - it is in the dependency set but never subscribed again")
			})
		}
		if nh == 0 {
			c.Fail("R5", "dependency updates reach the hook unfiltered", drun.Pos(), "the dependency stream loop never calls the hook")
		}
	}
	c.Expect("R5", 3)
	checkSenderWokenByReceiver(c, "R6")
	c.Rule("R8", "a slice that was handed on (appended as an element, sent, stored) is not emptied and filled again: batches of a request do not share their backing array")
	checkHandedOnSliceNotReused(c, "R8")
	c.Rule("R7", "no lock of the discovery clients is acquired while it is already held: a second RLock behind a waiting writer (Subscribe/Unsubscribe) never returns, and neither does the writer")
	nacq := 0
	for _, fn := range le.fns {
		eachInstr(fn, func(_ *ssa.BasicBlock, _ int, in ssa.Instruction) {
			fld, op := mutexOp(in)
			if fld == nil || (op != "Lock" && op != "RLock") {
				return
			}
			if _, isDefer := in.(*ssa.Defer); isDefer {
				return
			}
			nacq++
			if le.heldAt(in)[fld] != lockNone {
				c.Fail("R7", fmt.Sprintf("%s acquires %s once", fnKey(fn), fld.Name()), in.Pos(), "the lock is acquired while the calling code already holds it (must-lockset at this acquisition): sync.RWMutex is not reentrant - with a writer queued between the two acquisitions (a Subscribe or Unsubscribe of a dependency update) the second RLock waits for the writer and the writer for the first: the stream is never established again and the dependency hook is stuck")
			}
		})
	}
	if nacq == 0 {
		c.Unresolved("R7", "no lock acquisition in package config")
	} else {
		c.OK("R7", "lock acquisitions examined", token.NoPos, fmt.Sprintf("%d acquisitions, the must-lockset before each was computed", nacq))
	}
}

// drainsQueue: g contains a non-blocking select receiving from queue field q in a loop.
func drainsQueue(p *Prog, g *ssa.Function, q *types.Var) bool {
	ok := false
	eachInstr(g, func(_ *ssa.BasicBlock, _ int, in ssa.Instruction) {
		sel, isSel := in.(*ssa.Select)
		if !isSel || sel.Blocking {
			return
		}
		for _, st := range sel.States {
			if f, _ := chanFieldOf(st.Chan); f == q && st.Dir == types.RecvOnly {
				ok = true
			}
		}
	})
	return ok
}

// calleesIn: module functions statically called by fn (one level).
func calleesIn(p *Prog, fn *ssa.Function) []*ssa.Function {
	var out []*ssa.Function
	eachInstr(fn, func(_ *ssa.BasicBlock, _ int, in ssa.Instruction) {
		if cc := callOf(in); cc != nil {
			if g := calleeFn(cc); g != nil && isModFn(g) {
				out = append(out, g)
			}
		}
	})
	return out
}

// checkSenderWokenByReceiver (C16.R6): the stream is re-established only when run() returns, and run() returns only
// when the sender loop returns. The sender is idle most of the time, so the only thing that can end it after a
// receive failure is a stop signal raised by the goroutine that runs the receiver: the channel the sender's blocking
// selects watch must be closed (or its context cancelled) inside that goroutine, not merely by run() itself on exit.
func checkSenderWokenByReceiver(c *Ctx, rule string) {
	p := c.P
	ls := p.Func(configPkg, "(*svcDiscoveryClient).loopSend")
	lr := p.Func(configPkg, "(*svcDiscoveryClient).loopRecv")
	if ls == nil || lr == nil {
		c.Unresolved(rule, "loopSend / loopRecv")
		return
	}
	for _, ed := range p.callersOf(ls) {
		run := ed.Caller.Func
		if p.isTestFn(run) {
			continue
		}
		site := "stop signal of the sender started in " + fnKey(run)
		// goroutine(s) of run that run the receiver
		var recvGo []*ssa.Function
		eachInstr(run, func(_ *ssa.BasicBlock, _ int, in ssa.Instruction) {
			g, ok := in.(*ssa.Go)
			if !ok {
				return
			}
			for _, h := range p.callees(g) {
				if h == lr || p.reachable([]*ssa.Function{h}, nil)[lr] {
					recvGo = append(recvGo, h)
				}
			}
		})
		if len(recvGo) == 0 {
			c.Undecided(rule, site, ed.Pos(), "the receiver is not started as a goroutine next to the sender")
			continue
		}
		// signals raised when the receiver goroutine ends: cells whose channel it closes, cancel functions it calls
		raised := map[ssa.Value]bool{}
		for _, g := range recvGo {
			bind := func(v ssa.Value) ssa.Value {
				if u, ok := v.(*ssa.UnOp); ok && u.Op == token.MUL {
					v = u.X
				}
				if fv, ok := v.(*ssa.FreeVar); ok {
					for i, q := range g.FreeVars {
						if q == fv {
							var out ssa.Value
							eachInstr(run, func(_ *ssa.BasicBlock, _ int, x ssa.Instruction) {
								if mc, ok := x.(*ssa.MakeClosure); ok && mc.Fn == ssa.Value(g) && i < len(mc.Bindings) {
									out = mc.Bindings[i]
								}
							})
							return out
						}
					}
				}
				return v
			}
			for _, h := range append([]*ssa.Function{g}, g.AnonFuncs...) {
				eachInstr(h, func(_ *ssa.BasicBlock, _ int, in ssa.Instruction) {
					cc := callOf(in)
					if cc == nil {
						return
					}
					if b, ok := cc.Value.(*ssa.Builtin); ok && b.Name() == "close" {
						if v := bind(cc.Args[0]); v != nil {
							raised[v] = true
						}
						return
					}
					// a cancel function (func()) captured from run
					if calleeFn(cc) == nil && !cc.IsInvoke() {
						if v := bind(cc.Value); v != nil {
							raised[v] = true
						}
					}
				})
			}
		}
		// what the sender watches: parameters of loopSend used as the channel of a blocking select's receive case
		okAll, nsel := true, 0
		why := ""
		// the sender's selects may sit in a helper the loop calls with its own parameters (nextBatch(stop)): a helper
		// parameter stands for the sender parameter passed at the call
		type selFn struct {
			fn  *ssa.Function
			arg func(prm *ssa.Parameter) ssa.Value // the value at the go/call site of the sender, nil if unknown
		}
		lsArg := func(prm *ssa.Parameter) ssa.Value {
			idx := paramIndex(ls, prm)
			if idx >= 0 && idx < len(ed.Site.Common().Args) {
				return ed.Site.Common().Args[idx]
			}
			return nil
		}
		selFns := []selFn{{ls, lsArg}}
		eachInstr(ls, func(_ *ssa.BasicBlock, _ int, in ssa.Instruction) {
			cc := callOf(in)
			if cc == nil {
				return
			}
			h := calleeFn(cc)
			if h == nil || !isModFn(h) || h.Blocks == nil || h == ls {
				return
			}
			args := cc.Args
			selFns = append(selFns, selFn{h, func(prm *ssa.Parameter) ssa.Value {
				idx := paramIndex(h, prm)
				if idx < 0 || idx >= len(args) {
					return nil
				}
				a := args[idx]
				for {
					if ct, ok := a.(*ssa.ChangeType); ok {
						a = ct.X
						continue
					}
					break
				}
				if lp, ok := a.(*ssa.Parameter); ok && lp.Parent() == ls {
					return lsArg(lp)
				}
				return nil
			}})
		})
		for _, sf := range selFns {
			sf := sf
			eachInstr(sf.fn, func(_ *ssa.BasicBlock, _ int, in ssa.Instruction) {
				sel, ok := in.(*ssa.Select)
				if !ok || !sel.Blocking {
					return
				}
				nsel++
				good := false
				for _, st := range sel.States {
					if st.Dir != types.RecvOnly {
						continue
					}
					// channel parameter
					if prm, ok := st.Chan.(*ssa.Parameter); ok {
						if a := sf.arg(prm); a != nil {
							for {
								if ct, ok := a.(*ssa.ChangeType); ok {
									a = ct.X
									continue
								}
								break
							}
							if u, ok := a.(*ssa.UnOp); ok && u.Op == token.MUL {
								a = u.X
							}
							if raised[a] {
								good = true
							}
						}
					}
					// ctx.Done() of a context parameter whose cancel function the receiver goroutine calls
					if call, ok := st.Chan.(*ssa.Call); ok && call.Call.IsInvoke() && call.Call.Method.Name() == "Done" {
						if prm, ok := call.Call.Value.(*ssa.Parameter); ok {
							if a := sf.arg(prm); a != nil {
								// ctx, cancel := context.WithCancel(...): a = Extract 0, cancel = Extract 1 of the same call
								if ex, ok := a.(*ssa.Extract); ok {
									for _, r := range *ex.Tuple.Referrers() {
										if ex2, ok := r.(*ssa.Extract); ok && ex2.Index == 1 {
											if raised[ex2] {
												good = true
											}
											// cancel captured through a cell
											for _, r2 := range *ex2.Referrers() {
												if s, ok := r2.(*ssa.Store); ok && raised[s.Addr] {
													good = true
												}
											}
										}
									}
								}
							}
						}
					}
				}
				if !good {
					okAll = false
					why = p.Pos(sel.Pos())
				}
			})
		}
		if nsel == 0 {
			c.Undecided(rule, site, ed.Pos(), "the sender loop has no blocking select")
			continue
		}
		c.Check(okAll, rule, site, ed.Pos(), fmt.Sprintf("%d blocking selects of the sender watch a signal that the receiver goroutine raises when it ends", nsel), "a blocking select of the sender ("+why+") watches no signal that is raised when the receiver ends: after a receive failure on an idle stream the sender stays parked, run() never returns and the stream is never re-established until some later subscription change happens to fail on the dead stream")
	}
	c.Expect(rule, 1)
}

// checkHandedOnSliceNotReused (C16.R8): `batches = append(batches, batch); batch = batch[:0]` keeps filling the array
// that the stored batch still points at: the names of the next batch overwrite those of the one already stored, so
// some services are named twice and others not at all in the requests that re-establish a stream.
func checkHandedOnSliceNotReused(c *Ctx, rule string) {
	p := c.P
	n, nbad := 0, 0
	for _, fn := range p.FuncsIn(configPkg) {
		if p.isTestFn(fn) {
			continue
		}
		// values handed on as an element: stored into the variadic array of an append, into a map, a field, or sent
		handed := map[ssa.Value]ssa.Instruction{}
		eachInstr(fn, func(_ *ssa.BasicBlock, _ int, in ssa.Instruction) {
			switch x := in.(type) {
			case *ssa.Store:
				if _, isSl := x.Val.Type().Underlying().(*types.Slice); !isSl {
					return
				}
				if ia, ok := x.Addr.(*ssa.IndexAddr); ok {
					if al, ok := ia.X.(*ssa.Alloc); ok {
						// the array of append(s, elems...)
						for _, r := range *al.Referrers() {
							if sl, ok := r.(*ssa.Slice); ok {
								for _, r2 := range *sl.Referrers() {
									if call, ok := r2.(*ssa.Call); ok && isBuiltin(call, "append") && len(call.Call.Args) == 2 && call.Call.Args[1] == ssa.Value(sl) {
										handed[x.Val] = in
									}
								}
							}
						}
					}
				}
			case *ssa.Send:
				if _, isSl := x.X.Type().Underlying().(*types.Slice); isSl {
					handed[x.X] = in
				}
			case *ssa.MapUpdate:
				if _, isSl := x.Value.Type().Underlying().(*types.Slice); isSl {
					handed[x.Value] = in
				}
			}
		})
		if len(handed) == 0 {
			continue
		}
		eachInstr(fn, func(_ *ssa.BasicBlock, _ int, in ssa.Instruction) {
			sl, ok := in.(*ssa.Slice)
			if !ok || sl.High == nil {
				return
			}
			if k, isC := constInt(sl.High); !isC || k != 0 {
				return
			}
			if _, isSl := sl.X.Type().Underlying().(*types.Slice); !isSl {
				return
			}
			n++
			at, was := handed[sl.X]
			if !was {
				return
			}
			// only when the emptied slice is filled again
			refilled := false
			for _, r := range *sl.Referrers() {
				if ph, isPhi := r.(*ssa.Phi); isPhi {
					for _, r2 := range *ph.Referrers() {
						if call, ok := r2.(*ssa.Call); ok && isBuiltin(call, "append") && call.Call.Args[0] == ssa.Value(ph) {
							refilled = true
						}
					}
				}
				if call, ok := r.(*ssa.Call); ok && isBuiltin(call, "append") && call.Call.Args[0] == ssa.Value(sl) {
					refilled = true
				}
			}
			if refilled {
				nbad++
				c.Fail(rule, fmt.Sprintf("%s reuses a slice it has handed on#%d", fnKey(fn), nbad), sl.Pos(), "the slice is stored as an element ("+p.Pos(at.Pos())+") and then emptied with [:0] and appended to again: both share one backing array, the new elements overwrite those of the stored batch - with more than one batch of names some services are named twice and others are missing from the requests that re-establish the stream, and nothing is queued for them")
			}
		})
	}
	if nbad == 0 {
		c.OK(rule, "no handed-on slice is refilled", token.NoPos, fmt.Sprintf("%d [:0] re-slices examined", n))
	}
}
