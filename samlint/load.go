package main

import (
	"fmt"
	"go/ast"
	"go/token"
	"go/types"
	"os"
	"sort"
	"strings"

	"golang.org/x/tools/go/callgraph"
	"golang.org/x/tools/go/callgraph/cha"
	"golang.org/x/tools/go/callgraph/vta"
	"golang.org/x/tools/go/packages"
	"golang.org/x/tools/go/ssa"
	"golang.org/x/tools/go/ssa/ssautil"
)

const modPath = "github.com/samaritan-proxy/samaritan"

// Prog is the loaded, type-checked and SSA-built program under /repo.
type Prog struct {
	Dir     string
	Fset    *token.FileSet
	Pkgs    []*packages.Package // module packages only
	ByPath  map[string]*packages.Package
	SSA     *ssa.Program
	SrcFns  []*ssa.Function // functions of module packages that have bodies (incl. anonymous)
	cg      *callgraph.Graph
	Variant string
	NAll    int // all packages incl. deps
}

// LoadOpts selects the build variant.
type LoadOpts struct {
	Dir    string
	GOOS   string
	GOARCH string
	Tests  bool
}

func Load(o LoadOpts) (*Prog, error) {
	env := []string{}
	for _, e := range os.Environ() {
		if strings.HasPrefix(e, "GOWORK=") || strings.HasPrefix(e, "GOFLAGS=") ||
			strings.HasPrefix(e, "GOPROXY=") || strings.HasPrefix(e, "GOSUMDB=") ||
			strings.HasPrefix(e, "GOTOOLCHAIN=") || strings.HasPrefix(e, "GOOS=") ||
			strings.HasPrefix(e, "GOARCH=") || strings.HasPrefix(e, "CGO_ENABLED=") {
			continue
		}
		env = append(env, e)
	}
	env = append(env, "GOFLAGS=-mod=mod", "GOPROXY=off", "GOSUMDB=off", "GOTOOLCHAIN=local", "GOWORK=off", "CGO_ENABLED=0")
	variant := "linux/amd64"
	if o.GOOS != "" {
		env = append(env, "GOOS="+o.GOOS, "GOARCH="+o.GOARCH)
		variant = o.GOOS + "/" + o.GOARCH
	}
	cfg := &packages.Config{
		Mode:  packages.LoadAllSyntax,
		Dir:   o.Dir,
		Env:   env,
		Tests: o.Tests,
	}
	pkgs, err := packages.Load(cfg, "./...")
	if err != nil {
		return nil, fmt.Errorf("load: %v", err)
	}
	if len(pkgs) == 0 {
		return nil, fmt.Errorf("load: zero packages under %s", o.Dir)
	}
	var errs []string
	nall := 0
	packages.Visit(pkgs, nil, func(p *packages.Package) {
		nall++
		for _, e := range p.Errors {
			errs = append(errs, e.Error())
		}
	})
	if len(errs) > 0 {
		sort.Strings(errs)
		if len(errs) > 10 {
			errs = errs[:10]
		}
		return nil, fmt.Errorf("load: type/parse errors (tree cannot be judged):\n  %s", strings.Join(errs, "\n  "))
	}
	p := &Prog{Dir: o.Dir, Fset: pkgs[0].Fset, ByPath: map[string]*packages.Package{}, Variant: variant, NAll: nall}
	for _, pk := range pkgs {
		if strings.HasPrefix(pk.PkgPath, modPath) && !strings.HasSuffix(pk.ID, ".test") {
			if strings.Contains(pk.ID, "[") { // test variant of a package
				if !o.Tests {
					continue
				}
			}
			p.Pkgs = append(p.Pkgs, pk)
			if _, dup := p.ByPath[pk.PkgPath]; !dup || strings.Contains(pk.ID, "[") {
				p.ByPath[pk.PkgPath] = pk
			}
		}
	}
	prog, _ := ssautil.AllPackages(pkgs, ssa.InstantiateGenerics)
	prog.Build()
	p.SSA = prog
	for fn := range ssautil.AllFunctions(prog) {
		if fn.Blocks == nil {
			continue
		}
		if pk := fnPkg(fn); pk != nil && strings.HasPrefix(pk.Pkg.Path(), modPath) {
			p.SrcFns = append(p.SrcFns, fn)
		}
	}
	sort.Slice(p.SrcFns, func(i, j int) bool { return fnKey(p.SrcFns[i]) < fnKey(p.SrcFns[j]) })
	return p, nil
}

func fnPkg(fn *ssa.Function) *ssa.Package {
	for fn != nil {
		if fn.Pkg != nil {
			return fn.Pkg
		}
		if fn.Parent() != nil {
			fn = fn.Parent()
			continue
		}
		if o := fn.Origin(); o != nil && o != fn {
			fn = o
			continue
		}
		return nil
	}
	return nil
}

// relPkg strips the module prefix.
func relPkg(path string) string {
	if path == modPath {
		return "."
	}
	return strings.TrimPrefix(path, modPath+"/")
}

// fnKey gives a stable name: "proc/redis.(*client).loopWrite" or "...loopWrite$1".
func fnKey(fn *ssa.Function) string {
	if fn == nil {
		return "<nil>"
	}
	pk := fnPkg(fn)
	name := fn.RelString(nil)
	if pk != nil {
		name = fn.RelString(pk.Pkg)
		return relPkg(pk.Pkg.Path()) + "." + name
	}
	return name
}

// CG returns the VTA call graph (built lazily).
func (p *Prog) CG() *callgraph.Graph {
	if p.cg == nil {
		all := ssautil.AllFunctions(p.SSA)
		p.cg = vta.CallGraph(all, cha.CallGraph(p.SSA))
	}
	return p.cg
}

// Pkg returns the SSA package for a module-relative path.
func (p *Prog) Pkg(rel string) *ssa.Package {
	pk := p.ByPath[modPath+"/"+rel]
	if pk == nil || pk.Types == nil {
		return nil
	}
	return p.SSA.Package(pk.Types)
}

func (p *Prog) TPkg(rel string) *packages.Package { return p.ByPath[modPath+"/"+rel] }

// Func resolves "name" (package function) or "(*T).m"/"T.m" (method) in a package.
func (p *Prog) Func(rel, name string) *ssa.Function {
	sp := p.Pkg(rel)
	if sp == nil {
		return nil
	}
	if strings.HasPrefix(name, "(") || strings.Contains(name, ".") {
		ptr := strings.HasPrefix(name, "(*")
		s := strings.TrimPrefix(strings.TrimPrefix(name, "("), "*")
		i := strings.Index(s, ".")
		tn := strings.TrimSuffix(s[:i], ")")
		mn := s[i+1:]
		tm := sp.Type(tn)
		if tm == nil {
			return nil
		}
		var T types.Type = tm.Type()
		if ptr {
			T = types.NewPointer(T)
		}
		sel := p.SSA.MethodSets.MethodSet(T).Lookup(sp.Pkg, mn)
		if sel == nil {
			return nil
		}
		return p.SSA.MethodValue(sel)
	}
	return sp.Func(name)
}

// Named returns a named type of a package.
func (p *Prog) Named(rel, name string) *types.Named {
	sp := p.Pkg(rel)
	if sp == nil {
		return nil
	}
	tm := sp.Type(name)
	if tm == nil {
		return nil
	}
	n, _ := tm.Type().(*types.Named)
	return n
}

// Field returns the *types.Var of a struct field.
func (p *Prog) Field(rel, typ, field string) *types.Var {
	n := p.Named(rel, typ)
	if n == nil {
		return nil
	}
	st, ok := n.Underlying().(*types.Struct)
	if !ok {
		return nil
	}
	for i := 0; i < st.NumFields(); i++ {
		if st.Field(i).Name() == field {
			return st.Field(i)
		}
	}
	// a field promoted from an embedded struct of the same package (related fields grouped into a sub-struct)
	if obj, _, _ := types.LookupFieldOrMethod(n, true, n.Obj().Pkg(), field); obj != nil {
		if v, ok := obj.(*types.Var); ok && v.IsField() && v.Pkg() == n.Obj().Pkg() {
			return v
		}
	}
	return nil
}

// Global returns a package-level variable.
func (p *Prog) Global(rel, name string) *ssa.Global {
	sp := p.Pkg(rel)
	if sp == nil {
		return nil
	}
	return sp.Var(name)
}

// Pos renders a position relative to the repo dir.
func (p *Prog) Pos(pos token.Pos) string {
	if !pos.IsValid() {
		return "-"
	}
	ps := p.Fset.Position(pos)
	f := strings.TrimPrefix(ps.Filename, p.Dir+"/")
	return fmt.Sprintf("%s:%d", f, ps.Line)
}

// FuncsIn lists source functions (with bodies) of a module-relative package, including closures.
func (p *Prog) FuncsIn(rel string) []*ssa.Function {
	var out []*ssa.Function
	want := modPath + "/" + rel
	for _, fn := range p.SrcFns {
		if pk := fnPkg(fn); pk != nil && pk.Pkg.Path() == want {
			out = append(out, fn)
		}
	}
	return out
}

// isTestFile reports whether the function is declared in a _test.go file.
func (p *Prog) isTestFn(fn *ssa.Function) bool {
	pos := fn.Pos()
	for f := fn; !pos.IsValid() && f.Parent() != nil; f = f.Parent() {
		pos = f.Parent().Pos()
	}
	if !pos.IsValid() {
		return false
	}
	return strings.HasSuffix(p.Fset.Position(pos).Filename, "_test.go")
}

// Files returns the syntax files of a package.
func (p *Prog) Files(rel string) []*ast.File {
	pk := p.TPkg(rel)
	if pk == nil {
		return nil
	}
	return pk.Syntax
}

// FuncDecl returns the syntax of a function ("name" or "T.m").
func (p *Prog) FuncDecl(rel, name string) *ast.FuncDecl {
	recv := ""
	if i := strings.Index(name, "."); i >= 0 {
		recv = strings.Trim(name[:i], "(*)")
		name = name[i+1:]
	}
	for _, f := range p.Files(rel) {
		for _, d := range f.Decls {
			fd, ok := d.(*ast.FuncDecl)
			if !ok || fd.Name.Name != name {
				continue
			}
			if recv == "" && fd.Recv == nil {
				return fd
			}
			if recv != "" && fd.Recv != nil && len(fd.Recv.List) == 1 {
				t := fd.Recv.List[0].Type
				if s, ok := t.(*ast.StarExpr); ok {
					t = s.X
				}
				if id, ok := t.(*ast.Ident); ok && id.Name == recv {
					return fd
				}
			}
		}
	}
	return nil
}
