package main

import (
	"fmt"
	"go/constant"
	"go/token"
	"go/types"
	"strings"

	"golang.org/x/tools/go/ssa"
)

func init() {
	register(&propDef{
		id: "C04",
		li: levelInfo{
			Level:       "other",
			Explanation: "Static path and ownership rules on the redirect machinery. R1: in the backend reply dispatcher no path leads from a matched MOVED/ASK (resp. CLUSTERDOWN) prefix to handing that error to the client while the callback is installed; the compared words are the three protocol constants; the prefix is the first word; the callback is invoked synchronously by the reader (ordering of redirected requests). R2: the only construction site of a backend connection installs both callbacks and the constructor applies every option. R3: every path that follows a redirect reaches the slot-refresh trigger. R4: each arm consumes the redirected request exactly once (E-own). R5: in the ASK arm ASKING and the command go to the same address value, ASKING first; a well-formed redirect error is never passed through to the client. Whole migration histories and the interleaving of other traffic between ASKING and the command are not decided. R6 (shared with C14.R6): only a slots refresh writes the routing table - a redirection never changes the owner of a slot. R8 (shared with C02.R3-R5): the terminal drain of a backend connection covers every queue, runs after the reader returned and the writer was joined, and racing enqueues re-test the quit latch. R1 also requires the classification to be dominated by Type == Error. R3 also requires every recognised MOVED/ASK arm to reach the trigger. R9: hook lists own their spare capacity; no lock is held at a join that the joined goroutines need. R10: the router returns an error only when the routing table has no entry for the slot. R11 (shared with C07.R7/C03.R4): the CLUSTER NODES parser, including the reasons for which it may reject a whole view.",
			TrustedBase: []string{"go/ssa", "VTA call graph", "samlint eown.go"},
		},
		run: checkC04,
	})
	techniques["C04"] = "static analysis: must-pass-through / no-bypass path rules on the SSA CFG, ownership typestate, who-may-store on callback fields"
}

func isSetResp(in ssa.Instruction) bool {
	return isMethodCall(in, modPath+"/"+redisPkg, "simpleRequest", "SetResponse") || isMethodCall(in, modPath+"/"+redisPkg, "rawRequest", "SetResponse")
}

// callsThroughField lists call-like instructions whose callee value is loaded from field f.
func (p *Prog) callsThroughField(f *types.Var) []ssa.Instruction {
	var out []ssa.Instruction
	for _, fn := range p.SrcFns {
		if p.isTestFn(fn) {
			continue
		}
		eachInstr(fn, func(_ *ssa.BasicBlock, _ int, in ssa.Instruction) {
			if cc := callOf(in); cc != nil && !cc.IsInvoke() {
				if g, _ := loadedField(cc.Value); g == f {
					out = append(out, in)
				}
			}
		})
	}
	return out
}

func checkC04(c *Ctx) {
	p := c.P
	c.Rule("R1", "interception: a matched MOVED/ASK/CLUSTERDOWN error cannot reach the client while the callback is installed; constants and prefix extraction are right; callback invoked synchronously")
	c.Rule("R2", "callbacks installed: every construction of a backend connection passes the redirect and cluster-down options, and the constructor applies all options")
	c.Rule("R3", "refresh trigger: every path that follows a redirect, and every cluster-down path, reaches triggerSlotsRefresh")
	c.Rule("R4", "resend ownership: each arm consumes the redirected request exactly once")
	c.Rule("R5", "ASK order and pass-through: ASKING then the command to the same address; a well-formed redirect error is never handed to the client")
	c.Rule("R6", "only a slots refresh writes the routing table (shared with C14.R6): a redirection - in particular ASK, which is per command - never changes the owner of a slot")

	onRedir := p.Field(redisPkg, "client", "onRedirection")
	onDown := p.Field(redisPkg, "client", "onClusterDown")
	trigger := p.Func(redisPkg, "(*upstream).triggerSlotsRefresh")
	mrth := p.Func(redisPkg, "(*upstream).MakeRequestToHost")
	if onRedir == nil || onDown == nil || trigger == nil || mrth == nil {
		c.Unresolved("R1", "client.onRedirection / onClusterDown / triggerSlotsRefresh / MakeRequestToHost")
		return
	}
	words := map[string]string{}
	for _, n := range []string{"MOVED", "ASK", "CLUSTERDOWN", "ASKING"} {
		if pk := p.TPkg(redisPkg); pk != nil {
			if o, ok := pk.Types.Scope().Lookup(n).(*types.Const); ok {
				words[n] = strings.Trim(o.Val().ExactString(), "\"")
			}
		}
	}
	for n, want := range map[string]string{"MOVED": "moved", "ASK": "ask", "CLUSTERDOWN": "clusterdown", "ASKING": "asking"} {
		c.Check(strings.EqualFold(words[n], want), "R1", "protocol word "+n, token.NoPos, "constant is \""+words[n]+"\"", "protocol constant "+n+" is \""+words[n]+"\", Redis sends "+strings.ToUpper(want))
	}

	// ---------------- R1: dispatcher
	type cbInfo struct {
		f     *types.Var
		words []string
		name  string
	}
	for _, cb := range []cbInfo{{onRedir, []string{words["MOVED"], words["ASK"]}, "redirect"}, {onDown, []string{words["CLUSTERDOWN"]}, "cluster-down"}} {
		sites := p.callsThroughField(cb.f)
		if len(sites) == 0 {
			c.Fail("R1", cb.name+" callback is invoked", token.NoPos, "nothing ever calls the "+cb.name+" callback: such errors reach the client")
			continue
		}
		for _, site := range sites {
			fn := site.Parent()
			sname := fnKey(fn) + " " + cb.name
			_, isCall := site.(*ssa.Call)
			c.Check(isCall, "R1", sname+" synchronous", site.Pos(), "plain call in the reader goroutine", "the callback is started asynchronously (go/defer): pipelined redirected requests can overtake each other and ASKING/command pairs interleave")
			// matched edges: true edges of EqualFold(prefix, const word)
			type medge struct {
				b *ssa.BasicBlock
				k int
			}
			var matched []*ssa.BasicBlock
			var prefixOK = true
			nfold := 0
			eachInstr(fn, func(b *ssa.BasicBlock, _ int, in ssa.Instruction) {
				call, ok := in.(*ssa.Call)
				if !ok || !(isCallTo(call, "bytes.EqualFold") || isCallTo(call, "strings.EqualFold") || isCallTo(call, "bytes.Equal") || isCallTo(call, "bytes.HasPrefix")) {
					return
				}
				w, isW := constString(stripConv(call.Call.Args[1]))
				if !isW {
					return
				}
				hit := false
				for _, ww := range cb.words {
					if w == ww {
						hit = true
					}
				}
				if !hit {
					return
				}
				nfold++
				if !isCallTo(call, "bytes.EqualFold") && !isCallTo(call, "strings.EqualFold") {
					c.Fail("R1", sname+" case-insensitive match of "+w, call.Pos(), "the error word is compared case-sensitively with \""+w+"\": Redis sends it in upper case, so it is never intercepted")
				}
				// prefix = Text[:Index(Text," ")], possibly computed by a helper
				if !isFirstWord(call.Call.Args[0], 0) {
					prefixOK = false
				}
				for _, r := range *call.Referrers() {
					if iff, ok := r.(*ssa.If); ok {
						matched = append(matched, iff.Block().Succs[0])
					}
				}
			})
			c.Check(nfold == len(cb.words), "R1", sname+" words compared", site.Pos(), fmt.Sprintf("%d comparison(s) against %v", nfold, cb.words), fmt.Sprintf("expected a comparison with each of %v, found %d: an error kind is not intercepted", cb.words, nfold))
			// only error replies are classified: the callback is reached only on the Error side of a test of the reply type
			typeGuard := false
			for _, d := range fn.Blocks {
				iff, ok := d.Instrs[len(d.Instrs)-1].(*ssa.If)
				if !ok {
					continue
				}
				bo, ok := iff.Cond.(*ssa.BinOp)
				if !ok || (bo.Op != token.EQL && bo.Op != token.NEQ) {
					continue
				}
				f, base := loadedField(bo.X)
				if f == nil || f.Name() != "Type" || !modType(base.Type(), redisPkg, "RespValue") {
					continue
				}
				if cv, isC := constInt(bo.Y); !isC || !isErrorTypeConst(p, cv) {
					continue
				}
				k := 0
				if bo.Op == token.NEQ {
					k = 1
				}
				if sb := d.Succs[k]; len(sb.Preds) == 1 && (sb == site.Block() || sb.Dominates(site.Block())) {
					typeGuard = true
				}
			}
			c.Check(typeGuard, "R1", sname+" only error replies are classified", site.Pos(), "the callback is reached only when the reply type is Error", "the redirect / cluster-down classification is applied to replies of any type: a stored value whose text starts with MOVED, ASK or CLUSTERDOWN is treated as a redirection when it is read back - the request is re-sent to the address written inside the value (or fails with a dial error), instead of the value being relayed")
			c.Check(prefixOK, "R1", sname+" prefix is the first word", site.Pos(), "prefix = Text[:Index(Text, \" \")]", "the compared prefix is not exactly the first word of the error text")
			// no bypass: from a matched edge, with callback != nil, no path to SetResponse avoiding the callback call
			var nilFalse map[*ssa.BasicBlock]int = map[*ssa.BasicBlock]int{}
			eachInstr(fn, func(b *ssa.BasicBlock, _ int, in ssa.Instruction) {
				iff, ok := in.(*ssa.If)
				if !ok {
					return
				}
				bo, ok := iff.Cond.(*ssa.BinOp)
				if !ok || !isNilConst(bo.Y) {
					return
				}
				if f, _ := loadedField(bo.X); f == cb.f {
					if bo.Op == token.NEQ {
						nilFalse[b] = 1
					} else if bo.Op == token.EQL {
						nilFalse[b] = 0
					}
				}
			})
			for mi, mb := range matched {
				path := findPath(ipos{mb, -1}, pathQuery{
					target: isSetResp,
					avoid:  func(in ssa.Instruction) bool { return in == site },
					edge: func(b *ssa.BasicBlock, k int) bool {
						if nk, ok := nilFalse[b]; ok && nk == k {
							return false // callback == nil branch: allowed to pass the error on
						}
						return true
					},
				})
				if path != nil {
					c.Fail("R1", fmt.Sprintf("%s no-bypass#%d", sname, mi+1), site.Pos(), "a matched "+cb.name+" error can be handed to the client although the callback is installed: "+p.pathString(path))
				} else {
					c.OK("R1", fmt.Sprintf("%s no-bypass#%d", sname, mi+1), site.Pos(), "every path from the matched prefix (callback installed) reaches the callback before any SetResponse")
				}
			}
		}
	}
	c.Expect("R1", 10)

	// ---------------- R2
	newClient := p.Func(redisPkg, "newClient")
	wr := p.Func(redisPkg, "withRedirectionCb")
	wd := p.Func(redisPkg, "withClusterDownCb")
	if newClient == nil || wr == nil || wd == nil {
		c.Unresolved("R2", "newClient / withRedirectionCb / withClusterDownCb")
	} else {
		n := 0
		for _, ed := range p.callersOf(newClient) {
			n++
			site := "construction in " + fnKey(ed.Caller.Func)
			args := ed.Site.Common().Args
			opts := args[len(args)-1]
			elems, ok, why := p.constElems(opts, 0)
			if !ok {
				c.Undecided("R2", site, ed.Pos(), "options are not a literal list: "+why)
				continue
			}
			hasR, hasD := false, false
			for _, el := range elems {
				if call, ok := el.(*ssa.Call); ok {
					if isCallToFn(call, wr) {
						hasR = true
					}
					if isCallToFn(call, wd) {
						hasD = true
					}
				}
			}
			c.Check(hasR, "R2", site+" redirect option", ed.Pos(), "withRedirectionCb passed", "backend connection is built without the redirect callback: MOVED/ASK errors go straight to clients")
			c.Check(hasD, "R2", site+" cluster-down option", ed.Pos(), "withClusterDownCb passed", "backend connection is built without the cluster-down callback")
		}
		c.Check(n >= 1, "R2", "construction sites", newClient.Pos(), fmt.Sprintf("%d site(s)", n), "no construction site of a backend connection")
		// constructor applies every option: a dynamic call of an element of the options parameter inside a loop over its full range
		applied := false
		var optParam *ssa.Parameter
		for _, prm := range newClient.Params {
			if _, isSl := prm.Type().Underlying().(*types.Slice); isSl {
				optParam = prm
			}
		}
		if optParam != nil {
			for _, h := range loopHeaders(newClient) {
				ls, _ := findCountedLoop(h)
				if ls == nil || !ls.initOK || !isLenOf(ls.bound, optParam) {
					continue
				}
				eachInstr(newClient, func(b *ssa.BasicBlock, _ int, in ssa.Instruction) {
					call, ok := in.(*ssa.Call)
					if !ok || calleeFn(call.Common()) != nil || !h.Dominates(b) {
						return
					}
					if u, ok := call.Call.Value.(*ssa.UnOp); ok {
						if ia, ok := u.X.(*ssa.IndexAddr); ok && ia.X == ssa.Value(optParam) && ia.Index == ls.useIdx {
							applied = true
						}
					}
				})
			}
		}
		c.Check(applied, "R2", "constructor applies every option", newClient.Pos(), "full-range loop calling options[i](c)", "the constructor does not apply every option it is given")
		// the option constructors store their argument into the right field
		for _, pr := range []struct {
			fn *ssa.Function
			f  *types.Var
		}{{wr, onRedir}, {wd, onDown}} {
			ok := false
			for _, a := range withAnon(pr.fn) {
				eachInstr(a, func(_ *ssa.BasicBlock, _ int, in ssa.Instruction) {
					if st, isSt := in.(*ssa.Store); isSt {
						if f, _ := fieldAddr(st.Addr); f == pr.f {
							ok = true
						}
					}
				})
			}
			c.Check(ok, "R2", pr.fn.Name()+" stores into "+pr.f.Name(), pr.fn.Pos(), "stores its argument into the matching field", "the option constructor does not install its callback in client."+pr.f.Name())
		}
	}
	c.Expect("R2", 5)

	// ---------------- R3 / R5 on the callbacks
	redirFns := p.funcsStoredInto(onRedir)
	downFns := p.funcsStoredInto(onDown)
	isTrigger := func(in ssa.Instruction) bool { return isCallToFn(in, trigger) }
	for _, fn := range downFns {
		ok, path := p.mustOnAllPaths(fn, isTrigger, 2)
		if ok {
			c.OK("R3", "cluster-down callback "+fnKey(fn), fn.Pos(), "every path reaches triggerSlotsRefresh")
		} else {
			c.Fail("R3", "cluster-down callback "+fnKey(fn), fn.Pos(), "a CLUSTERDOWN path does not trigger a slots refresh: "+p.pathString(path))
		}
	}
	for _, fn := range redirFns {
		checkRedirectCallback(c, fn, mrth, isTrigger, words)
	}
	c.Check(len(redirFns) >= 1 && len(downFns) >= 1, "R3", "callbacks resolve", token.NoPos, fmt.Sprintf("%d redirect, %d cluster-down", len(redirFns), len(downFns)), "cannot resolve the functions installed as callbacks")
	c.Expect("R3", 3)
	c.Expect("R5", 5)
	checkSlotFill(c, "R6")
	c.Rule("R7", "errors only while the owner is unreachable: a finished connect attempt is not cached (shared with C07.R1), so a node that is back on its address is dialled again")
	if calls := p.Field(redisPkg, "upstream", "createClientCalls"); calls != nil {
		checkSingleflightEntry(c, "R7", calls)
	} else {
		c.Unresolved("R7", "upstream.createClientCalls")
	}
	c.Rule("R9", "a redirected child of a split command still completes its parent (shared with C02.R11 and C02.R9): hook lists own their spare capacity; no lock is held at a join that the joined goroutines need")
	checkAppendableFieldsOwnTheirStorage(c, "R9")
	c.withAlias(map[string]string{"R7": "R9"}, func() { checkWaitForCycles(c) })
	c.Rule("R8", "a connection lost during failover loses no command (shared with C02.R3-R5): the terminal drain covers every queue, runs after the reader returned and the writer was joined, and an enqueue that can race with it re-tests the quit latch")
	c.withAlias(map[string]string{"R3": "R8", "R4": "R8", "R5": "R8"}, func() { checkQueues(c, runOwn(c)) })

	c.Rule("R10", "the router fails only when the routing table has no entry for the slot: with an entry, a node of that entry is returned whatever the read strategy and the number of replicas")
	checkRouterFailsOnlyWithoutOwner(c, "R10")

	c.Rule("R11", "the refresh that heals a stale table accepts every view Redis can print (shared with C07.R7/C03.R4): the CLUSTER NODES parser rejects a view only for a short line, an address without host:port shape or a malformed slot")
	checkClusterNodesParser(c, "R11")

	// ---------------- R4
	e := runOwn(c)
	inScope := map[*ssa.Function]bool{}
	for _, fn := range append(append([]*ssa.Function{}, redirFns...), downFns...) {
		inScope[fn] = true
	}
	for _, site := range append(p.callsThroughField(onRedir), p.callsThroughField(onDown)...) {
		inScope[site.Parent()] = true
	}
	reportOwn(c, e, "R4", func(fn *ssa.Function) bool { return inScope[fn] })
	c.Expect("R4", 3)
}

func checkRedirectCallback(c *Ctx, fn *ssa.Function, mrth *ssa.Function, isTrigger func(ssa.Instruction) bool, words map[string]string) {
	p := c.P
	name := fnKey(fn)
	var reqP, respP *ssa.Parameter
	for _, prm := range fn.Params {
		if isReqType(prm.Type()) {
			reqP = prm
		} else if modType(prm.Type(), redisPkg, "RespValue") {
			respP = prm
		}
	}
	if reqP == nil || respP == nil {
		c.Undecided("R3", name+" signature", fn.Pos(), "callback does not take (request, reply)")
		return
	}
	var sends []*ssa.Call
	eachInstr(fn, func(_ *ssa.BasicBlock, _ int, in ssa.Instruction) {
		if call, ok := in.(*ssa.Call); ok && isCallToFn(call, mrth) {
			sends = append(sends, call)
		}
	})
	// R3: after any resend every path reaches the trigger
	mm := p.deepMatcher(isTrigger, 2)
	for i, s := range sends {
		path := findPath(posOf(s), pathQuery{target: isReturn, avoid: mm})
		site := fmt.Sprintf("%s resend#%d reaches trigger", name, i+1)
		if path != nil {
			c.Fail("R3", site, s.Pos(), "after following a redirect a path returns without triggering a slots refresh (routing never converges): "+p.pathString(path))
		} else {
			c.OK("R3", site, s.Pos(), "every path after the resend reaches triggerSlotsRefresh")
		}
	}
	// keyword comparisons on the lower-cased first word
	type kw struct {
		word string
		iff  *ssa.If
	}
	var kws []kw
	var splitVal ssa.Value
	eachInstr(fn, func(_ *ssa.BasicBlock, _ int, in ssa.Instruction) {
		if call, ok := in.(*ssa.Call); ok && isCallTo(call, "strings.Split") {
			splitVal = call
		}
		bo, ok := in.(*ssa.BinOp)
		if !ok || bo.Op != token.EQL {
			return
		}
		w, isW := constString(bo.Y)
		if !isW {
			return
		}
		for _, r := range *bo.Referrers() {
			if iff, ok := r.(*ssa.If); ok {
				kws = append(kws, kw{w, iff})
			}
		}
	})
	armBlock := func(word string) *ssa.BasicBlock {
		for _, k := range kws {
			if k.word == word {
				return k.iff.Block().Succs[0]
			}
		}
		return nil
	}
	// address = parts[2] with a length witness
	addrOK := func(v ssa.Value) bool {
		u, ok := v.(*ssa.UnOp)
		if !ok {
			return false
		}
		ia, ok := u.X.(*ssa.IndexAddr)
		if !ok || ia.X != splitVal {
			return false
		}
		k, isC := constInt(ia.Index)
		return isC && k == 2
	}
	movedB, askB := armBlock(words["MOVED"]), armBlock(words["ASK"])
	if movedB == nil || askB == nil {
		c.Fail("R5", name+" arms", fn.Pos(), "the redirect callback does not distinguish MOVED and ASK by comparing the first word with the protocol constants")
		return
	}
	// once a redirection is recognised the refresh is triggered whatever happens to the resend (a target that refuses
	// the connection is exactly the situation in which the table is stale)
	for _, arm := range []struct {
		w string
		b *ssa.BasicBlock
	}{{"MOVED", movedB}, {"ASK", askB}} {
		path := findPath(ipos{arm.b, -1}, pathQuery{target: isReturn, avoid: mm})
		site := fmt.Sprintf("%s %s arm reaches trigger", name, arm.w)
		if path != nil {
			c.Fail("R3", site, arm.b.Instrs[0].Pos(), "a recognised "+arm.w+" redirection can end without triggering a slots refresh ("+p.pathString(path)+"): when the new owner refuses or times out the connect the table stays on the old layout until the periodic refresh")
		} else {
			c.OK("R3", site, arm.b.Instrs[0].Pos(), "every path from the recognised redirection reaches triggerSlotsRefresh")
		}
	}
	inArm := func(b, arm *ssa.BasicBlock) bool { return b == arm || arm.Dominates(b) }
	var movedSends, askSends []*ssa.Call
	for _, s := range sends {
		switch {
		case inArm(s.Block(), movedB):
			movedSends = append(movedSends, s)
		case inArm(s.Block(), askB):
			askSends = append(askSends, s)
		default:
			c.Fail("R5", name+" resend outside an arm", s.Pos(), "a resend happens outside the MOVED and ASK arms")
		}
	}
	okMoved := len(movedSends) == 1 && movedSends[0].Call.Args[2] == ssa.Value(reqP) && addrOK(movedSends[0].Call.Args[1])
	c.Check(okMoved, "R5", name+" MOVED arm", movedB.Instrs[0].Pos(), "one resend of the request to word 3 of the error", "the MOVED arm does not resend the request exactly once to the address given in the error")
	okAsk := len(askSends) == 2
	if okAsk {
		a, b := askSends[0], askSends[1]
		if !instrDominates(a, b) {
			a, b = b, a
		}
		okAsk = instrDominates(a, b) && a.Call.Args[1] == b.Call.Args[1] && addrOK(a.Call.Args[1]) && b.Call.Args[2] == ssa.Value(reqP)
		// a's request is a fresh ["asking"] request
		if okAsk {
			isAsking := derives(a.Call.Args[2], func(v ssa.Value) bool { return false })
			_ = isAsking
			call, isCall := a.Call.Args[2].(*ssa.Call)
			okAsk = isCall && calleeFn(call.Common()) != nil && calleeFn(call.Common()).Name() == "newSimpleRequest"
			if okAsk {
				found := false
				var walk func(v ssa.Value, d int)
				walk = func(v ssa.Value, d int) {
					if d > 8 || v == nil {
						return
					}
					if s, ok := constString(v); ok && strings.EqualFold(s, words["ASKING"]) {
						found = true
					}
					switch x := v.(type) {
					case *ssa.Call:
						for _, ar := range x.Call.Args {
							walk(ar, d+1)
						}
					case *ssa.Slice:
						walk(x.X, d+1)
					case *ssa.UnOp:
						walk(x.X, d+1)
					case *ssa.Alloc:
						for _, r := range *x.Referrers() {
							if ia, ok := r.(*ssa.IndexAddr); ok {
								for _, rr := range *ia.Referrers() {
									if st, ok := rr.(*ssa.Store); ok && st.Addr == ssa.Value(ia) {
										walk(st.Val, d+1)
									}
								}
							}
						}
					case *ssa.Convert:
						walk(x.X, d+1)
					}
				}
				walk(call.Call.Args[0], 0)
				okAsk = found
			}
		}
	}
	c.Check(okAsk, "R5", name+" ASK arm", askB.Instrs[0].Pos(), "ASKING then the command, same address value, ASKING first", "the ASK arm does not send a fresh ASKING request and then the command to the same address, in that order")
	// address index witness
	bc := newBoundsCtx(p, fn)
	nidx := 0
	eachInstr(fn, func(_ *ssa.BasicBlock, _ int, in ssa.Instruction) {
		ia, ok := in.(*ssa.IndexAddr)
		if !ok || ia.X != splitVal {
			return
		}
		nidx++
		ok2, w := bc.proveIndex(ia, ia.X, ia.Index)
		site := fmt.Sprintf("%s word index#%d", name, nidx)
		if ok2 {
			c.OK("R5", site, ia.Pos(), w)
		} else {
			c.Fail("R5", site, ia.Pos(), "a word of the backend's error text is indexed without a length witness (\"-MOVED 1\" crashes the proxy): "+w)
		}
	})
	// pass-through: SetResponse(resp) only behind a validation-failure edge
	lastKwFalse := map[*ssa.BasicBlock]bool{}
	for _, k := range kws {
		fs := k.iff.Block().Succs[1]
		chained := false
		for _, k2 := range kws {
			if k2.iff.Block() == fs {
				chained = true
			}
		}
		if !chained {
			lastKwFalse[k.iff.Block()] = true
		}
	}
	lenFail := map[*ssa.BasicBlock]int{}
	eachInstr(fn, func(b *ssa.BasicBlock, _ int, in ssa.Instruction) {
		iff, ok := in.(*ssa.If)
		if !ok {
			return
		}
		bo, ok := iff.Cond.(*ssa.BinOp)
		if !ok {
			return
		}
		call, ok := bo.X.(*ssa.Call)
		if !ok || !isBuiltin(call, "len") || call.Call.Args[0] != splitVal {
			return
		}
		if _, isC := constInt(bo.Y); !isC {
			return
		}
		switch bo.Op {
		case token.NEQ, token.LSS, token.LEQ, token.GTR:
			lenFail[b] = 0
		case token.EQL, token.GEQ:
			lenFail[b] = 1
		}
	})
	npass := 0
	eachInstr(fn, func(_ *ssa.BasicBlock, _ int, in ssa.Instruction) {
		if !isSetResp(in) {
			return
		}
		cc := callOf(in)
		if cc.Args[0] != ssa.Value(reqP) || cc.Args[1] != ssa.Value(respP) {
			return
		}
		npass++
		path := findPath(entryPos(fn), pathQuery{
			target: func(x ssa.Instruction) bool { return x == in },
			edge: func(b *ssa.BasicBlock, k int) bool {
				if fk, ok := lenFail[b]; ok && fk == k {
					return false
				}
				if lastKwFalse[b] && k == 1 {
					return false
				}
				return true
			},
		})
		site := fmt.Sprintf("%s pass-through#%d", name, npass)
		if path != nil {
			c.Fail("R5", site, in.Pos(), "a well-formed MOVED/ASK error can be handed to the client ("+p.pathString(path)+"): clients must never see a redirection")
		} else {
			c.OK("R5", site, in.Pos(), "the error is passed through only when it is malformed (wrong word count / neither MOVED nor ASK)")
		}
	})
}

// isFirstWord: the value is Text[:Index(Text, " ")] (nil when there is no space), directly, through a phi, or as the
// result of a module helper all of whose returns are that.
func isFirstWord(v ssa.Value, depth int) bool {
	if depth > 3 {
		return false
	}
	switch x := v.(type) {
	case *ssa.Slice:
		if x.Low != nil || x.High == nil {
			return false
		}
		ic, ok := x.High.(*ssa.Call)
		return ok && (isCallTo(ic, "bytes.Index") || isCallTo(ic, "bytes.IndexByte"))
	case *ssa.Phi:
		n := 0
		for _, ed := range x.Edges {
			if isNilConst(ed) {
				continue
			}
			n++
			if !isFirstWord(ed, depth+1) {
				return false
			}
		}
		return n > 0
	case *ssa.Call:
		g := calleeFn(x.Common())
		if g == nil || !isModFn(g) || g.Blocks == nil {
			return false
		}
		ok, n := true, 0
		eachInstr(g, func(_ *ssa.BasicBlock, _ int, in ssa.Instruction) {
			if ret, isRet := in.(*ssa.Return); isRet && len(ret.Results) == 1 {
				if isNilConst(returnedValues(ret)[0]) {
					return
				}
				n++
				if !isFirstWord(returnedValues(ret)[0], depth+1) {
					ok = false
				}
			}
		})
		return ok && n > 0
	}
	return false
}

// isErrorTypeConst: cv is the value of the RespType constant named Error.
func isErrorTypeConst(p *Prog, cv int64) bool {
	pk := p.TPkg(redisPkg)
	if pk == nil {
		return false
	}
	if k, ok := pk.Types.Scope().Lookup("Error").(*types.Const); ok {
		if v, isI := constant.Int64Val(k.Val()); isI {
			return v == cv
		}
	}
	return false
}

// checkRouterFailsOnlyWithoutOwner (C04.R10): the function that picks the node for a key fails only when the
// routing table has no entry for the key's slot. With an entry the owner is known and - whatever the read strategy and
// however many replicas the entry lists - a node of that entry is returned: a read for a slot whose owner has no
// replica (after a failover, or a freshly added master) is answered with an error by the proxy although the owner is
// reachable, and no redirect can heal it because the request never leaves the proxy.
func checkRouterFailsOnlyWithoutOwner(c *Ctx, rule string) {
	p := c.P
	slotsF := p.Field(redisPkg, "upstream", "slots")
	if slotsF == nil {
		c.Unresolved(rule, "upstream.slots")
		return
	}
	var choosers []*ssa.Function
	for _, a := range p.fieldAccesses(slotsF) {
		if _, ok := a.In.(*ssa.IndexAddr); ok && !a.Write && !p.isTestFn(a.Fn) {
			dup := false
			for _, f := range choosers {
				dup = dup || f == a.Fn
			}
			if !dup {
				choosers = append(choosers, a.Fn)
			}
		}
	}
	n := 0
	for _, fn := range choosers {
		res := fn.Signature.Results()
		if res.Len() == 0 {
			continue
		}
		if _, isErr := res.At(res.Len() - 1).Type().Underlying().(*types.Interface); !isErr {
			continue
		}
		isEntry := func(v ssa.Value) bool {
			u, ok := v.(*ssa.UnOp)
			if !ok {
				return false
			}
			ia, ok := u.X.(*ssa.IndexAddr)
			if !ok {
				return false
			}
			f, _ := fieldAddr(ia.X)
			return f == slotsF
		}
		nr := 0
		eachInstr(fn, func(b *ssa.BasicBlock, _ int, in ssa.Instruction) {
			ret, ok := in.(*ssa.Return)
			if !ok {
				return
			}
			nr++
			n++
			site := fmt.Sprintf("%s return#%d fails only without an entry", fnKey(fn), nr)
			vals := returnedValues(ret)
			errV := vals[len(vals)-1]
			if isNilConst(errV) {
				c.OK(rule, site, ret.Pos(), "returns a nil error")
				return
			}
			noEntry := false
			for _, a := range atomsAt(b, 0) {
				if a.cmp == nil || !isNilConst(a.cmp.Y) || !isEntry(a.cmp.X) {
					continue
				}
				if (a.cmp.Op == token.EQL) == a.truth {
					noEntry = true
				}
			}
			c.Check(noEntry, rule, site, ret.Pos(), "an error (or the result of the seed-host fallback) is returned only on the entry == nil side", "the router can return an error although the routing table has an entry for the slot: the owner is known and reachable, but the command is answered with an error by the proxy - e.g. a read under the REPLICA strategy for an owner that has no replica (after a failover, a newly added master); no redirect heals it, the request never leaves the proxy")
		})
	}
	if n == 0 {
		c.Unresolved(rule, "no function with an error result reads upstream.slots[i]")
	}
}
