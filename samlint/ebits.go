package main

import (
	"fmt"
	"go/token"
	"go/types"

	"golang.org/x/tools/go/ssa"
)

// E-bits: GF(2)-affine abstract interpretation of straight-line integer code.
// A value is 64 bit positions; each position holds an affine form over at most 63 named
// input bits: bit v (0..62) set = input variable v occurs, bit 63 = the constant 1.

type bform struct{ lo, hi uint64 }

// up to 127 input variables; the top bit of hi is the constant 1.
var bconst = bform{0, 1 << 63}
var bzero = bform{}

func bvar(v int) bform {
	if v < 64 {
		return bform{1 << uint(v), 0}
	}
	return bform{0, 1 << uint(v-64)}
}
func (a bform) xor(b bform) bform { return bform{a.lo ^ b.lo, a.hi ^ b.hi} }
func (a bform) or(b bform) bform  { return bform{a.lo | b.lo, a.hi | b.hi} }
func (a bform) zero() bool        { return a.lo == 0 && a.hi == 0 }
func (a bform) String() string    { return fmt.Sprintf("%#x:%#x", a.hi, a.lo) }

type bvec struct {
	b [64]bform
	w int // width in bits of the value's type (bits >= w are zero)
}

func bvConst(c uint64, w int) bvec {
	var v bvec
	v.w = w
	for k := 0; k < w && k < 64; k++ {
		if c>>uint(k)&1 == 1 {
			v.b[k] = bconst
		}
	}
	return v
}

// bvInput makes a w-bit value whose bit k is input variable base+k.
func bvInput(base, w int) bvec {
	var v bvec
	v.w = w
	for k := 0; k < w; k++ {
		v.b[k] = bvar(base + k)
	}
	return v
}

func (v bvec) trunc(w int) bvec {
	for k := w; k < 64; k++ {
		v.b[k] = bzero
	}
	v.w = w
	return v
}

func (v bvec) isConst() (uint64, bool) {
	var c uint64
	for k := 0; k < 64; k++ {
		switch v.b[k] {
		case bzero:
		case bconst:
			c |= 1 << uint(k)
		default:
			return 0, false
		}
	}
	return c, true
}

func (v bvec) String() string {
	s := ""
	for k := 0; k < v.w; k++ {
		s += fmt.Sprintf("[%d:%s]", k, v.b[k])
	}
	return s
}

func uintWidth(t types.Type) (int, bool) {
	b, ok := t.Underlying().(*types.Basic)
	if !ok {
		return 0, false
	}
	switch b.Kind() {
	case types.Uint8:
		return 8, true
	case types.Uint16:
		return 16, true
	case types.Uint32:
		return 32, true
	case types.Uint64, types.Uint, types.Uintptr:
		return 64, true
	}
	return 0, false
}

// bitsEnv evaluates SSA values to affine bit vectors.
type bitsEnv struct {
	p      *Prog
	known  map[ssa.Value]bvec
	table  func(g *ssa.Global) ([]uint64, bool) // constant linear tables
	why    string                               // reason of the last failure
	inline int
}

func (e *bitsEnv) fail(format string, a ...interface{}) (bvec, bool) {
	e.why = fmt.Sprintf(format, a...)
	return bvec{}, false
}

func (e *bitsEnv) eval(v ssa.Value) (bvec, bool) {
	if r, ok := e.known[v]; ok {
		return r, true
	}
	r, ok := e.eval1(v)
	if ok {
		e.known[v] = r
	}
	return r, ok
}

func (e *bitsEnv) eval1(v ssa.Value) (bvec, bool) {
	switch x := v.(type) {
	case *ssa.Const:
		w, ok := uintWidth(x.Type())
		if !ok {
			// untyped/signed shift counts etc.
			if c, isC := constInt(x); isC && c >= 0 {
				return bvConst(uint64(c), 64), true
			}
			return e.fail("constant of non-unsigned type %s", x.Type())
		}
		c, _ := constInt(x)
		return bvConst(uint64(c), w), true
	case *ssa.Convert:
		w, ok := uintWidth(x.Type())
		if !ok {
			return e.fail("conversion to non-unsigned type %s", x.Type())
		}
		if _, ok := uintWidth(x.X.Type()); !ok {
			return e.fail("conversion from non-unsigned type %s", x.X.Type())
		}
		in, ok := e.eval(x.X)
		if !ok {
			return in, false
		}
		return in.trunc(w), true // zero-extension or truncation
	case *ssa.ChangeType:
		return e.eval(x.X)
	case *ssa.BinOp:
		w, ok := uintWidth(x.Type())
		if !ok {
			return e.fail("binary op on non-unsigned type %s", x.Type())
		}
		a, ok := e.eval(x.X)
		if !ok {
			return a, false
		}
		b, ok := e.eval(x.Y)
		if !ok {
			return b, false
		}
		var r bvec
		r.w = w
		switch x.Op {
		case token.XOR:
			for k := 0; k < w; k++ {
				r.b[k] = a.b[k].xor(b.b[k])
			}
			return r, true
		case token.AND, token.AND_NOT:
			ca, aok := a.isConst()
			cb, bok := b.isConst()
			if x.Op == token.AND_NOT {
				if !bok {
					return e.fail("&^ with a non-constant mask")
				}
				cb = ^cb
				aok = false
			}
			switch {
			case bok:
				for k := 0; k < w; k++ {
					if cb>>uint(k)&1 == 1 {
						r.b[k] = a.b[k]
					}
				}
			case aok:
				for k := 0; k < w; k++ {
					if ca>>uint(k)&1 == 1 {
						r.b[k] = b.b[k]
					}
				}
			default:
				// bitwise AND of two non-constant forms is non-linear unless one side is zero per bit
				for k := 0; k < w; k++ {
					if a.b[k].zero() || b.b[k].zero() {
						continue
					}
					if a.b[k] == b.b[k] {
						r.b[k] = a.b[k]
						continue
					}
					return e.fail("non-linear AND of two input-dependent values")
				}
			}
			return r, true
		case token.OR:
			for k := 0; k < w; k++ {
				switch {
				case a.b[k].zero():
					r.b[k] = b.b[k]
				case b.b[k].zero():
					r.b[k] = a.b[k]
				case a.b[k] == b.b[k]:
					r.b[k] = a.b[k]
				default:
					return e.fail("non-linear OR of overlapping input-dependent bits")
				}
			}
			return r, true
		case token.SHL, token.SHR:
			cb, bok := b.isConst()
			if !bok {
				return e.fail("shift by a non-constant amount")
			}
			for k := 0; k < w; k++ {
				var src int
				if x.Op == token.SHL {
					src = k - int(cb)
				} else {
					src = k + int(cb)
				}
				if src >= 0 && src < a.w && src < 64 {
					r.b[k] = a.b[src]
				}
			}
			return r, true
		case token.ADD, token.SUB:
			if cb, bok := b.isConst(); bok && cb == 0 {
				return a.trunc(w), true
			}
			if ca, aok := a.isConst(); aok && ca == 0 && x.Op == token.ADD {
				return b.trunc(w), true
			}
			// disjoint supports: a + b == a | b when no position has both non-zero
			if x.Op == token.ADD {
				disj := true
				for k := 0; k < w; k++ {
					if !a.b[k].zero() && !b.b[k].zero() {
						disj = false
					}
				}
				if disj {
					for k := 0; k < w; k++ {
						r.b[k] = a.b[k].or(b.b[k])
					}
					return r, true
				}
			}
			return e.fail("arithmetic %s is not GF(2)-affine", x.Op)
		}
		return e.fail("operator %s is not GF(2)-affine", x.Op)
	case *ssa.UnOp:
		if x.Op == token.XOR { // ^x
			w, ok := uintWidth(x.Type())
			if !ok {
				return e.fail("complement on non-unsigned type")
			}
			a, ok := e.eval(x.X)
			if !ok {
				return a, false
			}
			for k := 0; k < w; k++ {
				a.b[k] = a.b[k].xor(bconst)
			}
			return a, true
		}
		if x.Op != token.MUL {
			return e.fail("unary %s", x.Op)
		}
		// table lookup *(&T[idx])
		ia, ok := x.X.(*ssa.IndexAddr)
		if !ok {
			return e.fail("load that is not a table lookup: %s", x.X)
		}
		g, ok := ia.X.(*ssa.Global)
		if !ok {
			return e.fail("lookup in something other than a package-level table")
		}
		tab, ok := e.table(g)
		if !ok {
			return e.fail("table %s is not a verified constant GF(2)-linear table", g.Name())
		}
		idx, ok := e.eval(ia.Index)
		if !ok {
			return idx, false
		}
		w, ok := uintWidth(x.Type())
		if !ok {
			return e.fail("table element type is not unsigned")
		}
		nb := 0
		for 1<<uint(nb) < len(tab) {
			nb++
		}
		if 1<<uint(nb) != len(tab) {
			return e.fail("table length %d is not a power of two", len(tab))
		}
		for k := nb; k < 64; k++ {
			if !idx.b[k].zero() {
				return e.fail("table index bit %d is not provably zero (index may exceed the table)", k)
			}
		}
		var r bvec
		r.w = w
		for j := 0; j < nb; j++ {
			row := tab[1<<uint(j)]
			for k := 0; k < w; k++ {
				if row>>uint(k)&1 == 1 {
					r.b[k] = r.b[k].xor(idx.b[j])
				}
			}
		}
		return r, true
	case *ssa.Call:
		// inline single-block pure helpers
		f := calleeFn(x.Common())
		if f == nil || f.Blocks == nil || len(f.Blocks) != 1 || e.inline > 4 {
			return e.fail("call to %s cannot be inlined into the affine evaluation", calleeName(x.Common()))
		}
		ret, ok := f.Blocks[0].Instrs[len(f.Blocks[0].Instrs)-1].(*ssa.Return)
		if !ok || len(ret.Results) != 1 {
			return e.fail("helper %s has no single result", f.Name())
		}
		for _, in := range f.Blocks[0].Instrs {
			switch in.(type) {
			case *ssa.Store, *ssa.MapUpdate, *ssa.Send, *ssa.Go, *ssa.Defer:
				return e.fail("helper %s has side effects", f.Name())
			}
		}
		sub := &bitsEnv{p: e.p, known: map[ssa.Value]bvec{}, table: e.table, inline: e.inline + 1}
		for i, prm := range f.Params {
			a, ok := e.eval(x.Call.Args[i])
			if !ok {
				return a, false
			}
			sub.known[prm] = a
		}
		r, ok := sub.eval(returnedValues(ret)[0])
		if !ok {
			e.why = "in helper " + f.Name() + ": " + sub.why
		}
		return r, ok
	}
	return e.fail("unsupported instruction %T (%s)", v, v)
}
