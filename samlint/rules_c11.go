package main

import (
	"fmt"
	"go/token"
	"go/types"
	"sort"
	"strings"

	"golang.org/x/tools/go/ssa"
)

func init() {
	register(&propDef{
		id: "C11",
		li: levelInfo{
			Level:       "other",
			Explanation: "Static panic-freedom obligations in the untrusted-input cone (everything reachable from the downstream decode loop, the backend decode loop and the slot refresh, inside proc/redis). R1: every index and slice expression on a slice or string in the cone has a zone-domain witness (dominating length guards, loop bounds, literal lengths, and a short table of data-structure invariants each of which is itself checked where it is established). R2: a pointer obtained from a map lookup is dereferenced only behind the comma-ok form or a nil test. R3: every allocation whose size derives from decoded input is dominated by lower and upper limit tests. R4: every call-graph cycle in the cone that consumes input carries a depth counter compared with a constant; cycles that only walk already decoded values are bounded by that. R5: every loop whose trip count derives from integers parsed out of untrusted text is dominated by a range check against constants. R6: no non-comma-ok type assertion on input-derived values and no explicit panic in the cone. R7: a decode error ends the read loop and the session closes its connection on every exit. The fixed-buffer window invariant of the buffered reader (0 <= r <= w <= len(buf)) is assumed, memory high-water marks and panics inside third-party code are not decided. R4 decides the depth bound of input-consuming recursion by a counter-discipline analysis: a net effect per function consistent on all paths (constant propagation of the counter delta, defers included), no call into the cycle at a negative delta, every counted call behind a `counter < const` guard, and no cycle of calls made at delta 0. R1 also evaluates the hash-tag decision tree (shared with C12.O4) for the routing helper. R8: exactly-once ownership (E-own) of the requests handled in the backend-reply cone - an unanswered request wedges its connection. R9: every loop in the input cone is a range loop, a counted loop, a loop that consumes its slice, or a loop that waits for input in every iteration. R10 (shared with C07.R1): the in-flight connect entry is finished and deleted on every path. R11 (shared with C18.R2): the node index taken from a SCAN cursor is tested against the length of the list it indexes.",
			Assumptions: []string{"buffered reader window invariant 0 <= r <= w <= len(buf) (bufio.go internals are not keyed)", "x + const does not overflow"},
			TrustedBase: []string{"go/ssa", "VTA call graph", "samlint ebounds.go + zone.go"},
		},
		run: checkC11,
	})
	techniques["C11"] = "static analysis: zone-domain (difference-bound) abstract interpretation of index/slice/allocation obligations over the input cone, SCC recursion-depth rule, nil-dereference rule on map lookups"
}

// cone computes the functions of proc/redis reachable from the three input entry points.
func inputCone(p *Prog) []*ssa.Function {
	roots := []*ssa.Function{
		p.Func(redisPkg, "(*session).loopRead"),
		p.Func(redisPkg, "(*session).loopWrite"),
		p.Func(redisPkg, "(*client).loopRead"),
		p.Func(redisPkg, "(*client).loopWrite"),
		p.Func(redisPkg, "(*upstream).doSlotsRefresh"),
	}
	reach := p.reachable(roots, nil)
	var out []*ssa.Function
	for fn := range reach {
		if fn.Blocks == nil || p.isTestFn(fn) {
			continue
		}
		pk := fnPkg(fn)
		if pk == nil || pk.Pkg.Path() != modPath+"/"+redisPkg {
			continue
		}
		out = append(out, fn)
	}
	sort.Slice(out, func(i, j int) bool { return fnKey(out[i]) < fnKey(out[j]) })
	return out
}

// bufio internals whose window invariant is assumed
func isReaderInternal(fn *ssa.Function) bool {
	if fn.Signature.Recv() == nil {
		return false
	}
	return modType(fn.Signature.Recv().Type(), redisPkg, "Reader") || modType(fn.Signature.Recv().Type(), redisPkg, "sliceAlloc")
}

func checkC11(c *Ctx) {
	p := c.P
	c.Rule("R1", "index/slice obligations in the input cone have zone witnesses")
	c.Rule("R2", "no dereference of an unchecked map-lookup result")
	c.Rule("R3", "input-sized allocations are dominated by lower and upper limit tests")
	c.Rule("R4", "input-consuming recursion carries a depth bound")
	c.Rule("R5", "loops driven by integers parsed from untrusted text are range-checked against constants")
	c.Rule("R6", "no bare type assertion on input and no explicit panic in the cone")
	c.Rule("R7", "decode error ends the loop; the session closes its connection on every exit")

	cone := inputCone(p)
	c.Note("input cone: %d functions of proc/redis", len(cone))
	if len(cone) < 40 {
		c.Unresolved("R1", fmt.Sprintf("input cone has only %d functions", len(cone)))
	}
	inv := newC11Invariants(c)

	// ---------------- R1
	nIdx := 0
	for _, fn := range cone {
		if isReaderInternal(fn) || inBufioFile(p, fn) {
			continue
		}
		if fn.Name() == "crc16" || fn.Name() == "hashtag" {
			continue // decided bit-exactly / over all orderings by C12.O2 and C12.O4
		}
		bc := newBoundsCtx(p, fn)
		inv.install(bc, fn)
		perFn := map[string]int{}
		eachInstr(fn, func(_ *ssa.BasicBlock, _ int, in ssa.Instruction) {
			var base, idx ssa.Value
			var sl *ssa.Slice
			switch x := in.(type) {
			case *ssa.IndexAddr:
				base, idx = x.X, x.Index
			case *ssa.Index:
				base, idx = x.X, x.Index
			case *ssa.Slice:
				sl = x
				base = x.X
			case *ssa.Lookup:
				if _, isStr := x.X.Type().Underlying().(*types.Basic); isStr {
					base, idx = x.X, x.Index
				} else {
					return
				}
			default:
				return
			}
			// varargs / literal arrays built in this function with constant indices are trivially fine
			if _, isAlloc := base.(*ssa.Alloc); isAlloc && sl == nil {
				if _, isC := constInt(idx); isC {
					return
				}
			}
			if !c11InScope(base, idx, sl) {
				return
			}
			nIdx++
			desc := describeAccess(base, idx, sl)
			perFn[desc]++
			site := fmt.Sprintf("%s %s", fnKey(fn), desc)
			if perFn[desc] > 1 {
				site = fmt.Sprintf("%s #%d", site, perFn[desc])
			}
			var ok bool
			var w string
			if sl != nil {
				ok, w = bc.proveSlice(sl)
			} else {
				ok, w = bc.proveIndex(in, base, idx)
				if !ok {
					if ok2, w2 := inv.stridedIndex(bc, fn, in, base, idx); ok2 {
						ok, w = true, w2
					}
					if ok2, w2 := inv.scaledIndex(bc, fn, in, base, idx); ok2 {
						ok, w = true, w2
					}
				}
			}
			if ok {
				c.OK("R1", site, in.Pos(), w)
			} else {
				c.Fail("R1", site, in.Pos(), "no length witness for this access on data whose shape a peer controls ("+w+"): a crafted request or backend reply panics the goroutine and with it the whole proxy")
			}
		})
	}
	c.Note("index/slice sites examined: %d", nIdx)
	inv.verify()
	c.Expect("R1", 40)

	// ---------------- R2
	nLk := 0
	for _, fn := range cone {
		eachInstr(fn, func(_ *ssa.BasicBlock, _ int, in ssa.Instruction) {
			lk, ok := in.(*ssa.Lookup)
			if !ok || lk.CommaOk {
				return
			}
			if _, isMap := lk.X.Type().Underlying().(*types.Map); !isMap {
				return
			}
			if _, isPtr := lk.Type().Underlying().(*types.Pointer); !isPtr {
				return
			}
			// dereferences: FieldAddr / method calls with lk as receiver, not dominated by lk != nil
			for _, r := range *lk.Referrers() {
				deref := false
				switch y := r.(type) {
				case *ssa.FieldAddr:
					deref = y.X == ssa.Value(lk)
				case *ssa.UnOp:
					deref = y.Op == token.MUL && y.X == ssa.Value(lk)
				}
				if !deref {
					continue
				}
				nLk++
				site := fmt.Sprintf("%s deref of map lookup %s", fnKey(fn), accessPathOr(lk.X))
				okNil := false
				for _, rr := range *lk.Referrers() {
					if bo, ok := rr.(*ssa.BinOp); ok && isNilConst(bo.Y) && (bo.Op == token.NEQ || bo.Op == token.EQL) {
						if condEdge(r.Block(), bo, bo.Op == token.NEQ) {
							okNil = true
						}
					}
				}
				if okNil {
					c.OK("R2", site, r.Pos(), "dominated by a nil test")
				} else {
					c.Fail("R2", site, r.Pos(), "the result of a map lookup keyed by peer-supplied text is dereferenced without the comma-ok form or a nil test: an unknown key (e.g. a replica line naming a master that is not listed) crashes the proxy")
				}
			}
		})
	}
	if nLk == 0 {
		c.OK("R2", "no bare pointer-valued map lookup is dereferenced in the cone", token.NoPos, fmt.Sprintf("%d functions scanned", len(cone)))
	}

	// ---------------- R3
	for _, fn := range cone {
		if isReaderInternal(fn) || inBufioFile(p, fn) {
			continue
		}
		bc := newBoundsCtx(p, fn)
		inv.install(bc, fn)
		n := 0
		eachInstr(fn, func(b *ssa.BasicBlock, _ int, in ssa.Instruction) {
			mk, ok := in.(*ssa.MakeSlice)
			if !ok {
				return
			}
			for _, sz := range []ssa.Value{mk.Len, mk.Cap} {
				if _, isC := constInt(sz); isC {
					continue
				}
				n++
				t := bc.term(sz)
				z := bc.zoneAt(b)
				site := fmt.Sprintf("%s make#%d size", fnKey(fn), n)
				lo := z.entLE(lconst(0), t)
				// upper bound: some constant, or the length of an existing container (already bounded)
				hi := false
				for _, k := range []int64{1 << 10, 1 << 20, 1 << 30} {
					if z.entLE(t, lconst(k)) {
						hi = true
					}
				}
				if strings.HasPrefix(t.v, "len:") || strings.HasPrefix(t.v, "buflen:") {
					hi = true
				}
				if !hi {
					// t <= len(something)?
					for name := range z.idx {
						if strings.HasPrefix(name, "len:") && z.entLE(t, lterm{name, 0}) {
							hi = true
						}
					}
				}
				if lo && hi {
					c.OK("R3", site, mk.Pos(), "0 <= size and size bounded by a constant or by an existing container")
				} else {
					c.Fail("R3", site, mk.Pos(), fmt.Sprintf("allocation sized by decoded input without a dominating limit (lower bound %v, upper bound %v): a negative size panics, a huge one exhausts memory", lo, hi))
				}
			}
		})
	}
	c.Expect("R3", 3)

	// the routing helpers skipped above: their index/slice safety is the C12 decision (crc16 fold, hash-tag tree)
	c.withAlias(map[string]string{"O1": "R1", "O2": "R1", "O3": "R1", "O4": "R1", "O5": "R1"}, func() {
		if tagFn := p.Func(redisPkg, "hashtag"); tagFn != nil {
			checkHashTag(c, tagFn)
		} else {
			c.Unresolved("O4", "hashtag")
		}
	})
	// nobody answers = wedged: exactly-once ownership of the requests handled in the backend-reply cone
	c.Rule("R8", "every request handled by a backend-reply callback is completed exactly once on every path (E-own restricted to the input cone; shared with C02.R1)")
	func() {
		e := runOwn(c)
		inCone := map[*ssa.Function]bool{}
		for _, f := range cone {
			inCone[f] = true
		}
		reportOwn(c, e, "R8", func(fn *ssa.Function) bool { return inCone[topFn(fn)] })
	}()

	// ---------------- R4
	checkRecursion(c, cone)
	c.Rule("R10", "a malformed address in a redirection cannot wedge a backend connection (shared with C07.R1): the in-flight connect entry is finished and deleted on every path, also the early ones")
	if calls := p.Field(redisPkg, "upstream", "createClientCalls"); calls != nil {
		checkSingleflightEntry(c, "R10", calls)
	} else {
		c.Unresolved("R10", "upstream.createClientCalls")
	}
	c.Rule("R11", "a SCAN cursor cannot index past the node list (shared with C18.R2): the node index taken from the cursor is tested against the length of the list it indexes")
	c.withAlias(map[string]string{"R2": "R11", "R1": "", "R3": "", "R4": "", "R5": "", "R6": "", "R7": "", "R8": "", "R9": "", "R10": "", "R11": ""}, func() { checkC18(c) })
	c.Rule("R9", "every loop in the input cone ends by construction: range loop, counted loop, slice-consuming loop, or a loop that waits for input every iteration - no loop whose exit depends only on links looked up in peer-built data")
	checkLoopsTerminate(c, "R9", cone)

	// ---------------- R5
	checkParsedLoops(c, cone)

	// ---------------- R6
	nTA, nPanic := 0, 0
	for _, fn := range cone {
		eachInstr(fn, func(_ *ssa.BasicBlock, _ int, in ssa.Instruction) {
			switch x := in.(type) {
			case *ssa.TypeAssert:
				if !x.CommaOk {
					// assertions on values the proxy itself stored (sync.Map/atomic.Value/pool) are not input
					if derives(x.X, func(v ssa.Value) bool {
						cl, ok := v.(*ssa.Call)
						if !ok {
							return false
						}
						g := calleeFn(cl.Common())
						if g == nil {
							return false
						}
						s := g.String()
						return strings.HasPrefix(s, "(*sync") || strings.HasPrefix(s, "(*go.uber.org/atomic") || strings.Contains(s, "atomic.Value")
					}) {
						return
					}
					nTA++
					c.Fail("R6", fmt.Sprintf("%s bare type assertion#%d", fnKey(fn), nTA), x.Pos(), "non-comma-ok type assertion in the input cone")
				}
			case *ssa.Panic:
				// compiler-generated panics for blocking selects are unreachable
				if mi, ok := x.X.(*ssa.MakeInterface); ok {
					if s, ok := constString(mi.X); ok && strings.HasPrefix(s, "blocking select") {
						return
					}
				}
				nPanic++
				c.Fail("R6", fmt.Sprintf("%s explicit panic#%d", fnKey(fn), nPanic), x.Pos(), "explicit panic reachable from peer input")
			}
		})
	}
	if nTA == 0 && nPanic == 0 {
		c.OK("R6", "no bare type assertion on input and no explicit panic in the cone", token.NoPos, fmt.Sprintf("%d functions scanned", len(cone)))
	}

	// ---------------- R7
	for _, pr := range []struct{ loop, serve, typ string }{{"(*session).loopRead", "(*session).Serve", "session"}, {"(*client).loopRead", "(*client).Start", "client"}} {
		lf := p.Func(redisPkg, pr.loop)
		sf := p.Func(redisPkg, pr.serve)
		if lf == nil || sf == nil {
			c.Unresolved("R7", pr.loop)
			continue
		}
		var dec *ssa.Call
		eachInstr(lf, func(_ *ssa.BasicBlock, _ int, in ssa.Instruction) {
			if call, ok := in.(*ssa.Call); ok {
				if g := calleeFn(call.Common()); g != nil && g.Name() == "Decode" {
					dec = call
				}
			}
		})
		if dec == nil {
			c.Fail("R7", pr.loop+" decodes", lf.Pos(), "the read loop does not decode")
			continue
		}
		// error branch: no path back to the Decode call
		var errB *ssa.BasicBlock
		for _, r := range *dec.Referrers() {
			if ex, ok := r.(*ssa.Extract); ok && ex.Index == 1 {
				for _, rr := range *ex.Referrers() {
					if bo, ok := rr.(*ssa.BinOp); ok && bo.Op == token.NEQ && isNilConst(bo.Y) {
						for _, u := range *bo.Referrers() {
							if iff, ok := u.(*ssa.If); ok {
								errB = iff.Block().Succs[0]
							}
						}
					}
				}
			}
		}
		if errB == nil {
			c.Undecided("R7", pr.loop+" error branch", dec.Pos(), "no err != nil test after Decode")
			continue
		}
		back := findPath(ipos{errB, -1}, pathQuery{target: func(x ssa.Instruction) bool { return x == ssa.Instruction(dec) }})
		c.Check(back == nil, "R7", pr.loop+" stops on a decode error", dec.Pos(), "no path from the error branch back to Decode", "after a decode error the loop continues: the stream is out of frame and the loop spins or misparses for ever")
		// serve closes the connection on every path
		ok, path := p.mustOnAllPaths(sf, func(in ssa.Instruction) bool {
			cc := callOf(in)
			if cc == nil || !cc.IsInvoke() || cc.Method.Name() != "Close" {
				return false
			}
			f, _ := loadedField(cc.Value)
			return f != nil && f.Name() == "conn"
		}, 1)
		c.Check(ok, "R7", pr.serve+" closes the connection on every exit", sf.Pos(), "conn.Close() on every path", "the connection is not closed on every exit of its serving function ("+p.pathString(path)+")")
	}
	c.Expect("R7", 4)
}

func accessPathOr(v ssa.Value) string {
	if a := accessPath(v, nil, 0); a != "" {
		return a
	}
	return valDesc(v)
}

// describeAccess gives a stable structural descriptor of an index/slice site.
func describeAccess(base, idx ssa.Value, sl *ssa.Slice) string {
	b := accessPathOr(base)
	if sl != nil {
		lo, hi := "", ""
		if sl.Low != nil {
			lo = exprDesc(sl.Low)
		}
		if sl.High != nil {
			hi = exprDesc(sl.High)
		}
		return fmt.Sprintf("slice %s[%s:%s]", b, lo, hi)
	}
	return fmt.Sprintf("index %s[%s]", b, exprDesc(idx))
}

func exprDesc(v ssa.Value) string {
	if cv, ok := constInt(v); ok {
		return fmt.Sprint(cv)
	}
	switch x := v.(type) {
	case *ssa.BinOp:
		return exprDesc(x.X) + x.Op.String() + exprDesc(x.Y)
	case *ssa.Convert:
		return exprDesc(x.X)
	case *ssa.Phi:
		if x.Comment != "" {
			return x.Comment
		}
		return "i"
	case *ssa.Call:
		if isBuiltin(x, "len") {
			return "len(" + accessPathOr(x.Call.Args[0]) + ")"
		}
	}
	if a := accessPath(v, nil, 0); a != "" {
		return a
	}
	return valDesc(v)
}

// ---------------- invariants: facts about container lengths that hold by construction,
// each verified at the sites that establish it.
type c11Inv struct {
	c    *Ctx
	wmin map[string]int64
	// simpleRequest body: len(Array) >= 1 at every newSimpleRequest call site
	simpleMin int64
}

func newC11Invariants(c *Ctx) *c11Inv { return &c11Inv{c: c} }

// install adds entry facts for fn.
func (iv *c11Inv) install(bc *boundsCtx, fn *ssa.Function) {
	p := iv.c.P
	bc.getters = map[string]string{
		"(*" + modPath + "/" + redisPkg + ".rawRequest).Body":    "body",
		"(*" + modPath + "/" + redisPkg + ".simpleRequest).Body": "body",
	}
	// INV-simple: methods of simpleRequest and filters see len(r.body.Array) >= 1
	if fn.Signature.Recv() != nil && modType(fn.Signature.Recv().Type(), redisPkg, "simpleRequest") {
		bc.pathMin[fn.Params[0].Name()+".body.Array"] = 1
	}
	for _, prm := range fn.Params {
		if modType(prm.Type(), redisPkg, "simpleRequest") {
			bc.pathMin[prm.Name()+".body.Array"] = 1
		}
	}
	// INV-valid: command handlers run only after IsValid(): len(req.body.Array) >= 1
	hf := p.Field(redisPkg, "commandHandler", "handle")
	if hf != nil {
		for _, g := range p.funcsStoredInto(hf) {
			if g == fn {
				for _, prm := range fn.Params {
					if modType(prm.Type(), redisPkg, "rawRequest") {
						bc.pathMin[prm.Name()+".body.Array"] = 1
					}
				}
			}
		}
	}
	bc.getters["ctor:"+modPath+"/"+redisPkg+".newSimpleRequest"] = "body"
	bc.getters["ctor:"+modPath+"/"+redisPkg+".newRawRequest"] = "body"
	// INV-wrapper: methods (and their closures) of a wrapper type see the raw body length its constructor guarantees
	recvName := ""
	var recvT types.Type
	top := topFn(fn)
	if top.Signature.Recv() != nil && wrapperHeldField(top.Signature.Recv().Type()) != nil {
		recvName, recvT = top.Params[0].Name(), top.Signature.Recv().Type()
	}
	if recvT != nil {
		if m, ok := iv.wrapperMin(namedOf(recvT).Obj().Name()); ok {
			hf := wrapperHeldField(recvT)
			bc.pathMin[recvName+"."+hf.Name()+".body.Array"] = m
		}
	}
	// INV-valid as a path fact: behind X.IsValid()==true, len(X.body.Array) >= 1
	isValid := p.Func(redisPkg, "(*rawRequest).IsValid")
	eachInstr(fn, func(_ *ssa.BasicBlock, _ int, in ssa.Instruction) {
		call, ok := in.(*ssa.Call)
		if !ok || !isCallToFn(call, isValid) {
			return
		}
		ap := accessPath(call.Call.Args[0], bc.getters, 0)
		if ap == "" {
			return
		}
		lt := lterm{"len:" + ap + ".body.Array", 0}
		bc.z.addLE(lconst(0), lt)
		bc.deferred = append(bc.deferred, func(z *Zone, at *ssa.BasicBlock) {
			if condEdge(at, call, true) {
				z.addLE(lconst(1), lt)
			}
		})
	})
	// INV-readfull: on the success path of ReadFull(k) the result has length k (summary verified in verify())
	readFull := p.Func(redisPkg, "(*Reader).ReadFull")
	eachInstr(fn, func(_ *ssa.BasicBlock, _ int, in ssa.Instruction) {
		call, ok := in.(*ssa.Call)
		if !ok || !isCallToFn(call, readFull) {
			return
		}
		var bv, ev ssa.Value
		for _, r := range *call.Referrers() {
			if ex, ok := r.(*ssa.Extract); ok {
				if ex.Index == 0 {
					bv = ex
				} else {
					ev = ex
				}
			}
		}
		if bv == nil || ev == nil {
			return
		}
		lt := bc.lenOf(bv)
		kt := bc.term(call.Call.Args[1])
		bc.deferred = append(bc.deferred, func(z *Zone, at *ssa.BasicBlock) {
			for _, r := range *ev.Referrers() {
				if bo, ok := r.(*ssa.BinOp); ok && isNilConst(bo.Y) && (bo.Op == token.NEQ || bo.Op == token.EQL) {
					if condEdge(at, bo, bo.Op == token.EQL) {
						z.addEQ(lt, kt)
					}
				}
			}
		})
	})
	// INV-children: elements of a Split() result have len(Array) >= 2
	bc.valMin = func(v ssa.Value) (int64, bool) {
		// a slice parameter of an unexported helper: at least as long as what every caller passes, when each caller
		// passes the result of a module function whose every return has a length witness
		if prm, ok := v.(*ssa.Parameter); ok {
			if m, ok := p.paramMinLen(prm); ok {
				return m, true
			}
		}
		// v is X.body.Array / X.Body().Array where X is an element of a Split() call result
		f, base := loadedField(v)
		if f == nil || f.Name() != "Array" {
			return 0, false
		}
		if cl, ok := base.(*ssa.Call); ok && len(cl.Call.Args) == 1 {
			if g := calleeFn(cl.Common()); g != nil && g.Name() == "Body" {
				base = cl.Call.Args[0]
			}
		}
		if fb, b2 := loadedField(base); fb != nil && fb.Name() == "body" {
			base = b2
		}
		isSplit := func(y ssa.Value) bool {
			cl, ok := y.(*ssa.Call)
			if !ok {
				return false
			}
			g := calleeFn(cl.Common())
			return g != nil && g.Name() == "Split" && wrapperHeldField(cl.Call.Args[0].Type()) != nil
		}
		isChild := derives(base, func(y ssa.Value) bool {
			if isSplit(y) {
				return true
			}
			// a slice-of-requests parameter that every caller fills with a Split() result
			prm, ok := y.(*ssa.Parameter)
			if !ok {
				return false
			}
			sl, ok := prm.Type().Underlying().(*types.Slice)
			if !ok || !isReqType(sl.Elem()) {
				return false
			}
			pf := prm.Parent()
			idx := paramIndex(pf, prm)
			edges := p.callersOf(pf)
			if len(edges) == 0 {
				return false
			}
			for _, ed := range edges {
				if idx >= len(ed.Site.Common().Args) || !derives(ed.Site.Common().Args[idx], isSplit) {
					return false
				}
			}
			return true
		})
		if isChild {
			return 2, true
		}
		return 0, false
	}
}

// verify checks the invariants where they are established.
func (iv *c11Inv) verify() {
	c := iv.c
	p := c.P
	// INV-simple: every newSimpleRequest(v) call site has len(v.Array) >= 1
	ns := p.Func(redisPkg, "newSimpleRequest")
	if ns == nil {
		c.Unresolved("R1", "newSimpleRequest")
		return
	}
	for _, ed := range p.callersOf(ns) {
		fn := ed.Caller.Func
		arg := ed.Site.Common().Args[0]
		site := fmt.Sprintf("INV-simple at %s", fnKey(fn))
		min, why := minArrayLen(p, fn, arg, ed.Site)
		if min >= 1 {
			c.OK("R1", site, ed.Pos(), "request body has at least one element: "+why)
		} else {
			c.Fail("R1", site, ed.Pos(), "a simpleRequest is built from a body that is not known to have at least one element ("+why+"); IsReadOnly and the filter chain index element 0 of every simpleRequest")
		}
	}
	// INV-valid: dispatcher guards (IsValid dominates handle) are checked by C14.R4; IsValid itself: returns true only when len(Array) != 0
	if iv2 := p.Func(redisPkg, "(*rawRequest).IsValid"); iv2 != nil {
		// every `return true` is reached only over branch edges that establish len(Array) >= 1 (whatever way the test is
		// spelled: ==0 / !=0 / >0, negated, or combined with && / ||)
		isLenArray := func(v ssa.Value) bool {
			call, isCall := v.(*ssa.Call)
			if !isCall || !isBuiltin(call, "len") {
				return false
			}
			f, _ := loadedField(call.Call.Args[0])
			return f != nil && f.Name() == "Array"
		}
		ok, nTrue := true, 0
		eachInstr(iv2, func(b2 *ssa.BasicBlock, _ int, x ssa.Instruction) {
			ret, isRet := x.(*ssa.Return)
			if !isRet {
				return
			}
			v := returnedValues(ret)[0]
			if cv, isC := v.(*ssa.Const); isC && cv.Value != nil && cv.Value.String() == "false" {
				return
			}
			nTrue++
			established := false
			for _, a := range atomsAt(b2, 0) {
				if atomImpliesAtLeastOne(a, isLenArray) {
					established = true
				}
			}
			if !established {
				ok = false
			}
		})
		ok = ok && nTrue > 0
		c.Check(ok, "R1", "INV-valid: IsValid()==true implies a non-empty array", iv2.Pos(), "every `return true` is dominated by len(Array) != 0", "IsValid can return true for an empty array (the test is not on the length): the dispatcher then indexes element 0 of \"*0\\r\\n\" and the proxy crashes")
		// dispatcher: handle call dominated by IsValid()==true is C14.R4; re-check here because R1 relies on it
		checkDispatcherGuards(c, "R1")
	}
	// INV-children: Split builds children as literals of >= 2 elements
	for _, tn := range []string{"msetRequest", "mgetRequest", "sumResultRequest"} {
		sp := p.Func(redisPkg, "(*"+tn+").Split")
		if sp == nil {
			c.Unresolved("R1", tn+".Split")
			continue
		}
		okLit := false
		eachInstr(sp, func(_ *ssa.BasicBlock, _ int, in ssa.Instruction) {
			if call, ok := in.(*ssa.Call); ok && isCallToFn(call, ns) {
				min, _ := minArrayLen(p, sp, call.Call.Args[0], call)
				if min >= 2 {
					okLit = true
				}
			}
		})
		c.Check(okLit, "R1", "INV-children: "+tn+" children have >= 2 elements", sp.Pos(), "child body is a literal array of at least two elements", "a split child can have fewer than two elements although handlers route by element 1")
	}
}

// minArrayLen: lower bound on len(v.Array) for a *RespValue argument v at a call site in fn.
func minArrayLen(p *Prog, fn *ssa.Function, v ssa.Value, site ssa.Instruction) (int64, string) {
	// literal &RespValue{Array: []RespValue{...}} or newArray(a, b...) / newStringArray("x")
	switch x := v.(type) {
	case *ssa.Alloc:
		for _, r := range *x.Referrers() {
			if fa, ok := r.(*ssa.FieldAddr); ok {
				if f, _ := fieldAddr(fa); f != nil && f.Name() == "Array" {
					for _, rr := range *fa.Referrers() {
						if st, ok := rr.(*ssa.Store); ok && st.Addr == ssa.Value(fa) {
							if sl, ok := st.Val.(*ssa.Slice); ok {
								if arr, ok := deref(sl.X.Type()).Underlying().(*types.Array); ok {
									return arr.Len(), fmt.Sprintf("literal of %d elements", arr.Len())
								}
							}
						}
					}
				}
			}
		}
	case *ssa.Call:
		g := calleeFn(x.Common())
		if g != nil && (g.Name() == "newArray" || g.Name() == "newStringArray" || g.Name() == "newByteArray") {
			if sl, ok := x.Call.Args[0].(*ssa.Slice); ok {
				if arr, ok := deref(sl.X.Type()).Underlying().(*types.Array); ok {
					return arr.Len(), fmt.Sprintf("%s with %d arguments", g.Name(), arr.Len())
				}
			}
		}
		// req.Body() of a request whose body was validated: guard in this function
	}
	// zone: a dominating len(v.Array) guard in fn
	bc := newBoundsCtx(p, fn)
	bc.getters = map[string]string{
		"(*" + modPath + "/" + redisPkg + ".rawRequest).Body":    "body",
		"(*" + modPath + "/" + redisPkg + ".simpleRequest).Body": "body",
	}
	// handlers: INV-valid
	hf := p.Field(redisPkg, "commandHandler", "handle")
	isHandler := false
	if hf != nil {
		for _, g := range p.funcsStoredInto(hf) {
			if g == fn {
				isHandler = true
			}
		}
	}
	ap := accessPath(v, bc.getters, 0)
	if ap != "" {
		if isHandler {
			for _, prm := range fn.Params {
				if modType(prm.Type(), redisPkg, "rawRequest") {
					bc.pathMin[prm.Name()+".body.Array"] = 1
				}
			}
		}
		// wrapper methods (Convert): r.raw was validated by the wrapper's constructor guard (>= 2) - checked there
		lt := lterm{"len:" + ap + ".Array", 0}
		bc.z.addLE(lconst(0), lt)
		if m, ok := bc.pathMin[ap+".Array"]; ok {
			bc.z.addLE(lconst(m), lt)
		}
		// trigger condition collection with a dummy lenOf on matching loads
		eachInstr(fn, func(_ *ssa.BasicBlock, _ int, in ssa.Instruction) {
			if call, ok := in.(*ssa.Call); ok && isBuiltin(call, "len") {
				bc.lenOf(call.Call.Args[0])
			}
		})
		z := bc.zoneAt(site.Block())
		for k := int64(3); k >= 1; k-- {
			if z.entLE(lconst(k), lt) {
				return k, fmt.Sprintf("len(%s.Array) >= %d entailed by dominating guards / validated request", ap, k)
			}
		}
		// wrapper constructors guarantee their raw request has >= 2 elements
		if strings.HasSuffix(ap, ".raw.body") {
			return 2, "raw request held by a wrapper whose constructor rejects fewer than 2 elements (checked by the constructor guard obligations)"
		}
		return 0, "no witness for len(" + ap + ".Array)"
	}
	return 0, "body is not a literal and has no access path"
}

// checkRecursion: SCCs of the cone call graph.
func checkRecursion(c *Ctx, cone []*ssa.Function) {
	p := c.P
	in := map[*ssa.Function]bool{}
	for _, f := range cone {
		in[f] = true
	}
	succ := map[*ssa.Function][]*ssa.Function{}
	for _, f := range cone {
		eachInstr(f, func(_ *ssa.BasicBlock, _ int, ins ssa.Instruction) {
			ci, ok := ins.(ssa.CallInstruction)
			if !ok {
				return
			}
			if _, isGo := ins.(*ssa.Go); isGo {
				return
			}
			if _, isB := ci.Common().Value.(*ssa.Builtin); isB {
				return
			}
			// hooks (dynamic calls through request hook slices) are asynchronous completions, not recursion on input
			if calleeFn(ci.Common()) == nil && !ci.Common().IsInvoke() {
				return
			}
			for _, g := range p.callees(ci) {
				if in[g] {
					succ[f] = append(succ[f], g)
				}
			}
		})
	}
	// Tarjan
	index := map[*ssa.Function]int{}
	low := map[*ssa.Function]int{}
	on := map[*ssa.Function]bool{}
	var stack []*ssa.Function
	var sccs [][]*ssa.Function
	n := 0
	var strong func(v *ssa.Function)
	strong = func(v *ssa.Function) {
		index[v], low[v] = n, n
		n++
		stack = append(stack, v)
		on[v] = true
		for _, w := range succ[v] {
			if _, seen := index[w]; !seen {
				strong(w)
				if low[w] < low[v] {
					low[v] = low[w]
				}
			} else if on[w] && index[w] < low[v] {
				low[v] = index[w]
			}
		}
		if low[v] == index[v] {
			var comp []*ssa.Function
			for {
				w := stack[len(stack)-1]
				stack = stack[:len(stack)-1]
				on[w] = false
				comp = append(comp, w)
				if w == v {
					break
				}
			}
			self := false
			for _, w := range succ[v] {
				if w == v {
					self = true
				}
			}
			if len(comp) > 1 || self {
				sccs = append(sccs, comp)
			}
		}
	}
	for _, f := range cone {
		if _, seen := index[f]; !seen {
			strong(f)
		}
	}
	nR4 := 0
	for _, comp := range sccs {
		sort.Slice(comp, func(i, j int) bool { return fnKey(comp[i]) < fnKey(comp[j]) })
		var names []string
		for _, f := range comp {
			names = append(names, strings.TrimPrefix(fnKey(f), redisPkg+"."))
		}
		site := "cycle {" + strings.Join(names, ", ") + "}"
		nR4++
		// input-consuming: some member calls a Reader method
		consumes := false
		for _, f := range comp {
			eachInstr(f, func(_ *ssa.BasicBlock, _ int, ins ssa.Instruction) {
				if cc := callOf(ins); cc != nil {
					if g := calleeFn(cc); g != nil && g.Signature.Recv() != nil && modType(g.Signature.Recv().Type(), redisPkg, "Reader") {
						consumes = true
					}
				}
			})
		}
		if !consumes {
			// structural recursion over an already decoded value or a resend chain: bounded by the decoder's depth / by C04
			kind := "walks an already decoded value (bounded by the decoder's nesting limit)"
			for _, f := range comp {
				if strings.Contains(f.Name(), "MakeRequest") || strings.Contains(f.Name(), "handleRedirection") {
					kind = "resend chain through the backend reply dispatcher: one step per backend reply, not recursion on one input"
				}
			}
			c.OK("R4", site, comp[0].Pos(), kind)
			continue
		}
		// needs a depth counter: balanced, guarded, and held across every cycle (recursion.go)
		if ok, w := p.checkDepthCounter(comp); ok {
			c.OK("R4", site, comp[0].Pos(), "input-consuming recursion bounded: "+w)
			// the limit that is enforced is the limit that is named: with the guard `counter >= K` in front of the
			// increment exactly K nested levels are accepted; the same test behind the increment accepts one fewer -
			// a value the encoder emits and the decoder used to accept is then refused
			if acc, k, at, found := depthLimitAccepted(comp); found {
				c.Check(acc == k, "R4", site+" accepts exactly the named depth", at, fmt.Sprintf("%d nested levels are accepted, the constant of the guard is %d", acc, k), fmt.Sprintf("the depth guard accepts %d nested levels although it is written against the constant %d: values nested exactly %d deep - which the encoder emits and a peer may legitimately send - are refused (or one level too many is accepted)", acc, k, k))
			}
		} else {
			c.Fail("R4", site, comp[0].Pos(), "recursion driven by peer input is not bounded by a depth counter ("+w+"): arbitrarily deep array nesting (a few megabytes of \"*1\\r\\n\") overflows the goroutine stack, which is fatal for the whole process and cannot be recovered")
		}
	}
	if nR4 == 0 {
		c.OK("R4", "no call-graph cycle in the cone", token.NoPos, "")
	}
}

// checkParsedLoops: loops whose bound is a value parsed by strconv.Atoi/ParseInt from untrusted text.
func checkParsedLoops(c *Ctx, cone []*ssa.Function) {
	p := c.P
	n := 0
	isParsed := func(v ssa.Value) bool {
		return derives(v, func(y ssa.Value) bool {
			cl, ok := y.(*ssa.Call)
			if !ok {
				return false
			}
			return isCallTo(cl, "strconv.Atoi", "strconv.ParseInt", "strconv.ParseUint")
		})
	}
	for _, fn := range cone {
		for _, h := range loopHeaders(fn) {
			iff, ok := h.Instrs[len(h.Instrs)-1].(*ssa.If)
			if !ok {
				continue
			}
			cmp, ok := iff.Cond.(*ssa.BinOp)
			if !ok {
				continue
			}
			var bound ssa.Value
			switch cmp.Op {
			case token.LSS, token.LEQ:
				bound = cmp.Y
			case token.GTR, token.GEQ:
				bound = cmp.X
			default:
				continue
			}
			if !isParsed(bound) {
				continue
			}
			n++
			site := fmt.Sprintf("%s loop#%d bounded by a parsed integer", fnKey(fn), n)
			bc := newBoundsCtx(p, fn)
			bt := bc.term(bound)
			z := bc.zoneAt(h)
			okHi := false
			for _, k := range []int64{1 << 14, 1 << 16, 1 << 20} {
				if z.entLE(bt, lconst(k)) {
					okHi = true
				}
			}
			// lower end of the walk is bounded too (start >= some constant)
			var start ssa.Value
			for _, ins := range h.Instrs {
				if ph, ok := ins.(*ssa.Phi); ok {
					for k, pred := range h.Preds {
						if !h.Dominates(pred) {
							start = ph.Edges[k]
						}
					}
				}
			}
			okLo := true
			if start != nil && isParsed(start) {
				st := bc.term(start)
				z = bc.zoneAt(h)
				okLo = z.entLE(lconst(-1), st)
			}
			if okHi && okLo {
				c.OK("R5", site, cmp.Pos(), "the parsed bounds are range-checked against constants before the loop")
			} else {
				c.Fail("R5", site, cmp.Pos(), "the loop runs from/to integers parsed out of backend text with no range check: a slot range such as 0-2000000000 makes the proxy loop and allocate without bound")
			}
		}
	}
	if n == 0 {
		c.OK("R5", "no loop in the cone is bounded by an integer parsed from text", token.NoPos, "")
	}
}

func inBufioFile(p *Prog, fn *ssa.Function) bool {
	pos := topFn(fn).Pos()
	return pos.IsValid() && strings.HasSuffix(p.Fset.Position(pos).Filename, "/bufio.go")
}

// c11InScope: the base is an untrusted-shape container, or the index is derived from decoded input.
func c11InScope(base, idx ssa.Value, sl *ssa.Slice) bool {
	untrustedBase := derives(base, func(v ssa.Value) bool {
		switch x := v.(type) {
		case *ssa.Parameter:
			switch x.Type().Underlying().(type) {
			case *types.Slice:
				return true
			case *types.Basic:
				return x.Type().Underlying().(*types.Basic).Kind() == types.String
			}
		case *ssa.Call:
			if isCallTo(x, "strings.Split", "strings.Fields", "bytes.Split", "bytes.Fields", "strings.SplitN") {
				return true
			}
			if g := calleeFn(x.Common()); g != nil && g.Signature.Recv() != nil && modType(g.Signature.Recv().Type(), redisPkg, "Reader") {
				return true
			}
		case *ssa.Extract:
			if cl, ok := x.Tuple.(*ssa.Call); ok {
				if g := calleeFn(cl.Common()); g != nil && g.Signature.Recv() != nil && (modType(g.Signature.Recv().Type(), redisPkg, "Reader") || modType(g.Signature.Recv().Type(), redisPkg, "decoder")) {
					return true
				}
			}
		}
		if f, b := loadedField(v); f != nil && modType(b.Type(), redisPkg, "RespValue") {
			return true
		}
		if f, b := fieldAddr(v); f != nil && modType(b.Type(), redisPkg, "RespValue") {
			return true
		}
		return false
	})
	if untrustedBase {
		return true
	}
	inputIdx := func(v ssa.Value) bool {
		if v == nil {
			return false
		}
		return derivesThroughArith(v, func(y ssa.Value) bool {
			if cl, ok := y.(*ssa.Call); ok {
				if isCallTo(cl, "strconv.Atoi", "strconv.ParseInt", "strconv.ParseUint") {
					return true
				}
				if g := calleeFn(cl.Common()); g != nil && (g.Name() == "btoi64" || g.Name() == "decodeInt") {
					return true
				}
			}
			if p, ok := y.(*ssa.Parameter); ok {
				if b, ok := p.Type().Underlying().(*types.Basic); ok && b.Info()&types.IsInteger != 0 {
					return true // an integer handed in from a caller in the cone
				}
			}
			return false
		})
	}
	if sl != nil {
		return inputIdx(sl.Low) || inputIdx(sl.High)
	}
	return inputIdx(idx)
}

// derivesThroughArith follows arithmetic, conversions, phis and tuple extraction (not table loads).
func derivesThroughArith(v ssa.Value, pred func(ssa.Value) bool) bool {
	seen := map[ssa.Value]bool{}
	var walk func(v ssa.Value) bool
	walk = func(v ssa.Value) bool {
		if v == nil || seen[v] {
			return false
		}
		seen[v] = true
		if pred(v) {
			return true
		}
		switch x := v.(type) {
		case *ssa.BinOp:
			return walk(x.X) || walk(x.Y)
		case *ssa.Convert:
			return walk(x.X)
		case *ssa.ChangeType:
			return walk(x.X)
		case *ssa.Phi:
			for _, e := range x.Edges {
				if walk(e) {
					return true
				}
			}
		case *ssa.Extract:
			return walk(x.Tuple)
		case *ssa.UnOp:
			if x.Op != token.MUL {
				return walk(x.X)
			}
			// load of a local cell
			if al, ok := x.X.(*ssa.Alloc); ok {
				for _, r := range *al.Referrers() {
					if st, ok := r.(*ssa.Store); ok && st.Addr == ssa.Value(al) && walk(st.Val) {
						return true
					}
				}
			}
		}
		return false
	}
	return walk(v)
}

// wrapperMin: the minimal number of elements the constructor of wrapper type tn guarantees for its raw body;
// verified: the constructor is the only allocation site and the allocation is dominated by the guard.
func (iv *c11Inv) wrapperMin(tn string) (int64, bool) {
	c := iv.c
	p := c.P
	if iv.wmin == nil {
		iv.wmin = map[string]int64{}
		for _, name := range []string{"msetRequest", "mgetRequest", "sumResultRequest", "scanRequest"} {
			nt := p.Named(redisPkg, name)
			if nt == nil {
				continue
			}
			// allocation sites
			var sites []*ssa.Alloc
			for _, fn := range p.FuncsIn(redisPkg) {
				if p.isTestFn(fn) {
					continue
				}
				eachInstr(fn, func(_ *ssa.BasicBlock, _ int, in ssa.Instruction) {
					if al, ok := in.(*ssa.Alloc); ok && al.Heap && types.Identical(deref(al.Type()), nt) {
						sites = append(sites, al)
					}
				})
			}
			min := int64(-1)
			for _, al := range sites {
				fn := al.Parent()
				bc := newBoundsCtx(p, fn)
				bc.getters = map[string]string{
					"(*" + modPath + "/" + redisPkg + ".rawRequest).Body": "body",
				}
				var prm *ssa.Parameter
				for _, q := range fn.Params {
					if modType(q.Type(), redisPkg, "rawRequest") {
						prm = q
					}
				}
				if prm == nil {
					min = 0
					continue
				}
				lt := lterm{"len:" + prm.Name() + ".body.Array", 0}
				bc.z.addLE(lconst(0), lt)
				// constructors called only by registered handlers on their own (validated) request: len >= 1
				if hf := p.Field(redisPkg, "commandHandler", "handle"); hf != nil {
					handlers := map[*ssa.Function]bool{}
					for _, g := range p.funcsStoredInto(hf) {
						handlers[g] = true
					}
					allValid := len(p.callersOf(fn)) > 0
					for _, ed := range p.callersOf(fn) {
						if !handlers[ed.Caller.Func] {
							allValid = false
							continue
						}
						if _, isP := ed.Site.Common().Args[0].(*ssa.Parameter); !isP {
							allValid = false
						}
					}
					if allValid {
						bc.z.addLE(lconst(1), lt)
					}
				}
				eachInstr(fn, func(_ *ssa.BasicBlock, _ int, in ssa.Instruction) {
					if call, ok := in.(*ssa.Call); ok && isBuiltin(call, "len") {
						bc.lenOf(call.Call.Args[0])
					}
				})
				z := bc.zoneAt(al.Block())
				got := int64(0)
				for k := int64(3); k >= 1; k-- {
					if z.entLE(lconst(k), lt) {
						got = k
						break
					}
				}
				if min < 0 || got < min {
					min = got
				}
				// the stored raw request is the guarded parameter
				okStore := false
				for _, r := range *al.Referrers() {
					if fa, ok := r.(*ssa.FieldAddr); ok {
						for _, rr := range *fa.Referrers() {
							if st, ok := rr.(*ssa.Store); ok && st.Val == ssa.Value(prm) {
								okStore = true
							}
						}
					}
				}
				site := fmt.Sprintf("INV-wrapper %s built in %s", name, fnKey(fn))
				if okStore && got >= 1 {
					c.OK("R1", site, al.Pos(), fmt.Sprintf("allocation dominated by len(raw body) >= %d", got))
				} else {
					c.Fail("R1", site, al.Pos(), "a "+name+" is built from a request whose body length is not checked first: its methods index the body")
					min = 0
				}
			}
			if min > 0 {
				iv.wmin[name] = min
			}
		}
	}
	m, ok := iv.wmin[tn]
	return m, ok
}

// scaledIndex: index a*i+b of container v inside `for i := 0; i < len(v)/a; i++`:
// max index = a*(len/a - 1) + b <= len - a + b, in range when b < a; for b == a it needs len % a == a-1,
// which must be guaranteed by the wrapper's constructor (odd argument count of MSET).
func (iv *c11Inv) scaledIndex(bc *boundsCtx, fn *ssa.Function, in ssa.Instruction, base, idx ssa.Value) (bool, string) {
	a, iv2, b, ok := linearForm(idx)
	if !ok || a < 2 || b < 0 {
		return false, ""
	}
	ph, ok := iv2.(*ssa.Phi)
	if !ok {
		return false, ""
	}
	ls, _ := findCountedLoop(ph.Block())
	if ls == nil || ls.phi != ph || !ls.initOK {
		return false, ""
	}
	q, ok := ls.bound.(*ssa.BinOp)
	if !ok || q.Op != token.QUO {
		return false, ""
	}
	d, isC := constInt(q.Y)
	call, isLen := q.X.(*ssa.Call)
	if !isC || d != a || !isLen || !isBuiltin(call, "len") || call.Call.Args[0] != base {
		return false, ""
	}
	if !ls.header.Dominates(in.Block()) {
		return false, ""
	}
	if b < a {
		return true, fmt.Sprintf("index %d*i+%d with i < len/%d: at most len-%d+%d < len", a, b, a, a, b)
	}
	if b == a {
		// need len % a == a-1 from the constructor
		if top := topFn(fn); top.Signature.Recv() != nil {
			tn := namedOf(top.Signature.Recv().Type()).Obj().Name()
			if iv.oddGuard(tn, a) {
				return true, fmt.Sprintf("index %d*i+%d with i < len/%d and len %% %d == %d guaranteed by the constructor of %s", a, b, a, a, a-1, tn)
			}
		}
	}
	return false, ""
}

// stridedIndex: index i+b of container v inside `for i := i0; i < len(v); i += 2` with i0 odd: i stays odd; when the
// wrapper's constructor guarantees an odd len(v), i < len(v) means i <= len(v)-2, so i+1 is in range too.
func (iv *c11Inv) stridedIndex(bc *boundsCtx, fn *ssa.Function, in ssa.Instruction, base, idx ssa.Value) (bool, string) {
	a, iv2, b, ok := linearForm(idx)
	if !ok || a != 1 || b < 0 || b > 1 {
		return false, ""
	}
	ph, ok := iv2.(*ssa.Phi)
	if !ok {
		return false, ""
	}
	ls, _ := findCountedLoopStep(ph.Block())
	if ls == nil || ls.phi != ph || ls.step != 2 || ls.useIdx != ssa.Value(ph) {
		return false, ""
	}
	i0, isC := constInt(ls.initTerm)
	if !isC || i0 < 0 || i0%2 != 1 {
		return false, ""
	}
	call, isLen := ls.bound.(*ssa.Call)
	if !isLen || !isBuiltin(call, "len") || call.Call.Args[0] != base {
		return false, ""
	}
	// the access is inside the loop body
	if !(ls.body == in.Block() || ls.body.Dominates(in.Block())) {
		return false, ""
	}
	if top := topFn(fn); top.Signature.Recv() != nil {
		if nt := namedOf(top.Signature.Recv().Type()); nt != nil && iv.oddGuard(nt.Obj().Name(), 2) {
			return true, fmt.Sprintf("index i+%d with i odd (from %d, step 2), i < len and len odd (guaranteed by the constructor of %s): i <= len-2", b, i0, nt.Obj().Name())
		}
	}
	return false, ""
}

// linearForm parses a*i + b (constants a, b; i any value) out of ADD/MUL/SHL arithmetic.
func linearForm(v ssa.Value) (a int64, i ssa.Value, b int64, ok bool) {
	switch x := v.(type) {
	case *ssa.BinOp:
		switch x.Op {
		case token.ADD:
			if c, isC := constInt(x.Y); isC {
				a1, i1, b1, ok1 := linearForm(x.X)
				return a1, i1, b1 + c, ok1
			}
			if c, isC := constInt(x.X); isC {
				a1, i1, b1, ok1 := linearForm(x.Y)
				return a1, i1, b1 + c, ok1
			}
		case token.MUL:
			if c, isC := constInt(x.X); isC {
				a1, i1, b1, ok1 := linearForm(x.Y)
				return a1 * c, i1, b1 * c, ok1
			}
			if c, isC := constInt(x.Y); isC {
				a1, i1, b1, ok1 := linearForm(x.X)
				return a1 * c, i1, b1 * c, ok1
			}
		}
		return 0, nil, 0, false
	}
	return 1, v, 0, true
}

// oddGuard: the constructor of wrapper tn rejects bodies whose length % a != a-1.
func (iv *c11Inv) oddGuard(tn string, a int64) bool {
	p := iv.c.P
	nt := p.Named(redisPkg, tn)
	if nt == nil {
		return false
	}
	ok := false
	for _, fn := range p.FuncsIn(redisPkg) {
		if p.isTestFn(fn) {
			continue
		}
		eachInstr(fn, func(_ *ssa.BasicBlock, _ int, in ssa.Instruction) {
			al, isAl := in.(*ssa.Alloc)
			if !isAl || !al.Heap || !types.Identical(deref(al.Type()), nt) {
				return
			}
			// a dominating If on (len % a) != a-1 whose true edge does not reach the allocation
			for _, d := range fn.Blocks {
				iff, isIf := d.Instrs[len(d.Instrs)-1].(*ssa.If)
				if !isIf {
					continue
				}
				bo, isBo := iff.Cond.(*ssa.BinOp)
				if !isBo || bo.Op != token.NEQ {
					continue
				}
				rem, isRem := bo.X.(*ssa.BinOp)
				k, isK := constInt(bo.Y)
				if !isRem || rem.Op != token.REM || !isK || k != a-1 {
					continue
				}
				if m, isM := constInt(rem.Y); !isM || m != a {
					continue
				}
				if lc, isL := rem.X.(*ssa.Call); !isL || !isBuiltin(lc, "len") {
					continue
				}
				if s := d.Succs[1]; len(s.Preds) == 1 && (s == al.Block() || s.Dominates(al.Block())) {
					ok = true
				}
			}
		})
	}
	return ok
}

// paramMinLen: lower bound on len(prm) from the call sites of an unexported function.
func (p *Prog) paramMinLen(prm *ssa.Parameter) (m0 int64, ok0 bool) {
	fn := prm.Parent()
	if debugEnv {
		defer func() { fmt.Printf("DEBUG paramMinLen %s.%s -> %d %v\n", fnKey(fn), prm.Name(), m0, ok0) }()
	}

	if _, isSl := prm.Type().Underlying().(*types.Slice); !isSl || fn.Object() == nil || fn.Object().Exported() {
		return 0, false
	}
	idx := paramIndex(fn, prm)
	edges := p.callersOf(fn)
	if len(edges) == 0 {
		return 0, false
	}
	min := int64(1 << 30)
	for _, ed := range edges {
		if p.isTestFn(ed.Caller.Func) {
			continue
		}
		args := ed.Site.Common().Args
		if idx >= len(args) {
			return 0, false
		}
		call, ok := args[idx].(*ssa.Call)
		if !ok {
			return 0, false
		}
		g := calleeFn(call.Common())
		if g == nil || !isModFn(g) || g.Blocks == nil {
			return 0, false
		}
		m, ok := p.returnMinLen(g)
		if !ok {
			return 0, false
		}
		if m < min {
			min = m
		}
	}
	if min == 1<<30 || min < 1 {
		return 0, false
	}
	return min, true
}

var returnMinLenMemo = map[*ssa.Function]int64{}

// returnMinLen: the largest k in 1..3 such that every return of g returns a slice with len >= k (zone witness at the
// return, under the path conditions); 0 when there is none.
func (p *Prog) returnMinLen(g *ssa.Function) (int64, bool) {
	if m, ok := returnMinLenMemo[g]; ok {
		return m, m > 0
	}
	returnMinLenMemo[g] = 0
	bc := newBoundsCtx(p, g)
	min := int64(1 << 30)
	eachInstr(g, func(b *ssa.BasicBlock, _ int, in ssa.Instruction) {
		r, ok := in.(*ssa.Return)
		if !ok || len(r.Results) == 0 {
			return
		}
		witness := func(z *Zone, v ssa.Value) int64 {
			L := bc.lenOf(v)
			for _, t := range []int64{3, 2, 1} {
				if z.entLE(lconst(t), L) {
					return t
				}
			}
			return 0
		}
		k := witness(bc.zoneAt(b), returnedValues(r)[0])
		// a phi of slices: every incoming value under the conditions of its own edge
		if ph, isPhi := returnedValues(r)[0].(*ssa.Phi); isPhi && k == 0 {
			k = 1 << 30
			// name every term first: definitional facts go to the base zone, which zoneAt copies
			for i, e := range ph.Edges {
				bc.lenOf(e)
				pred := ph.Block().Preds[i]
				if iff, ok := pred.Instrs[len(pred.Instrs)-1].(*ssa.If); ok {
					bc.condFacts(iff.Cond, true)
				}
			}
			for i, e := range ph.Edges {
				pred := ph.Block().Preds[i]
				z := bc.zoneAt(pred)
				if iff, ok := pred.Instrs[len(pred.Instrs)-1].(*ssa.If); ok {
					truth := pred.Succs[0] == ph.Block()
					for _, f := range bc.condFacts(iff.Cond, truth) {
						bc.apply(z, f)
					}
				}
				w := witness(z, e)
				if debugEnv {
					L := bc.lenOf(e)
					fmt.Printf("DEBUG returnMinLen %s edge %d %s len=%s%+d w=%d\n", fnKey(g), i, e, L.v, L.c, w)
				}
				if w < k {
					k = w
				}
			}
			if k == 1<<30 {
				k = 0
			}
		}
		if k < min {
			min = k
		}
	})
	if min == 1<<30 {
		min = 0
	}
	returnMinLenMemo[g] = min
	return min, min > 0
}

var debugEnv = false

// checkLoopsTerminate (C11.R9): every loop in the code that handles peer input ends by construction. Accepted shapes:
// a range loop (map/string iterator, or the index form); a counted loop (a loop-carried integer that changes by a
// non-zero constant every iteration and is compared in an exit condition); a loop that consumes its input slice (a
// loop-carried slice re-sliced from a positive offset); a loop that waits for input in every iteration (a select, a
// channel operation, a read from the connection or decoder). Anything else - in particular a loop that follows links
// looked up in a structure built from peer input - has no termination argument here and is reported.
func checkLoopsTerminate(c *Ctx, rule string, cone []*ssa.Function) {
	p := c.P
	n := 0
	for _, fn := range cone {
		k := 0
		for _, h := range loopHeaders(fn) {
			n++
			k++
			// natural loop body: blocks dominated by h from which a back edge to h is reachable without leaving
			body := map[*ssa.BasicBlock]bool{h: true}
			var stack []*ssa.BasicBlock
			for _, pred := range h.Preds {
				if h.Dominates(pred) && !body[pred] {
					body[pred] = true
					stack = append(stack, pred)
				}
			}
			for len(stack) > 0 {
				b := stack[len(stack)-1]
				stack = stack[:len(stack)-1]
				for _, pr := range b.Preds {
					if !body[pr] && h.Dominates(pr) {
						body[pr] = true
						stack = append(stack, pr)
					}
				}
			}
			shape := ""
			for b := range body {
				for _, in := range b.Instrs {
					switch x := in.(type) {
					case *ssa.Next:
						shape = "range over a map or string"
					case *ssa.Select:
						shape = "waits in a select"
					case *ssa.Send:
						shape = "channel send"
					case *ssa.UnOp:
						if x.Op == token.ARROW {
							shape = "channel receive"
						}
					case *ssa.Call:
						cc := x.Common()
						name := ""
						if cc.IsInvoke() {
							name = cc.Method.Name()
						} else if g := calleeFn(cc); g != nil {
							name = g.Name()
						}
						switch name {
						case "Read", "ReadFull", "ReadByte", "ReadBytes", "ReadSlice", "ReadLine", "Peek", "Decode", "Accept", "ReadMsgUnix", "Recv", "Wait", "Sleep", "fill", "decode", "decodeResp", "handleRequest":
							shape = "consumes input (" + name + ")"
						}
					}
				}
			}
			if shape == "" {
				for _, in := range h.Instrs {
					ph, ok := in.(*ssa.Phi)
					if !ok {
						continue
					}
					for k, pred := range h.Preds {
						if !h.Dominates(pred) || k >= len(ph.Edges) {
							continue
						}
						e := ph.Edges[k]
						if bo, ok := e.(*ssa.BinOp); ok && (bo.Op == token.ADD || bo.Op == token.SUB) && intBits(ph.Type()) > 0 {
							step, isC := constInt(bo.Y)
							base := bo.X
							if !isC {
								step, isC = constInt(bo.X)
								base = bo.Y
							}
							if isC && step != 0 && base == ssa.Value(ph) {
								// compared in an exit condition
								for b := range body {
									iff, ok := b.Instrs[len(b.Instrs)-1].(*ssa.If)
									if !ok {
										continue
									}
									leaves := !body[b.Succs[0]] || !body[b.Succs[1]]
									cmp, ok := iff.Cond.(*ssa.BinOp)
									if !ok || !leaves {
										continue
									}
									for _, o := range []ssa.Value{cmp.X, cmp.Y} {
										if o == ssa.Value(ph) || o == ssa.Value(bo) {
											shape = "counted loop"
										}
									}
								}
							}
						}
						if sl, ok := e.(*ssa.Slice); ok && sl.Low != nil {
							if base, ok := sl.X.(*ssa.Phi); ok && base == ph {
								shape = "consumes its slice"
							}
						}
						// n /= k (k > 1) or n >>= k (k >= 1) on an unsigned value that an exit condition compares
						if bo, ok := e.(*ssa.BinOp); ok && (bo.Op == token.QUO || bo.Op == token.SHR) && bo.X == ssa.Value(ph) && isUnsigned(ph.Type()) {
							if k, isC := constInt(bo.Y); isC && ((bo.Op == token.QUO && k > 1) || (bo.Op == token.SHR && k >= 1)) {
								for b := range body {
									iff, ok := b.Instrs[len(b.Instrs)-1].(*ssa.If)
									if !ok || (body[b.Succs[0]] && body[b.Succs[1]]) {
										continue
									}
									if cmp, ok := iff.Cond.(*ssa.BinOp); ok && (cmp.X == ssa.Value(ph) || cmp.Y == ssa.Value(ph)) {
										shape = "shrinks an unsigned value towards zero"
									}
								}
							}
						}
					}
				}
			}
			site := fmt.Sprintf("%s loop#%d terminates", fnKey(fn), k)
			if shape != "" {
				c.OK(rule, site, h.Instrs[0].Pos(), shape)
			} else {
				pos := h.Instrs[0].Pos()
				for b := range body {
					for _, in := range b.Instrs {
						if !pos.IsValid() && in.Pos().IsValid() {
							pos = in.Pos()
						}
					}
				}
				c.Fail(rule, site, pos, "this loop is neither a range loop, a counted loop, a loop that consumes its slice nor one that waits for input: its exit depends only on values looked up in data built from peer input (following links), so input that contains a cycle keeps it spinning for ever - the goroutine burns a CPU and whatever waits for it (the refresh loop, Stop) never returns ("+p.Pos(pos)+")")
			}
		}
	}
	if n == 0 {
		c.Unresolved(rule, "no loop in the input cone")
	}
}
