package main

import (
	"fmt"
	"go/token"
	"go/types"
	"strings"

	"golang.org/x/tools/go/ssa"
)

func init() {
	register(&propDef{
		id: "C06",
		li: levelInfo{
			Level:       "other",
			Explanation: "Static rules on host selection. R1: in the TCP handler the argument of PickHost is the usable-host snapshot of the proc's own host set, an empty snapshot returns before any dial, and the dialled and the watched host are the value PickHost returned. R2: every Balancer implementation returns nil or an element of its argument, with a zone witness for the index. R3: the round-robin index is (result of one atomic read-modify-write on the shared counter) % len(hosts), computed in the counter's full width. R4: the least-connection choice never returns the strictly busier of its two samples (decision tree evaluated over the three orderings). R5: the handler starts a goroutine that selects on WaitRemoved() of the picked host and closes both connections; that watcher lives as long as the handler. R6: removal notification hits the stored host (shared with C15). R7: lb.New returns a balancer for every policy value. Fairness measured over real concurrent runs is not decided. R8 (shared with C15.R8): the healthy tiers - the candidate list - are written and purged only with the object the member map stores for the address. R9: every IncConnCount (the least-connection input) is released by DecConnCount on every path out of the function. R10 (shared with C15.R9): the candidate list handed out by Healthy() is never written, sorted or spliced in place; several PickHost/dial sites in one handler are accepted as long as every dialled and watched host is a PickHost result. R5 also requires every dial to go to the host whose removal is watched. R11 (shared with C15.R10): from every delete on the member map the stored object reaches a tier purge on every path, independent of its health flag. R12: every add/remove/replace handler of every processor hands the event list to host.Set on every path (the empty-list return aside). R7 accepts a builder table read with the comma-ok form. R6 also requires an overwritten member object to be notified. R13 (shared with C08.R5): a processor's configuration is replaced only after every fallible step of an update succeeded, so the policy recorded is the policy of the balancer in place. R14: a *rand.Rand kept in a package-level variable or a field is used only under a mutex. R1 also requires every store into the healthy-hosts cache to happen under the set's write lock.",
			Assumptions: []string{"math/rand.Int() is non-negative; atomic read-modify-write results are unique"},
			TrustedBase: []string{"go/ssa", "samlint ebounds.go + zone.go"},
		},
		run: checkC06,
	})
	techniques["C06"] = "static analysis: value-identity and dominance rules on SSA, zone-domain index witnesses, decision-tree evaluation over orderings"
}

func checkC06(c *Ctx) {
	p := c.P
	c.Rule("R1", "selection input is the usable-host snapshot; empty -> no dial; dial target and watched host are the picked host")
	c.Rule("R2", "every balancer returns nil or an element of its argument (index witness)")
	c.Rule("R3", "round-robin ticket: one atomic RMW result modulo len(hosts), full width")
	c.Rule("R4", "least-connection never returns the strictly busier sample")
	c.Rule("R5", "removal watcher: goroutine selecting on WaitRemoved() of the picked host closes both connections and outlives neither direction")
	c.Rule("R6", "removal notification hits the stored host")
	c.Rule("R7", "lb.New is total over the policy enum")
	c.Rule("R8", "candidate identity (shared with C15.R8): the healthy tiers - the candidate list - hold only the object the member map stores for an address, so the host that is picked is the one that removal notifies")

	hc := p.Func("proc/tcp", "(*tcpProc).HandleConn")
	bal := p.Named("proc/internal/lb", "Balancer")
	if hc == nil || bal == nil {
		c.Unresolved("R1", "tcpProc.HandleConn / lb.Balancer")
		return
	}
	// ---------------- R1
	var pick, healthy, dial *ssa.Call
	var picks, dials []*ssa.Call
	eachInstr(hc, func(_ *ssa.BasicBlock, _ int, in ssa.Instruction) {
		call, ok := in.(*ssa.Call)
		if !ok {
			return
		}
		if call.Call.IsInvoke() && call.Call.Method.Name() == "PickHost" {
			if pick == nil {
				pick = call
			}
			picks = append(picks, call)
		}
		if isMethodCall(call, modPath+"/host", "Set", "Healthy") {
			healthy = call
		}
		if g := calleeFn(call.Common()); g != nil && g.Name() == "dial" {
			if dial == nil {
				dial = call
			}
			dials = append(dials, call)
		}
	})
	// isPicked: the value is the result of a PickHost call, or a variable that is only ever assigned such results
	isPicked := func(v ssa.Value) bool {
		v = stripConv(v)
		for _, pk := range picks {
			if v == ssa.Value(pk) {
				return true
			}
		}
		cell := v
		if u, ok := v.(*ssa.UnOp); ok && u.Op == token.MUL {
			cell = cellKey(v)
		}
		al, ok := cell.(*ssa.Alloc)
		if !ok {
			return false
		}
		n := 0
		for _, r := range *al.Referrers() {
			st, isSt := r.(*ssa.Store)
			if !isSt || st.Addr != ssa.Value(al) {
				continue
			}
			n++
			okv := false
			for _, pk := range picks {
				if stripConv(st.Val) == ssa.Value(pk) {
					okv = true
				}
			}
			if !okv {
				return false
			}
		}
		return n > 0
	}
	if pick == nil || healthy == nil || dial == nil {
		c.Fail("R1", "handler shape", hc.Pos(), "the TCP handler does not take the healthy snapshot, pick a host and dial it")
	} else {
		okArg := true
		for _, pk := range picks {
			a := pk.Call.Args[0]
			if a == ssa.Value(healthy) {
				continue
			}
			// a candidate list derived from the snapshot by a module helper (a filter)
			fromSnap := false
			if hc2, ok := a.(*ssa.Call); ok {
				if g := calleeFn(hc2.Common()); g != nil && isModFn(g) {
					for _, x := range hc2.Call.Args {
						if x == ssa.Value(healthy) {
							fromSnap = true
						}
					}
				}
			}
			if !fromSnap {
				okArg = false
			}
		}
		c.Check(okArg, "R1", "PickHost argument", pick.Pos(), "PickHost(hostSet.Healthy()) (or a list filtered from it)", "the balancer is not given the usable-host snapshot (it can select removed or unhealthy hosts)")
		f, _ := loadedField(healthy.Call.Args[0])
		c.Check(f != nil && f.Name() == "hostSet", "R1", "snapshot of the proc's own host set", healthy.Pos(), "p.hostSet.Healthy()", "the snapshot is not taken from the service's own host set")
		// empty -> return before dial: the dial block is dominated by len(healthy) != 0
		okEmpty := false
		for _, d := range hc.Blocks {
			iff, ok := d.Instrs[len(d.Instrs)-1].(*ssa.If)
			if !ok {
				continue
			}
			cmp, ok := iff.Cond.(*ssa.BinOp)
			if !ok {
				continue
			}
			call, ok := cmp.X.(*ssa.Call)
			if !ok || !isBuiltin(call, "len") || call.Call.Args[0] != ssa.Value(healthy) {
				continue
			}
			z, isZ := constInt(cmp.Y)
			if !isZ || z != 0 {
				continue
			}
			k := 1
			if cmp.Op == token.NEQ || cmp.Op == token.GTR {
				k = 0
			}
			if s := d.Succs[k]; len(s.Preds) == 1 && (s == dial.Block() || s.Dominates(dial.Block())) && (s == pick.Block() || s.Dominates(pick.Block())) {
				okEmpty = true
			}
		}
		c.Check(okEmpty, "R1", "no dial without a usable host", dial.Pos(), "pick and dial dominated by len(snapshot) != 0", "with no usable host the handler still picks/dials (nil host dereference or a connection to an unusable host)")
		okDial := true
		for _, dl := range dials {
			if !isPicked(dl.Call.Args[1]) {
				okDial = false
			}
		}
		c.Check(okDial, "R1", "dial target is the picked host", dial.Pos(), "dial(PickHost result)", "the handler dials a host other than the one the balancer returned")
	}
	c.Expect("R1", 4)

	// ---------------- R2, R3, R4
	iface := bal.Underlying().(*types.Interface)
	nb := 0
	for _, fn := range p.FuncsIn("proc/internal/lb") {
		if p.isTestFn(fn) || fn.Name() != "PickHost" || fn.Signature.Recv() == nil || !types.Implements(fn.Signature.Recv().Type(), iface) {
			continue
		}
		nb++
		hosts := fn.Params[1]
		bc := newBoundsCtx(p, fn)
		bc.valMin = nil
		// rand.Int() based sources are non-negative
		nonNeg := map[ssa.Value]bool{}
		eachInstr(fn, func(_ *ssa.BasicBlock, _ int, in ssa.Instruction) {
			call, ok := in.(*ssa.Call)
			if !ok {
				return
			}
			if u, ok := call.Call.Value.(*ssa.UnOp); ok {
				if g, ok := u.X.(*ssa.Global); ok && randSourceNonNegative(p, g) {
					nonNeg[call] = true
				}
			}
		})
		for v := range nonNeg {
			bc.z.addLE(lconst(0), bc.term(v))
		}
		nret := 0
		eachInstr(fn, func(_ *ssa.BasicBlock, _ int, in ssa.Instruction) {
			ret, ok := in.(*ssa.Return)
			if !ok {
				return
			}
			nret++
			site := fmt.Sprintf("%s return#%d", fnKey(fn), nret)
			v := returnedValues(ret)[0]
			if isNilConst(v) {
				c.OK("R2", site, ret.Pos(), "nil")
				return
			}
			var elems []*ssa.IndexAddr
			okAll := true
			viaHelper := false
			var walk func(v ssa.Value, d int)
			walk = func(v ssa.Value, d int) {
				if d > 6 {
					okAll = false
					return
				}
				switch x := v.(type) {
				case *ssa.Phi:
					for _, e := range x.Edges {
						walk(e, d+1)
					}
				case *ssa.UnOp:
					if ia, ok := x.X.(*ssa.IndexAddr); ok && x.Op == token.MUL && ia.X == ssa.Value(hosts) {
						elems = append(elems, ia)
					} else {
						okAll = false
					}
				case *ssa.Call:
					// helper that returns an element of its slice parameter, given our candidate list
					g := calleeFn(x.Common())
					if g == nil || !isModFn(g) || g.Blocks == nil {
						okAll = false
						return
					}
					k := -1
					for i, a := range x.Call.Args {
						if a == ssa.Value(hosts) {
							k = i
						}
					}
					if k < 0 {
						okAll = false
						return
					}
					hp := g.Params[k]
					hbc := newBoundsCtx(p, g)
					for w := range nonNeg {
						_ = w
					}
					eachInstr(g, func(_ *ssa.BasicBlock, _ int, in2 ssa.Instruction) {
						if call2, ok := in2.(*ssa.Call); ok {
							if u, ok := call2.Call.Value.(*ssa.UnOp); ok {
								if gl, ok := u.X.(*ssa.Global); ok && randSourceNonNegative(p, gl) {
									hbc.z.addLE(lconst(0), hbc.term(call2))
								}
							}
						}
					})
					// the caller guarantees len(hosts) != 0 where it calls the helper?
					cbz := bc.zoneAt(x.Block())
					callerNonEmpty := cbz.entLE(lconst(1), bc.lenOf(hosts))
					eachInstr(g, func(_ *ssa.BasicBlock, _ int, in2 ssa.Instruction) {
						ret, ok := in2.(*ssa.Return)
						if !ok {
							return
						}
						rv := returnedValues(ret)[0]
						if isNilConst(rv) {
							return
						}
						ld, ok := rv.(*ssa.UnOp)
						if !ok {
							okAll = false
							return
						}
						ia, ok := ld.X.(*ssa.IndexAddr)
						if !ok || ia.X != ssa.Value(hp) {
							okAll = false
							return
						}
						if callerNonEmpty {
							hbc.z.addLE(lconst(1), hbc.lenOf(hp))
						}
						ok2, w := hbc.proveIndex(ia, ia.X, ia.Index)
						if ok2 {
							c.OK("R2", site+" via "+g.Name(), ia.Pos(), "helper returns an element of the candidate list; "+w)
							viaHelper = true
						} else {
							c.Fail("R2", site+" via "+g.Name(), ia.Pos(), "index into the candidate list has no witness in helper "+g.Name()+": "+w)
							viaHelper = true
						}
					})
				default:
					if !isNilConst(v) {
						okAll = false
					}
				}
			}
			walk(v, 0)
			if okAll && viaHelper && len(elems) == 0 {
				return
			}
			if !okAll || len(elems) == 0 {
				c.Fail("R2", site, ret.Pos(), "the balancer can return a host that is not an element of the candidate list it was given (cached or otherwise obtained)")
				return
			}
			for _, ia := range elems {
				ok2, w := bc.proveIndex(ia, ia.X, ia.Index)
				if ok2 {
					c.OK("R2", site, ia.Pos(), "element of the argument; "+w)
				} else {
					c.Fail("R2", site, ia.Pos(), "index into the candidate list has no witness: "+w)
				}
			}
		})
		// R3 round robin: index derived from an atomic RMW
		eachInstr(fn, func(_ *ssa.BasicBlock, _ int, in ssa.Instruction) {
			ia, ok := in.(*ssa.IndexAddr)
			if !ok || ia.X != ssa.Value(hosts) {
				return
			}
			rem, ok := stripNoopConv(ia.Index).(*ssa.BinOp)
			if !ok || rem.Op != token.REM {
				return
			}
			// is the dividend (transitively) a method call on an atomic counter field?
			var rmw *ssa.Call
			var narrowed bool
			x := rem.X
			for i := 0; i < 4; i++ {
				if cv, ok := x.(*ssa.Convert); ok {
					if intBits(cv.Type()) < intBits(cv.X.Type()) {
						narrowed = true
					}
					x = cv.X
					continue
				}
				break
			}
			if call, ok := x.(*ssa.Call); ok {
				if g := calleeFn(call.Common()); g != nil && len(call.Call.Args) >= 1 {
					if f, _ := loadedField(call.Call.Args[0]); f != nil && typeIsAtomic(f.Type()) {
						rmw = call
					} else if f, _ := fieldAddr(call.Call.Args[0]); f != nil && typeIsAtomic(f.Type()) {
						rmw = call
					}
				}
			}
			if rmw == nil {
				return
			}
			site := fnKey(fn) + " ticket"
			name := calleeFn(rmw.Common()).Name()
			isRMW := name == "Inc" || name == "Add" || name == "Dec" || name == "Sub"
			c.Check(isRMW, "R3", site+" from one atomic read-modify-write", rmw.Pos(), "index from "+name+"()", "the round-robin index is read with "+name+"() instead of one atomic read-modify-write: concurrent accepts can draw the same ticket")
			// modulus = len(hosts) converted without narrowing
			y := rem.Y
			narrowY := false
			for i := 0; i < 4; i++ {
				if cv, ok := y.(*ssa.Convert); ok {
					if intBits(cv.Type()) < intBits(cv.X.Type()) {
						narrowY = true
					}
					y = cv.X
					continue
				}
				break
			}
			isLen := false
			if call, ok := y.(*ssa.Call); ok && isBuiltin(call, "len") && call.Call.Args[0] == ssa.Value(hosts) {
				isLen = true
			}
			c.Check(isLen, "R3", site+" modulo len(hosts)", rem.Pos(), "modulus is len(hosts)", "the round-robin modulus is not len(hosts)")
			c.Check(!narrowed && !narrowY, "R3", site+" full width", rem.Pos(), "ticket and modulus keep the counter's width", "the ticket is truncated before the modulo: when the truncated value wraps, one host is picked twice in a row and another skipped (exact n*k fairness breaks)")
		})
		// R3 fallback: the balancer has an atomic counter but the ticket is computed in a helper (no local modulo): every
		// value the index derives from must be the result of a read-modify-write on that counter
		if recv := fn.Signature.Recv(); recv != nil && !hasLocalTicket(fn, hosts) {
			if st, ok := deref(recv.Type()).Underlying().(*types.Struct); ok {
				hasAtomic := false
				for i := 0; i < st.NumFields(); i++ {
					if typeIsAtomic(st.Field(i).Type()) {
						hasAtomic = true
					}
				}
				if hasAtomic {
					names := map[string]bool{}
					eachInstr(fn, func(_ *ssa.BasicBlock, _ int, in ssa.Instruction) {
						ia, ok := in.(*ssa.IndexAddr)
						if !ok || ia.X != ssa.Value(hosts) {
							return
						}
						seen := map[ssa.Value]bool{}
						var walk func(v ssa.Value, d int)
						walk = func(v ssa.Value, d int) {
							if v == nil || seen[v] || d < 0 {
								return
							}
							seen[v] = true
							switch x := v.(type) {
							case *ssa.BinOp:
								walk(x.X, d)
								walk(x.Y, d)
							case *ssa.Convert:
								walk(x.X, d)
							case *ssa.ChangeType:
								walk(x.X, d)
							case *ssa.Phi:
								for _, e := range x.Edges {
									walk(e, d)
								}
							case *ssa.Call:
								g := calleeFn(x.Common())
								if g == nil {
									return
								}
								if len(x.Call.Args) > 0 {
									if f, _ := loadedField(x.Call.Args[0]); f != nil && typeIsAtomic(f.Type()) {
										names[g.Name()] = true
										return
									}
									if f, _ := fieldAddr(x.Call.Args[0]); f != nil && typeIsAtomic(f.Type()) {
										names[g.Name()] = true
										return
									}
								}
								if isModFn(g) && g.Blocks != nil {
									eachInstr(g, func(_ *ssa.BasicBlock, _ int, y ssa.Instruction) {
										if r, ok := y.(*ssa.Return); ok {
											for _, rv := range returnedValues(r) {
												walk(rv, d-1)
											}
										}
									})
								}
							}
						}
						walk(ia.Index, 2)
					})
					bad := ""
					for n := range names {
						if n != "Inc" && n != "Add" && n != "Dec" && n != "Sub" {
							bad = n
						}
					}
					site := fnKey(fn) + " ticket"
					switch {
					case len(names) == 0:
						c.Fail("R3", site+" from one atomic read-modify-write", fn.Pos(), "the round-robin index does not derive from the balancer's atomic counter")
					case bad != "":
						c.Fail("R3", site+" from one atomic read-modify-write", fn.Pos(), "the round-robin index is read with "+bad+"() and the counter advanced separately instead of one atomic read-modify-write: two overlapping picks draw the same ticket, one position of the cycle is skipped and n*k selections are no longer exactly k per host")
					default:
						c.OK("R3", site+" from one atomic read-modify-write", fn.Pos(), "index derives only from a read-modify-write result (through a helper)")
					}
				}
			}
		}
		// R4 least connection
		checkLeastConn(c, fn, hosts)
	}
	c.Check(nb >= 3, "R2", "balancer implementations", token.NoPos, fmt.Sprintf("%d implementations", nb), "expected three balancer implementations")
	c.Expect("R2", 6)
	c.Expect("R3", 1)
	c.Expect("R4", 3)

	// ---------------- R5
	if pick != nil {
		okWatch := false
		var watcher *ssa.Function
		// canonical handler-side value of something the watcher uses: captured variables go to their cell's single
		// store, parameters of a watcher method go to the argument of the go statement
		canonical := func(v ssa.Value, w *ssa.Function, goIn *ssa.Go) ssa.Value {
			v = stripConv(v)
			if prm, ok := v.(*ssa.Parameter); ok && prm.Parent() == w {
				idx := paramIndex(w, prm)
				if idx < len(goIn.Call.Args) {
					v = stripConv(goIn.Call.Args[idx])
				}
			}
			if u, ok := v.(*ssa.UnOp); ok && u.Op == token.MUL {
				cell := cellKey(v)
				if al, isAl := cell.(*ssa.Alloc); isAl {
					var st *ssa.Store
					n := 0
					for _, r := range *al.Referrers() {
						if s2, isSt := r.(*ssa.Store); isSt && s2.Addr == ssa.Value(al) {
							st, n = s2, n+1
						}
					}
					if n == 1 {
						return stripConv(st.Val)
					}
					return al
				}
			}
			return v
		}
		type cand struct {
			fn   *ssa.Function
			goIn *ssa.Go
		}
		var cands []cand
		eachInstr(hc, func(_ *ssa.BasicBlock, _ int, in ssa.Instruction) {
			if g, ok := in.(*ssa.Go); ok {
				if f := funcValue(g.Call.Value); f != nil {
					cands = append(cands, cand{f, g})
				} else if f := calleeFn(&g.Call); f != nil && f.Blocks != nil {
					cands = append(cands, cand{f, g})
				}
			}
		})
		var watchGo *ssa.Go
		var watchedHost ssa.Value
		for _, cd := range cands {
			a := cd.fn
			eachInstr(a, func(_ *ssa.BasicBlock, _ int, in ssa.Instruction) {
				sel, ok := in.(*ssa.Select)
				if !ok {
					return
				}
				for k, st := range sel.States {
					call, ok := st.Chan.(*ssa.Call)
					if !ok {
						continue
					}
					if g := calleeFn(call.Common()); g == nil || g.Name() != "WaitRemoved" {
						continue
					}
					// the receiver is the picked host
					recvOK := isPicked(canonical(call.Call.Args[0], a, cd.goIn))
					cb := selectCaseBlock(sel, k)
					ncl := 0
					if cb != nil {
						for _, x := range cb.Instrs {
							if cc := callOf(x); cc != nil && ((cc.IsInvoke() && cc.Method.Name() == "Close") || (calleeFn(cc) != nil && calleeFn(cc).Name() == "Close")) {
								ncl++
							}
						}
					}
					if recvOK && ncl >= 2 {
						okWatch = true
						watcher = a
						watchGo = cd.goIn
						watchedHost = canonical(call.Call.Args[0], a, cd.goIn)
					}
				}
			})
		}
		if okWatch && watcher != nil {
			// the watcher's exit latch must be closed only when the handler itself returns (both directions done),
			// not when the first direction finishes
			lifeOK, why := true, ""
			eachInstr(watcher, func(_ *ssa.BasicBlock, _ int, in ssa.Instruction) {
				sel, ok := in.(*ssa.Select)
				if !ok {
					return
				}
				for _, st := range sel.States {
					if call, ok := st.Chan.(*ssa.Call); ok && calleeFn(call.Common()) != nil && calleeFn(call.Common()).Name() == "WaitRemoved" {
						continue
					}
					exitCh := canonical(st.Chan, watcher, watchGo)
					if _, isMk := exitCh.(*ssa.MakeChan); !isMk {
						if _, isAl := exitCh.(*ssa.Alloc); !isAl {
							lifeOK, why = false, "exit case is not a channel of the handler"
							continue
						}
					}
					closedInHandler, closedElsewhere := false, false
					for _, f := range withAnon(hc) {
						eachInstr(f, func(_ *ssa.BasicBlock, _ int, x ssa.Instruction) {
							if !isBuiltin(x, "close") {
								return
							}
							if canonical(callOf(x).Args[0], nil, nil) != exitCh {
								return
							}
							_, isDefer := x.(*ssa.Defer)
							if f == hc && isDefer {
								closedInHandler = true
							} else {
								closedElsewhere = true
							}
						})
					}
					if !closedInHandler || closedElsewhere {
						lifeOK, why = false, "the channel that ends the watcher is closed when one relay direction finishes, not when the handler returns"
					}
				}
			})
			if lifeOK {
				c.OK("R5", "watcher lives as long as the handler", watcher.Pos(), "its exit latch is closed by a defer of the handler")
			} else {
				c.Fail("R5", "watcher lives as long as the handler", watcher.Pos(), why+": after the client half-closes, the connection keeps streaming from the host but is no longer closed when that host is removed")
			}
		}
		// the host whose removal is watched (and whose counters are kept) is the host every dial of the session goes to
		if okWatch && watchedHost != nil {
			for i, dl := range dials {
				a := stripConv(resolveCell(stripConv(dl.Call.Args[1])))
				bound, why := false, ""
				switch h := watchedHost.(type) {
				case *ssa.Alloc:
					// a variable assigned more than once: the dial reads it (or dials the value just assigned to it)
					if u, ok := a.(*ssa.UnOp); ok && u.Op == token.MUL && cellKey(a) == ssa.Value(h) {
						bound = true
					}
					for _, r := range *h.Referrers() {
						if st, ok := r.(*ssa.Store); ok && st.Addr == ssa.Value(h) && stripConv(st.Val) == a && instrDominates(st, dl) {
							later := false
							for _, r2 := range *h.Referrers() {
								if st2, ok := r2.(*ssa.Store); ok && st2 != st && st2.Addr == ssa.Value(h) && instrDominates(st, st2) && instrDominates(st2, dl) {
									later = true
								}
							}
							if !later {
								bound = true
							}
						}
					}
					why = "the dial does not read the variable whose removal is watched"
				case *ssa.Phi:
					for _, e := range h.Edges {
						if stripConv(e) == a {
							bound = true
						}
					}
					why = "the host dialled is none of the values the watched variable can hold"
				default:
					bound = a == watchedHost
					why = "the session watches " + exprDesc(watchedHost) + " but dials " + exprDesc(a)
				}
				c.Check(bound, "R5", fmt.Sprintf("dial#%d goes to the host whose removal is watched", i+1), dl.Pos(), "dial target and watched host are the same variable", why+": the session is bound to a host it is not connected to - removing that other host cuts this healthy session, removing the real one does not, and the connection counters of the wrong host are changed")
			}
		}
		c.Check(okWatch, "R5", "watcher goroutine", hc.Pos(), "go select{ <-host.WaitRemoved(): close both connections }", "the handler does not watch the picked host's removal and close both connections: established connections survive the removal of their host")
		_ = watcher
	}
	checkRemovalIdentity(c, "R6")
	checkTierIdentity(c, "R8")
	c.Rule("R9", "balancer input: every IncConnCount is released by DecConnCount on every path out of the function")
	checkHostConnPairing(c, "R9")
	c.Rule("R10", "the candidate list handed out by Healthy() is never written, sorted or spliced in place by a reader (shared with C15.R9)")
	checkSnapshotImmutable(c, "R10")
	c.Rule("R11", "a removed host leaves the candidate list (shared with C15.R10): from every delete on the member map the stored object reaches a tier purge on every path, independent of its health flag")
	checkMemberDeleteLeavesTiers(c, "R11")
	c.Rule("R12", "every endpoint event reaches the host set: each processor's add/remove/replace handler hands the event's own list to host.Set.Add/Remove/ReplaceAll on every path (the empty-list return aside)")
	checkEndpointEventsReachSet(c, "R12")
	c.Rule("R14", "random sources shared by connection goroutines are goroutine-safe: a *rand.Rand (which is not) kept in a package-level variable or a field is only used under a mutex")
	checkSharedRandSource(c, "R14")
	c.Rule("R13", "the policy in force is the configured one (shared with C08.R5): a processor's configuration is replaced only after every fallible step of the update succeeded - otherwise a refused update leaves the new policy recorded but the old balancer in place, and no later update rebuilds it")
	c.withAlias(map[string]string{"R5": "R13", "R1": "", "R2": "", "R3": "", "R4": "", "R6": "", "R7": "", "R8": "", "R9": "", "R10": "", "R11": "", "R12": "", "R13": "", "R14": "", "R15": "", "R16": "", "R17": ""}, func() { checkC08(c) })
	// the snapshot given to the balancer is current only if every tier change rebuilds the cache
	checkTierRebuild(c, "R1")

	// ---------------- R7
	newFn := p.Func("proc/internal/lb", "New")
	if newFn == nil {
		c.Unresolved("R7", "lb.New")
	} else {
		okAll := true
		n := 0
		// a value that is a constructed balancer: the interface made of a constructor's result; the result of a module
		// function all of whose returns are such; the result of calling a builder taken from a package-level table with
		// the comma-ok form, all of whose entries are such functions
		var built func(v ssa.Value, depth int) bool
		allReturnsBuilt := func(g *ssa.Function, depth int) bool {
			if g == nil || g.Blocks == nil || depth > 3 {
				return false
			}
			ok, nr := true, 0
			eachInstr(g, func(_ *ssa.BasicBlock, _ int, in ssa.Instruction) {
				if ret, isRet := in.(*ssa.Return); isRet && len(ret.Results) == 1 {
					nr++
					if !built(returnedValues(ret)[0], depth+1) {
						ok = false
					}
				}
			})
			return ok && nr > 0
		}
		built = func(v ssa.Value, depth int) bool {
			switch x := v.(type) {
			case *ssa.MakeInterface:
				call, ok := x.X.(*ssa.Call)
				return ok && calleeFn(call.Common()) != nil
			case *ssa.Call:
				if g := calleeFn(x.Common()); g != nil {
					return isModFn(g) && allReturnsBuilt(g, depth)
				}
				// builder from a table
				ex, ok := x.Call.Value.(*ssa.Extract)
				if !ok || ex.Index != 0 {
					return false
				}
				lk, ok := ex.Tuple.(*ssa.Lookup)
				if !ok || !lk.CommaOk {
					return false
				}
				ld, ok := lk.X.(*ssa.UnOp)
				if !ok {
					return false
				}
				g, ok := ld.X.(*ssa.Global)
				if !ok {
					return false
				}
				// the call is on the ok branch
				onOK := false
				for _, r := range *lk.Referrers() {
					if e1, isEx := r.(*ssa.Extract); isEx && e1.Index == 1 {
						for _, rr := range *e1.Referrers() {
							if iff, isIf := rr.(*ssa.If); isIf {
								if s := iff.Block().Succs[0]; len(s.Preds) == 1 && (s == x.Block() || s.Dominates(x.Block())) {
									onOK = true
								}
							}
						}
					}
				}
				if !onOK {
					return false
				}
				// every entry of the table, which only the package initialiser writes
				nent, okEnt := 0, true
				for _, sf := range p.SrcFns {
					if fnPkg(sf) != fnPkg(newFn) || p.isTestFn(sf) {
						continue
					}
					eachInstr(sf, func(_ *ssa.BasicBlock, _ int, in ssa.Instruction) {
						mu, isMU := in.(*ssa.MapUpdate)
						if !isMU {
							return
						}
						tbl := false
						if l2, isLd := mu.Map.(*ssa.UnOp); isLd && l2.X == ssa.Value(g) {
							tbl = true
						}
						for _, r := range *mu.Map.Referrers() {
							if st, isSt := r.(*ssa.Store); isSt && st.Addr == ssa.Value(g) {
								tbl = true
							}
						}
						if !tbl {
							return
						}
						nent++
						if sf.Name() != "init" || !allReturnsBuilt(funcValue(mu.Value), depth+1) {
							okEnt = false
						}
					})
				}
				return okEnt && nent > 0
			}
			return false
		}
		eachInstr(newFn, func(_ *ssa.BasicBlock, _ int, in ssa.Instruction) {
			ret, ok := in.(*ssa.Return)
			if !ok {
				return
			}
			n++
			if !built(returnedValues(ret)[0], 0) {
				okAll = false
			}
		})
		c.Check(okAll && n >= 1, "R7", "lb.New never returns nil", newFn.Pos(), fmt.Sprintf("%d returns, each a constructed balancer (default arm included)", n), "lb.New can return no balancer for some policy value")
	}
}

func stripNoopConv(v ssa.Value) ssa.Value {
	for {
		cv, ok := v.(*ssa.Convert)
		if !ok {
			return v
		}
		v = cv.X
	}
}

func typeIsAtomic(t types.Type) bool {
	n := namedOf(t)
	if n == nil || n.Obj().Pkg() == nil {
		return false
	}
	pth := n.Obj().Pkg().Path()
	return pth == "go.uber.org/atomic" || pth == "sync/atomic"
}

// randSourceNonNegative: global g is a func variable whose only non-test assignment returns math/rand.Int().
func randSourceNonNegative(p *Prog, g *ssa.Global) bool {
	ok := false
	n := 0
	for _, in := range p.globalUses(g) {
		st, isSt := in.(*ssa.Store)
		if !isSt || st.Addr != ssa.Value(g) {
			continue
		}
		n++
		fn := funcValue(st.Val)
		if fn == nil || len(fn.Blocks) != 1 {
			return false
		}
		ret, isRet := fn.Blocks[0].Instrs[len(fn.Blocks[0].Instrs)-1].(*ssa.Return)
		if !isRet || len(ret.Results) != 1 {
			return false
		}
		if call, isCall := returnedValues(ret)[0].(*ssa.Call); isCall && isCallTo(call, "math/rand.Int", "math/rand.Intn", "math/rand.Int63", "math/rand.Int31", "(*math/rand.Rand).Int", "(*math/rand.Rand).Intn", "(*math/rand.Rand).Int63", "(*math/rand.Rand).Int31") {
			ok = true
		}
	}
	return ok && n == 1
}

func checkLeastConn(c *Ctx, fn *ssa.Function, hosts *ssa.Parameter) {
	p := c.P
	// find a comparison of two ConnCount() results
	var cmp *ssa.BinOp
	var h1, h2 ssa.Value
	eachInstr(fn, func(_ *ssa.BasicBlock, _ int, in ssa.Instruction) {
		bo, ok := in.(*ssa.BinOp)
		if !ok {
			return
		}
		c1, ok1 := bo.X.(*ssa.Call)
		c2, ok2 := bo.Y.(*ssa.Call)
		if !ok1 || !ok2 {
			return
		}
		g1, g2 := calleeFn(c1.Common()), calleeFn(c2.Common())
		if g1 == nil || g2 == nil || g1.Name() != "ConnCount" || g2.Name() != "ConnCount" {
			return
		}
		cmp = bo
		h1, h2 = hostOfStats(c1.Call.Args[0]), hostOfStats(c2.Call.Args[0])
	})
	if cmp == nil {
		return
	}
	if h1 == nil || h2 == nil {
		c.Undecided("R4", fnKey(fn)+" samples", cmp.Pos(), "cannot identify the two sampled hosts")
		return
	}
	type region struct {
		name string
		mk   func(z *Zone)
		ok   func(ret ssa.Value) bool
		want string
	}
	regions := []region{
		{"count1 < count2", func(z *Zone) { z.addLT(lterm{"c1", 0}, lterm{"c2", 0}) }, func(r ssa.Value) bool { return r == h1 }, "the first (less busy) sample"},
		{"count1 == count2", func(z *Zone) { z.addEQ(lterm{"c1", 0}, lterm{"c2", 0}) }, func(r ssa.Value) bool { return r == h1 || r == h2 }, "either sample"},
		{"count1 > count2", func(z *Zone) { z.addLT(lterm{"c2", 0}, lterm{"c1", 0}) }, func(r ssa.Value) bool { return r == h2 }, "the second (less busy) sample"},
	}
	iff, _ := cmp.Block().Instrs[len(cmp.Block().Instrs)-1].(*ssa.If)
	if iff == nil || iff.Cond != ssa.Value(cmp) {
		c.Undecided("R4", fnKey(fn)+" decision", cmp.Pos(), "the comparison does not decide a branch")
		return
	}
	for i, rg := range regions {
		z := newZone()
		rg.mk(z)
		d := z.decide(cmp.Op.String(), lterm{"c1", 0}, lterm{"c2", 0})
		site := fmt.Sprintf("%s ordering %d: %s", fnKey(fn), i+1, rg.name)
		if d < 0 {
			c.Undecided("R4", site, cmp.Pos(), "comparison undecided")
			continue
		}
		b := cmp.Block().Succs[1-d]
		// follow jumps to the return
		var ret *ssa.Return
		for steps := 0; steps < 8 && ret == nil; steps++ {
			switch t := b.Instrs[len(b.Instrs)-1].(type) {
			case *ssa.Return:
				ret = t
			case *ssa.Jump:
				b = b.Succs[0]
			default:
				steps = 8
			}
		}
		if ret == nil {
			c.Undecided("R4", site, cmp.Pos(), "no return after the comparison")
			continue
		}
		rv := returnedValues(ret)[0]
		if ph, ok := rv.(*ssa.Phi); ok {
			// pick the edge coming from the taken branch
			for k, pred := range ph.Block().Preds {
				tb := cmp.Block().Succs[1-d]
				if pred == tb || tb.Dominates(pred) {
					rv = ph.Edges[k]
				}
			}
		}
		if rg.ok(rv) {
			c.OK("R4", site, ret.Pos(), "returns "+rg.want)
		} else {
			c.Fail("R4", site, ret.Pos(), "least-connection returns the strictly busier of its two samples in this ordering (must return "+rg.want+")")
		}
	}
	_ = p
	_ = hosts
}

// hostOfStats: receiver of ConnCount is host.Stats (embedded pointer field) of some host value.
func hostOfStats(v ssa.Value) ssa.Value {
	if f, base := loadedField(v); f != nil && f.Name() == "Stats" {
		return base
	}
	return nil
}

// resolveCell looks through a load of a local variable cell that is assigned exactly once.
func resolveCell(v ssa.Value) ssa.Value {
	for i := 0; i < 4; i++ {
		u, ok := v.(*ssa.UnOp)
		if !ok || u.Op != token.MUL {
			return v
		}
		al, ok := u.X.(*ssa.Alloc)
		if !ok {
			return v
		}
		var st *ssa.Store
		n := 0
		for _, r := range *al.Referrers() {
			if s, ok := r.(*ssa.Store); ok && s.Addr == ssa.Value(al) {
				st, n = s, n+1
			}
		}
		if n != 1 {
			return v
		}
		v = st.Val
	}
	return v
}

// checkHostConnPairing (C06.R9): the per-host connection count is the input of the least-connection balancer. Every
// increment must be released on every path out of the function: after IncConnCount(h) each path to a return crosses
// DecConnCount (directly, or a defer of a closure/function that calls it). A leaked increment makes an idle host
// look busy for ever, so the balancer keeps preferring the really busier one.
func checkHostConnPairing(c *Ctx, rule string) {
	p := c.P
	inc := p.Func(hostPkg, "(*Stats).IncConnCount")
	dec := p.Func(hostPkg, "(*Stats).DecConnCount")
	if inc == nil || dec == nil {
		c.Unresolved(rule, "host.(*Stats).IncConnCount / DecConnCount")
		return
	}
	releases := func(in ssa.Instruction) bool {
		if isCallToFn(in, dec) {
			return true
		}
		if d, ok := in.(*ssa.Defer); ok {
			for _, g := range p.callees(d) {
				found := false
				for _, h := range append([]*ssa.Function{g}, staticCalleesDeep(g, 2)...) {
					eachInstr(h, func(_ *ssa.BasicBlock, _ int, x ssa.Instruction) {
						if isCallToFn(x, dec) {
							found = true
						}
					})
				}
				if found {
					return true
				}
			}
		}
		return false
	}
	n := 0
	for _, ed := range p.callersOf(inc) {
		fn := ed.Caller.Func
		if p.isTestFn(fn) {
			continue
		}
		n++
		site := fmt.Sprintf("IncConnCount#%d in %s released on every path", n, fnKey(fn))
		path := findPath(posOf(ed.Site), pathQuery{target: isReturn, avoid: releases})
		c.Check(path == nil, rule, site, ed.Site.Pos(), "every path from the increment to a return crosses DecConnCount (or its defer)", "a path returns with the per-host connection count still incremented ("+p.pathString(path)+"): after such failures the least-connection balancer sees an idle host as busy and prefers the really busier one")
	}
	if n == 0 {
		c.Unresolved(rule, "no caller of IncConnCount")
	}
}

// hasLocalTicket: the function indexes the candidate list with a local `x % y` whose dividend is a call on an atomic field.
func hasLocalTicket(fn *ssa.Function, hosts ssa.Value) bool {
	found := false
	eachInstr(fn, func(_ *ssa.BasicBlock, _ int, in ssa.Instruction) {
		ia, ok := in.(*ssa.IndexAddr)
		if !ok || ia.X != hosts {
			return
		}
		rem, ok := stripNoopConv(ia.Index).(*ssa.BinOp)
		if !ok || rem.Op != token.REM {
			return
		}
		x := rem.X
		for i := 0; i < 4; i++ {
			if cv, ok := x.(*ssa.Convert); ok {
				x = cv.X
				continue
			}
			break
		}
		if call, ok := x.(*ssa.Call); ok && len(call.Call.Args) >= 1 {
			if f, _ := loadedField(call.Call.Args[0]); f != nil && typeIsAtomic(f.Type()) {
				found = true
			} else if f, _ := fieldAddr(call.Call.Args[0]); f != nil && typeIsAtomic(f.Type()) {
				found = true
			}
		}
	})
	return found
}

// checkEndpointEventsReachSet (C06.R12, C08.R10): every processor applies every endpoint event to its host set. For each
// implementation of OnSvcHostAdd / OnSvcHostRemove / OnSvcAllHostReplace, every path from the entry to a return passes
// a call of host.(*Set).Add / Remove / ReplaceAll that is given the event's own host list (directly or through module
// helpers that hand the list on) - except a return taken because the list is empty. A shortcut that skips the call
// when the event "brings nothing new" judged by addresses alone drops changes of a host's type and lists that name
// an address twice, and the set keeps members that the configuration no longer has.
func checkEndpointEventsReachSet(c *Ctx, rule string) {
	p := c.P
	ops := map[string]string{"OnSvcHostAdd": "Add", "OnSvcHostRemove": "Remove", "OnSvcAllHostReplace": "ReplaceAll"}
	var reach func(fn *ssa.Function, prm *ssa.Parameter, op string, depth int) []*ssa.BasicBlock
	reach = func(fn *ssa.Function, prm *ssa.Parameter, op string, depth int) []*ssa.BasicBlock {
		isPrm := func(v ssa.Value) bool {
			v = stripConv(v)
			if v == ssa.Value(prm) {
				return true
			}
			if sl, ok := v.(*ssa.Slice); ok && sl.Low == nil && sl.High == nil && stripConv(sl.X) == ssa.Value(prm) {
				return true
			}
			return false
		}
		applies := func(in ssa.Instruction) bool {
			cc := callOf(in)
			if cc == nil {
				return false
			}
			if _, isGo := in.(*ssa.Go); isGo {
				return false
			}
			g := calleeFn(cc)
			if g == nil || !isModFn(g) {
				return false
			}
			for i, a := range cc.Args {
				if !isPrm(a) {
					continue
				}
				if g.Name() == op && g.Signature.Recv() != nil && modType(g.Signature.Recv().Type(), "host", "Set") {
					return true
				}
				if depth < 2 && g.Blocks != nil && i < len(g.Params) {
					if reach(g, g.Params[i], op, depth+1) == nil {
						return true
					}
				}
			}
			return false
		}
		// returns inside the "list is empty" branch do not count
		emptyRet := map[*ssa.BasicBlock]bool{}
		for _, d := range fn.Blocks {
			iff, ok := d.Instrs[len(d.Instrs)-1].(*ssa.If)
			if !ok {
				continue
			}
			cmp, ok := iff.Cond.(*ssa.BinOp)
			if !ok || cmp.Op != token.EQL {
				continue
			}
			ln, ok := cmp.X.(*ssa.Call)
			if !ok || !isBuiltin(ln, "len") || stripConv(ln.Call.Args[0]) != ssa.Value(prm) {
				continue
			}
			if z, isZ := constInt(cmp.Y); !isZ || z != 0 {
				continue
			}
			if s := d.Succs[0]; len(s.Preds) == 1 {
				for _, b := range fn.Blocks {
					if b == s || s.Dominates(b) {
						emptyRet[b] = true
					}
				}
			}
		}
		return findPath(entryPos(fn), pathQuery{target: func(in ssa.Instruction) bool {
			_, isRet := in.(*ssa.Return)
			return isRet && !emptyRet[in.Block()]
		}, avoid: applies})
	}
	n := 0
	for _, fn := range p.SrcFns {
		op, ok := ops[fn.Name()]
		if !ok || !isModFn(fn) || p.isTestFn(fn) || fn.Signature.Recv() == nil || fn.Blocks == nil || fn.Synthetic != "" {
			continue
		}
		if pk := fnPkg(fn); pk == nil || strings.Contains(pk.Pkg.Path(), "/mock") {
			continue
		}
		var prm *ssa.Parameter
		for _, q := range fn.Params[1:] {
			if _, isSl := q.Type().Underlying().(*types.Slice); isSl {
				prm = q
			}
		}
		if prm == nil {
			continue
		}
		n++
		site := fmt.Sprintf("%s applies the event to the host set", fnKey(fn))
		if path := reach(fn, prm, op, 0); path != nil {
			c.Fail(rule, site, fn.Pos(), "a path returns without handing the event's host list to host.Set."+op+" ("+p.pathString(path)+"): the event is dropped - a host whose type changed keeps its old tier, a host the list no longer names stays a member and keeps being selected")
		} else {
			c.OK(rule, site, fn.Pos(), "every path (but the empty-list return) reaches host.Set."+op+" with the event's list")
		}
	}
	if n < 6 {
		c.Unresolved(rule, fmt.Sprintf("expected the endpoint handlers of the TCP and the Redis processor (6), found %d", n))
	}
}

// checkSharedRandSource (C06.R14): PickHost runs in one goroutine per accepted connection. The top-level functions of
// math/rand lock their source; a *rand.Rand does not - concurrent Int() calls corrupt the source's indices and it then
// panics inside PickHost, in a connection goroutine nobody recovers: the process dies and no member of the candidate
// list is selected for anybody.
func checkSharedRandSource(c *Ctx, rule string) {
	p := c.P
	n := 0
	for _, rel := range []string{"proc/internal/lb", "host", "proc/tcp", "proc/redis", "proc"} {
		var le *lockEngine
		for _, fn := range p.FuncsIn(rel) {
			if p.isTestFn(fn) {
				continue
			}
			eachInstr(fn, func(_ *ssa.BasicBlock, _ int, in ssa.Instruction) {
				cc := callOf(in)
				if cc == nil {
					return
				}
				g := calleeFn(cc)
				if g == nil || g.Signature.Recv() == nil || types.TypeString(g.Signature.Recv().Type(), nil) != "*math/rand.Rand" || len(cc.Args) == 0 {
					return
				}
				shared := derives(cc.Args[0], func(v ssa.Value) bool {
					if u, ok := v.(*ssa.UnOp); ok && u.Op == token.MUL {
						if _, isG := u.X.(*ssa.Global); isG {
							return true
						}
						if _, isFA := u.X.(*ssa.FieldAddr); isFA {
							return true
						}
					}
					return false
				})
				if !shared {
					return
				}
				n++
				if le == nil {
					le = newLockEngine(p, rel)
				}
				site := fmt.Sprintf("%s uses a shared *rand.Rand#%d under a lock", fnKey(fn), n)
				c.Check(len(le.before[in]) > 0, rule, site, in.Pos(), "a mutex is held", "a *rand.Rand kept in a package-level variable or field is used by concurrent goroutines without a lock: rand.Rand is not goroutine-safe - overlapping calls corrupt the source's state and it panics (index out of range) inside PickHost, in a connection goroutine that nobody recovers: the process dies")
			})
		}
	}
	if n == 0 {
		c.OK(rule, "no shared *rand.Rand", token.NoPos, "only the locked top-level functions of math/rand are used")
	}
}
